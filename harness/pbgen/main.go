// pbgen: offline replacement for `protoc --go_out --connect-go_out` for the
// small proto3 subset used by reduction's own .proto files.
package main

import (
	"bytes"
	"fmt"
	"os"
	"os/exec"
	"path/filepath"
	"strings"
	"unicode"

	"google.golang.org/protobuf/cmd/protoc-gen-go/internal_gengo"
	"google.golang.org/protobuf/compiler/protogen"
	"google.golang.org/protobuf/proto"
	"google.golang.org/protobuf/reflect/protodesc"
	"google.golang.org/protobuf/reflect/protoreflect"
	"google.golang.org/protobuf/reflect/protoregistry"
	"google.golang.org/protobuf/types/descriptorpb"
	"google.golang.org/protobuf/types/pluginpb"

	_ "google.golang.org/protobuf/types/known/timestamppb"
	_ "reduction.dev/reduction-protocol/handlerpb"
	_ "reduction.dev/reduction-protocol/jobconfigpb"
)

type tok struct{ s string }

func lex(src string) []string {
	var toks []string
	i := 0
	for i < len(src) {
		c := src[i]
		switch {
		case c == '/' && i+1 < len(src) && src[i+1] == '/':
			for i < len(src) && src[i] != '\n' {
				i++
			}
		case c == '/' && i+1 < len(src) && src[i+1] == '*':
			j := strings.Index(src[i+2:], "*/")
			i += j + 4
		case unicode.IsSpace(rune(c)):
			i++
		case c == '"':
			j := i + 1
			for src[j] != '"' {
				j++
			}
			toks = append(toks, src[i:j+1])
			i = j + 1
		case unicode.IsLetter(rune(c)) || c == '_' || unicode.IsDigit(rune(c)) || c == '.':
			j := i
			for j < len(src) && (unicode.IsLetter(rune(src[j])) || src[j] == '_' || unicode.IsDigit(rune(src[j])) || src[j] == '.') {
				j++
			}
			toks = append(toks, src[i:j])
			i = j
		default:
			toks = append(toks, string(c))
			i++
		}
	}
	return toks
}

var scalars = map[string]descriptorpb.FieldDescriptorProto_Type{
	"string": descriptorpb.FieldDescriptorProto_TYPE_STRING, "bytes": descriptorpb.FieldDescriptorProto_TYPE_BYTES,
	"bool": descriptorpb.FieldDescriptorProto_TYPE_BOOL, "int32": descriptorpb.FieldDescriptorProto_TYPE_INT32,
	"int64": descriptorpb.FieldDescriptorProto_TYPE_INT64, "uint32": descriptorpb.FieldDescriptorProto_TYPE_UINT32,
	"uint64": descriptorpb.FieldDescriptorProto_TYPE_UINT64, "double": descriptorpb.FieldDescriptorProto_TYPE_DOUBLE,
	"float": descriptorpb.FieldDescriptorProto_TYPE_FLOAT,
}

type parser struct {
	t []string
	p int
}

func (p *parser) next() string { s := p.t[p.p]; p.p++; return s }
func (p *parser) peek() string { return p.t[p.p] }
func (p *parser) expect(s string) {
	if g := p.next(); g != s {
		panic(fmt.Sprintf("expected %q got %q at %d", s, g, p.p))
	}
}
func unq(s string) string { return strings.Trim(s, `"`) }

func parseFile(name, src string) *descriptorpb.FileDescriptorProto {
	p := &parser{t: lex(src)}
	fd := &descriptorpb.FileDescriptorProto{Name: proto.String(name), Options: &descriptorpb.FileOptions{}}
	for p.p < len(p.t) {
		switch kw := p.next(); kw {
		case "syntax":
			p.expect("=")
			fd.Syntax = proto.String(unq(p.next()))
			p.expect(";")
		case "import":
			fd.Dependency = append(fd.Dependency, unq(p.next()))
			p.expect(";")
		case "package":
			fd.Package = proto.String(p.next())
			p.expect(";")
		case "option":
			k := p.next()
			p.expect("=")
			v := unq(p.next())
			p.expect(";")
			if k == "go_package" {
				fd.Options.GoPackage = proto.String(v)
			}
		case "message":
			fd.MessageType = append(fd.MessageType, p.parseMessage())
		case "service":
			fd.Service = append(fd.Service, p.parseService())
		default:
			panic("unexpected top-level token " + kw)
		}
	}
	return fd
}

func (p *parser) parseField(m *descriptorpb.DescriptorProto, oneof *int32) {
	label := descriptorpb.FieldDescriptorProto_LABEL_OPTIONAL
	typ := p.next()
	if typ == "repeated" {
		label = descriptorpb.FieldDescriptorProto_LABEL_REPEATED
		typ = p.next()
	}
	fname := p.next()
	p.expect("=")
	var num int32
	fmt.Sscanf(p.next(), "%d", &num)
	p.expect(";")
	f := &descriptorpb.FieldDescriptorProto{Name: proto.String(fname), Number: proto.Int32(num), Label: label.Enum(), OneofIndex: oneof}
	if st, ok := scalars[typ]; ok {
		f.Type = st.Enum()
	} else {
		f.Type = descriptorpb.FieldDescriptorProto_TYPE_MESSAGE.Enum()
		f.TypeName = proto.String(typ) // resolved later
	}
	m.Field = append(m.Field, f)
}

func (p *parser) parseMessage() *descriptorpb.DescriptorProto {
	m := &descriptorpb.DescriptorProto{Name: proto.String(p.next())}
	p.expect("{")
	for p.peek() != "}" {
		if p.peek() == "oneof" {
			p.next()
			idx := int32(len(m.OneofDecl))
			m.OneofDecl = append(m.OneofDecl, &descriptorpb.OneofDescriptorProto{Name: proto.String(p.next())})
			p.expect("{")
			for p.peek() != "}" {
				p.parseField(m, &idx)
			}
			p.expect("}")
			continue
		}
		p.parseField(m, nil)
	}
	p.expect("}")
	return m
}

func (p *parser) parseService() *descriptorpb.ServiceDescriptorProto {
	s := &descriptorpb.ServiceDescriptorProto{Name: proto.String(p.next())}
	p.expect("{")
	for p.peek() != "}" {
		p.expect("rpc")
		name := p.next()
		p.expect("(")
		in := p.next()
		p.expect(")")
		p.expect("returns")
		p.expect("(")
		out := p.next()
		p.expect(")")
		p.expect(";")
		s.Method = append(s.Method, &descriptorpb.MethodDescriptorProto{Name: proto.String(name), InputType: proto.String(in), OutputType: proto.String(out)})
	}
	p.expect("}")
	return s
}

// resolve type names: local package first, otherwise treat as fully qualified.
func resolve(fd *descriptorpb.FileDescriptorProto) {
	local := map[string]bool{}
	for _, m := range fd.MessageType {
		local[m.GetName()] = true
	}
	fix := func(n string) string {
		if local[n] {
			return "." + fd.GetPackage() + "." + n
		}
		return "." + n
	}
	for _, m := range fd.MessageType {
		for _, f := range m.Field {
			if f.TypeName != nil {
				f.TypeName = proto.String(fix(f.GetTypeName()))
			}
		}
	}
	for _, s := range fd.Service {
		for _, m := range s.Method {
			m.InputType = proto.String(fix(m.GetInputType()))
			m.OutputType = proto.String(fix(m.GetOutputType()))
		}
	}
}

func main() {
	repo, out := os.Args[1], os.Args[2]
	files := []string{
		"proto/snapshotpb/snapshot.proto", "proto/jobpb/job.proto", "proto/workerpb/worker.proto", "proto/e2epb/e2e.proto",
		"connectors/kafka/kafkapb/kafka.proto", "connectors/kinesis/kinesispb/kinesis.proto",
	}
	req := &pluginpb.CodeGeneratorRequest{Parameter: proto.String("paths=source_relative")}
	seen := map[string]bool{}
	var addDep func(name string)
	addDep = func(name string) {
		if seen[name] {
			return
		}
		d, err := protoregistry.GlobalFiles.FindFileByPath(name)
		if err != nil {
			panic(fmt.Sprintf("dependency %s not registered: %v", name, err))
		}
		imps := d.Imports()
		for i := 0; i < imps.Len(); i++ {
			addDep(imps.Get(i).Path())
		}
		seen[name] = true
		req.ProtoFile = append(req.ProtoFile, protodesc.ToFileDescriptorProto(d))
	}
	var fds []*descriptorpb.FileDescriptorProto
	own := map[string]bool{}
	for _, f := range files {
		own[f] = true
	}
	for _, f := range files {
		src, err := os.ReadFile(filepath.Join(repo, f))
		if err != nil {
			panic(err)
		}
		fd := parseFile(f, string(src))
		resolve(fd)
		for _, dep := range fd.Dependency {
			if !own[dep] {
				addDep(dep)
			}
		}
		fds = append(fds, fd)
	}
	for _, fd := range fds {
		req.ProtoFile = append(req.ProtoFile, fd)
		req.FileToGenerate = append(req.FileToGenerate, fd.GetName())
	}
	// validate descriptors
	if _, err := protodesc.NewFiles(&descriptorpb.FileDescriptorSet{File: req.ProtoFile}); err != nil {
		panic(fmt.Sprintf("descriptor validation: %v", err))
	}
	_ = protoreflect.FullName("")

	write := func(resp *pluginpb.CodeGeneratorResponse) {
		if resp.Error != nil {
			panic(*resp.Error)
		}
		for _, f := range resp.File {
			dst := filepath.Join(out, f.GetName())
			os.MkdirAll(filepath.Dir(dst), 0o755)
			if err := os.WriteFile(dst, []byte(f.GetContent()), 0o644); err != nil {
				panic(err)
			}
			fmt.Println("wrote", dst)
		}
	}
	// 1. protoc-gen-go in-process
	gen, err := protogen.Options{}.New(req)
	if err != nil {
		panic(err)
	}
	for _, f := range gen.Files {
		if f.Generate {
			internal_gengo.GenerateFile(gen, f)
		}
	}
	write(gen.Response())
	// 2. protoc-gen-connect-go as a subprocess (package main; built from module cache)
	if len(os.Args) > 3 {
		data, _ := proto.Marshal(req)
		cmd := exec.Command(os.Args[3])
		cmd.Stdin = bytes.NewReader(data)
		var so bytes.Buffer
		cmd.Stdout = &so
		cmd.Stderr = os.Stderr
		if err := cmd.Run(); err != nil {
			panic(err)
		}
		resp := &pluginpb.CodeGeneratorResponse{}
		if err := proto.Unmarshal(so.Bytes(), resp); err != nil {
			panic(err)
		}
		write(resp)
	}
}
