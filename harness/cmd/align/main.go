// align binds spec/Align.tla to the real workers/operator.Operator (C02).
//
// Replay mode (default): every behaviour of Align.tla is a schedule over the
// sender goroutines (one per source runner, each issuing HandleEvent calls in
// script order), the operator's event loop and the batch timer. The schedule
// is forced onto the real operator through gates: hook operator.align.pass
// (a sender passed alignment and is about to enqueue), hook
// operator.align.park (notification: a sender blocks on the open checkpoint),
// the harness-owned job (OperatorCheckpointComplete is a gate) and the
// harness-owned batch timer. After every loop step the handler calls made by
// the real operator are compared with the model's prediction (mismatch =
// drift) and judged against what the property allows (violation).
//
// Trace mode (config Mode = "trace"): seeded random scripts, free-running
// goroutines with seeded jitter at every hook / adapter; every API call,
// hook, handler call and acknowledgement is recorded as one ndjson event for
// validation by spec/AlignTrace.tla.
//
// In both modes the verdict only uses observations of the real code:
//
//	V1  the handler received an event that its runner delivered after barrier
//	    N while OperatorCheckpointComplete(N) had not been called yet; or the
//	    operator processed a watermark delivered after barrier N while N was
//	    open (its HandleEvent call returned before the acknowledgement) AND
//	    the handler saw, while N was open, a watermark / timer expiry beyond
//	    the minimum of the watermarks delivered before the open barriers (the
//	    second condition alone is not judged here: how upstream watermarks are
//	    combined is property C11's);
//	V2  the content of checkpoint N (read back by deploying a fresh operator
//	    from the OperatorCheckpoint reported to the job and probing every
//	    event key and every pending timer through the handler) differs from
//	    the union of the events each runner delivered before its barrier N.
package main

import (
	"context"
	"fmt"
	"io"
	"log/slog"
	"math/rand"
	"os"
	"reflect"
	"sort"
	"sync"
	"sync/atomic"
	"time"

	"reduction.dev/reduction/proto/snapshotpb"
	"reduction.dev/reduction/proto/workerpb"
	"reduction.dev/reduction/util/verifhook"
	"verif/harness/gate"
	"verif/harness/mbt"
	"verif/harness/opkit"
)

const (
	wait = 1500 * time.Millisecond
	// total time that may be spent in expired waits before the run is cut short
	// (a tree that deadlocks under the model's schedules would otherwise cost
	// several seconds per behaviour)
	expiredBudget = 25 * time.Second
	ptPark        = "operator.align.park"
	ptPass        = "operator.align.pass"
	ptAck         = "job.ack"
	ptCall        = "handler.call"
	infIdx        = 99
	propID        = "C02"
	maxNote       = 300
)

type item struct {
	K string // "e" event, "w" watermark, "b" barrier
	V int    // watermark value / barrier id
}

// callObs is a handler call plus what the property allowed at that moment.
type callObs struct {
	Call     *opkit.Call
	AcksAt   int   // OperatorCheckpointComplete calls observed before
	AllowIdx []int // per sender: last script index that may be applied
	AllowWm  int   // largest watermark the operator may act on
	Open     []int // barrier ids delivered by some runner and not acknowledged
	Doomed   bool  // a handler call or a checkpoint report had failed before: the operator will never report again
}

// obs collects everything observed, in real-time order.
type obs struct {
	mu      sync.Mutex
	ns      int
	started [][]item // per sender: items whose HandleEvent call has started
	acks    []uint64
	calls   []callObs
	earlyW  map[int]bool // barrier ids that were open when the call of a watermark delivered after them returned
	doomed  bool         // a handler call or a checkpoint report failed (fault arm)
	trace   []any
	rng     *rand.Rand // jitter (trace mode), nil otherwise
	jitter  int
}

func (o *obs) sleep() {
	if o.rng == nil {
		return
	}
	o.mu.Lock()
	d := o.rng.Intn(o.jitter)
	o.mu.Unlock()
	if d > 0 {
		time.Sleep(time.Duration(d) * time.Microsecond)
	}
}

func barrierPos(sc []item, n int) int {
	for i, it := range sc {
		if it.K == "b" && it.V == n {
			return i + 1
		}
	}
	return 0
}

// firstOpenBarrier: position of the first barrier in sc whose checkpoint has
// not been acknowledged (0 if none).
func firstOpenBarrier(sc []item, acked map[int]bool) int {
	for i, it := range sc {
		if it.K == "b" && !acked[it.V] {
			return i + 1
		}
	}
	return 0
}

func countW(sc []item, upto int) int { // watermarks at positions <= upto
	c := 0
	for i := 0; i < upto && i < len(sc); i++ {
		if sc[i].K == "w" {
			c++
		}
	}
	return c
}

// openLocked: ids of the barriers in sc (nil: in any started script) whose
// checkpoint has not been acknowledged.
func (o *obs) openLocked(sc []item) []int {
	acked := map[int]bool{}
	for _, n := range o.acks {
		acked[int(n)] = true
	}
	seen := map[int]bool{}
	var out []int
	scs := o.started
	if sc != nil {
		scs = [][]item{sc}
	}
	for _, s := range scs {
		for _, it := range s {
			if it.K == "b" && !acked[it.V] && !seen[it.V] {
				seen[it.V] = true
				out = append(out, it.V)
			}
		}
	}
	sort.Ints(out)
	return out
}

// allowLocked: what the property allows to be applied now (mirror of Allow in Align.tla).
func (o *obs) allowLocked() ([]int, int) {
	idx := make([]int, o.ns)
	wm := -1
	acked := map[int]bool{}
	for _, n := range o.acks {
		acked[int(n)] = true
	}
	for s := 0; s < o.ns; s++ {
		p := firstOpenBarrier(o.started[s], acked)
		lim := infIdx
		if p > 0 {
			lim = p - 1
		}
		idx[s] = lim
		if w := countW(o.started[s], lim); wm < 0 || w < wm {
			wm = w
		}
	}
	return idx, wm
}

type sender struct {
	id   int
	name string
	cmd  chan item
	ret  chan error
	sent int // items handed to the goroutine
	got  int // returns consumed
}

type run struct {
	ns, maxSize int
	useTimer    bool
	dir         string
	s           *gate.Sched
	op          *opkit.Op
	o           *obs
	snd         []*sender
	ctx         context.Context
	cancel      context.CancelFunc
	passArr     map[int]*gate.Arrival
	ackArr      *gate.Arrival
	held        map[int]func()
	seenCalls   int
	holdHandler atomic.Bool // the next handler call parks at ptCall

	// fault arm
	sctx      []context.Context // per sender: the context of its request (all its HandleEvent calls)
	scancel   []context.CancelFunc
	failNext  atomic.Bool // the next handler invocation returns an error
	honourCtx bool        // the handler fails when the context of its call is done (as the connect clients do)
	stopped   bool        // Start returned: the operator shut itself down
	faults    bool        // behaviour of the fault arm (epilogue after a divergence)
	k         int         // barriers per sender (epilogue)
	plan      *faultPlan  // trace mode
	planMu    sync.Mutex
	seq       int         // run number (sender ids)
	ended     atomic.Bool // the run is over: its senders start nothing more
}

// faultPlan: faults of one free-running (trace mode) run, chosen by the seeded
// generator; each is bound to a point of the run rather than to wall time.
type faultPlan struct {
	cancelSr      int // sender whose request context is cancelled (0: none)
	cancelOnPark  int // ... right after its n-th park on alignment (0: not by this rule)
	cancelAtStart int // ... just before it starts its item #n (0: not by this rule)
	cancelAtLen   int // ... when the recorded trace reaches this length (0: not by this rule)
	failCall      int // the n-th handler invocation fails (0: none)
	failTimerCall bool // the first handler invocation made by a batch time-out flush fails
	parks         int
	hcalls        int
	done          bool
}

type senderKey struct{}

var errInjected = fmt.Errorf("handler unavailable (injected)")

func (r *run) cancelSender(sr int) {
	r.o.mu.Lock()
	r.o.trace = append(r.o.trace, map[string]any{"op": "Cancel", "sr": sr})
	r.o.mu.Unlock()
	r.scancel[sr-1]()
}

// noteStopped records that the operator shut itself down if it did (waiting up to d).
func (r *run) noteStopped(d time.Duration) bool {
	if !r.stopped && r.op.WaitStopped(d) {
		r.stopped = true
	}
	return r.stopped
}

// sender ids are unique per run: a caller of an earlier run that is still
// alive (the fault arm leaves callers parked for ever) can then never be
// mistaken for a sender of the current run by the process-wide hook
var runSeq int

func (r *run) srName(sr int) string { return fmt.Sprintf("r%d-sr%d", r.seq, sr) }

func newRun(ns, maxSize int, useTimer, gated bool, rng *rand.Rand, jitter int) (*run, error) {
	r := &run{ns: ns, maxSize: maxSize, useTimer: useTimer, passArr: map[int]*gate.Arrival{}, held: map[int]func(){}}
	r.o = &obs{ns: ns, started: make([][]item, ns), rng: rng, jitter: jitter, earlyW: map[int]bool{}}
	if gated {
		r.s = gate.New(ptPass, ptAck, ptCall)
	} else {
		r.s = gate.New()
	}
	dir, err := opkit.TempDir("verif-align-")
	if err != nil {
		return nil, err
	}
	r.dir = dir
	r.ctx, r.cancel = context.WithCancel(context.Background())
	for i := 0; i < ns; i++ {
		c, cf := context.WithCancel(context.WithValue(r.ctx, senderKey{}, i+1))
		r.sctx, r.scancel = append(r.sctx, c), append(r.scancel, cf)
	}
	runSeq++
	r.seq = runSeq
	names := map[string]int{}
	ids := make([]string, ns)
	for i := range ids {
		ids[i] = r.srName(i + 1)
		names[ids[i]] = i + 1
	}
	verifhook.Install(func(point string, args ...any) {
		if len(args) == 0 || r.ended.Load() {
			return
		}
		if name, ok := args[0].(string); !ok || names[name] == 0 {
			return // not a sender of this run
		}
		switch point {
		case ptPark:
			r.o.mu.Lock()
			r.o.trace = append(r.o.trace, map[string]any{"op": "Park", "sr": names[args[0].(string)], "n": args[1]})
			r.o.mu.Unlock()
			if p := r.plan; p != nil && p.cancelSr == names[args[0].(string)] && p.cancelOnPark > 0 {
				r.planMu.Lock()
				p.parks++
				hit := p.parks == p.cancelOnPark && !p.done
				p.done = p.done || hit
				r.planMu.Unlock()
				if hit {
					go func(sr int) { r.o.sleep(); r.cancelSender(sr) }(p.cancelSr)
				}
			}
		case ptPass:
			sr := names[args[0].(string)]
			r.o.mu.Lock()
			r.o.trace = append(r.o.trace, map[string]any{"op": "Pass", "sr": sr})
			r.o.mu.Unlock()
		default:
			return
		}
		r.o.sleep()
		r.s.At(point, args...)
	}, nil)
	h := &opkit.RefHandler{Decide: func(ctx context.Context, c *opkit.Call) error {
		if r.ended.Load() {
			return errRunOver
		}
		if p := r.plan; p != nil {
			r.planMu.Lock()
			p.hcalls++
			hit := p.hcalls == p.failCall
			if p.failTimerCall && ctx.Value(senderKey{}) == nil {
				hit, p.failTimerCall = true, false
			}
			r.planMu.Unlock()
			if hit {
				return errInjected
			}
		}
		if r.failNext.CompareAndSwap(true, false) {
			return errInjected
		}
		if r.honourCtx && ctx.Err() != nil {
			return ctx.Err()
		}
		return nil
	}, OnCall: func(c *opkit.Call) {
		r.o.mu.Lock()
		idx, wm := r.o.allowLocked()
		r.o.calls = append(r.o.calls, callObs{Call: c, AcksAt: len(r.o.acks), AllowIdx: idx, AllowWm: wm, Open: r.o.openLocked(nil), Doomed: r.o.doomed})
		items := c.Items
		if items == nil {
			items = []opkit.Unit{}
		}
		r.o.trace = append(r.o.trace, map[string]any{"op": "Call", "items": items, "w": c.W, "fail": c.Fail})
		if c.Fail {
			r.o.doomed = true
		}
		r.o.mu.Unlock()
		r.o.sleep()
		if r.holdHandler.CompareAndSwap(true, false) {
			r.s.At(ptCall)
		}
	}}
	// the job client honours the context of the report: a report made with a
	// cancelled context never reaches the job
	j := &opkit.JobRec{Check: func(ctx context.Context, ck *snapshotpb.OperatorCheckpoint) error {
		r.o.sleep()
		r.s.At(ptAck, ck.CheckpointId)
		if r.ended.Load() {
			return errRunOver
		}
		if err := ctx.Err(); err != nil {
			r.o.mu.Lock()
			r.o.doomed = true
			r.o.trace = append(r.o.trace, map[string]any{"op": "AckFail", "n": ck.CheckpointId})
			r.o.mu.Unlock()
			return err
		}
		return nil
	}, OnAck: func(ck *snapshotpb.OperatorCheckpoint) {
		r.o.mu.Lock()
		r.o.acks = append(r.o.acks, ck.CheckpointId)
		r.o.trace = append(r.o.trace, map[string]any{"op": "Ack", "n": ck.CheckpointId})
		r.o.mu.Unlock()
		r.o.sleep()
	}}
	r.op, err = opkit.StartOp(opkit.Params{ID: "op1", Dir: dir, SrIDs: ids, MaxSize: maxSize, UseTimer: useTimer, Handler: h, Job: j})
	if err != nil {
		return nil, err
	}
	for i := 0; i < ns; i++ {
		sd := &sender{id: i + 1, name: ids[i], cmd: make(chan item, 64), ret: make(chan error, 64)}
		r.snd = append(r.snd, sd)
		go r.senderLoop(sd)
	}
	return r, nil
}

func toEvent(sr, idx int, it item) *workerpb.Event {
	switch it.K {
	case "e":
		return opkit.KeyedEvent(sr, idx)
	case "w":
		return opkit.Watermark(int64(it.V))
	default:
		return opkit.Barrier(uint64(it.V))
	}
}

func (r *run) senderLoop(sd *sender) {
	dead := false
	for it := range sd.cmd {
		if r.ended.Load() {
			return
		}
		if dead { // a runner whose call failed sends nothing more
			sd.ret <- errDead
			continue
		}
		r.o.sleep()
		if p := r.plan; p != nil && p.cancelSr == sd.id && p.cancelAtStart > 0 {
			r.o.mu.Lock()
			next := len(r.o.started[sd.id-1]) + 1
			r.o.mu.Unlock()
			r.planMu.Lock()
			hit := next == p.cancelAtStart && !p.done
			p.done = p.done || hit
			r.planMu.Unlock()
			if hit {
				r.cancelSender(sd.id)
			}
		}
		r.o.mu.Lock()
		r.o.started[sd.id-1] = append(r.o.started[sd.id-1], it)
		idx := len(r.o.started[sd.id-1])
		r.o.trace = append(r.o.trace, map[string]any{"op": "Start", "sr": sd.id, "k": it.K, "v": it.V, "idx": idx})
		r.o.mu.Unlock()
		err := r.op.Send(r.sctx[sd.id-1], sd.name, toEvent(sd.id, idx, it))
		r.o.mu.Lock()
		r.o.trace = append(r.o.trace, map[string]any{"op": "Ret", "sr": sd.id, "err": err != nil})
		if it.K == "w" && err == nil && !r.o.doomed {
			// the operator processed this watermark: was a barrier its runner delivered before it still open?
			for _, n := range r.o.openLocked(r.o.started[sd.id-1][:idx]) {
				r.o.earlyW[n] = true
			}
		}
		r.o.mu.Unlock()
		dead = err != nil
		sd.ret <- err
	}
}

func (r *run) send(sr int, it item) {
	sd := r.snd[sr-1]
	sd.sent++
	sd.cmd <- it
}

func (r *run) awaitRet(sr int, d time.Duration) (error, bool) {
	sd := r.snd[sr-1]
	select {
	case err := <-sd.ret:
		sd.got++
		return err, true
	case <-time.After(d):
		expired += d
		return nil, false
	}
}

func (r *run) close() {
	r.ended.Store(true)
	verifhook.Install(nil, nil)
	r.s.FreeRun()
	r.op.Stop()
	r.cancel()
	for _, sd := range r.snd {
		if sd.sent == sd.got {
			close(sd.cmd)
		}
	}
	os.RemoveAll(r.dir)
}

var errDead = fmt.Errorf("runner stopped after an error")

var expired time.Duration // time spent in waits that expired

type drift struct{ msg string }

func (d *drift) Error() string { return d.msg }
func driftf(f string, a ...any) error {
	return &drift{fmt.Sprintf(f, a...)}
}

func (r *run) awaitSr(sr int, points ...string) (a *gate.Arrival, err error) {
	name := r.srName(sr)
	defer func() {
		if err != nil {
			expired += wait
		}
	}()
	return r.s.Await(func(a *gate.Arrival) bool {
		if len(a.Args) == 0 || a.Args[0] != any(name) {
			return false
		}
		for _, p := range points {
			if a.Point == p {
				return true
			}
		}
		return false
	}, wait)
}

func unitsOf(l []any) []opkit.Unit {
	out := []opkit.Unit{}
	for _, x := range l {
		m := mbt.Step(x.(map[string]any))
		out = append(out, opkit.Unit{T: m.Str("t"), Sr: m.Int("sr"), Idx: m.Int("idx"), Tm: m.Int("T")})
	}
	return out
}

// compareCalls checks the handler calls made since the last step against the
// model's prediction (drift on mismatch) and the model's Allow against ours.
func (r *run) compareCalls(st mbt.Step) error {
	want := st.List("calls")
	r.o.mu.Lock()
	got := append([]callObs(nil), r.o.calls[r.seenCalls:]...)
	r.seenCalls = len(r.o.calls)
	r.o.mu.Unlock()
	if len(got) != len(want) {
		return driftf("%d handler calls, model predicted %d", len(got), len(want))
	}
	al := st.Map("allow")
	for i, c := range got {
		w := mbt.Step(want[i].(map[string]any))
		wu := unitsOf(w.List("items"))
		gu := c.Call.Items
		if gu == nil {
			gu = []opkit.Unit{}
		}
		if !reflect.DeepEqual(gu, wu) || c.Call.W != w.Int("w") || c.Call.Fail != w.Bool("fail") {
			return driftf("handler call %v w=%d fail=%v, model predicted %v w=%d fail=%v", gu, c.Call.W, c.Call.Fail, wu, w.Int("w"), w.Bool("fail"))
		}
		if al != nil {
			a := mbt.Step(al)
			if c.Doomed != a.Bool("doomed") {
				return fmt.Errorf("harness and model disagree on whether a failure was handed out before this handler call: %v vs %v", c.Doomed, a.Bool("doomed"))
			}
			if !reflect.DeepEqual(c.AllowIdx, a.Ints("idx")) || c.AllowWm != a.Int("wm") {
				return fmt.Errorf("harness and model disagree on what the property allows: %v/%d vs %v/%d", c.AllowIdx, c.AllowWm, a.Ints("idx"), a.Int("wm"))
			}
		}
	}
	return nil
}

// waitCalls waits until n handler calls beyond the ones already compared were made.
func (r *run) waitCalls(n int) bool {
	dl := time.Now().Add(wait)
	for {
		r.o.mu.Lock()
		have := len(r.o.calls) - r.seenCalls
		r.o.mu.Unlock()
		if have >= n {
			return true
		}
		if time.Now().After(dl) {
			return false
		}
		time.Sleep(50 * time.Microsecond)
	}
}

// step executes one model action in lockstep.
func (r *run) step(st mbt.Step) error {
	sr := st.Int("sr")
	switch st.Str("a") {
	case "AlignCheck":
		r.send(sr, item{K: st.Str("k"), V: st.Int("v")})
		a, err := r.awaitSr(sr, ptPark, ptPass)
		if err != nil {
			return driftf("AlignCheck(%d): sender reached neither park nor pass: %v", sr, err)
		}
		if a.Point == ptPass {
			r.passArr[sr] = a
		}
		if st.Bool("park") && a.Point == ptPass {
			// let exactly this call run to its end while everything else is
			// still held, so that what follows does not depend on the Go scheduler
			delete(r.passArr, sr)
			a.Release()
			r.awaitRet(sr, time.Second)
			return driftf("AlignCheck(%d): model parks the sender (checkpoint %d open), the operator let it pass", sr, st.Int("wf"))
		}
		if !st.Bool("park") && a.Point == ptPark {
			return driftf("AlignCheck(%d): operator parks the sender, model lets it pass", sr)
		}
		if st.Bool("park") && fmt.Sprint(a.Args[1]) != fmt.Sprint(st.Int("wf")) {
			return driftf("AlignCheck(%d): parked on checkpoint %v, model says %d", sr, a.Args[1], st.Int("wf"))
		}
	case "Unpark":
		if st.Bool("dev") {
			// deviation witness: the model (Dev_CtxAwareWait) lets a cancelled
			// caller through although its checkpoint still lacks barriers. A
			// quiet period is enough to conclude that the real caller stays parked.
			name := r.srName(sr)
			a, err := r.s.Await(func(a *gate.Arrival) bool { return a.Point == ptPass && len(a.Args) > 0 && a.Args[0] == any(name) }, 120*time.Millisecond)
			if err != nil {
				return driftf("Unpark(%d): the cancelled caller stays parked (the deviation lets it through)", sr)
			}
			r.passArr[sr] = a
			return nil
		}
		a, rerr, returned := r.awaitPassOrRet(sr)
		if returned {
			return driftf("Unpark(%d): the parked call returned (%v) instead of passing alignment", sr, rerr)
		}
		if a == nil {
			expired += wait
			return driftf("Unpark(%d): parked sender was not woken", sr)
		}
		r.passArr[sr] = a
	case "CancelCaller":
		r.cancelSender(sr)
	case "ArmHandlerFail":
		r.failNext.Store(true)
	case "Enqueue":
		a := r.passArr[sr]
		if a == nil {
			return driftf("Enqueue(%d): sender not at the pass gate", sr)
		}
		delete(r.passArr, sr)
		a.Release()
	case "LoopEvent", "LoopWatermark", "LoopBarrier":
		wantErr := st.Bool("err") || st.Bool("mismatch")
		if st.Str("a") == "LoopBarrier" && st.Bool("last") && !wantErr {
			a, rerr, returned := r.awaitAckOrRet(sr)
			if returned {
				if cerr := r.compareCalls(st); cerr != nil {
					return cerr
				}
				return driftf("LoopBarrier(%d, last): the barrier call returned (%v) without reporting checkpoint %d", sr, rerr, st.Int("n"))
			}
			if a == nil {
				expired += wait
				return driftf("LoopBarrier(%d, last): no OperatorCheckpointComplete", sr)
			}
			r.ackArr = a
			if fmt.Sprint(a.Args[0]) != fmt.Sprint(st.Int("n")) {
				return driftf("LoopBarrier(%d): acknowledged checkpoint %v, model says %d", sr, a.Args[0], st.Int("n"))
			}
		} else {
			err, ok := r.awaitRet(sr, wait)
			if !ok {
				return driftf("%s(%d): HandleEvent did not return", st.Str("a"), sr)
			}
			if err != nil && !wantErr {
				return driftf("%s(%d): HandleEvent returned %v", st.Str("a"), sr, err)
			}
			if err == nil && st.Bool("mismatch") {
				return driftf("LoopBarrier(%d): the operator accepted barrier %d although another checkpoint is open (model: checkpoint ID mismatch)", sr, st.Int("n"))
			}
			if err == nil && wantErr {
				if cerr := r.compareCalls(st); cerr != nil {
					return cerr
				}
				return driftf("%s(%d): HandleEvent returned nil although the handler call of its flush failed", st.Str("a"), sr)
			}
		}
		return r.compareCalls(st)
	case "CompleteCheckpoint":
		if r.ackArr == nil {
			return driftf("CompleteCheckpoint: loop not at the job gate")
		}
		r.ackArr.Release()
		r.ackArr = nil
		err, ok := r.awaitRet(sr, wait)
		if !ok {
			return driftf("CompleteCheckpoint: barrier call of sender %d did not return", sr)
		}
		if st.Bool("err") && err == nil {
			return driftf("CompleteCheckpoint: the report of checkpoint %d went through although the context of the barrier call is cancelled", st.Int("n"))
		}
		if !st.Bool("err") && err != nil {
			return driftf("CompleteCheckpoint: barrier call of sender %d did not return cleanly (%v)", sr, err)
		}
	case "TimerFire":
		d := r.op.Tm.Take()
		if d == nil {
			return driftf("TimerFire: batch timer not armed")
		}
		r.held[st.Int("tok")] = d
	case "LoopBatchTimeout":
		d := r.held[st.Int("tok")]
		if d == nil {
			return driftf("LoopBatchTimeout: no expired timer with token %d", st.Int("tok"))
		}
		delete(r.held, st.Int("tok"))
		done := make(chan struct{})
		go func() { d(); close(done) }()
		select {
		case <-done:
		case <-time.After(wait):
			return driftf("LoopBatchTimeout: loop did not receive the token")
		}
		if n := len(st.List("calls")); n > 0 {
			if !r.waitCalls(n) {
				return driftf("LoopBatchTimeout: the time-out did not flush the batch to the handler")
			}
		} else {
			// the loop received the token; give processEventBatch (a no-op
			// Flush with a stale token) a moment before we look at the log
			time.Sleep(200 * time.Microsecond)
		}
		if err := r.compareCalls(st); err != nil {
			return err
		}
		failed := false
		for _, c := range st.List("calls") {
			failed = failed || mbt.Step(c.(map[string]any)).Bool("fail")
		}
		if st.Bool("stop") {
			if !r.noteStopped(600 * time.Millisecond) {
				return driftf("LoopBatchTimeout: the operator did not stop after the handler call of the time-out flush failed")
			}
		} else if failed && r.noteStopped(60*time.Millisecond) {
			// deviation witness (Dev_SwallowFlushError): the real operator is fail-stop here
			return driftf("LoopBatchTimeout: the operator stopped after the failed time-out flush (the deviation carries on)")
		}
		return nil
	default:
		return fmt.Errorf("unknown action %q", st.Str("a"))
	}
	return nil
}

// awaitAckOrRet waits until the event loop arrives at the job gate (last
// barrier: OperatorCheckpointComplete) or the barrier call of sr returns.
func (r *run) awaitAckOrRet(sr int) (a *gate.Arrival, rerr error, returned bool) {
	sd := r.snd[sr-1]
	dl := time.Now().Add(wait)
	for time.Now().Before(dl) {
		if a, err := r.s.Await(gate.Point(ptAck), 2*time.Millisecond); err == nil {
			return a, nil, false
		}
		select {
		case e := <-sd.ret:
			sd.got++
			return nil, e, true
		default:
		}
	}
	return nil, nil, false
}

// awaitPassOrRet waits until sender sr arrives at the pass gate or its call returns.
func (r *run) awaitPassOrRet(sr int) (a *gate.Arrival, rerr error, returned bool) {
	sd := r.snd[sr-1]
	name := r.srName(sr)
	dl := time.Now().Add(wait)
	for time.Now().Before(dl) {
		if a, err := r.s.Await(func(a *gate.Arrival) bool { return a.Point == ptPass && len(a.Args) > 0 && a.Args[0] == any(name) }, 2*time.Millisecond); err == nil {
			return a, nil, false
		}
		select {
		case e := <-sd.ret:
			sd.got++
			return nil, e, true
		default:
		}
	}
	return nil, nil, false
}

// holdExperiment (adversarial arm): the next model steps are Enqueue(sr) of the
// last barrier of a checkpoint whose final flush calls the handler. The
// handler call is held - the operator is then between "all barriers
// registered, parked senders woken" and "DKV checkpoint taken" - and every
// woken sender is pushed through the pass gate. Correct code keeps them out
// (the event loop is busy until the checkpoint is acknowledged); code that
// takes the checkpoint off the event loop, or resets the open checkpoint
// early, lets their post-barrier items in before the checkpoint is taken,
// which the judge then sees in the handler log / the checkpoint content.
func (r *run) holdExperiment(sr int, parked []int, res *mbt.Result) error {
	a := r.passArr[sr]
	if a == nil {
		return driftf("Enqueue(%d): sender not at the pass gate", sr)
	}
	delete(r.passArr, sr)
	r.holdHandler.Store(true)
	a.Release()
	h, err := r.s.Await(gate.Point(ptCall), wait)
	if err != nil {
		r.holdHandler.Store(false)
		expired += wait
		return driftf("final flush of the pending batch did not reach the handler: %v", err)
	}
	pushed := 0
	for _, p := range parked {
		name := r.srName(p)
		pa, err := r.s.Await(func(a *gate.Arrival) bool { return a.Point == ptPass && len(a.Args) > 0 && a.Args[0] == any(name) }, 300*time.Millisecond)
		if err != nil {
			continue // not woken yet: nothing to push
		}
		pa.Release()
		pushed++
	}
	time.Sleep(15 * time.Millisecond)
	slipped := 0
	for _, p := range parked {
		select {
		case <-r.snd[p-1].ret:
			r.snd[p-1].got++
			slipped++
		default:
		}
	}
	res.Count("adversarial_holds", 1)
	res.Count("adversarial_pushed", pushed)
	res.Count("adversarial_slipped_in", slipped)
	h.Release()
	return nil
}

// complete lets everything run freely, feeding the not yet sent items of the
// behaviour (rest, per sender in order), and waits for all calls to return.
func (r *run) complete(rest map[int][]item) bool {
	r.s.FreeRun()
	if r.ackArr != nil {
		r.ackArr = nil
	}
	if r.noteStopped(0) {
		return true // the operator shut itself down: calls in flight never return, nothing more can be reported
	}
	for sr, its := range rest {
		for _, it := range its {
			r.send(sr, it)
		}
	}
	for tok, d := range r.held {
		delete(r.held, tok)
		go d()
	}
	failed := make([]bool, r.ns)
	if r.faults {
		// callers legitimately stay parked for ever behind a runner that stopped,
		// or hang on an operator that shut itself down: wait until everything
		// returned or nothing has moved for a quiet period
		defer func(e time.Duration) { expired = e }(expired)
		all := r.settle(failed)
		if !r.noteStopped(0) {
			r.epilogue(failed)
		}
		return all
	}
	dl := time.Now().Add(wait)
	for _, sd := range r.snd {
		for sd.got < sd.sent {
			if _, ok := r.awaitRet(sd.id, time.Until(dl)); !ok {
				return false
			}
		}
	}
	return true
}

const quiet = 60 * time.Millisecond

// settle (fault arm) consumes the returns of the calls in flight until all of
// them returned, the operator shut itself down, or nothing was observed for a
// quiet period (only ever used to conclude that callers are parked).
func (r *run) settle(failed []bool) bool {
	dl := time.Now().Add(wait)
	last, lastChange := -1, time.Now()
	for {
		pendingCalls := false
		for _, sd := range r.snd {
			for sd.got < sd.sent {
				select {
				case err := <-sd.ret:
					sd.got++
					failed[sd.id-1] = failed[sd.id-1] || err != nil
					lastChange = time.Now()
					continue
				default:
				}
				pendingCalls = true
				break
			}
		}
		if !pendingCalls {
			return true
		}
		r.o.mu.Lock()
		n := len(r.o.trace)
		r.o.mu.Unlock()
		if n != last {
			last, lastChange = n, time.Now()
		}
		if time.Since(lastChange) > quiet || time.Now().After(dl) || r.noteStopped(0) {
			return false
		}
		time.Sleep(500 * time.Microsecond)
	}
}

// freeze (fault arm: callers may still be in flight when the run is judged)
// makes the harness-owned adapters refuse from now on: no handler call is
// applied and no report is accepted any more, the senders start nothing new,
// so what the judge snapshots afterwards is final. The operator itself is not
// touched (stopping it would close its database under a closure in flight).
func (r *run) freeze() {
	if r.faults {
		r.ended.Store(true)
	}
}

var errRunOver = fmt.Errorf("harness: the run is over")

// epilogue (fault arm, after the code left the model's schedule): every runner
// that is still alive - all its calls returned nil - goes on as a real runner
// would and delivers its remaining barriers, so that a checkpoint the operator
// is still willing to report is reported (and then judged by its content). A
// call that does not return within a quiet period is taken to be parked.
func (r *run) epilogue(failed []bool) {
	for round := 0; round < r.k; round++ {
		for _, sd := range r.snd {
			if failed[sd.id-1] || sd.got < sd.sent {
				continue
			}
			r.o.mu.Lock()
			last := 0
			for _, it := range r.o.started[sd.id-1] {
				if it.K == "b" {
					last = it.V
				}
			}
			r.o.mu.Unlock()
			if last >= r.k {
				continue
			}
			r.send(sd.id, item{K: "b", V: last + 1})
			if err, ok := r.awaitRet(sd.id, 150*time.Millisecond); ok && err != nil {
				failed[sd.id-1] = true
			}
		}
	}
}

func trunc(s string) string {
	if len(s) > maxNote {
		return s[:maxNote] + "..."
	}
	return s
}

type unitKey struct{ sr, idx int }

// judge applies V1 / V2 to what was observed. predictedCut (may be nil) is the
// model's cut per checkpoint, used only to report drift.
func (r *run) judge(bi int, res *mbt.Result, predictedCut map[int]mbt.Step) (violated bool, driftNote string) {
	viol := func(step int, what string, exp, obsd any) {
		violated = true
		res.Violations = append(res.Violations, mbt.Violation{Property: propID, Behaviour: bi, Step: step, What: what, Expected: exp, Observed: obsd})
	}
	r.o.mu.Lock()
	scripts := make([][]item, r.ns)
	for i := range scripts {
		scripts[i] = append([]item(nil), r.o.started[i]...)
	}
	calls := append([]callObs(nil), r.o.calls...)
	earlyW := map[int]bool{}
	for n := range r.o.earlyW {
		earlyW[n] = true
	}
	r.o.mu.Unlock()
	// was a watermark delivered after a barrier that was open at call c processed while it was open?
	early := func(c callObs) bool {
		for _, n := range c.Open {
			if earlyW[n] {
				return true
			}
		}
		return false
	}
	// V1
	for ci, c := range calls {
		if c.Call.Fail || c.Doomed {
			// nothing of a failed call is applied; an operator that already handed
			// out a failure never reports a checkpoint again (if it does, V2 judges it)
			continue
		}
		for _, u := range c.Call.Items {
			if u.Sr < 1 || u.Sr > r.ns || u.Idx < 1 || u.Idx > len(scripts[u.Sr-1]) || scripts[u.Sr-1][u.Idx-1].K != "e" {
				res.Errors = append(res.Errors, fmt.Sprintf("b%d: handler received %+v which no sender sent", bi, u))
				continue
			}
			switch u.T {
			case "e":
				if lim := c.AllowIdx[u.Sr-1]; u.Idx > lim {
					b := scripts[u.Sr-1][lim].V
					viol(ci, fmt.Sprintf("event #%d of runner %d, delivered after the runner's barrier %d (#%d), reached the handler while checkpoint %d was not complete (%d acknowledged)", u.Idx, u.Sr, b, lim+1, b, c.AcksAt),
						map[string]any{"allow_idx": c.AllowIdx}, c.Call.Items)
				}
			case "t":
				if u.Tm > c.AllowWm && !early(c) {
					driftNote = fmt.Sprintf("timer @%d fired beyond the minimum %d of the delivered watermarks although no post-barrier watermark was processed (C11's business)", u.Tm, c.AllowWm)
				} else if u.Tm > c.AllowWm {
					viol(ci, fmt.Sprintf("timer @%d of event (%d,%d) fired although the watermarks delivered before the open checkpoint's barriers only reach %d", u.Tm, u.Sr, u.Idx, c.AllowWm),
						map[string]any{"allow_wm": c.AllowWm}, c.Call.Items)
				}
			}
		}
		if c.Call.W > c.AllowWm && !early(c) {
			driftNote = fmt.Sprintf("handler saw watermark %d beyond the minimum %d of the delivered watermarks although no post-barrier watermark was processed (C11's business)", c.Call.W, c.AllowWm)
		} else if c.Call.W > c.AllowWm {
			viol(ci, fmt.Sprintf("handler called with watermark %d although the watermarks delivered before the open checkpoint's barriers only reach %d", c.Call.W, c.AllowWm),
				map[string]any{"allow_wm": c.AllowWm}, c.Call.W)
		}
	}
	// V2
	var cand [][2]int
	for s, sc := range scripts {
		for i, it := range sc {
			if it.K == "e" {
				cand = append(cand, [2]int{s + 1, i + 1})
			}
		}
	}
	seenAck := map[uint64]bool{}
	for _, ck := range r.op.J.Acks() {
		n := int(ck.CheckpointId)
		if seenAck[ck.CheckpointId] {
			driftNote = fmt.Sprintf("checkpoint %d acknowledged twice", n)
			continue
		}
		seenAck[ck.CheckpointId] = true
		demand := map[unitKey]bool{}
		cutWm, complete := -1, true
		for s, sc := range scripts {
			p := barrierPos(sc, n)
			if p == 0 {
				complete = false
				viol(len(calls), fmt.Sprintf("checkpoint %d was acknowledged although runner %d never delivered barrier %d", n, s+1, n), nil, nil)
				break
			}
			for i := 0; i < p-1; i++ {
				if sc[i].K == "e" {
					demand[unitKey{s + 1, i + 1}] = true
				}
			}
			if w := countW(sc, p-1); cutWm < 0 || w < cutWm {
				cutWm = w
			}
		}
		if !complete {
			continue
		}
		content, err := safeProbe(r.dir, fmt.Sprintf("probe%d", n), ck, cand)
		if err != nil {
			res.Errors = append(res.Errors, fmt.Sprintf("b%d: cannot read back checkpoint %d: %v", bi, n, err))
			continue
		}
		got := map[unitKey]bool{}
		var missing, extra []opkit.Unit
		for _, u := range content.Seen {
			got[unitKey{u.Sr, u.Idx}] = true
			if !demand[unitKey{u.Sr, u.Idx}] {
				extra = append(extra, u)
			}
		}
		var dk []unitKey
		for k := range demand {
			dk = append(dk, k)
		}
		sort.Slice(dk, func(i, j int) bool { return dk[i].sr < dk[j].sr || (dk[i].sr == dk[j].sr && dk[i].idx < dk[j].idx) })
		for _, k := range dk {
			if !got[k] {
				missing = append(missing, opkit.Unit{T: "e", Sr: k.sr, Idx: k.idx})
			}
		}
		if len(missing) > 0 || len(extra) > 0 {
			viol(len(calls), fmt.Sprintf("checkpoint %d does not hold exactly the events delivered before the barriers %d: missing %v, not allowed %v", n, n, missing, extra), dk, content)
		}
		hasTm := map[unitKey]int{}
		for _, u := range content.Timers {
			hasTm[unitKey{u.Sr, u.Idx}] |= 1
			if !demand[unitKey{u.Sr, u.Idx}] {
				viol(len(calls), fmt.Sprintf("checkpoint %d holds a pending timer of event (%d,%d) which is not before barrier %d", n, u.Sr, u.Idx, n), dk, content)
			}
		}
		for _, u := range content.Fired {
			hasTm[unitKey{u.Sr, u.Idx}] |= 2
			if !demand[unitKey{u.Sr, u.Idx}] {
				viol(len(calls), fmt.Sprintf("checkpoint %d holds the timer effect of event (%d,%d) which is not before barrier %d", n, u.Sr, u.Idx, n), dk, content)
			} else if u.Tm > cutWm && !earlyW[n] {
				driftNote = fmt.Sprintf("checkpoint %d: timer @%d fired beyond the watermark %d of the cut although no post-barrier watermark was processed", n, u.Tm, cutWm)
			} else if u.Tm > cutWm {
				viol(len(calls), fmt.Sprintf("checkpoint %d holds the effect of timer @%d of event (%d,%d) although the watermarks delivered before the barriers %d only reach %d", n, u.Tm, u.Sr, u.Idx, n, cutWm), dk, content)
			}
		}
		for _, k := range dk {
			if got[k] && hasTm[k] == 0 {
				// a lost timer is the timer store's business (C10), not alignment's
				driftNote = fmt.Sprintf("checkpoint %d holds event (%d,%d) but neither its pending timer nor the effect of its expiry", n, k.sr, k.idx)
			} else if hasTm[k] == 3 {
				driftNote = fmt.Sprintf("checkpoint %d: timer of (%d,%d) both pending and fired", n, k.sr, k.idx)
			}
		}
		if p, ok := predictedCut[n]; ok && !violated {
			pc := mbt.Step(p.Map("cut"))
			want := opkit.Content{Seen: unitsOf(pc.List("seen")), Fired: unitsOf(pc.List("fired")), Timers: unitsOf(pc.List("timers"))}
			norm := func(c *opkit.Content) {
				for _, l := range [][]opkit.Unit{c.Seen, c.Fired, c.Timers} {
					for i := range l {
						l[i].T = ""
					}
					sort.Slice(l, func(i, j int) bool {
						return l[i].Sr < l[j].Sr || (l[i].Sr == l[j].Sr && (l[i].Idx < l[j].Idx || (l[i].Idx == l[j].Idx && l[i].Tm < l[j].Tm)))
					})
				}
				if c.Seen == nil {
					c.Seen = []opkit.Unit{}
				}
				if c.Fired == nil {
					c.Fired = []opkit.Unit{}
				}
				if c.Timers == nil {
					c.Timers = []opkit.Unit{}
				}
			}
			gotc := content
			norm(&want)
			norm(&gotc)
			if !reflect.DeepEqual(want, gotc) {
				driftNote = trunc(fmt.Sprintf("checkpoint %d content %+v, model predicted %+v", n, gotc, want))
			}
			// cross-check the model's demand with ours
			dm := unitsOf(p.List("demand"))
			if len(dm) != len(dk) || p.Int("cutwm") != cutWm {
				res.Errors = append(res.Errors, fmt.Sprintf("b%d: harness and model disagree on the demanded cut %d: %v/%d vs %v/%d", bi, n, dk, cutWm, dm, p.Int("cutwm")))
			}
		}
		res.Count("checkpoints_read_back", 1)
	}
	return
}

// criticalStep: is st the step at which the design without deviation dev leaves a witness schedule of dev?
func criticalStep(dev string, st mbt.Step) bool {
	failed := false
	for _, c := range st.List("calls") {
		failed = failed || mbt.Step(c.(map[string]any)).Bool("fail")
	}
	switch st.Str("a") {
	case "Unpark":
		return st.Bool("dev")
	case "LoopBatchTimeout", "LoopEvent", "LoopWatermark":
		return failed
	case "LoopBarrier":
		return st.Bool("last") && failed
	case "CompleteCheckpoint":
		return true
	}
	return false
}

func safeProbe(dir, id string, ck *snapshotpb.OperatorCheckpoint, cand [][2]int) (c opkit.Content, err error) {
	defer func() {
		if p := recover(); p != nil {
			err = fmt.Errorf("panic: %v", p)
		}
	}()
	return opkit.Probe(dir, id, ck, cand)
}

// replay runs one behaviour of Align.tla.
func replay(bi int, beh []mbt.Step, in *mbt.Input, res *mbt.Result) {
	r, err := newRun(in.CfgInt("NS", 2), in.CfgInt("MaxSize", 2), in.CfgBool("UseTimer", true), true, nil, 0)
	if err != nil {
		res.Errors = append(res.Errors, err.Error())
		return
	}
	defer r.close()
	r.honourCtx = in.CfgBool("HonourCtx", false)
	r.k = in.CfgInt("K", 2)
	witness := in.CfgStr("Witness", "")
	r.faults = witness != "" || in.CfgInt("MaxCancel", 0) > 0 || in.CfgInt("MaxHFail", 0) > 0
	predicted := map[int]mbt.Step{}
	var derr error
	at := 0
	adv, advDone := in.CfgBool("Adversarial", false), false
	parked := map[int]bool{}
	for si, st := range beh {
		at = si
		if st.Str("a") == "AlignCheck" && st.Bool("park") {
			parked[st.Int("sr")] = true
		} else if st.Str("a") == "Unpark" {
			delete(parked, st.Int("sr"))
		}
		if adv && st.Str("a") == "Enqueue" && si+1 < len(beh) && len(parked) > 0 {
			if nx := beh[si+1]; nx.Str("a") == "LoopBarrier" && nx.Bool("last") && len(nx.List("calls")) > 0 {
				var ps []int
				for p := range parked {
					ps = append(ps, p)
				}
				sort.Ints(ps)
				if err := r.holdExperiment(st.Int("sr"), ps, res); err != nil {
					derr = err
				} else {
					advDone = true
				}
				break
			}
		}
		if err := r.step(st); err != nil {
			if _, ok := err.(*drift); !ok {
				res.Errors = append(res.Errors, fmt.Sprintf("b%d s%d: %v", bi, si, err))
				return
			}
			derr = err
			break
		}
		if st.Str("a") == "CompleteCheckpoint" {
			predicted[st.Int("n")] = st
		}
		res.Steps++
	}
	completed := true
	if derr != nil || advDone {
		// schedule control is lost: let the rest of the scripts run freely and
		// decide by the property alone
		rest := map[int][]item{}
		for _, st := range beh[at+1:] {
			if st.Str("a") == "AlignCheck" {
				rest[st.Int("sr")] = append(rest[st.Int("sr")], item{K: st.Str("k"), V: st.Int("v")})
			}
		}
		completed = r.complete(rest)
		predicted = nil
	}
	verifhook.Install(nil, nil)
	r.s.FreeRun()
	r.freeze()
	violated, note := r.judge(bi, res, predicted)
	if witness != "" {
		res.Count("witness_behaviours", 1)
	}
	switch {
	case violated:
		if derr != nil {
			res.Violations[len(res.Violations)-1].What += " [after schedule divergence: " + trunc(derr.Error()) + "]"
		}
		if witness != "" {
			res.Violations[len(res.Violations)-1].What += " [witness schedule of " + witness + "]"
		}
	case witness != "" && derr != nil:
		// a schedule only the deviating design follows to its end: the real code
		// is expected to leave it at the deviating step
		res.Count("witness_not_followed", 1)
		if criticalStep(witness, beh[at]) {
			res.Count("witness_left_at_critical_step", 1)
		} else if len(res.DriftNotes) < 20 {
			res.DriftNotes = append(res.DriftNotes, fmt.Sprintf("b%d s%d (witness %s): %v", bi, at, witness, derr))
		}
		res.Executed++
	case witness != "":
		// every step and every handler call matched a schedule that ends in a
		// state the property forbids, yet the judge saw nothing: model and
		// harness disagree
		res.Errors = append(res.Errors, fmt.Sprintf("b%d: witness schedule of %s was followed to its end by the real operator but no violation was observed", bi, witness))
	case derr != nil:
		if !completed {
			res.Driftf("b%d s%d: %v; afterwards some HandleEvent calls never returned", bi, at, derr)
		} else {
			res.Driftf("b%d s%d: %v", bi, at, derr)
		}
	case advDone && !completed:
		res.Driftf("b%d s%d: after the adversarial hold some HandleEvent calls never returned", bi, at)
	case note != "":
		res.Driftf("b%d: %s", bi, note)
	case adv && !advDone:
		res.Count("adversarial_not_applicable", 1)
	default:
		res.Executed++
	}
}

// ------------------------------------------------------------ trace mode ----

func genScript(rng *rand.Rand, k, maxScript, maxW int) []item {
	n := k + rng.Intn(maxScript-k+1)
	var sc []item
	nb, nw := 0, 0
	for len(sc) < n {
		rem := n - len(sc)
		var opts []string
		if nb < k {
			opts = append(opts, "b")
		}
		if rem > k-nb {
			opts = append(opts, "e", "e")
			if nw < maxW {
				opts = append(opts, "w")
			}
		}
		switch opts[rng.Intn(len(opts))] {
		case "b":
			nb++
			sc = append(sc, item{"b", nb})
		case "w":
			nw++
			sc = append(sc, item{"w", nw})
		default:
			sc = append(sc, item{"e", 0})
		}
	}
	return sc
}

func traceRun(ri int, in *mbt.Input, rng *rand.Rand, res *mbt.Result) []any {
	ns, k := in.CfgInt("NS", 3), in.CfgInt("K", 2)
	r, err := newRun(ns, in.CfgInt("MaxSize", 2), in.CfgBool("UseTimer", true), false, rand.New(rand.NewSource(rng.Int63())), in.CfgInt("Jitter", 150))
	if err != nil {
		res.Errors = append(res.Errors, err.Error())
		return nil
	}
	defer r.close()
	scripts := make([][]item, ns)
	for s := range scripts {
		scripts[s] = genScript(rng, k, in.CfgInt("MaxScript", 6), in.CfgInt("MaxW", 3))
	}
	r.k = k
	if in.CfgBool("Faults", false) {
		r.faults = true
		r.honourCtx = rng.Intn(3) > 0
		p := &faultPlan{}
		if rng.Intn(4) > 0 { // a request context is cancelled
			p.cancelSr = 1 + rng.Intn(ns)
			switch rng.Intn(3) {
			case 0:
				p.cancelOnPark = 1 + rng.Intn(2)
			case 1:
				p.cancelAtStart = 1 + rng.Intn(len(scripts[p.cancelSr-1]))
			default:
				p.cancelAtLen = 1 + rng.Intn(12*ns)
			}
		}
		switch rng.Intn(4) { // a handler invocation fails
		case 0:
			p.failCall = 1 + rng.Intn(5)
		case 1:
			p.failTimerCall = true
		}
		r.plan = p
		res.Count("fault_runs", 1)
	}
	stop := make(chan struct{})
	var wg sync.WaitGroup
	if in.CfgBool("UseTimer", true) {
		trng := rand.New(rand.NewSource(rng.Int63()))
		wg.Add(1)
		go func() { // the batch timer expires at random moments
			defer wg.Done()
			for {
				select {
				case <-stop:
					return
				case <-time.After(time.Duration(50+trng.Intn(400)) * time.Microsecond):
				}
				if d := r.op.Tm.Take(); d != nil {
					r.o.mu.Lock()
					r.o.trace = append(r.o.trace, map[string]any{"op": "Fire"})
					r.o.mu.Unlock()
					fin := make(chan struct{})
					go func() { d(); close(fin) }()
					select {
					case <-fin:
					case <-stop:
						return
					}
				}
			}
		}()
	}
	for s, sc := range scripts {
		for _, it := range sc {
			r.send(s+1, it)
		}
	}
	if p := r.plan; p != nil && p.cancelAtLen > 0 {
		wg.Add(1)
		go func() {
			defer wg.Done()
			for {
				select {
				case <-stop:
					return
				default:
				}
				r.o.mu.Lock()
				n := len(r.o.trace)
				r.o.mu.Unlock()
				if n >= p.cancelAtLen {
					r.cancelSender(p.cancelSr)
					return
				}
				time.Sleep(20 * time.Microsecond)
			}
		}()
	}
	ok := r.complete(nil)
	close(stop)
	wg.Wait()
	if !ok && !r.faults {
		res.Errors = append(res.Errors, fmt.Sprintf("trace run %d: HandleEvent calls did not return (scripts %v)", ri, scripts))
		return nil
	}
	if !ok {
		res.Count("fault_runs_with_callers_left_parked_or_hanging", 1)
	}
	if r.noteStopped(0) {
		res.Count("fault_runs_operator_stopped", 1)
	}
	r.freeze()
	verifhook.Install(nil, nil)
	r.o.mu.Lock()
	events := append([]any(nil), r.o.trace...)
	if r.o.doomed {
		res.Count("fault_runs_doomed", 1)
	}
	r.o.mu.Unlock()
	nv := len(res.Violations)
	r.judge(ri, res, nil)
	for i := nv; i < len(res.Violations); i++ {
		res.Violations[i].What = "[free-running trace] " + res.Violations[i].What
	}
	// contents of the reported checkpoints, as trace events
	var cand [][2]int
	for s, sc := range scripts {
		for i, it := range sc {
			if it.K == "e" {
				cand = append(cand, [2]int{s + 1, i + 1})
			}
		}
	}
	inSnapshot := map[uint64]bool{}
	for _, e := range events {
		if m, ok := e.(map[string]any); ok && m["op"] == "Ack" {
			inSnapshot[m["n"].(uint64)] = true
		}
	}
	for _, ck := range r.op.J.Acks() {
		if !inSnapshot[ck.CheckpointId] {
			continue // reported after the recording was closed
		}
		c, err := safeProbe(r.dir, fmt.Sprintf("tprobe%d", ck.CheckpointId), ck, cand)
		if err != nil {
			res.Errors = append(res.Errors, fmt.Sprintf("trace run %d: cannot read back checkpoint %d: %v", ri, ck.CheckpointId, err))
			continue
		}
		nn := func(u []opkit.Unit) []opkit.Unit {
			if u == nil {
				return []opkit.Unit{}
			}
			return u
		}
		events = append(events, map[string]any{"op": "Cut", "n": ck.CheckpointId, "seen": nn(c.Seen), "fired": nn(c.Fired), "timers": nn(c.Timers)})
	}
	res.Executed++
	res.Steps += len(events)
	return events
}

func main() {
	in, err := mbt.ReadInput(os.Args[1])
	if err != nil {
		fmt.Fprintln(os.Stderr, err)
		os.Exit(2)
	}
	if !in.CfgBool("Verbose", false) {
		slog.SetDefault(slog.New(slog.NewTextHandler(io.Discard, nil)))
	}
	res := &mbt.Result{}
	if in.CfgStr("Mode", "replay") == "trace" {
		rng := rand.New(rand.NewSource(in.Seed))
		var events []any
		for ri := 0; ri < in.CfgInt("Runs", 20); ri++ {
			if expired > expiredBudget {
				break
			}
			ev := traceRun(ri, in, rng, res)
			if ev == nil {
				continue
			}
			if len(events) > 0 {
				events = append(events, map[string]any{"op": "Reset"})
			}
			events = append(events, ev...)
			res.Samples = events
			mbt.WriteResult(os.Args[2]+".partial", res)
		}
		res.Samples = events
	} else {
		for bi, beh := range in.Behaviours {
			if expired > expiredBudget {
				res.Errors = append(res.Errors, fmt.Sprintf("replay cut short after behaviour %d of %d: the operator repeatedly did not reach the point the model predicts (%.0fs spent in expired waits); first notes: %v", bi, len(in.Behaviours), expired.Seconds(), res.DriftNotes))
				break
			}
			replay(bi, beh, in, res)
			// the operator under test runs in this process: if it panics on one
			// of its own goroutines, what was observed so far survives
			mbt.WriteResult(os.Args[2]+".partial", res)
		}
	}
	if err := mbt.WriteResult(os.Args[2], res); err != nil {
		fmt.Fprintln(os.Stderr, err)
		os.Exit(2)
	}
}
