// keyedstate replays behaviours of spec/KeyedState.tla (property C03) on
//
//	Mode "store"    the real operator.KeyedStateStore (+ the real TimerStore
//	                sharing the database) over a real dkv.DB with tiny memtables;
//	                DKV's background flush / compaction goroutines are driven
//	                through the dkv verif gates (harness/dkvsched), the model's
//	                Bg steps deciding where they advance - also between the two
//	                captures of the prefix scan inside a fetch;
//	Mode "operator" the real operator.Operator: events are delivered through
//	                HandleEvent, batches are cut by size or by the (harness
//	                owned) batch timer, the harness is the handler: it checks
//	                the KeyStates of EVERY ProcessEventBatchRequest against a
//	                shadow map and answers with the mutations / timers the
//	                model chose; checkpoints are taken with barriers and
//	                restored by deploying a new operator from the reported
//	                OperatorCheckpoint;
//	Mode "tables"   prints the concretisation tables with the key group bytes
//	                computed by the repository's partitioning package (they
//	                become constants of the spec).
//
// Observable: the state entries handed to the handler / returned by
// KeyedStateStore.GetState. Demanded (by the property): exactly the live cells
// of the key's map as the handler's own mutations left it (computed twice:
// by the spec - field `want` - and by the harness's shadow map; a disagreement
// between those two is a machinery error), every namespace in one group, no
// order demanded.
//
// The concretisation is aliasing-hostile: keys that are prefixes of one
// another, keys / namespaces / entry keys containing the separator-like bytes
// 0x00 and the length-like bytes, empty strings, keys >= 256 bytes, several
// keys in one key group, key groups on both sides of 0x80, timer timestamps
// whose 8 bytes spell <len><key><ns-len> of a state prefix.
package main

import (
	"bytes"
	"context"
	"encoding/binary"
	"fmt"
	"math/rand"
	"os"
	"reflect"
	"sort"
	"strings"
	"time"
	"unsafe"

	"google.golang.org/protobuf/types/known/timestamppb"
	"reduction.dev/reduction-protocol/handlerpb"
	"reduction.dev/reduction/batching"
	"reduction.dev/reduction/clocks"
	"reduction.dev/reduction/dkv"
	"reduction.dev/reduction/dkv/recovery"
	"reduction.dev/reduction/partitioning"
	"reduction.dev/reduction/proto"
	"reduction.dev/reduction/proto/jobpb"
	"reduction.dev/reduction/proto/snapshotpb"
	"reduction.dev/reduction/proto/workerpb"
	"reduction.dev/reduction/workers/operator"
	"verif/harness/dkvsched"
	"verif/harness/fsx"
	"verif/harness/gate"
	"verif/harness/mbt"
	"verif/harness/opkit"
)

const propID = "C03"

// ------------------------------------------------------------------ tables ----

type table struct {
	Name    string
	KGCount int
	Keys    []string // subject keys, ids 1..
	NS      []string // namespaces (valid UTF-8: the protocol field is a string)
	EK      []string // entry keys
	Vals    []string // ids 1, 2; id 3 is always the EMPTY value
	Times   []int64  // timer times (UnixNano), ids 1..
}

func rep(s string, n int) string { return strings.Repeat(s, n) }

// aliasTime: a timestamp whose 8 big-endian bytes are <uint32 len(key)><key><0...>,
// i.e. what follows the schema byte in key's state prefix, then namespace length 0.
func aliasTime(key string) int64 {
	var b [8]byte
	binary.BigEndian.PutUint32(b[0:4], uint32(len(key)))
	copy(b[4:], key)
	return int64(binary.BigEndian.Uint64(b[:]))
}

// samePair finds a short key s such that s and s+suffix fall into the same key
// group under count groups and the group's low byte is >= 0x80 (hi) or < 0x80.
func samePair(count int, suffix string, hi bool, salt byte) string {
	ks := partitioning.NewKeySpace(count, 1)
	for i := 0; i < 1<<20; i++ {
		s := string([]byte{salt, byte('A' + i%26), byte(i / 26), byte(i / (26 * 256))})
		g := ks.KeyGroup([]byte(s))
		if g != ks.KeyGroup([]byte(s+suffix)) {
			continue
		}
		if (byte(g) >= 0x80) == hi && g > 0 {
			return s
		}
	}
	panic("keyedstate: no key pair found")
}

var tables = func() []table {
	ns0 := []string{"", "b", "\x00"}
	ek0 := []string{"", "b", "\x00b"}
	v0 := []string{"1", "\x00"}
	s := samePair(256, "b", true, 's')
	u := samePair(256, "\x00", false, 'u')
	return []table{
		{Name: "prefixes, 3 groups (a, ab, a\\x00 share one)", KGCount: 3,
			Keys: []string{"a", "ab", "a\x00", "", "\x00"}, NS: ns0, EK: ek0, Vals: v0,
			Times: []int64{aliasTime("a"), 0x10000, aliasTime("ab")}},
		{Name: "0xff and >=256-byte keys, one group", KGCount: 1,
			Keys: []string{rep("k", 256), rep("k", 257), "", "\xff", "\xff\xff"},
			NS:   []string{"", rep("n", 255), "é"}, EK: []string{"", "\xff", rep("e", 300)}, Vals: []string{"\xff", rep("v", 300)},
			Times: []int64{0x100, aliasTime("\xff"), aliasTime("\xff\xff")}},
		{Name: "256 groups, pairs sharing a group on both sides of 0x80", KGCount: 256,
			Keys: []string{s, s + "b", u, u + "\x00", ""}, NS: ns0, EK: ek0, Vals: v0,
			Times: []int64{aliasTime(s), 0x10000, aliasTime(u)}},
		{Name: "65535 groups, first key-group byte on both sides of 0x80", KGCount: 65535,
			Keys: []string{"a", "ab", "a\x00", "", "aa"}, NS: ns0, EK: ek0, Vals: v0,
			Times: []int64{aliasTime("a"), 0x10000, aliasTime("ab")}},
		{Name: "256 groups, every key in a group >= 0x80", KGCount: 256,
			Keys: []string{s, s + "b", "a", "\x00", "aa"}, NS: ns0, EK: ek0, Vals: v0,
			Times: []int64{aliasTime(s), aliasTime("a"), 0x10000}},
	}
}()

func byteList(s string) []int {
	out := make([]int, len(s))
	for i := 0; i < len(s); i++ {
		out[i] = int(s[i])
	}
	return out
}

func tablesJSON() any {
	var out []any
	for _, t := range tables {
		ks := partitioning.NewKeySpace(t.KGCount, 1)
		m := map[string]any{"name": t.Name, "kgcount": t.KGCount}
		var kb, kg, nb, eb, tb [][]int
		for _, k := range t.Keys {
			kb = append(kb, byteList(k))
			var b [2]byte
			ks.KeyGroup([]byte(k)).PutBytes(b[:])
			kg = append(kg, []int{int(b[0]), int(b[1])})
		}
		for _, n := range t.NS {
			nb = append(nb, byteList(n))
		}
		for _, e := range t.EK {
			eb = append(eb, byteList(e))
		}
		for _, x := range t.Times {
			var b [8]byte
			binary.BigEndian.PutUint64(b[:], uint64(time.Unix(0, x).UnixNano()))
			tb = append(tb, byteList(string(b[:])))
		}
		m["KeyB"], m["KgB"], m["NsB"], m["EkB"], m["TimeB"] = kb, kg, nb, eb, tb
		out = append(out, m)
	}
	return out
}

// ------------------------------------------------------------- shadow map ----

type cell struct{ n, e int }
type shadow map[int]map[cell]int // key id -> (ns id, entry id) -> value id (1..3)

func (s shadow) apply(k, n, e, v int) {
	if s[k] == nil {
		s[k] = map[cell]int{}
	}
	if v == 0 {
		delete(s[k], cell{n, e})
	} else {
		s[k][cell{n, e}] = v
	}
}
func (s shadow) clone() shadow {
	c := shadow{}
	for k, m := range s {
		c[k] = map[cell]int{}
		for x, v := range m {
			c[k][x] = v
		}
	}
	return c
}

// triples renders the live cells of key k as sorted [n, e, v] triples (the
// format of the spec's `want`).
func (s shadow) triples(k int) [][3]int {
	out := [][3]int{}
	for x, v := range s[k] {
		out = append(out, [3]int{x.n, x.e, v})
	}
	sort.Slice(out, func(i, j int) bool {
		if out[i][0] != out[j][0] {
			return out[i][0] < out[j][0]
		}
		return out[i][1] < out[j][1]
	})
	return out
}

func wantTriples(x any) [][3]int {
	out := [][3]int{}
	arr, _ := x.([]any)
	for _, t := range arr {
		a, _ := t.([]any)
		if len(a) != 3 {
			continue
		}
		var r [3]int
		for i := range r {
			f, _ := a[i].(float64)
			r[i] = int(f)
		}
		out = append(out, r)
	}
	return out
}

func sameTriples(a, b [][3]int) bool {
	if len(a) != len(b) {
		return false
	}
	for i := range a {
		if a[i] != b[i] {
			return false
		}
	}
	return true
}

// ---------------------------------------------------------- judging a fetch ----

type conc struct {
	tb *table
	ks *partitioning.KeySpace
	nk int
}

func (c *conc) key(k int) []byte { return []byte(c.tb.Keys[k-1]) }
func (c *conc) ns(n int) string  { return c.tb.NS[n-1] }
func (c *conc) ek(e int) []byte  { return []byte(c.tb.EK[e-1]) }
func (c *conc) val(v int) []byte {
	if v == 3 {
		return []byte{}
	}
	return []byte(c.tb.Vals[v-1])
}
func (c *conc) tm(t int) time.Time { return time.Unix(0, c.tb.Times[t-1]) }
func (c *conc) keyID(b []byte) int {
	for i, k := range c.tb.Keys {
		if k == string(b) {
			return i + 1
		}
	}
	return 0
}

func short(b string) string {
	if len(b) > 12 {
		return fmt.Sprintf("%q..(%d bytes)", b[:6], len(b))
	}
	return fmt.Sprintf("%q", b)
}

func render(state []*handlerpb.StateEntryNamespace) []string {
	out := []string{}
	for _, g := range state {
		for _, e := range g.Entries {
			out = append(out, fmt.Sprintf("ns=%s key=%s val=%s", short(g.Namespace), short(string(e.Key)), short(string(e.Value))))
		}
	}
	return out
}

// judge compares the state entries supplied for key k with the live cells
// `want` ([n, e, v] triples). It returns "" if they are exactly those, every
// namespace in one group, each entry once; otherwise what is wrong.
func (c *conc) judge(k int, state []*handlerpb.StateEntryNamespace, want [][3]int) string {
	type ck struct{ ns, ek string }
	exp := map[ck]string{}
	for _, t := range want {
		exp[ck{c.ns(t[0]), string(c.ek(t[1]))}] = string(c.val(t[2]))
	}
	seenNS := map[string]bool{}
	seen := map[ck]bool{}
	for _, g := range state {
		if len(g.Entries) == 0 {
			continue // an empty group supplies no entry
		}
		if seenNS[g.Namespace] {
			return fmt.Sprintf("entries of namespace %s are supplied in more than one group", short(g.Namespace))
		}
		seenNS[g.Namespace] = true
		for _, e := range g.Entries {
			x := ck{g.Namespace, string(e.Key)}
			if seen[x] {
				return fmt.Sprintf("entry ns=%s key=%s is supplied twice", short(x.ns), short(x.ek))
			}
			seen[x] = true
			w, ok := exp[x]
			if !ok {
				return fmt.Sprintf("an entry the key's map does not contain is supplied: ns=%s key=%s val=%s (deleted entry, another key's / namespace's entry, or a timer)",
					short(x.ns), short(x.ek), short(string(e.Value)))
			}
			if w != string(e.Value) {
				return fmt.Sprintf("entry ns=%s key=%s has value %s, the last put was %s", short(x.ns), short(x.ek), short(string(e.Value)), short(w))
			}
		}
	}
	for x := range exp {
		if !seen[x] {
			return fmt.Sprintf("entry ns=%s key=%s (put and not deleted since) is missing", short(x.ns), short(x.ek))
		}
	}
	return ""
}

func (c *conc) expectStr(want [][3]int) []string {
	out := []string{}
	for _, t := range want {
		out = append(out, fmt.Sprintf("ns=%s key=%s val=%s", short(c.ns(t[0])), short(string(c.ek(t[1]))), short(string(c.val(t[2])))))
	}
	return out
}

// --------------------------------------------------------- response building ----

type item struct {
	timer   bool
	k, n, e int
	v, t    int
}

// mutation groups: consecutive items of one key become one KeyResult /
// ApplyMutations call; consecutive mutations of one namespace one
// StateMutationNamespace.
func (c *conc) mutations(items []item) []*handlerpb.StateMutationNamespace {
	var out []*handlerpb.StateMutationNamespace
	for _, it := range items {
		if it.timer {
			continue
		}
		ns := c.ns(it.n)
		if len(out) == 0 || out[len(out)-1].Namespace != ns {
			out = append(out, &handlerpb.StateMutationNamespace{Namespace: ns})
		}
		var m *handlerpb.StateMutation
		if it.v == 0 {
			m = &handlerpb.StateMutation{Mutation: &handlerpb.StateMutation_Delete{Delete: &handlerpb.DeleteMutation{Key: c.ek(it.e)}}}
		} else {
			m = &handlerpb.StateMutation{Mutation: &handlerpb.StateMutation_Put{Put: &handlerpb.PutMutation{Key: c.ek(it.e), Value: c.val(it.v)}}}
		}
		out[len(out)-1].Mutations = append(out[len(out)-1].Mutations, m)
	}
	return out
}

func stepItem(st mbt.Step) (item, bool) {
	switch st.Str("a") {
	case "Apply":
		return item{k: st.Int("k"), n: st.Int("n"), e: st.Int("e"), v: st.Int("v")}, true
	case "SetTimer":
		return item{timer: true, k: st.Int("k"), t: st.Int("t")}, true
	}
	return item{}, false
}

// usable prefix: a behaviour cut by the length bound may end inside a batch
func usable(beh []mbt.Step) int {
	n, in := 0, false
	for i, st := range beh {
		switch st.Str("a") {
		case "BatchStart":
			in = true
		case "BatchEnd":
			in = false
		}
		if !in {
			n = i + 1
		}
	}
	return n
}

// ------------------------------------------------------------ common pieces ----

type run struct {
	in   *mbt.Input
	res  *mbt.Result
	bi   int
	c    *conc
	s    *dkvsched.Sched
	sh   shadow
	rng  *rand.Rand
	snap map[int]shadow
	dbs  []*dkv.DB // every database opened during this behaviour
	dead bool      // a verdict or an error has been recorded: stop
}

// quiesce waits until no background task of any database of this behaviour is
// queued or running. dkv's task queues are process-wide and a goroutine
// started for one database may run the task of another one, so only when the
// task groups of ALL databases are done is none of their tasks left.
func (r *run) quiesce() {
	for _, db := range r.dbs {
		if !waitTasks(db) {
			r.res.Count("wait_timeouts", 1)
		}
	}
}

func (r *run) violate(si int, what string, exp, obs any) {
	r.res.Violations = append(r.res.Violations, mbt.Violation{Property: propID, Behaviour: r.bi, Step: si, What: what, Expected: exp, Observed: obs})
	r.dead = true
}
func (r *run) machinery(si int, err error) {
	r.res.Errors = append(r.res.Errors, fmt.Sprintf("b%d s%d: %v", r.bi, si, err))
	r.dead = true
}

func tuneFrom(in *mbt.Input) func(string, int64) int64 {
	return func(name string, def int64) int64 {
		if v, ok := in.Config["tune."+name].(float64); ok {
			return int64(v)
		}
		return def
	}
}

func newRun(bi int, in *mbt.Input, res *mbt.Result) *run {
	ci := in.CfgInt("Conc", 0)
	tb := &tables[ci]
	r := &run{in: in, res: res, bi: bi, sh: shadow{}, snap: map[int]shadow{},
		c:   &conc{tb: tb, ks: partitioning.NewKeySpace(tb.KGCount, 1), nk: in.CfgInt("NK", 3)},
		rng: rand.New(rand.NewSource(in.Seed*1000003 + int64(bi)))}
	return r
}

// checkFetch judges one supplied state against the spec's want and the shadow.
func (r *run) checkFetch(si, k int, state []*handlerpb.StateEntryNamespace, want [][3]int, where string) {
	mine := r.sh.triples(k)
	if want != nil && !sameTriples(want, mine) {
		r.machinery(si, fmt.Errorf("spec and shadow map disagree about key %d: %v vs %v", k, want, mine))
		return
	}
	r.res.Count("fetches_checked", 1)
	if len(mine) > 0 {
		r.res.Count("fetches_nonempty", 1)
	}
	if what := r.c.judge(k, state, mine); what != "" {
		r.violate(si, fmt.Sprintf("%s for key %s: %s", where, short(string(r.c.key(k))), what), r.c.expectStr(mine), render(state))
	}
}

// ================================================================ store tier ====

type fetchRes struct {
	state []*handlerpb.StateEntryNamespace
	err   error
	pan   any
}

type storeWorld struct {
	*run
	store   *fsx.Store
	view    *fsx.View
	gen     int
	db      *dkv.DB
	st      *operator.KeyedStateStore
	ts      *operator.TimerStore
	handles map[int]recovery.CheckpointHandle
	pending map[[2]int]bool         // timers
	pendAt  map[int]map[[2]int]bool // timers at checkpoint id
	ch      chan fetchRes
	done    chan struct{}
	arr     *gate.Arrival

	sabotaged bool
}

func (w *storeWorld) opts() dkv.DBOptions {
	return dkv.DBOptions{FileSystem: w.view, MemTableSize: uint64(w.in.CfgInt("MemCap", 60)),
		TargetFileSize: uint64(w.in.CfgInt("TargetFileSize", 0)), L0TableNumCompactionTrigger: w.in.CfgInt("L0Trigger", 2)}
}

func (w *storeWorld) attach() {
	w.st = operator.NewKeyedStateStore(w.db, w.c.ks)
	w.ts = nil
}

// timers: the TimerStore is created on first use (creating one scans the
// database once per key group)
func (w *storeWorld) timers() *operator.TimerStore {
	if w.ts == nil {
		w.ts = operator.NewTimerStore(w.db, w.c.ks, partitioning.KeyGroupRange{Start: 0, End: w.c.tb.KGCount}, 1<<20)
	}
	return w.ts
}

func (w *storeWorld) getState(k int) (res fetchRes) {
	defer func() {
		if p := recover(); p != nil {
			res.pan = p
		}
	}()
	res.state, res.err = w.st.GetState(w.c.key(k))
	return
}

func (w *storeWorld) fetchNow(si, k int, want [][3]int, where string) {
	res := w.getState(k)
	if res.pan != nil || res.err != nil {
		w.violate(si, fmt.Sprintf("%s: GetState(%s) fails: %v %v", where, short(string(w.c.key(k))), res.pan, res.err), nil, nil)
		return
	}
	w.checkFetch(si, k, res.state, want, where)
}

func replayStore(bi int, beh []mbt.Step, in *mbt.Input, res *mbt.Result) {
	r := newRun(bi, in, res)
	w := &storeWorld{run: r, store: fsx.NewStore(), handles: map[int]recovery.CheckpointHandle{}, pending: map[[2]int]bool{}, pendAt: map[int]map[[2]int]bool{}}
	r.s = dkvsched.New(tuneFrom(in))
	defer func() {
		r.s.Close()
		r.quiesce()
	}()
	w.view = w.store.View("g0", "/db")
	w.db = dkv.New(w.opts())
	r.dbs = append(r.dbs, w.db)
	r.s.SetMain(w.db)
	if err := w.db.Start(nil); err != nil {
		r.machinery(0, err)
		return
	}
	w.attach()
	beh = beh[:usable(beh)]
	for si := 0; si < len(beh) && !r.dead; si++ {
		st := beh[si]
		switch a := st.Str("a"); a {
		case "BatchStart":
			r.s.ArmScan(true)
		case "FetchBegin":
			k := st.Int("k")
			w.ch, w.done = make(chan fetchRes, 1), make(chan struct{})
			go func(ch chan fetchRes, done chan struct{}) { ch <- w.getState(k); close(done) }(w.ch, w.done)
			arr, err := r.s.AwaitScan(w.done)
			if err != nil {
				r.machinery(si, err)
				return
			}
			w.arr = arr
		case "FetchEnd":
			k := st.Int("k")
			if w.arr != nil {
				w.arr.Release()
				w.arr = nil
			}
			fr := <-w.ch
			if fr.pan != nil || fr.err != nil {
				r.violate(si, fmt.Sprintf("GetState(%s) fails: %v %v", short(string(w.c.key(k))), fr.pan, fr.err), nil, nil)
				return
			}
			r.checkFetch(si, k, fr.state, wantTriples(st["want"]), "state fetched for a batch")
		case "HandlerReturn":
			r.s.ArmScan(false)
		case "Apply":
			// one ApplyMutations call for a run of consecutive mutations of this key
			// (at most 3 writes per call: dkv's task queues hold 6 rotations)
			it, _ := stepItem(st)
			items := []item{it}
			lim := 1 + r.rng.Intn(3)
			for si+1 < len(beh) && len(items) < lim {
				nx, ok := stepItem(beh[si+1])
				if !ok || nx.timer || nx.k != it.k {
					break
				}
				items = append(items, nx)
				si++
			}
			real := items
			if !w.sabotaged && in.CfgBool("Sabotage", false) && it.v != 0 && r.sh[it.k][cell{it.n, it.e}] != it.v {
				// binding self-test: the first effective put is withheld from the real store
				// (the shadow map still records it), so a later fetch must be reported
				w.sabotaged = true
				real = items[1:]
			}
			if err := w.st.ApplyMutations(w.c.key(it.k), w.c.mutations(real)); err != nil {
				r.violate(si, fmt.Sprintf("ApplyMutations fails: %v", err), nil, nil)
				return
			}
			for _, x := range items {
				r.sh.apply(x.k, x.n, x.e, x.v)
			}
			res.Count("mutations", len(items))
			res.Steps += len(items) - 1
			if err := r.s.AfterWrite(); err != nil {
				r.machinery(si, err)
				return
			}
		case "SetTimer":
			k, t := st.Int("k"), st.Int("t")
			w.timers().Put(w.c.key(k), w.c.tm(t))
			w.pending[[2]int{k, t}] = true
			res.Count("timers_set", 1)
			if err := r.s.AfterWrite(); err != nil {
				r.machinery(si, err)
				return
			}
		case "PopTimer":
			// which of several equally early timers fires is not the model's business:
			// the harness's own record of pending timers decides whether one is left
			if len(w.pending) == 0 {
				res.Count("timer_pops_skipped", 1)
				break
			}
			tm, ok := w.timers().Pop()
			if !ok {
				res.Driftf("b%d s%d: TimerStore.Pop returns nothing although %d timers were set and not popped (timers are C10's)", bi, si, len(w.pending))
				return
			}
			found := false
			for p := range w.pending {
				if bytes.Equal(w.c.key(p[0]), tm.Key) && w.c.tm(p[1]).Equal(tm.Timestamp) {
					delete(w.pending, p)
					found = true
					break
				}
			}
			if !found {
				res.Driftf("b%d s%d: TimerStore.Pop returns a timer that is not pending (timers are C10's)", bi, si)
				return
			}
			res.Count("timers_popped", 1)
			if err := r.s.AfterWrite(); err != nil {
				r.machinery(si, err)
				return
			}
		case "BatchEnd":
		case "Bg":
			if _, err := r.s.Step(st.Str("lane")); err != nil {
				r.machinery(si, err)
				return
			}
		case "Checkpoint":
			id := st.Int("id")
			// half of the checkpoints are taken with everything flushed (the restored
			// state then comes from table files, not from the WAL)
			if r.rng.Intn(2) == 0 {
				if err := r.s.Relieve(0); err != nil {
					r.machinery(si, err)
					return
				}
			}
			h, err := w.db.Checkpoint(uint64(id))()
			if err != nil {
				r.machinery(si, fmt.Errorf("checkpoint %d: %v", id, err))
				return
			}
			w.handles[id] = h
			r.snap[id] = r.sh.clone()
			w.pendAt[id] = map[[2]int]bool{}
			for p := range w.pending {
				w.pendAt[id][p] = true
			}
			res.Count("checkpoints", 1)
		case "Restore":
			id := st.Int("id")
			// the process is abandoned: nothing of it reaches storage any more
			w.view.Kill()
			r.s.SetMain(nil)
			w.gen++
			w.view = w.store.View(fmt.Sprintf("g%d", w.gen), "/db")
			var pan any
			func() {
				defer func() { pan = recover() }()
				// the WAL replay may rotate more often than dkv's task queue can hold
				// while a gate is closed: the new database runs freely until it is open
				w.db = dkv.New(w.opts())
				r.dbs = append(r.dbs, w.db)
				if err := w.db.Start([]recovery.CheckpointHandle{w.handles[id]}); err != nil {
					pan = err
				}
			}()
			if pan != nil {
				r.violate(si, fmt.Sprintf("re-opening the database from checkpoint %d fails: %v", id, pan), nil, nil)
				return
			}
			r.quiesce()
			r.s.SetMain(w.db)
			if err := r.s.AfterWrite(); err != nil {
				r.machinery(si, err)
				return
			}
			w.attach()
			r.sh = r.snap[id].clone()
			w.pending = map[[2]int]bool{}
			for p := range w.pendAt[id] {
				w.pending[p] = true
			}
			res.Count("restores", 1)
			all, _ := st["all"].([]any)
			for k := 1; k <= r.c.nk && !r.dead; k++ {
				var want [][3]int
				if k-1 < len(all) {
					want = wantTriples(all[k-1])
				}
				w.fetchNow(si, k, want, fmt.Sprintf("state read after restoring checkpoint %d", id))
			}
		default:
			r.machinery(si, fmt.Errorf("unknown action %q", a))
			return
		}
		res.Steps++
	}
	if r.dead {
		return
	}
	// read everything back: first with the background work as it stands, then drained
	for k := 1; k <= r.c.nk && !r.dead; k++ {
		w.fetchNow(len(beh), k, nil, "final read-back")
	}
	if err := r.s.Drain(); err != nil {
		r.machinery(len(beh), err)
		return
	}
	for k := 1; k <= r.c.nk && !r.dead; k++ {
		w.fetchNow(len(beh), k, nil, "final read-back after all flushes and compactions")
	}
	if r.dead {
		return
	}
	res.Count("bg_steps", r.s.Steps)
	res.Count("bg_steps_forced", r.s.Forced)
	res.Count("bg_steps_skipped", r.s.Skipped)
	res.Executed++
}

func waitTasks(db *dkv.DB) bool {
	done := make(chan struct{})
	go func() { db.WaitOnTasks(); close(done) }()
	select {
	case <-done:
		return true
	case <-time.After(5 * time.Second):
		return false
	}
}

// ============================================================= operator tier ====

type hcall struct {
	req  *handlerpb.ProcessEventBatchRequest
	resp chan *handlerpb.ProcessEventBatchResponse
}

// handler is the harness as proto.Handler: every request is handed to the
// replayer, which answers it.
type handler struct{ calls chan hcall }

func (h *handler) KeyEventBatch(ctx context.Context, events [][]byte) ([][]*handlerpb.KeyedEvent, error) {
	panic("unused by operators")
}
func (h *handler) ProcessEventBatch(ctx context.Context, req *handlerpb.ProcessEventBatchRequest) (*handlerpb.ProcessEventBatchResponse, error) {
	c := hcall{req: req, resp: make(chan *handlerpb.ProcessEventBatchResponse, 1)}
	select {
	case h.calls <- c:
	case <-ctx.Done():
		return nil, ctx.Err()
	}
	select {
	case r := <-c.resp:
		return r, nil
	case <-ctx.Done():
		return nil, ctx.Err()
	}
}

var _ proto.Handler = (*handler)(nil)

type opWorld struct {
	*run
	dir    string
	gen    int
	op     *operator.Operator
	h      *handler
	job    *opkit.JobRec
	tm     *opkit.Timer
	cancel context.CancelFunc
	done   chan error
	ctx    context.Context

	maxSize int
	evs     []int            // events of the current batch
	wants   map[int][][3]int // key -> want of the current batch (from FetchEnd)
	fg      chan error       // the foreground call that makes the operator process the batch
	arr     *gate.Arrival
	pcall   *hcall // handler call received while waiting for a scan
	wm      int64
	db      *dkv.DB
}

// operatorDB reads the operator's (unexported) database handle.
func operatorDB(op *operator.Operator) (db *dkv.DB, err error) {
	defer func() {
		if p := recover(); p != nil {
			err = fmt.Errorf("cannot read operator.Operator.db: %v", p)
		}
	}()
	f := reflect.ValueOf(op).Elem().FieldByName("db")
	if !f.IsValid() {
		return nil, fmt.Errorf("operator.Operator has no field db")
	}
	db = *(**dkv.DB)(unsafe.Pointer(f.UnsafeAddr()))
	if db == nil {
		return nil, fmt.Errorf("operator.Operator.db is nil after deploy")
	}
	return db, nil
}

// adopt makes the freshly deployed operator's database the scheduled one. Its
// background tasks ran freely while it was opened (the WAL replay may rotate
// more often than dkv's task queue can hold behind a closed gate).
func (w *opWorld) adopt() error {
	db, err := operatorDB(w.op)
	if err != nil {
		return err
	}
	w.dbs = append(w.dbs, db)
	w.quiesce()
	w.db = db
	w.s.SetMain(db)
	return w.s.AfterWrite()
}

// sync returns when the operator's loop has finished whatever it was doing.
func (w *opWorld) sync() error {
	return w.send(&workerpb.Event{Event: &workerpb.Event_Watermark{Watermark: &workerpb.Watermark{Timestamp: timestamppb.New(time.Unix(0, w.wm))}}})
}

// awaitScanOrCall waits until the operator's loop is parked inside a fetch of
// the main database or has called the handler.
func (w *opWorld) awaitScanOrCall() *gate.Arrival {
	deadline := time.Now().Add(dkvsched.Wait)
	for time.Now().Before(deadline) {
		if a := w.s.TryScan(); a != nil {
			return a
		}
		if w.pcall == nil {
			select {
			case c := <-w.h.calls:
				w.pcall = &c
			default:
			}
		}
		if w.pcall != nil {
			if a := w.s.TryScan(); a != nil {
				return a
			}
			return nil
		}
		time.Sleep(20 * time.Microsecond)
	}
	return nil
}

func (w *opWorld) start(ckpts []*snapshotpb.OperatorCheckpoint) error {
	w.gen++
	id := fmt.Sprintf("op-g%d", w.gen)
	w.h = &handler{calls: make(chan hcall)}
	w.tm = &opkit.Timer{}
	w.op = operator.NewOperator(operator.NewOperatorParams{
		ID: id, Host: id + "-host", Job: w.job, UserHandler: w.h, Clock: clocks.NewFrozenClock(),
		EventBatching: batching.EventBatcherParams{MaxDelay: time.Hour, MaxSize: w.maxSize, Timer: w.tm},
		NeighborOperatorFactory: func(senderID string, node *jobpb.NodeIdentity) proto.Operator {
			return &proto.UnimplementedOperator{}
		},
	})
	ctx, cancel := context.WithCancel(context.Background())
	w.ctx, w.cancel = ctx, cancel
	if err := w.op.HandleDeploy(ctx, &workerpb.DeployOperatorRequest{
		Operators:       []*jobpb.NodeIdentity{{Id: id, Host: id + "-host"}},
		SourceRunnerIds: []string{"sr"},
		KeyGroupCount:   int32(w.c.tb.KGCount),
		StorageLocation: w.dir,
		Checkpoints:     ckpts,
	}, nil); err != nil {
		cancel()
		return err
	}
	w.done = make(chan error, 1)
	go func(op *operator.Operator, done chan error) { done <- op.Start(ctx) }(w.op, w.done)
	return nil
}

func (w *opWorld) stop() {
	if w.op == nil {
		return
	}
	w.op.Halt()
	w.cancel()
	select {
	case <-w.done:
	case <-time.After(2 * time.Second):
	}
	w.op = nil
}

// send delivers one event, retrying while the event loop is not running yet.
func (w *opWorld) send(ev *workerpb.Event) error {
	return w.op.HandleEvent(w.ctx, "sr", ev)
}

func keyed(key []byte) *workerpb.Event {
	return &workerpb.Event{Event: &workerpb.Event_KeyedEvent{KeyedEvent: &handlerpb.KeyedEvent{Key: key, Value: []byte("v")}}}
}

// serve answers handler calls the model does not script (timer expiries):
// the supplied state of every key is still judged against the shadow map.
func (w *opWorld) serve(si int, c hcall) {
	for _, ks := range c.req.KeyStates {
		k := w.c.keyID(ks.Key)
		if k == 0 {
			w.violate(si, fmt.Sprintf("the handler is given state for a key it never saw: %s", short(string(ks.Key))), nil, render(ks.StateEntryNamespaces))
			break
		}
		w.checkFetch(si, k, ks.StateEntryNamespaces, nil, "state supplied with a timer expiry")
	}
	w.res.Count("timer_calls", 1)
	c.resp <- &handlerpb.ProcessEventBatchResponse{}
}

// await runs fn (a foreground call into the operator) and serves unscripted
// handler calls until it returns.
func (w *opWorld) awaitServing(si int, fn func() error) error {
	errc := make(chan error, 1)
	go func() { errc <- fn() }()
	for {
		select {
		case err := <-errc:
			return err
		case c := <-w.h.calls:
			w.serve(si, c)
		case <-time.After(dkvsched.Wait):
			return fmt.Errorf("foreground call into the operator does not return")
		}
	}
}

func replayOperator(bi int, beh []mbt.Step, in *mbt.Input, res *mbt.Result) {
	r := newRun(bi, in, res)
	w := &opWorld{run: r, job: &opkit.JobRec{}, maxSize: in.CfgInt("MaxBatch", 3)}
	dir, err := opkit.TempDir("keyedstate")
	if err != nil {
		r.machinery(0, err)
		return
	}
	w.dir = dir
	defer os.RemoveAll(dir)
	r.s = dkvsched.New(tuneFrom(in))
	defer func() {
		r.s.Close()
		w.stop()
		r.quiesce()
	}()
	if err := w.start(nil); err != nil {
		r.machinery(0, err)
		return
	}
	if err := w.adopt(); err != nil {
		r.machinery(0, err)
		return
	}
	// wait for the event loop
	for i := 0; ; i++ {
		if err := w.send(&workerpb.Event{Event: &workerpb.Event_Watermark{Watermark: &workerpb.Watermark{Timestamp: timestamppb.New(time.Unix(0, 0))}}}); err == nil {
			break
		} else if i > 2000 {
			r.machinery(0, fmt.Errorf("operator does not accept events: %v", err))
			return
		}
		time.Sleep(100 * time.Microsecond)
	}
	beh = beh[:usable(beh)]
	for si := 0; si < len(beh) && !r.dead; si++ {
		st := beh[si]
		switch a := st.Str("a"); a {
		case "BatchStart":
			// room for the rotations of one apply phase in dkv's task queue
			if err := r.s.Relieve(1); err != nil {
				r.machinery(si, err)
				return
			}
			w.evs = st.Ints("evs")
			w.wants = map[int][][3]int{}
			if len(w.evs) > w.maxSize {
				r.machinery(si, fmt.Errorf("batch of %d events, operator batch size %d", len(w.evs), w.maxSize))
				return
			}
			r.s.ArmScan(true)
			for _, k := range w.evs[:len(w.evs)-1] {
				if err := w.send(keyed(w.c.key(k))); err != nil {
					r.machinery(si, err)
					return
				}
			}
			w.fg, w.pcall = make(chan error, 1), nil
			last, full := w.evs[len(w.evs)-1], len(w.evs) == w.maxSize
			go func(fg chan error) {
				if err := w.send(keyed(w.c.key(last))); err != nil {
					fg <- err
					return
				}
				if !full { // the batch is cut by its time-out
					if d := w.tm.Take(); d != nil {
						d()
					} else {
						fg <- fmt.Errorf("batch timer not armed")
						return
					}
				}
				fg <- nil
			}(w.fg)
		case "FetchBegin":
			// the operator's loop fetches the batch's keys in event order; if it
			// does not scan at all it is the handler call that will be judged
			w.arr = w.awaitScanOrCall()
		case "FetchEnd":
			w.wants[st.Int("k")] = wantTriples(st["want"])
			if st.Bool("last") {
				r.s.ArmScan(false)
			}
			if w.arr != nil {
				w.arr.Release()
				w.arr = nil
			}
		case "HandlerReturn":
			r.s.ArmScan(false)
			r.s.G.ReleaseWhere(func(a *gate.Arrival) bool { return a.Point == dkvsched.PtScanBetween })
			var c hcall
			if w.pcall != nil {
				c, w.pcall = *w.pcall, nil
			} else {
				select {
				case c = <-w.h.calls:
				case <-time.After(dkvsched.Wait):
					r.machinery(si, fmt.Errorf("handler not called for a batch of %d events", len(w.evs)))
					return
				}
			}
			// events: the batch, in order
			if len(c.req.Events) != len(w.evs) {
				res.Driftf("b%d s%d: handler called with %d events, batch has %d (batching is C20's)", bi, si, len(c.req.Events), len(w.evs))
				c.resp <- &handlerpb.ProcessEventBatchResponse{}
				return
			}
			// KeyStates: one per distinct key of the batch, nothing else
			distinct := map[int]bool{}
			for _, k := range w.evs {
				distinct[k] = true
			}
			seen := map[int]bool{}
			for _, ks := range c.req.KeyStates {
				k := w.c.keyID(ks.Key)
				if k == 0 || !distinct[k] {
					r.violate(si, fmt.Sprintf("the handler is given state of key %s, which has no event in the batch", short(string(ks.Key))), nil, render(ks.StateEntryNamespaces))
					break
				}
				if seen[k] {
					r.violate(si, fmt.Sprintf("the handler is given two states for key %s", short(string(ks.Key))), nil, nil)
					break
				}
				seen[k] = true
				r.checkFetch(si, k, ks.StateEntryNamespaces, w.wants[k], "state supplied to the handler")
				if r.dead {
					break
				}
			}
			if !r.dead {
				for k := range distinct {
					if !seen[k] && len(r.sh[k]) > 0 {
						r.violate(si, fmt.Sprintf("the handler is given no state for key %s although its map is not empty", short(string(w.c.key(k)))), r.c.expectStr(r.sh.triples(k)), nil)
						break
					}
				}
			}
			// the answer: the mutations / timers the model reveals next, grouped per key
			resp := &handlerpb.ProcessEventBatchResponse{}
			var items []item
			for j := si + 1; j < len(beh) && beh[j].Str("a") != "BatchEnd"; j++ {
				if it, ok := stepItem(beh[j]); ok {
					items = append(items, it)
				}
			}
			for i := 0; i < len(items); {
				j := i
				for j < len(items) && items[j].k == items[i].k {
					j++
				}
				kr := &handlerpb.KeyResult{Key: w.c.key(items[i].k), StateMutationNamespaces: w.c.mutations(items[i:j])}
				for _, it := range items[i:j] {
					if it.timer {
						kr.NewTimers = append(kr.NewTimers, timestamppb.New(w.c.tm(it.t)))
						res.Count("timers_set", 1)
					} else {
						res.Count("mutations", 1)
					}
				}
				resp.KeyResults = append(resp.KeyResults, kr)
				i = j
			}
			c.resp <- resp
			for _, it := range items {
				if !it.timer {
					r.sh.apply(it.k, it.n, it.e, it.v)
				}
			}
			if r.dead {
				return
			}
			select {
			case err := <-w.fg:
				if err != nil {
					r.machinery(si, fmt.Errorf("delivering the batch: %v", err))
					return
				}
			case <-time.After(dkvsched.Wait):
				r.machinery(si, fmt.Errorf("the operator does not finish the batch"))
				return
			}
			if err := w.sync(); err != nil { // a batch cut by its time-out is applied after the time-out call returned
				r.machinery(si, err)
				return
			}
			res.Count("batches", 1)
			if err := r.s.AfterWrite(); err != nil {
				r.machinery(si, err)
				return
			}
		case "Apply", "SetTimer", "BatchEnd":
			// already part of the handler's answer
		case "Bg":
			if _, err := r.s.Step(st.Str("lane")); err != nil {
				r.machinery(si, err)
				return
			}
		case "PopTimer":
			// the watermark passes the model's earliest timer: every timer up to it fires
			t := w.c.tb.Times[st.Int("t")-1]
			if t <= w.wm {
				break
			}
			w.wm = t
			if err := r.s.Relieve(1); err != nil {
				r.machinery(si, err)
				return
			}
			err := w.awaitServing(si, func() error {
				if err := w.send(&workerpb.Event{Event: &workerpb.Event_Watermark{Watermark: &workerpb.Watermark{Timestamp: timestamppb.New(time.Unix(0, t))}}}); err != nil {
					return err
				}
				if d := w.tm.Take(); d != nil { // expiries left in a partial batch
					d()
				}
				return w.sync()
			})
			if err != nil {
				r.machinery(si, err)
				return
			}
			if err := r.s.AfterWrite(); err != nil {
				r.machinery(si, err)
				return
			}
		case "Checkpoint":
			id := st.Int("id")
			n := len(w.job.Acks())
			if err := w.awaitServing(si, func() error { return w.send(opkit.Barrier(uint64(id))) }); err != nil {
				r.machinery(si, fmt.Errorf("barrier %d: %v", id, err))
				return
			}
			if len(w.job.Acks()) != n+1 {
				r.machinery(si, fmt.Errorf("barrier %d was not acknowledged", id))
				return
			}
			r.snap[id] = r.sh.clone()
			res.Count("checkpoints", 1)
			if err := r.s.AfterWrite(); err != nil {
				r.machinery(si, err)
				return
			}
		case "Restore":
			id := st.Int("id")
			var ck *snapshotpb.OperatorCheckpoint
			for _, a := range w.job.Acks() {
				if int(a.CheckpointId) == id {
					ck = a
				}
			}
			if ck == nil {
				r.machinery(si, fmt.Errorf("no acknowledgement for checkpoint %d", id))
				return
			}
			w.stop()
			r.s.SetMain(nil) // the new operator's database runs freely while it is opened
			var pan any
			func() {
				defer func() { pan = recover() }()
				if err := w.start([]*snapshotpb.OperatorCheckpoint{ck}); err != nil {
					pan = err
				}
			}()
			if pan != nil {
				r.violate(si, fmt.Sprintf("deploying an operator from checkpoint %d fails: %v", id, pan), nil, nil)
				return
			}
			if err := w.adopt(); err != nil {
				r.machinery(si, err)
				return
			}
			r.sh = r.snap[id].clone()
			w.wm = 0
			for i := 0; ; i++ {
				if err := w.send(&workerpb.Event{Event: &workerpb.Event_Watermark{Watermark: &workerpb.Watermark{Timestamp: timestamppb.New(time.Unix(0, 0))}}}); err == nil {
					break
				} else if i > 2000 {
					r.machinery(si, fmt.Errorf("restored operator does not accept events: %v", err))
					return
				}
				time.Sleep(100 * time.Microsecond)
			}
			res.Count("restores", 1)
		default:
			r.machinery(si, fmt.Errorf("unknown action %q", a))
			return
		}
		res.Steps++
	}
	if r.dead {
		return
	}
	// read everything back through the handler: one batch per key
	r.s.ArmScan(false)
	for k := 1; k <= r.c.nk && !r.dead; k++ {
		if err := r.s.Relieve(1); err != nil {
			r.machinery(len(beh), err)
			return
		}
		errc := make(chan error, 1)
		go func() {
			if err := w.send(keyed(w.c.key(k))); err != nil {
				errc <- err
				return
			}
			if w.maxSize > 1 {
				if d := w.tm.Take(); d != nil {
					d()
				}
			}
			errc <- nil
		}()
		select {
		case c := <-w.h.calls:
			for _, ks := range c.req.KeyStates {
				if id := w.c.keyID(ks.Key); id != 0 {
					r.checkFetch(len(beh), id, ks.StateEntryNamespaces, nil, "final read-back through the handler")
				}
			}
			c.resp <- &handlerpb.ProcessEventBatchResponse{}
		case <-time.After(dkvsched.Wait):
			r.machinery(len(beh), fmt.Errorf("final read-back: handler not called"))
			return
		}
		select {
		case <-errc:
		case <-time.After(dkvsched.Wait):
		}
	}
	if r.dead {
		return
	}
	res.Count("bg_steps", r.s.Steps)
	res.Count("bg_steps_forced", r.s.Forced)
	res.Count("bg_steps_skipped", r.s.Skipped)
	res.Executed++
}

func replay(bi int, beh []mbt.Step, in *mbt.Input, res *mbt.Result) {
	if in.CfgStr("Mode", "store") == "operator" {
		replayOperator(bi, beh, in, res)
		return
	}
	replayStore(bi, beh, in, res)
}

func main() {
	if len(os.Args) >= 3 {
		if in, err := mbt.ReadInput(os.Args[1]); err == nil && in.CfgStr("Mode", "") == "tables" {
			r := &mbt.Result{Samples: []any{tablesJSON()}}
			if err := mbt.WriteResult(os.Args[2], r); err != nil {
				fmt.Fprintln(os.Stderr, err)
				os.Exit(2)
			}
			return
		}
	}
	mbt.Main(replay)
}
