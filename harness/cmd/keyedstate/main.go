package main

import (
	"fmt"

	"reduction.dev/reduction/partitioning"
)

func main() {
	keys := []string{"a", "ab", "a\x00", "", "b", "\x00", "aa", "a\x00\x00"}
	for _, n := range []int{1, 2, 3, 4, 5, 6, 7, 8, 16, 256, 65535} {
		ks := partitioning.NewKeySpace(n, 1)
		fmt.Printf("%6d:", n)
		for _, k := range keys {
			fmt.Printf(" %q=%d", k, ks.KeyGroup([]byte(k)))
		}
		fmt.Println()
	}
}
