// store replays behaviours of spec/Store.tla on the real snapshots.Store
// (properties C12 and C13).
//
// The store runs over a harness-owned locations.StorageLocation that wraps a
// real locations.LocalDirectory in a temp dir: every Write / Remove parks at a
// scheduler gate and is executed (on the real directory) only when the model
// schedules it, so the harness decides the relative order of the asynchronous
// publication steps of consecutive checkpoints, and a crash is simply "no
// further storage operation is executed". A restart is a new Store over the
// same real directory followed by the real LoadCheckpoint. The retained-
// checkpoints channel is harness-owned; the notification goroutines park at the
// verif hook snapshots.notify so that their send order is a model decision too.
// With WithDkv every operator of the assembly owns a real dkv.DB (memory file
// system) that takes a DKV checkpoint before each counted acknowledgement and
// receives every delivered retained-set through UpdateRetainedCheckpoints.
//
// After every model step the observables of the real code are compared with
// what the property demands (violation) and, only then, with what the model
// predicts (drift: the behaviour is abandoned, never reported).
//
// Config flags select further arms:
//
//	Adversarial  behaviours of the model with Pre_NotifyUnordered: notification
//	             goroutines are released in an order the repaired design forbids;
//	             the code must serialise (no send within shortWait).
//	SlowSub      the store's retained-checkpoints channel is unbuffered (as in
//	             jobs.New) and its subscriber receives exactly one value per
//	             NotifyDeliver step: NotifySend only releases the goroutine, the
//	             order in which the sets reach the subscriber is observed at the
//	             deliveries.
//	AdvAck       behaviours of the model with Pre_AckUnlocked (an acknowledgement
//	             releases the lock between bookkeeping and finishSnapshot): every
//	             API call runs on its own goroutine, the stub splitter's
//	             Checkpoint() parks at the gate "spl.checkpoint", AckFinish
//	             releases it. Calls issued while an acknowledgement is parked
//	             there must block (serialised) or be refused; a second
//	             publication decision for the same id is a violation
//	             (PublishedOnce).
//
// The job -> operator boundary (RpcMode behaviours) is replayed on the real
// jobs.Job by harness/cmd/storejob.
package main

import (
	"bytes"
	"encoding/base64"
	"encoding/binary"
	"encoding/json"
	"errors"
	"fmt"
	"io"
	"iter"
	"log/slog"
	"math"
	"os"
	"path/filepath"
	"reflect"
	"runtime"
	"runtime/pprof"
	"sort"
	"strconv"
	"strings"
	"sync/atomic"
	"time"

	"google.golang.org/protobuf/proto"
	"reduction.dev/reduction/connectors"
	"reduction.dev/reduction/dkv"
	dkvstorage "reduction.dev/reduction/dkv/storage"
	"reduction.dev/reduction/proto/jobpb"
	"reduction.dev/reduction/proto/snapshotpb"
	"reduction.dev/reduction/storage/locations"
	"reduction.dev/reduction/storage/snapshots"
	"reduction.dev/reduction/util/verifhook"
	"verif/harness/gate"
	"verif/harness/mbt"
)

const (
	wait      = 3 * time.Second
	shortWait = 60 * time.Millisecond
)

var propOf = map[string]string{
	"PublishedWhole": "C12", "OnlyWhenAllAcked": "C12", "AtMostOnePending": "C12", "IdsStrictlyIncrease": "C12", "PublishedOnce": "C12",
	"LoadsNewest": "C13", "NewestSurvives": "C13", "RetainNamesNewest": "C13", "OperatorsKeepNewest": "C13", "CurrentIsNewest": "C13",
}

// which deviation switches of the model can explain which broken property
var devFor = map[string][]string{
	"PublishedWhole":      {"Pre_DupSrAppended"},
	"LoadsNewest":         {"Pre_ListLexical"},
	"IdsStrictlyIncrease": {"Pre_ListLexical", "Pre_LateClobbers"},
	"CurrentIsNewest":     {"Pre_LateClobbers"},
	"NewestSurvives":      {"Pre_LateClobbers"},
	"RetainNamesNewest":   {"Pre_LateClobbers", "Pre_NotifyUnordered"},
	"OperatorsKeepNewest": {"Pre_RetainDropsNewer", "Pre_LateClobbers", "Pre_NotifyUnordered"},
}

// ---------------------------------------------------------------- storage --

var errCrashed = errors.New("storage location is gone (crash)")

// sop is one gated storage operation.
type sop struct {
	kind  string // "write" | "remove"
	inc   int
	path  string
	paths []string
	data  []byte
	exec  bool
	uri   string
	err   error
}

// gloc is the harness-owned StorageLocation: a gate + log in front of a real
// LocalDirectory.
type gloc struct {
	ld    *locations.LocalDirectory
	s     *gate.Sched // nil: pass-through (set-up stores)
	inc   int
	dead  atomic.Bool
	nops  atomic.Int64
	ndone atomic.Int64
	// injected listing fault
	listFailAt atomic.Int64
	listFired  atomic.Bool
}

func (g *gloc) Write(path string, r io.Reader) (string, error) {
	data, err := io.ReadAll(r)
	if err != nil {
		return "", err
	}
	g.nops.Add(1)
	defer g.ndone.Add(1)
	if g.dead.Load() {
		return "", errCrashed
	}
	if g.s == nil {
		return g.ld.Write(path, bytes.NewReader(data))
	}
	op := &sop{kind: "write", inc: g.inc, path: path, data: data}
	g.s.At("loc.write", op)
	if !op.exec {
		return "", errCrashed
	}
	return op.uri, op.err
}

func (g *gloc) Remove(paths ...string) error {
	g.nops.Add(1)
	defer g.ndone.Add(1)
	if g.dead.Load() {
		return errCrashed
	}
	if g.s == nil {
		return g.ld.Remove(paths...)
	}
	op := &sop{kind: "remove", inc: g.inc, paths: append([]string(nil), paths...)}
	g.s.At("loc.remove", op)
	if !op.exec {
		return errCrashed
	}
	return op.err
}

func (g *gloc) Read(path string) ([]byte, error)  { return g.ld.Read(path) }
// List with an injected storage fault: listFailAt = k > 0 makes the listing break off with an error in place of its
// k-th entry (both real locations end a failed listing with one terminal error)
func (g *gloc) List() iter.Seq2[string, error] {
	k := g.listFailAt.Load()
	if k <= 0 {
		return g.ld.List()
	}
	return func(yield func(string, error) bool) {
		i := int64(0)
		for p, err := range g.ld.List() {
			if i++; i == k {
				g.listFired.Store(true)
				yield("", errListFault)
				return
			}
			if !yield(p, err) {
				return
			}
		}
	}
}

var errListFault = errors.New("injected storage fault: listing failed (connection reset by peer)")
func (g *gloc) URI(path string) (string, error)   { return g.ld.URI(path) }
func (g *gloc) Copy(src string, dst string) error { return g.ld.Copy(src, dst) }

var _ locations.StorageLocation = (*gloc)(nil)

// splitter is the stub SourceSplitter: Checkpoint() is called synchronously by
// the acknowledgement that completes a checkpoint, which makes "the store
// decided to publish" observable without waiting.
//
// With a scheduler (AdvAck arm) Checkpoint() parks at the gate "spl.checkpoint":
// the acknowledgement that decided to publish is held inside finishSnapshot
// while the harness issues further calls from other goroutines.
type splitter struct {
	connectors.UnimplementedSourceSplitter
	calls atomic.Int64
	s     *gate.Sched
}

func (s *splitter) Checkpoint() []byte {
	n := s.calls.Add(1)
	if s.s != nil {
		s.s.At("spl.checkpoint", n)
	}
	return []byte("spl-" + strconv.FormatInt(n, 10))
}

// ------------------------------------------------------------ operator DKV --

type opdb struct {
	db    *dkv.DB
	fs    *dkvstorage.MemoryFilesystem
	taken map[uint64]bool
}

func newOpdb() *opdb {
	fs := dkvstorage.NewMemoryFilesystem()
	return &opdb{db: dkv.Open(dkv.DBOptions{FileSystem: fs, Logger: slog.New(slog.NewTextHandler(io.Discard, nil))}, nil), fs: fs, taken: map[uint64]bool{}}
}

func (o *opdb) checkpoint(id uint64) error {
	o.db.Put([]byte("k"+strconv.FormatUint(id, 10)), []byte("v"))
	_, err := o.db.Checkpoint(id)()
	o.taken[id] = true
	return err
}

func (o *opdb) retain(ids []uint64) (panicked string, err error) {
	defer func() {
		if r := recover(); r != nil {
			panicked = fmt.Sprint(r)
		}
	}()
	err = o.db.UpdateRetainedCheckpoints(ids)
	return
}

// ids lists the checkpoint ids of the DB's saved checkpoints document.
func (o *opdb) ids() ([]uint64, error) {
	if !o.fs.Exists("checkpoints") {
		return nil, nil
	}
	data, err := dkvstorage.ReadAll(o.fs.Open("checkpoints"))
	if err != nil {
		return nil, err
	}
	var doc struct {
		Checkpoints []struct {
			ID uint64 `json:"id"`
		} `json:"checkpoints"`
	}
	if err := json.Unmarshal(data, &doc); err != nil {
		return nil, err
	}
	var out []uint64
	for _, c := range doc.Checkpoints {
		out = append(out, c.ID)
	}
	return out, nil
}

// --------------------------------------------------------------- harness --

type harness struct {
	in     *mbt.Input
	base   string
	ops    []string
	srs    []string
	start  uint64
	dkv    bool
	devs   map[string]bool
	advers bool
	advAck bool              // AdvAck arm: calls are issued from their own goroutines, Checkpoint() is gated
	slow   bool              // SlowSub arm: the retained-checkpoints channel is unbuffered and its subscriber receives only at NotifyDeliver
	names  map[uint64]string // id -> relative path of its snapshot file (learned from the real store)
	ids    map[string]uint64 // relative path -> id
	seeds  map[uint64][]byte // id -> file content produced by the real store
	ndirs  int
}

type held struct {
	a   *gate.Arrival
	op  *sop
	id  uint64   // write: decoded checkpoint id; notify: id
	ids []uint64 // remove: ids of the paths (0 = unknown path)
	cp  *snapshotpb.JobCheckpoint

	seen        bool
	spawnNewest uint64 // notify: the newest completed checkpoint when the goroutine was spawned
}

// incarnation is one Store process.
type incarnation struct {
	n         int
	store     *snapshots.Store
	loc       *gloc
	retained  chan []uint64
	events    chan string
	spl       *splitter
	dbs       map[string]*opdb
	delivered [][]uint64
	writes    []*held
	removes   []*held
	notifs    []*held

	sentNewest []uint64 // per notification sent and not yet delivered: spawnNewest of its goroutine

	// SlowSub: the store sends on the unbuffered `sub`; the subscriber goroutine takes
	// one value per permit and hands it to `retained`
	sub     chan []uint64
	permits chan struct{}
	quit    chan struct{}

	// AdvAck: acknowledgement calls parked inside splitter.Checkpoint(), and the ids
	// whose publication this incarnation's store has decided
	parked  []*ackCall
	decided map[uint64]bool
}

// ackCall is an acknowledgement call held inside finishSnapshot (AdvAck arm).
type ackCall struct {
	k    int // the model's name of the call (Store.tla fin[..].k)
	id   uint64
	arr  *gate.Arrival
	done chan any
	pub  map[string]any
}

type run struct {
	h    *harness
	dir  string
	ld   *locations.LocalDirectory
	s    *gate.Sched
	inc  *incarnation
	ninc int
	bi   int
	res  *mbt.Result

	listed []uint64 // snapshot ids in the directory as of the last storage operation

	spIDs       []uint64        // checkpoints published as savepoints so far (see writeDkvStubs)
	splArrivals []*gate.Arrival // AdvAck: arrivals at splitter.Checkpoint() seen by collect, not yet attributed
}

type drift struct{ msg string }

func (d *drift) Error() string        { return d.msg }
func driftf(f string, a ...any) error { return &drift{fmt.Sprintf(f, a...)} }

var errSerialised = errors.New("serialised by the code")

type violation struct {
	tag      string
	what     string
	expected any
	observed any
	pred     bool // observed equals the model's prediction
}

func (v *violation) Error() string { return v.tag + ": " + v.what }

func strList(v any) []string {
	arr, _ := v.([]any)
	out := []string{}
	for _, x := range arr {
		s, _ := x.(string)
		out = append(out, s)
	}
	sort.Strings(out)
	return out
}

func u64s(v any) []uint64 {
	arr, _ := v.([]any)
	out := []uint64{}
	for _, x := range arr {
		f, _ := x.(float64)
		out = append(out, uint64(f))
	}
	return out
}

func sortedU(x []uint64) []uint64 {
	y := append([]uint64{}, x...)
	sort.Slice(y, func(i, j int) bool { return y[i] < y[j] })
	return y
}

func maxU(x []uint64) uint64 {
	var m uint64
	for _, v := range x {
		if v > m {
			m = v
		}
	}
	return m
}

func hasU(x []uint64, v uint64) bool {
	for _, y := range x {
		if y == v {
			return true
		}
	}
	return false
}

// segment mirrors snapshots.pathSegment (cross-checked in seed()).
func segment(id uint64) string {
	buf := make([]byte, 8)
	binary.BigEndian.PutUint64(buf, math.MaxUint64-id)
	return base64.RawURLEncoding.EncodeToString(buf)
}

func tok(t uint64) []byte { return []byte(strconv.FormatUint(t, 10)) }

func newHarness(in *mbt.Input) (*harness, error) {
	h := &harness{in: in, names: map[uint64]string{}, ids: map[string]uint64{}, seeds: map[uint64][]byte{}, devs: map[string]bool{}}
	h.ops, h.srs = strList(in.Config["Ops"]), strList(in.Config["Srs"])
	h.start = uint64(in.CfgInt("StartId", 0))
	h.dkv = in.CfgBool("WithDkv", false)
	h.advers = in.CfgBool("Adversarial", false)
	h.advAck = in.CfgBool("AdvAck", false)
	h.slow = in.CfgBool("SlowSub", false)
	for _, d := range strList(in.Config["Switches"]) {
		h.devs[d] = true
	}
	root := os.Getenv("VERIF_BUILD")
	if root == "" {
		root = os.TempDir()
	}
	base, err := os.MkdirTemp(filepath.Join(root), "store-tmp-")
	if err != nil {
		return nil, err
	}
	h.base = base
	return h, nil
}

func (h *harness) newDir() string {
	h.ndirs++
	return filepath.Join(h.base, strconv.Itoa(h.ndirs)) // created by the first write
}

// dkvStub is the DKV checkpoints document an operator ack points to; the file
// is only read when a savepoint artifact is created, so it is written then.
func dkvStub(dir, op string) string { return filepath.Join(dir, "dkv", op, "checkpoints") }

// The savepoint artifact copies the files of the DKV checkpoint that belongs to
// the job checkpoint being published (recovery.ListCheckpointFiles looks the id
// up in the document), so the document lists every id published as a savepoint
// so far.
func writeDkvStubs(dir string, ops []string, ids []uint64) {
	var entries []string
	for _, id := range ids {
		entries = append(entries, fmt.Sprintf(`{"id":%d,"wals":[],"levels":[],"refs":[],"last_seq_num":0}`, id))
	}
	doc := []byte(`{"checkpoints":[` + strings.Join(entries, ",") + `]}`)
	for _, op := range ops {
		p := dkvStub(dir, op)
		os.MkdirAll(filepath.Dir(p), 0o755)
		os.WriteFile(p, doc, 0o644)
	}
}

func newStore(loc locations.StorageLocation, retained chan []uint64, events chan string, spl *splitter) *snapshots.Store {
	st := snapshots.NewStore(&snapshots.NewStoreParams{
		FileStore: loc, SavepointsPath: "savepoints", CheckpointsPath: "checkpoints",
		CheckpointEvents: events, ErrChan: make(chan error, 64), RetainedCheckpointsUpdated: retained,
	})
	st.RegisterSourceSplitter(spl)
	return st
}

// seed makes the REAL store produce the snapshot file of checkpoint id (so that
// its name comes from the real pathSegment) and caches name and content.
func (h *harness) seed(id uint64) (string, []byte, error) {
	if b, ok := h.seeds[id]; ok {
		return h.names[id], b, nil
	}
	dir := h.newDir()
	defer os.RemoveAll(dir)
	prev := &snapshotpb.JobCheckpoint{Id: id - 1, SourceCheckpoints: []*snapshotpb.SourceCheckpoint{{CheckpointId: id - 1}}}
	pb, _ := proto.Marshal(prev)
	os.MkdirAll(filepath.Join(dir, "checkpoints"), 0o755)
	// the predecessor must carry a well-formed name (the store decodes ids from
	// names); the publication of `id` removes it again, which cross-checks segment()
	seedFile := filepath.Join(dir, "checkpoints", "job-"+segment(id-1)+".snapshot")
	if err := os.WriteFile(seedFile, pb, 0o644); err != nil {
		return "", nil, err
	}
	loc := &gloc{ld: locations.NewLocalDirectory(dir)}
	events := make(chan string, 4)
	st := newStore(loc, nil, events, &splitter{})
	if err := st.LoadCheckpoint(); err != nil {
		return "", nil, fmt.Errorf("seed load: %w", err)
	}
	got, err := st.CreateCheckpoint(h.ops, h.srs)
	if err == nil && got < id {
		return "", nil, &violation{tag: "IdsStrictlyIncrease", what: fmt.Sprintf("a store that resumed from the snapshot of checkpoint %d handed out checkpoint id %d", id-1, got),
			expected: fmt.Sprintf("> %d", id-1), observed: got}
	}
	if err != nil || got != id {
		return "", nil, fmt.Errorf("seed: CreateCheckpoint after loading %d returned %d, %v", id-1, got, err)
	}
	for _, op := range h.ops {
		if err := st.AddOperatorSnapshot(&snapshotpb.OperatorCheckpoint{CheckpointId: id, OperatorId: op, DkvFileUri: "dkv/" + op + "/checkpoints", KeyGroupRange: &snapshotpb.KeyGroupRange{}}); err != nil {
			return "", nil, err
		}
	}
	for i, sr := range h.srs {
		if err := st.AddSourceSnapshot(&jobpb.SourceRunnerCheckpointCompleteRequest{CheckpointId: id, SourceRunnerId: sr, SplitStates: [][]byte{tok(id*100 + 70 + uint64(i))}}); err != nil {
			return "", nil, err
		}
	}
	var uri string
	select {
	case uri = <-events:
	case <-time.After(wait):
		return "", nil, fmt.Errorf("seed: checkpoint %d was not published", id)
	}
	// the spawned Remove of the predecessor must delete the seed file
	for dl := time.Now().Add(wait); ; time.Sleep(50 * time.Microsecond) {
		if _, err := os.Stat(seedFile); err != nil {
			break
		}
		if time.Now().After(dl) {
			return "", nil, fmt.Errorf("seed: the store did not remove %s as the snapshot of checkpoint %d: harness segment() differs from the store's pathSegment", seedFile, id-1)
		}
	}
	data, err := os.ReadFile(uri)
	if err != nil {
		return "", nil, err
	}
	rel, err := filepath.Rel(dir, uri)
	if err != nil {
		return "", nil, err
	}
	h.names[id], h.ids[rel], h.seeds[id] = rel, id, data
	return rel, data, nil
}

func (h *harness) materialise(dir string, ids []uint64) error {
	for _, id := range ids {
		rel, data, err := h.seed(id)
		if err != nil {
			return err
		}
		p := filepath.Join(dir, rel)
		os.MkdirAll(filepath.Dir(p), 0o755)
		if err := os.WriteFile(p, data, 0o644); err != nil {
			return err
		}
	}
	return nil
}

// dirState decodes every *.snapshot of the real directory, in listing order.
func (r *run) dirState() (idsInListOrder []uint64, byID map[uint64]*snapshotpb.JobCheckpoint, err error) {
	byID = map[uint64]*snapshotpb.JobCheckpoint{}
	for p, e := range r.ld.List() {
		if e != nil {
			return nil, nil, e
		}
		if filepath.Ext(p) != ".snapshot" {
			continue
		}
		b, e := os.ReadFile(p)
		if e != nil {
			return nil, nil, e
		}
		cp := &snapshotpb.JobCheckpoint{}
		if e := proto.Unmarshal(b, cp); e != nil {
			return nil, nil, e
		}
		idsInListOrder = append(idsInListOrder, cp.Id)
		byID[cp.Id] = cp
	}
	return
}

func (r *run) curID() uint64 {
	if cp := r.inc.store.CurrentCheckpoint(); cp != nil {
		return cp.Id
	}
	return 0
}

// startIncarnation = NewStore over the same directory + LoadCheckpoint.
func (r *run) startIncarnation() error {
	r.ninc++
	inc := &incarnation{n: r.ninc, retained: make(chan []uint64, 256), events: make(chan string, 256), spl: &splitter{}, dbs: map[string]*opdb{},
		decided: map[uint64]bool{}, quit: make(chan struct{})}
	inc.loc = &gloc{ld: r.ld, s: r.s, inc: r.ninc}
	if r.h.advAck {
		inc.spl.s = r.s
	}
	toStore := inc.retained
	if r.h.slow {
		// a busy subscriber: nothing is received from the store's channel until the model delivers
		inc.sub, inc.permits = make(chan []uint64), make(chan struct{}, 256)
		toStore = inc.sub
		quit := inc.quit
		go func() {
			defer func() { // the incarnation is over: let the senders that are left finish
				for {
					select {
					case <-inc.sub:
					case <-time.After(20 * time.Millisecond):
						return
					}
				}
			}()
			for {
				select {
				case <-inc.permits:
				case <-quit:
					return
				}
				select {
				case v := <-inc.sub:
					inc.retained <- v
				case <-quit:
					return
				}
			}
		}()
	}
	inc.store = newStore(inc.loc, toStore, inc.events, inc.spl)
	r.inc = inc
	if r.h.in.CfgBool("ListFaults", false) {
		// the listing of the restart breaks off at its 1st..4th entry (by behaviour and incarnation); with fewer entries
		// in storage nothing happens
		inc.loc.listFailAt.Store(int64((r.bi+r.ninc)%4) + 1)
	}
	err := inc.store.LoadCheckpoint()
	inc.loc.listFailAt.Store(0)
	if inc.loc.listFired.Load() {
		r.res.Count("restarts_with_a_failing_listing", 1)
		if err != nil {
			// the start-up fails and is tried again (orchestrator): allowed, nothing was resumed
			r.res.Count("failing_listing_reported_as_error", 1)
			err = inc.store.LoadCheckpoint()
		}
		// else the store started although it could not see all of its storage: what it resumed from is judged as for
		// every restart (LoadsNewest)
	}
	if err != nil {
		return driftf("LoadCheckpoint: %v", err)
	}
	if r.h.dkv {
		cur := r.curID()
		for _, op := range r.h.ops {
			db := newOpdb()
			if cur != 0 {
				if err := db.checkpoint(cur); err != nil {
					return err
				}
			}
			inc.dbs[op] = db
		}
	}
	return nil
}

// crash: nothing of the current incarnation is executed any more.
func (r *run) crash() {
	inc := r.inc
	inc.loc.dead.Store(true)
	for _, l := range [][]*held{inc.writes, inc.removes, inc.notifs} {
		for _, x := range l {
			x.a.Release()
		}
	}
	for _, c := range inc.parked {
		c.arr.Release()
	}
	inc.writes, inc.removes, inc.notifs, inc.parked = nil, nil, nil, nil
	if inc.quit != nil {
		close(inc.quit)
		inc.quit = nil
	}
}

// receive takes the next retained-set the subscriber has got (SlowSub: lets the
// subscriber receive one first).
func (inc *incarnation) receive(d time.Duration) ([]uint64, bool) {
	if inc.permits != nil {
		inc.permits <- struct{}{}
	} else {
		d = 0
	}
	select {
	case got := <-inc.retained:
		return got, true
	default:
	}
	if d == 0 {
		return nil, false
	}
	select {
	case got := <-inc.retained:
		return got, true
	case <-time.After(d):
		return nil, false
	}
}

// file classifies an arrival.
func (r *run) file(a *gate.Arrival) error {
	switch a.Point {
	case "loc.write":
		op := a.Args[0].(*sop)
		if op.inc != r.inc.n {
			a.Release()
			return nil
		}
		cp := &snapshotpb.JobCheckpoint{}
		if filepath.Ext(op.path) == ".snapshot" {
			if err := proto.Unmarshal(op.data, cp); err != nil {
				return fmt.Errorf("written snapshot does not decode: %v", err)
			}
			r.h.ids[op.path] = cp.Id
			r.h.names[cp.Id] = op.path
		}
		r.inc.writes = append(r.inc.writes, &held{a: a, op: op, id: cp.Id, cp: cp})
	case "loc.remove":
		op := a.Args[0].(*sop)
		if op.inc != r.inc.n {
			a.Release()
			return nil
		}
		x := &held{a: a, op: op}
		for _, p := range op.paths {
			x.ids = append(x.ids, r.h.ids[p])
		}
		r.inc.removes = append(r.inc.removes, x)
	case "snapshots.notify":
		id, _ := a.Args[0].(uint64)
		r.inc.notifs = append(r.inc.notifs, &held{a: a, id: id})
	case "spl.checkpoint":
		r.splArrivals = append(r.splArrivals, a)
	default:
		a.Release()
	}
	return nil
}

// collect files every arrival seen so far; then waits until pred holds or d elapsed.
func (r *run) collect(pred func() bool, d time.Duration) (bool, error) {
	deadline := time.Now().Add(d)
	for {
		for {
			a, err := r.s.Await(func(*gate.Arrival) bool { return true }, 0)
			if err != nil {
				break
			}
			if err := r.file(a); err != nil {
				return false, err
			}
		}
		if pred == nil || pred() {
			return true, nil
		}
		rem := time.Until(deadline)
		if rem <= 0 {
			return false, nil
		}
		a, err := r.s.Await(func(*gate.Arrival) bool { return true }, rem)
		if err != nil {
			return pred(), nil
		}
		if err := r.file(a); err != nil {
			return false, err
		}
	}
}

func (h *harness) known(tag string, bad []string, pred bool) string {
	if !pred {
		return ""
	}
	flagged := false
	for _, b := range bad {
		if b == tag {
			flagged = true
		}
	}
	if !flagged {
		return ""
	}
	for _, d := range devFor[tag] {
		if h.devs[d] {
			return d
		}
	}
	return ""
}

// ------------------------------------------------------------ comparisons --

func removeSets(l []*held) [][]uint64 {
	out := [][]uint64{}
	for _, x := range l {
		out = append(out, sortedU(x.ids))
	}
	sort.Slice(out, func(i, j int) bool { return fmt.Sprint(out[i]) < fmt.Sprint(out[j]) })
	return out
}

func modelRemoveSets(st mbt.Step) [][]uint64 {
	out := [][]uint64{}
	for _, d := range st.List("d") {
		m, _ := d.(map[string]any)
		out = append(out, sortedU(u64s(m["ids"])))
	}
	sort.Slice(out, func(i, j int) bool { return fmt.Sprint(out[i]) < fmt.Sprint(out[j]) })
	return out
}

func heldIDs(l []*held) []uint64 {
	out := []uint64{}
	for _, x := range l {
		out = append(out, x.id)
	}
	return out
}

// checkContent judges the snapshot a publication writes (PublishedWhole).
func (r *run) checkContent(cp *snapshotpb.JobCheckpoint, pub map[string]any, splWant string) *violation {
	id := uint64(pub["id"].(float64))
	obs := map[string]any{"id": cp.Id}
	var opIDs []string
	for _, oc := range cp.OperatorCheckpoints {
		opIDs = append(opIDs, oc.OperatorId)
		if oc.CheckpointId != cp.Id {
			return &violation{tag: "PublishedWhole", what: fmt.Sprintf("published checkpoint %d carries an operator entry of checkpoint %d", cp.Id, oc.CheckpointId)}
		}
	}
	sort.Strings(opIDs)
	obs["ops"] = opIDs
	var states []uint64
	if len(cp.SourceCheckpoints) != 1 {
		return &violation{tag: "PublishedWhole", what: fmt.Sprintf("published checkpoint has %d source checkpoints", len(cp.SourceCheckpoints))}
	}
	for _, s := range cp.SourceCheckpoints[0].SplitStates {
		v, _ := strconv.ParseUint(string(s), 10, 64)
		states = append(states, v)
	}
	states = sortedU(states)
	obs["states"] = states
	predStates := sortedU(u64s(pub["states"]))
	pred := reflect.DeepEqual(states, predStates)
	if cp.Id != id {
		return &violation{tag: "PublishedWhole", what: "published snapshot carries another checkpoint id", expected: id, observed: cp.Id}
	}
	if !reflect.DeepEqual(opIDs, r.h.ops) {
		return &violation{tag: "PublishedWhole", what: "published checkpoint does not hold exactly one entry per operator of the assembly", expected: r.h.ops, observed: opIDs, pred: pred}
	}
	// demanded: per runner the split states of exactly one of its acknowledgements of this checkpoint
	cands, _ := pub["cands"].(map[string]any)
	allowed := [][]uint64{{}}
	for _, sr := range r.h.srs {
		acks, _ := cands[sr].([]any)
		var next [][]uint64
		for _, base := range allowed {
			for _, a := range acks {
				next = append(next, append(append([]uint64{}, base...), u64s(a)...))
			}
		}
		allowed = next
	}
	ok := false
	for _, a := range allowed {
		if reflect.DeepEqual(sortedU(a), states) {
			ok = true
		}
	}
	if !ok {
		return &violation{tag: "PublishedWhole", what: "published split states are not exactly the states of one counted acknowledgement per source runner",
			expected: map[string]any{"one_of_per_runner": cands}, observed: states, pred: pred}
	}
	if got := string(cp.SourceCheckpoints[0].SplitterState); got != splWant {
		return &violation{tag: "PublishedWhole", what: "published splitter state is not the splitter's checkpoint taken at completion", expected: splWant, observed: got}
	}
	if !pred {
		return &violation{tag: "", what: fmt.Sprintf("states %v predicted %v", states, predStates)} // drift marker
	}
	return nil
}

// ------------------------------------------------------------------- step --

// afterAck handles the common tail of an acknowledgement: did the store decide to publish?
func (r *run) afterAck(st mbt.Step, splBefore int64) error {
	pub := st.Map("pub")
	want := pub != nil && pub["id"].(float64) != 0
	completed := r.inc.spl.calls.Load() > splBefore
	nw := len(r.inc.writes)
	if completed {
		if ok, err := r.collect(func() bool { return len(r.inc.writes) > nw }, wait); err != nil {
			return err
		} else if !ok {
			return driftf("store completed a checkpoint but no snapshot write arrived")
		}
	}
	if completed && !want {
		x := r.inc.writes[len(r.inc.writes)-1]
		return &violation{tag: "OnlyWhenAllAcked", what: fmt.Sprintf("checkpoint %d was published although not every operator and source runner of the assembly has acknowledged it (pending id per call history: %d)", x.id, st.Int("pid")),
			observed: map[string]any{"published_id": x.id}}
	}
	if !completed && want {
		return driftf("all nodes acknowledged checkpoint %v but the store did not complete it", pub["id"])
	}
	if completed {
		x := r.inc.writes[len(r.inc.writes)-1]
		if v := r.checkContent(x.cp, pub, "spl-"+strconv.FormatInt(r.inc.spl.calls.Load(), 10)); v != nil {
			if v.tag == "" {
				return driftf("%s", v.what)
			}
			return v
		}
	}
	return nil
}

// invoke runs one call of the store's API. Normally synchronously. In the AdvAck
// arm the call runs on its own goroutine and invoke comes back when the call has
// returned ("returned"), has parked inside splitter.Checkpoint() ("parked": it
// decided to publish), or -- only while another call is parked there -- has
// not come back within shortWait ("blocked": the store serialises it behind the
// parked call).
func (r *run) invoke(f func() any) (outcome string, res any, arr *gate.Arrival, done chan any) {
	if !r.h.advAck {
		return "returned", f(), nil, nil
	}
	done = make(chan any, 1)
	go func() { done <- f() }()
	d := wait
	if len(r.inc.parked) > 0 {
		d = shortWait
	}
	deadline := time.Now().Add(d)
	for {
		select {
		case res = <-done:
			return "returned", res, nil, done
		default:
		}
		if len(r.splArrivals) > 0 {
			arr, r.splArrivals = r.splArrivals[0], r.splArrivals[1:]
			return "parked", nil, arr, done
		}
		if a, err := r.s.Await(gate.Point("spl.checkpoint"), 100*time.Microsecond); err == nil {
			return "parked", nil, a, done
		}
		if time.Now().After(deadline) {
			return "blocked", nil, nil, done
		}
	}
}

// ackAdv judges an acknowledgement of the AdvAck arm.
func (r *run) ackAdv(st mbt.Step, id uint64, who string, outcome string, arr *gate.Arrival, done chan any) error {
	inc := r.inc
	pub := st.Map("pub")
	want := pub != nil && pub["id"].(float64) != 0
	switch outcome {
	case "blocked":
		if len(inc.parked) == 0 {
			return driftf("acknowledgement of %s for checkpoint %d did not return", who, id)
		}
		return errSerialised
	case "returned":
		if want && len(inc.parked) > 0 {
			return errSerialised // refused or ignored inside the window: the code does not admit the schedule
		}
		if want {
			return driftf("all nodes acknowledged checkpoint %v but the store did not complete it", pub["id"])
		}
		return nil
	}
	// parked inside splitter.Checkpoint(): the store decided to publish checkpoint `id`
	if inc.decided[id] {
		var inflight []int
		for _, c := range inc.parked {
			inflight = append(inflight, c.k)
		}
		arr.Release()
		return &violation{tag: "PublishedOnce", what: fmt.Sprintf("checkpoint %d is published a second time: an acknowledgement of %s arriving while the acknowledgement that completed the checkpoint was still inside finishSnapshot (splitter.Checkpoint()) found the complete snapshot pending and completed it again", id, who),
			expected: "at most one publication per checkpoint id", observed: map[string]any{"id": id, "calls_inside_finishSnapshot": inflight}, pred: st.Map("pub")["again"] == true}
	}
	if !want {
		arr.Release()
		return &violation{tag: "OnlyWhenAllAcked", what: fmt.Sprintf("checkpoint %d was published although not every operator and source runner of the assembly has acknowledged it (pending id per call history: %d)", id, st.Int("pid")),
			observed: map[string]any{"published_id": id}}
	}
	inc.decided[id] = true
	k := 0
	if f, ok := pub["spl"].(float64); ok {
		k = int(f)
	}
	inc.parked = append(inc.parked, &ackCall{k: k, id: id, arr: arr, done: done, pub: pub})
	return nil
}

// finishAdv lets a parked acknowledgement leave splitter.Checkpoint() and judges what it publishes.
func (r *run) finishAdv(c *ackCall) error {
	inc := r.inc
	nw := len(inc.writes)
	c.arr.Release()
	select {
	case <-c.done:
	case <-time.After(wait):
		return driftf("acknowledgement for checkpoint %d did not return from finishSnapshot", c.id)
	}
	if ok, err := r.collect(func() bool { return len(inc.writes) > nw }, wait); err != nil {
		return err
	} else if !ok {
		return driftf("store completed checkpoint %d but no snapshot write arrived", c.id)
	}
	x := inc.writes[len(inc.writes)-1]
	n, _ := c.arr.Args[0].(int64)
	if v := r.checkContent(x.cp, c.pub, "spl-"+strconv.FormatInt(n, 10)); v != nil {
		if v.tag == "" {
			return driftf("%s", v.what)
		}
		return v
	}
	return nil
}

func (r *run) step(st mbt.Step) error {
	inc := r.inc
	h := r.h
	switch st.Str("a") {
	case "Create":
		type createRes struct {
			id      uint64
			created bool
			err     error
		}
		outcome, res, _, _ := r.invoke(func() any {
			var c createRes
			if st.Bool("sp") {
				c.id, c.created, c.err = inc.store.CreateSavepoint(h.ops, h.srs)
			} else {
				c.id, c.err = inc.store.CreateCheckpoint(h.ops, h.srs)
				c.created = c.err == nil
			}
			return c
		})
		if outcome != "returned" {
			if len(inc.parked) == 0 {
				return driftf("Create did not return")
			}
			return errSerialised
		}
		id, created, err := res.(createRes).id, res.(createRes).created, res.(createRes).err
		obs := map[string]any{"id": id, "created": created, "err": fmt.Sprint(err)}
		if len(inc.parked) > 0 {
			// issued while an acknowledgement is inside finishSnapshot: the schedule belongs to a design that
			// releases the lock there; a store that answers otherwise than that design does not admit it
			var matches bool
			switch st.Str("ret") {
			case "created":
				matches = err == nil && created && id == uint64(st.Int("id"))
			case "inprogress":
				matches = err != nil
			case "folded":
				matches = err == nil && !created && id == uint64(st.Int("id"))
			}
			if !matches {
				if err == nil && created && id <= uint64(st.Int("floor")) {
					return &violation{tag: "IdsStrictlyIncrease", what: fmt.Sprintf("checkpoint id %d handed out although id %d was already handed out or published", id, st.Int("floor")),
						expected: fmt.Sprintf("> %d", st.Int("floor")), observed: id}
				}
				return errSerialised
			}
		}
		switch st.Str("ret") {
		case "created":
			if err != nil || !created {
				return driftf("Create: model hands out %d, store says %v", st.Int("id"), obs)
			}
			if id <= uint64(st.Int("floor")) {
				return &violation{tag: "IdsStrictlyIncrease", what: fmt.Sprintf("checkpoint id %d handed out although id %d was already handed out or published", id, st.Int("floor")),
					expected: fmt.Sprintf("> %d", st.Int("floor")), observed: id, pred: id == uint64(st.Int("id"))}
			}
			if id != uint64(st.Int("id")) {
				return driftf("Create: id %d predicted %d", id, st.Int("id"))
			}
		case "inprogress":
			if err == nil && (created || !st.Bool("sp")) {
				return &violation{tag: "AtMostOnePending", what: "a second checkpoint was started while one is in progress", expected: "error", observed: obs}
			}
			if err == nil {
				return driftf("Create: savepoint folded where the model expects an error: %v", obs)
			}
		case "folded":
			if err == nil && created {
				return &violation{tag: "AtMostOnePending", what: "a savepoint started a second checkpoint while one is in progress", expected: st.Int("id"), observed: obs}
			}
			if err != nil || id != uint64(st.Int("id")) {
				return driftf("Create: fold into %d predicted, got %v", st.Int("id"), obs)
			}
		}
	case "OpAck":
		op, id := st.Str("op"), uint64(st.Int("id"))
		if h.dkv && st.Bool("dkv") {
			if err := inc.dbs[op].checkpoint(id); err != nil {
				return fmt.Errorf("dkv checkpoint: %v", err)
			}
		}
		before := inc.spl.calls.Load()
		outcome, _, arr, done := r.invoke(func() any {
			return inc.store.AddOperatorSnapshot(&snapshotpb.OperatorCheckpoint{CheckpointId: id, OperatorId: op,
				DkvFileUri: dkvStub(r.dir, op), KeyGroupRange: &snapshotpb.KeyGroupRange{Start: 0, End: 1}})
		})
		if h.advAck {
			return r.ackAdv(st, id, "operator "+op, outcome, arr, done)
		}
		return r.afterAck(st, before)
	case "SrAck":
		var states [][]byte
		for _, t := range st.Ints("states") {
			states = append(states, tok(uint64(t)))
		}
		before := inc.spl.calls.Load()
		outcome, _, arr, done := r.invoke(func() any {
			return inc.store.AddSourceSnapshot(&jobpb.SourceRunnerCheckpointCompleteRequest{CheckpointId: uint64(st.Int("id")), SourceRunnerId: st.Str("sr"), SplitStates: states})
		})
		if h.advAck {
			return r.ackAdv(st, uint64(st.Int("id")), "source runner "+st.Str("sr"), outcome, arr, done)
		}
		return r.afterAck(st, before)
	case "AckFinish":
		k := st.Int("k")
		for i, c := range inc.parked {
			if c.k == k {
				inc.parked = append(inc.parked[:i:i], inc.parked[i+1:]...)
				return r.finishAdv(c)
			}
		}
		return driftf("AckFinish(%d): no such acknowledgement is inside finishSnapshot", k)
	case "PublishWrite":
		id := uint64(st.Int("id"))
		var x *held
		for i, w := range inc.writes {
			if w.id == id {
				x = w
				inc.writes = append(inc.writes[:i:i], inc.writes[i+1:]...)
				break
			}
		}
		if x == nil {
			if h.advers {
				return errSerialised
			}
			return driftf("PublishWrite(%d): no such write is waiting (waiting: %v)", id, heldIDs(inc.writes))
		}
		if st.Bool("sp") {
			r.spIDs = append(r.spIDs, id)
			writeDkvStubs(r.dir, h.ops, r.spIDs)
		}
		x.op.uri, x.op.err = r.ld.Write(x.op.path, bytes.NewReader(x.op.data))
		x.op.exec = true
		x.a.Release()
		d := wait
		if len(inc.parked) > 0 {
			d = shortWait
		}
		select {
		case <-inc.events:
		case <-time.After(d):
			if len(inc.parked) > 0 {
				return errSerialised // the publication waits for the lock the parked acknowledgement holds
			}
			return driftf("PublishWrite(%d): publication did not finish (a failed publication is silent: the store's errChan is never set)", id)
		}
	case "PublishDelete":
		want := sortedU(u64s(st["ids"]))
		var x *held
		for i, d := range inc.removes {
			if reflect.DeepEqual(sortedU(d.ids), want) {
				x = d
				inc.removes = append(inc.removes[:i:i], inc.removes[i+1:]...)
				break
			}
		}
		if x == nil {
			return driftf("PublishDelete(%v): no such Remove is waiting (waiting: %v)", want, removeSets(inc.removes))
		}
		x.op.err = r.ld.Remove(x.op.paths...)
		x.op.exec = true
		x.a.Release()
	case "NotifySend":
		id := uint64(st.Int("id"))
		var x *held
		first := false
		for i, n := range inc.notifs {
			if n.id == id {
				x, first = n, i == 0
				inc.notifs = append(inc.notifs[:i:i], inc.notifs[i+1:]...)
				break
			}
		}
		if x == nil {
			return driftf("NotifySend(%d): no such notification goroutine (waiting: %v)", id, heldIDs(inc.notifs))
		}
		n0 := len(inc.retained)
		x.a.Release()
		if h.slow {
			// the subscriber is busy: whether and when this goroutine's send completes shows at NotifyDeliver
			inc.sentNewest = append(inc.sentNewest, x.spawnNewest)
			for t := time.Now(); time.Since(t) < 100*time.Microsecond; {
				runtime.Gosched()
			}
			break
		}
		d := wait
		if h.advers && !first {
			d = shortWait
		}
		dl := time.Now().Add(d)
		for len(inc.retained) == n0 {
			if time.Now().After(dl) {
				if h.advers && !first {
					return errSerialised
				}
				return driftf("NotifySend(%d): the notification was not sent", id)
			}
			time.Sleep(20 * time.Microsecond)
		}
		inc.sentNewest = append(inc.sentNewest, x.spawnNewest)
	case "NotifyDeliver":
		got, ok := inc.receive(wait)
		if !ok {
			return driftf("NotifyDeliver: nothing to deliver")
		}
		pred := reflect.DeepEqual(got, []uint64{uint64(st.Int("id"))})
		if len(inc.sentNewest) > 0 {
			// the set was decided when checkpoint `was` had just become the newest completed one
			was, now := inc.sentNewest[0], uint64(st.Int("newest"))
			inc.sentNewest = inc.sentNewest[1:]
			names := false
			for _, x := range got {
				if x >= was && x <= now {
					names = true
				}
			}
			if !names {
				return &violation{tag: "RetainNamesNewest", what: fmt.Sprintf("operators are told to retain only %v although checkpoint %d had completed when that notification was issued", got, was),
					expected: fmt.Sprintf("a set naming a completed checkpoint >= %d", was), observed: got, pred: pred}
			}
		}
		if len(inc.delivered) > 0 {
			if last := inc.delivered[len(inc.delivered)-1]; maxU(got) < maxU(last) {
				return &violation{tag: "RetainNamesNewest", what: fmt.Sprintf("operators are told to retain only %v after they had been told to retain %v", got, last),
					expected: fmt.Sprintf("a set naming an id >= %d", maxU(last)), observed: got, pred: pred}
			}
		}
		inc.delivered = append(inc.delivered, got)
		if h.dkv {
			for _, op := range h.ops {
				p, err := inc.dbs[op].retain(got)
				if p != "" || err != nil {
					predPanic := false
					for _, o := range strList(st["panics"]) {
						if o == op {
							predPanic = true
						}
					}
					return &violation{tag: "OperatorsKeepNewest", what: fmt.Sprintf("operator %s: UpdateRetainedCheckpoints(%v) failed: %s %v", op, got, p, err), observed: p, pred: predPanic}
				}
			}
		}
		if !pred {
			// the code delivers the sets in another order than the model: before the behaviour is
			// abandoned, look at the order in which the sets already sent reach the subscriber
			last := got
			for range st.List("ch") {
				next, ok := inc.receive(shortWait)
				if !ok {
					break
				}
				if maxU(next) < maxU(last) {
					return &violation{tag: "RetainNamesNewest", what: fmt.Sprintf("operators are told to retain only %v after they had been told to retain %v (sets delivered so far: %v)", next, last, append(inc.delivered, next)),
						expected: fmt.Sprintf("a set naming an id >= %d", maxU(last)), observed: next}
				}
				inc.delivered = append(inc.delivered, next)
				last = next
			}
			return driftf("NotifyDeliver: %v predicted [%d]", got, st.Int("id"))
		}
	case "Restart":
		r.crash()
		if err := r.startIncarnation(); err != nil {
			return err
		}
		listed, byID, err := r.dirState()
		if err != nil {
			return err
		}
		want, first := maxU(listed), uint64(0)
		if len(listed) > 0 {
			first = listed[0]
		}
		if !reflect.DeepEqual(sortedU(listed), sortedU(u64s(st["files"]))) {
			return driftf("Restart: directory holds %v, model %v", sortedU(listed), u64s(st["files"]))
		}
		if first != uint64(st.Int("first")) {
			return fmt.Errorf("model listing order is unfaithful: real LocalDirectory.List puts checkpoint %d first of %v, Store.tla says %d", first, listed, st.Int("first"))
		}
		got := r.curID()
		if got != want {
			return &violation{tag: "LoadsNewest", what: fmt.Sprintf("storage holds the snapshots of checkpoints %v (listing order); the restarted store resumes from %d instead of %d", listed, got, want),
				expected: want, observed: got, pred: got == uint64(st.Int("pick"))}
		}
		if want != 0 && !proto.Equal(r.inc.store.CurrentCheckpoint(), byID[want]) {
			return &violation{tag: "LoadsNewest", what: fmt.Sprintf("the checkpoint loaded for id %d differs from the published file", want)}
		}
	default:
		return fmt.Errorf("unknown action %q", st.Str("a"))
	}
	return nil
}

// post compares the state after a step: what is waiting at the gates, the
// directory, CurrentCheckpoint, the operators' DKVs.
func (r *run) post(st mbt.Step) error {
	inc, h := r.inc, r.h
	if len(inc.parked) > 0 {
		// an acknowledgement is held inside finishSnapshot: the store's lock may be taken
		return nil
	}
	wantW := sortedU(u64s(st["w"]))
	wantD := modelRemoveSets(st)
	wantN := u64s(st["nt"])
	newest := uint64(st.Int("newest"))
	pred := func() bool {
		return len(inc.writes) >= len(wantW) && len(inc.removes) >= len(wantD) && len(inc.notifs) >= len(wantN)
	}
	ok, err := r.collect(pred, wait)
	if err != nil {
		return err
	}
	for _, x := range inc.notifs {
		if !x.seen {
			x.seen, x.spawnNewest = true, newest
		}
	}
	// 1. what the property demands of the observed state (whatever the model predicts)
	// anything waiting that the model does not know about
	for _, x := range inc.removes {
		known := false
		for _, d := range wantD {
			if reflect.DeepEqual(d, sortedU(x.ids)) {
				known = true
			}
		}
		if !known && newest != 0 && hasU(x.ids, newest) {
			return &violation{tag: "NewestSurvives", what: fmt.Sprintf("the store asks to remove the snapshot of checkpoint %d, the newest completed checkpoint", newest), observed: x.op.paths}
		}
	}
	// a publication of a checkpoint whose publication was already decided
	seenW := map[uint64]bool{}
	for _, x := range inc.writes {
		if seenW[x.id] {
			return &violation{tag: "PublishedOnce", what: fmt.Sprintf("checkpoint %d is being published twice (two snapshot writes of the same checkpoint are in flight)", x.id), observed: heldIDs(inc.writes)}
		}
		seenW[x.id] = true
	}
	// storage: the newest completed checkpoint's file is there
	if a := st.Str("a"); a == "PublishWrite" || a == "PublishDelete" || a == "Restart" || r.listed == nil {
		listed, _, err := r.dirState()
		if err != nil {
			return err
		}
		r.listed = append([]uint64{}, listed...)
	}
	listed := r.listed
	if newest != 0 && !hasU(listed, newest) {
		return &violation{tag: "NewestSurvives", what: fmt.Sprintf("the snapshot file of checkpoint %d, the newest completed checkpoint, has been removed (storage holds %v)", newest, listed),
			expected: newest, observed: listed, pred: reflect.DeepEqual(sortedU(listed), sortedU(u64s(st["files"])))}
	}
	// the checkpoint the job would redeploy from
	got := r.curID()
	if got != newest {
		// `newest` ranges over everything ever published in this storage; the store must know it
		return &violation{tag: "CurrentIsNewest", what: fmt.Sprintf("CurrentCheckpoint is %d although checkpoint %d is the newest completed one", got, newest),
			expected: newest, observed: got, pred: got == uint64(st.Int("cur"))}
	}
	// a retention announcement of a checkpoint that is not completed
	for _, x := range inc.notifs {
		if x.id > newest {
			return &violation{tag: "RetainNamesNewest", what: fmt.Sprintf("the store is about to tell the operators to retain only checkpoint %d, which is not completed (its snapshot is not written); the newest completed checkpoint is %d", x.id, newest),
				expected: newest, observed: x.id}
		}
	}
	// at rest the last retained-set delivered names the newest completed checkpoint
	if ok && len(wantW) == 0 && len(wantN) == 0 && len(st.List("ch")) == 0 && len(inc.retained) == 0 && len(inc.delivered) > 0 &&
		len(inc.writes) == 0 && len(inc.notifs) == 0 {
		if last := inc.delivered[len(inc.delivered)-1]; !hasU(last, newest) {
			return &violation{tag: "RetainNamesNewest", what: fmt.Sprintf("at rest the last retained-set delivered is %v but the newest completed checkpoint is %d", last, newest), expected: newest, observed: last, pred: true}
		}
	}
	var dkvIDs map[string][]uint64
	if h.dkv && newest != 0 {
		dkvIDs = map[string][]uint64{}
		heldM := st.Map("held")
		for _, op := range h.ops {
			ids, err := inc.dbs[op].ids()
			if err != nil {
				return err
			}
			dkvIDs[op] = ids
			if inc.dbs[op].taken[newest] && !hasU(ids, newest) {
				return &violation{tag: "OperatorsKeepNewest", what: fmt.Sprintf("operator %s no longer keeps its DKV checkpoint %d of the newest completed job checkpoint (keeps %v) after retained-sets %v", op, newest, ids, inc.delivered),
					expected: newest, observed: ids, pred: reflect.DeepEqual(sortedU(ids), sortedU(u64s(heldM[op])))}
			}
		}
	}
	// 2. what the model predicts (a difference is drift: the behaviour is abandoned)
	if !ok {
		return driftf("waiting writes %v removes %v notifications %v; model: %v %v %v", heldIDs(inc.writes), removeSets(inc.removes), heldIDs(inc.notifs), wantW, wantD, wantN)
	}
	if !reflect.DeepEqual(sortedU(heldIDs(inc.writes)), wantW) || !reflect.DeepEqual(removeSets(inc.removes), wantD) || !reflect.DeepEqual(sortedU(heldIDs(inc.notifs)), sortedU(wantN)) {
		return driftf("waiting writes %v removes %v notifications %v; model: %v %v %v", heldIDs(inc.writes), removeSets(inc.removes), heldIDs(inc.notifs), wantW, wantD, wantN)
	}
	if !reflect.DeepEqual(sortedU(listed), sortedU(u64s(st["files"]))) {
		return driftf("directory holds %v, model %v", sortedU(listed), u64s(st["files"]))
	}
	if got != uint64(st.Int("cur")) {
		return driftf("CurrentCheckpoint %d predicted %d", got, st.Int("cur"))
	}
	if dkvIDs != nil {
		heldM := st.Map("held")
		for _, op := range h.ops {
			if !reflect.DeepEqual(sortedU(dkvIDs[op]), sortedU(u64s(heldM[op]))) {
				return driftf("operator %s keeps DKV checkpoints %v, model %v", op, dkvIDs[op], heldM[op])
			}
		}
	}
	return nil
}

func (h *harness) replay(bi int, beh []mbt.Step, res *mbt.Result) {
	r := &run{h: h, dir: h.newDir(), bi: bi, res: res}
	defer os.RemoveAll(r.dir)
	r.ld = locations.NewLocalDirectory(r.dir)
	r.s = gate.New("loc.write", "loc.remove", "snapshots.notify", "spl.checkpoint")
	verifhook.Install(r.s.At, nil)
	defer func() {
		if r.inc != nil {
			r.inc.loc.dead.Store(true)
			if r.inc.quit != nil {
				close(r.inc.quit)
			}
		}
		r.s.FreeRun()
		verifhook.Install(nil, nil)
	}()
	fail := func(si int, err error) {
		var v *violation
		var d *drift
		switch {
		case errors.As(err, &v):
			bad := []string{}
			if si < len(beh) {
				bad = strList(beh[si]["bad"])
			}
			res.Violations = append(res.Violations, mbt.Violation{Property: propOf[v.tag], Behaviour: bi, Step: si,
				What: v.tag + ": " + v.what, Expected: v.expected, Observed: v.observed, Known: h.known(v.tag, bad, v.pred)})
		case errors.As(err, &d):
			res.Driftf("b%d s%d %s: %s", bi, si, beh[min(si, len(beh)-1)].Str("a"), d.msg)
		case errors.Is(err, errSerialised):
			res.Count("serialised", 1)
			res.Executed++
		default:
			res.Errors = append(res.Errors, fmt.Sprintf("b%d s%d: %v", bi, si, err))
		}
	}
	// initial storage
	if h.in.CfgBool("DirMode", false) {
		if len(beh) != 1 || beh[0].Str("a") != "Restart" {
			res.Errors = append(res.Errors, "DirMode behaviour must be a single Restart")
			return
		}
		if err := h.materialise(r.dir, u64s(beh[0]["files"])); err != nil {
			fail(0, err)
			return
		}
		r.inc = &incarnation{loc: &gloc{ld: r.ld}}
	} else {
		if h.start > 0 {
			if err := h.materialise(r.dir, []uint64{h.start}); err != nil {
				fail(0, err)
				return
			}
		}
		if err := r.startIncarnation(); err != nil {
			fail(0, err)
			return
		}
		if got := r.curID(); got != h.start {
			res.Errors = append(res.Errors, fmt.Sprintf("initial load: current checkpoint %d, want %d", got, h.start))
			return
		}
	}
	for si, st := range beh {
		if err := r.step(st); err != nil {
			fail(si, err)
			return
		}
		if err := r.post(st); err != nil {
			fail(si, err)
			return
		}
		res.Steps++
		res.Count("a:"+st.Str("a"), 1)
	}
	// grace: anything the store still does on its own (spawned goroutines run
	// within microseconds; a timer would cost a millisecond per behaviour)
	for t := time.Now(); time.Since(t) < 150*time.Microsecond; {
		runtime.Gosched()
	}
	if len(beh) > 0 {
		last := beh[len(beh)-1]
		if err := r.post(last); err != nil {
			var d *drift
			if !errors.As(err, &d) {
				fail(len(beh)-1, err)
				return
			}
		}
	}
	res.Executed++
}

func main() {
	if pf := os.Getenv("VERIF_STORE_PROF"); pf != "" {
		f, _ := os.Create(pf)
		pprof.StartCPUProfile(f)
		defer pprof.StopCPUProfile()
	}
	slog.SetDefault(slog.New(slog.NewTextHandler(io.Discard, nil)))
	in, err := mbt.ReadInput(os.Args[1])
	if err != nil {
		fmt.Fprintln(os.Stderr, err)
		os.Exit(2)
	}
	h, err := newHarness(in)
	if err != nil {
		fmt.Fprintln(os.Stderr, err)
		os.Exit(2)
	}
	res := &mbt.Result{}
	for bi, beh := range in.Behaviours {
		h.replay(bi, beh, res)
		if len(res.Errors) > 20 {
			break
		}
	}
	os.RemoveAll(h.base)
	if n := len(in.Behaviours); n > 0 {
		res.Samples = append(res.Samples, map[string]any{"kind": "Store behaviour replayed on snapshots.Store", "steps": in.Behaviours[n/2]})
	}
	if err := mbt.WriteResult(os.Args[2], res); err != nil {
		fmt.Fprintln(os.Stderr, err)
		os.Exit(2)
	}
}
