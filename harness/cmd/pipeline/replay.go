package main

import (
	"context"
	"fmt"
	"math/rand"
	"reflect"
	"strings"
	"time"

	"reduction.dev/reduction/util/verifhook"
	"verif/harness/gate"
	"verif/harness/mbt"
)

// wait bounds every expectation of the replayer. After several consecutive
// behaviours that diverged from the model (a systematic change of the code's
// schedule) it is shortened so that a run still ends in reasonable time.
var (
	wait        = 3 * time.Second
	finishWait  = 5 * time.Second
	consecDrift = 0
)

func noteOutcome(diverged bool) {
	if !diverged {
		consecDrift = 0
		wait, finishWait = 3*time.Second, 5*time.Second
		return
	}
	consecDrift++
	if consecDrift >= 3 {
		wait, finishWait = 400*time.Millisecond, 1500*time.Millisecond
	}
}

var errSerialised = fmt.Errorf("flushers serialised by the code")

type drift struct{ msg string }

func (d *drift) Error() string { return d.msg }

func driftf(f string, a ...any) error { return &drift{fmt.Sprintf(f, a...)} }

type stepper struct {
	w           *world
	parked      map[string]*gate.Arrival // "c" / "t": at flush.enter or flush.between
	fetchG      map[int]*gate.Arrival    // model seq -> fetch goroutine (at fetch.call or fetch.beforeDrain)
	lread       *gate.Arrival            // event loop parked in ReadEvents
	eoi         bool
	inflight    [][]*gate.Arrival // per operator: HandleEventBatch calls held at the gate (correct code: at most one)
	blockedGid  int64
	adversarial bool
}

func shapeOf(in *mbt.Input) Shape {
	return Shape{NSplits: in.CfgInt("NSplits", 2), NRec: in.CfgInt("NRec", 3), NOps: in.CfgInt("NOps", 2), NKeys: in.CfgInt("NKeys", 2),
		KeyCode: in.CfgInt("KeyCode", 0), KeyDigits: in.CfgInt("KeyDigits", 6), KeyGroups: in.CfgInt("KeyGroups", 8)}
}

func (s *stepper) who(a *gate.Arrival) string {
	s.w.mu.Lock()
	defer s.w.mu.Unlock()
	if a.Gid == s.w.lgid {
		return "c"
	}
	return "t"
}

func (s *stepper) awaitFlusher(g, p string) (*gate.Arrival, error) {
	return s.w.s.Await(func(a *gate.Arrival) bool { return a.Point == p && s.who(a) == g }, wait)
}

func (s *stepper) awaitRead() error {
	a, err := s.w.s.Await(gate.Point("src.read"), wait)
	if err != nil {
		return driftf("event loop did not come back to ReadEvents: %v", err)
	}
	s.lread = a
	return nil
}

// afterL: the event loop continues after a flush (or a read): it parks at the
// next size flush or comes back to ReadEvents.
func (s *stepper) afterL(full bool) error {
	if full {
		a, err := s.awaitFlusher("c", "batching.flush.enter")
		if err != nil {
			return driftf("event loop did not reach its size flush: %v", err)
		}
		s.parked["c"] = a
		return nil
	}
	if s.eoi {
		return nil
	}
	return s.awaitRead()
}

func (s *stepper) waitSent(n int) error {
	dl := time.Now().Add(wait)
	for s.w.sent.Load() < int64(n) {
		if time.Now().After(dl) {
			return driftf("router processed %d placeholders, model says %d", s.w.sent.Load(), n)
		}
		time.Sleep(50 * time.Microsecond)
	}
	return nil
}

func itemsOf(st mbt.Step, k string) []Item {
	var out []Item
	for _, x := range st.List(k) {
		m, _ := x.(map[string]any)
		t, _ := m["t"].(string)
		a, _ := m["a"].(float64)
		b, _ := m["b"].(float64)
		out = append(out, Item{T: t, A: int(a), B: int(b)})
	}
	return out
}

func idsOf(items []Item) []string {
	out := make([]string, len(items))
	for i, it := range items {
		out[i] = fmt.Sprintf("%d.%d", it.A, it.B)
	}
	return out
}

// awaitCall waits for operator op's sender to arrive at HandleEventBatch.
func (s *stepper) awaitCall(op int, want []Item) error {
	a, err := s.w.s.Await(func(a *gate.Arrival) bool { return a.Point == "op.call" && a.Args[0].(int) == op }, wait)
	if err != nil {
		return driftf("no HandleEventBatch call for operator %d: %v", op+1, err)
	}
	got := a.Args[1].([]Item)
	s.inflight[op] = append(s.inflight[op], a)
	if !reflect.DeepEqual(got, want) {
		return driftf("operator %d was called with %v, model predicted %v", op+1, got, want)
	}
	return nil
}

func (s *stepper) delivered(op int) int {
	s.w.mu.Lock()
	defer s.w.mu.Unlock()
	return s.w.nbatches[op]
}

func (s *stepper) releaseCall(op int, a *gate.Arrival) error {
	n := s.delivered(op)
	a.Release()
	dl := time.Now().Add(wait)
	for s.delivered(op) == n {
		if time.Now().After(dl) {
			return driftf("released HandleEventBatch of operator %d did not return", op+1)
		}
		time.Sleep(20 * time.Microsecond)
	}
	return nil
}

func (s *stepper) step(st mbt.Step) error {
	w := s.w
	switch st.Str("a") {
	case "ReadSplit":
		if s.lread == nil {
			return driftf("ReadSplit: event loop is not in ReadEvents")
		}
		sp, n := st.Int("sp")-1, st.Int("n")
		w.mu.Lock()
		cur := w.cursor[sp]
		w.next = &readCmd{sp: sp, n: n}
		w.mu.Unlock()
		if cur != st.Int("from") {
			return fmt.Errorf("reader cursor %d, model %d", cur, st.Int("from"))
		}
		a := s.lread
		s.lread = nil
		a.Release()
		return s.afterL(st.Bool("full"))
	case "SourceEnd":
		if s.lread == nil {
			return driftf("SourceEnd: event loop is not in ReadEvents")
		}
		w.mu.Lock()
		w.next = &readCmd{eoi: true}
		w.mu.Unlock()
		a := s.lread
		s.lread = nil
		s.eoi = true
		a.Release()
		time.Sleep(200 * time.Microsecond)
	case "BarrierCut":
		n := st.Int("n")
		done := make(chan struct{})
		go func() { w.sr.HandleStartCheckpoint(context.Background(), uint64(n)); close(done) }()
		select {
		case <-done:
		case <-time.After(wait):
			return driftf("HandleStartCheckpoint blocked")
		}
		// let the loop iterate (empty reads) until it takes the barrier
		var got ckpt
		for i := 0; ; i++ {
			if s.lread != nil {
				a := s.lread
				s.lread = nil
				a.Release()
			}
			a, err := w.s.Await(func(a *gate.Arrival) bool { return a.Point == "src.read" || a.Point == "job.ckpt" }, wait)
			if err != nil {
				return driftf("BarrierCut: the loop neither read nor reported a checkpoint: %v", err)
			}
			if a.Point == "src.read" {
				s.lread = a
				if i > 10000 {
					return driftf("BarrierCut: the loop never took the barrier")
				}
				continue
			}
			got = a.Args[0].(ckpt)
			a.Release()
			break
		}
		if got.N != n {
			return driftf("checkpoint id %d reported, expected %d", got.N, n)
		}
		if s.lread == nil && !s.eoi {
			if err := s.awaitRead(); err != nil {
				return err
			}
		}
		if want := st.Ints("pos"); !reflect.DeepEqual(got.Pos, want) {
			return driftf("reported positions %v, model %v", got.Pos, want)
		}
	case "KTimerFire":
		var do func()
		dl := time.Now().Add(wait)
		for do == nil {
			w.mu.Lock()
			do, w.kdo = w.kdo, nil
			w.mu.Unlock()
			if do == nil {
				if time.Now().After(dl) {
					return driftf("KTimerFire: key-by timer not armed")
				}
				time.Sleep(50 * time.Microsecond)
			}
		}
		go do()
		if st.Bool("recv") {
			a, err := s.awaitFlusher("t", "batching.flush.enter")
			if err != nil {
				return driftf("KTimerFire(recv): %v", err)
			}
			s.parked["t"] = a
		}
	case "KTake":
		g := st.Str("g")
		a := s.parked[g]
		if a == nil {
			return driftf("KTake(%s): not parked", g)
		}
		delete(s.parked, g)
		a.Release()
		other := map[string]string{"c": "t", "t": "c"}[g]
		if o := s.parked[other]; s.adversarial && o != nil && o.Point == "batching.flush.between" {
			// the model (AtomicFlush = FALSE) lets g take a batch while the other
			// flusher sits between Flush and Reserve; correct code blocks g here
			b, err := s.w.s.Await(func(a *gate.Arrival) bool {
				return (a.Point == "batching.flush.between" || a.Point == "batching.flush.exit") && s.who(a) == g
			}, 80*time.Millisecond)
			if err != nil {
				return errSerialised
			}
			if b.Point == "batching.flush.between" {
				s.parked[g] = b
				return nil
			}
			if g == "c" {
				return s.afterL(st.Bool("full"))
			}
			return nil
		}
		if len(st.List("took")) == 0 {
			if _, err := s.awaitFlusher(g, "batching.flush.exit"); err != nil {
				return driftf("KTake(%s, empty): %v", g, err)
			}
			if g == "c" {
				return s.afterL(st.Bool("full"))
			}
			return nil
		}
		b, err := s.awaitFlusher(g, "batching.flush.between")
		if err != nil {
			return driftf("KTake(%s): %v", g, err)
		}
		s.parked[g] = b
	case "KReserve":
		g := st.Str("g")
		a := s.parked[g]
		if a == nil {
			return driftf("KReserve(%s): not parked", g)
		}
		delete(s.parked, g)
		a.Release()
		want := idsOf(itemsOf(st, "events"))
		f, err := w.s.Await(func(a *gate.Arrival) bool {
			return a.Point == "fetch.call" && reflect.DeepEqual(a.Args[0], want)
		}, wait)
		if err != nil {
			return driftf("KReserve(%s): KeyEventBatch(%v) not started: %v", g, want, err)
		}
		s.fetchG[st.Int("seq")] = f
		if _, err := s.awaitFlusher(g, "batching.flush.exit"); err != nil {
			return driftf("KReserve(%s): %v", g, err)
		}
		if g == "c" {
			return s.afterL(st.Bool("full"))
		}
	case "FetchDone":
		seq := st.Int("seq")
		a := s.fetchG[seq]
		if a == nil {
			return driftf("FetchDone(%d): no such fetch", seq)
		}
		a.Release()
		b, err := w.s.Await(func(x *gate.Arrival) bool { return x.Point == "batching.fetch.beforeDrain" && x.Gid == a.Gid }, wait)
		if err != nil {
			return driftf("FetchDone(%d): %v", seq, err)
		}
		s.fetchG[seq] = b
	case "Drain":
		seq := st.Int("seq")
		a := s.fetchG[seq]
		if a == nil {
			return driftf("Drain(%d): no such fetch", seq)
		}
		delete(s.fetchG, seq)
		a.Release()
		if st.Bool("blocked") {
			s.blockedGid = a.Gid
			return nil
		}
		if _, err := w.s.Await(func(x *gate.Arrival) bool { return x.Point == "batching.fetch.exit" && x.Gid == a.Gid }, wait); err != nil {
			return driftf("Drain(%d): %v", seq, err)
		}
	case "DrainResume":
		if !st.Bool("blocked") && s.blockedGid != 0 {
			gid := s.blockedGid
			s.blockedGid = 0
			if _, err := w.s.Await(func(x *gate.Arrival) bool { return x.Point == "batching.fetch.exit" && x.Gid == gid }, wait); err != nil {
				return driftf("DrainResume: %v", err)
			}
		}
	case "RStep":
		if err := s.waitSent(st.Int("nsent")); err != nil {
			return err
		}
		if st.Bool("arm") {
			op := st.Int("op") - 1
			dl := time.Now().Add(wait)
			for {
				w.mu.Lock()
				if len(w.opFifo) > 0 {
					w.optimer[op] = w.opFifo[0]
					w.opFifo = w.opFifo[1:]
					w.mu.Unlock()
					break
				}
				w.mu.Unlock()
				if time.Now().After(dl) {
					return driftf("RStep: batch timer of operator %d not armed", op+1)
				}
				time.Sleep(50 * time.Microsecond)
			}
		}
	case "SRecv":
		// the router's own progress (nsent) is awaited by the next RStep
		return s.awaitCall(st.Int("op")-1, itemsOf(st, "batch"))
	case "STimeout":
		return s.awaitCall(st.Int("op")-1, itemsOf(st, "batch"))
	case "OTimerFire":
		op := st.Int("op") - 1
		w.mu.Lock()
		do := w.optimer[op]
		w.optimer[op] = nil
		w.mu.Unlock()
		if do == nil {
			return driftf("OTimerFire(%d): timer not armed", op+1)
		}
		go do()
	case "Deliver":
		op := st.Int("op") - 1
		calls := s.inflight[op]
		if len(calls) == 0 {
			return driftf("Deliver(%d): no call in flight", op+1)
		}
		s.inflight[op] = nil
		// A second call to the same operator while one is in flight has no
		// defined order at the operator: the adversarial operator takes the
		// later one first.
		if x, err := w.s.Await(func(x *gate.Arrival) bool { return x.Point == "op.call" && x.Args[0].(int) == op }, time.Millisecond); err == nil {
			calls = append(calls, x)
		}
		for i := len(calls) - 1; i >= 0; i-- {
			if err := s.releaseCall(op, calls[i]); err != nil {
				return err
			}
		}
	default:
		return fmt.Errorf("unknown action %q", st.Str("a"))
	}
	return nil
}

// finish lets the run complete without control and returns what was observed.
func finish(w *world, total int) *runObs {
	w.goAuto()
	dl := time.Now().Add(finishWait)
	stuckOK := w.o.Delay == 0 && w.o.MaxSize > 1 // no time-outs: quiescence is "nothing moves any more"
	last, lastChange := -1, time.Now()
	for time.Now().Before(dl) {
		streams, _, ckpts := w.snapshot()
		n, bars, tot := 0, 0, 0
		for _, st := range streams {
			tot += len(st)
			for _, it := range st {
				if it.T == "r" {
					n++
				} else if it.T == "b" {
					bars++
				}
			}
		}
		if n >= total && bars >= len(ckpts)*len(streams) {
			break
		}
		if tot != last {
			last, lastChange = tot, time.Now()
			dl = time.Now().Add(finishWait) // only a run that stopped moving is judged
		} else if stuckOK && time.Since(lastChange) > 80*time.Millisecond {
			break
		}
		time.Sleep(300 * time.Microsecond)
	}
	time.Sleep(2 * time.Millisecond)
	streams, order, ckpts := w.snapshot()
	return &runObs{sh: w.o.Shape, order: order, gbase: w.o.GBase, ckpts: ckpts, streams: streams, maxSize: w.o.MaxSize}
}

func obsOf(w *world) *runObs {
	streams, order, ckpts := w.snapshot()
	return &runObs{sh: w.o.Shape, order: order, gbase: w.o.GBase, ckpts: ckpts, streams: streams, maxSize: w.o.MaxSize}
}

func remaining(sh Shape, start []int) int {
	n := 0
	for i := 0; i < sh.NSplits; i++ {
		n += sh.NRec - start[i]
	}
	return n
}

// enough witnesses: after a few violations the remaining behaviours of this
// process are not replayed (each diverging behaviour costs seconds).
var found = 0

func replay(bi int, beh []mbt.Step, in *mbt.Input, res *mbt.Result) {
	if found >= 3 {
		res.Count("skipped_after_violations", 1)
		return
	}
	sh := shapeOf(in)
	useTimer := in.CfgBool("UseTimer", true)
	delay := time.Duration(0)
	if useTimer {
		delay = time.Hour
	}
	tickMs.Store(3_600_000)
	streamSize.Store(0)
	w, err := newWorld(Opts{Shape: sh, MaxSize: in.CfgInt("MaxSize", 2), Delay: delay, HarnessTm: true, Gated: true, Start: make([]int, sh.NSplits),
		Rng: rand.New(rand.NewSource(in.Seed*1000003 + int64(bi))), ReadMax: 3, JitterUs: 150})
	if err != nil {
		res.Errors = append(res.Errors, err.Error())
		return
	}
	defer verifhook.Install(nil, nil)
	defer w.close()
	s := &stepper{w: w, parked: map[string]*gate.Arrival{}, fetchG: map[int]*gate.Arrival{}, inflight: make([][]*gate.Arrival, sh.NOps)}
	viol := func(prop string, si int, what string, o *runObs) {
		found++
		for _, p := range strings.Split(prop, "+") {
			res.Violations = append(res.Violations, mbt.Violation{Property: p, Behaviour: bi, Step: si, What: what,
				Observed: map[string]any{"streams": fmtStreams(o.streams), "read_order": fmt.Sprint(o.order), "checkpoints": o.ckpts}})
		}
	}
	if err := s.awaitRead(); err != nil {
		res.Errors = append(res.Errors, "boot: "+err.Error())
		return
	}
	diverged := ""
	serialised := false
	s.adversarial = in.CfgBool("Adversarial", false)
	for si, st := range beh {
		if st.Str("a") == "KTake" && st.Str("g") == "t" && s.parked["t"] == nil {
			a, err := s.awaitFlusher("t", "batching.flush.enter")
			if err != nil {
				diverged = fmt.Sprintf("s%d: time-out goroutine not at flush.enter: %v", si, err)
				break
			}
			s.parked["t"] = a
		}
		if err := s.step(st); err != nil {
			if err == errSerialised {
				res.Count("serialised", 1)
				serialised = true
				break
			}
			if _, ok := err.(*drift); ok {
				diverged = fmt.Sprintf("s%d %s: %v", si, st.Str("a"), err)
				break
			}
			res.Errors = append(res.Errors, fmt.Sprintf("b%d s%d: %v", bi, si, err))
			return
		}
		res.Steps++
		o := obsOf(w)
		if p, what := o.safety(); what != "" {
			viol(p, si, what, o)
			return
		}
	}
	_ = serialised
	noteOutcome(diverged != "")
	o := finish(w, remaining(sh, w.o.Start))
	if p, what := o.safety(); what != "" {
		viol(p, len(beh), what+divNote(diverged), o)
		return
	}
	w.mu.Lock()
	eoi := w.eoiSent
	w.mu.Unlock()
	if p, what, known := o.complete(!useTimer && w.o.MaxSize > 1, eoi); what != "" {
		if known == "" {
			viol(p, len(beh), what+divNote(diverged), o)
			return
		}
		res.Violations = append(res.Violations, mbt.Violation{Property: p, Behaviour: bi, Step: len(beh), What: what, Known: known,
			Observed: map[string]any{"streams": fmtStreams(o.streams), "read_order": fmt.Sprint(o.order)}})
		res.Count("known:"+known, 1)
	}
	w.mu.Lock()
	conc := w.maxConc
	w.mu.Unlock()
	if conc > 1 {
		res.Count("behaviours_with_concurrent_calls_to_one_operator", 1)
	}
	// C16-cut: restart from the first reported position
	if len(o.ckpts) > 0 && in.CfgBool("Restart", true) {
		c := o.ckpts[0]
		w.close()
		w2, err := newWorld(Opts{Shape: sh, MaxSize: w.o.MaxSize, Delay: time.Hour, HarnessTm: true, Gated: false, Start: c.Pos, GBase: 1000,
			Rng: rand.New(rand.NewSource(in.Seed*1000003 + int64(bi) + 7)), ReadMax: 3, JitterUs: 150})
		if err != nil {
			res.Errors = append(res.Errors, "restart: "+err.Error())
			return
		}
		o2 := finish(w2, remaining(sh, c.Pos))
		w2.close()
		if p, what := o2.safety(); what != "" {
			viol(p, len(beh), "after restart from checkpoint "+fmt.Sprint(c.N)+": "+what, o2)
			return
		}
		if what := restartUnion(sh, c.N, o.streams, o2.streams); what != "" {
			found++
			res.Violations = append(res.Violations, mbt.Violation{Property: "C16", Behaviour: bi, Step: len(beh), What: what + divNote(diverged),
				Observed: map[string]any{"run1": fmtStreams(o.streams), "positions": c.Pos, "run2": fmtStreams(o2.streams)}})
			return
		}
		res.Count("restarts", 1)
	}
	if diverged != "" {
		res.Driftf("b%d %s", bi, diverged)
		return
	}
	res.Executed++
}

func divNote(d string) string {
	if d == "" {
		return ""
	}
	return " (after schedule divergence: " + d + ")"
}

func fmtStreams(st [][]Item) []string {
	out := make([]string, len(st))
	for i, s := range st {
		out[i] = fmt.Sprint(s)
	}
	return out
}
