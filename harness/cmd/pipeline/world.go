package main

import (
	"context"
	"encoding/json"
	"fmt"
	"math/rand"
	"sync"
	"sync/atomic"
	"time"

	"google.golang.org/protobuf/types/known/timestamppb"
	"reduction.dev/reduction-protocol/handlerpb"
	"reduction.dev/reduction-protocol/jobconfigpb"
	"reduction.dev/reduction/batching"
	"reduction.dev/reduction/clocks"
	"reduction.dev/reduction/connectors"
	"reduction.dev/reduction/partitioning"
	"reduction.dev/reduction/proto"
	"reduction.dev/reduction/proto/jobpb"
	"reduction.dev/reduction/proto/workerpb"
	"reduction.dev/reduction/util/verifhook"
	"reduction.dev/reduction/workers/sourcerunner"
	"verif/harness/gate"
)

// Item is one element of an operator's HandleEventBatch argument stream:
// T="r" record (A=split 1-based, B=idx 1-based), T="b" barrier (A=id),
// T="w" watermark (A=number of records the runner had forwarded when it
// stamped it, decoded from the timestamp).
type Item struct {
	T string `json:"t"`
	A int    `json:"a"`
	B int    `json:"b"`
}

func (i Item) String() string {
	switch i.T {
	case "r":
		return fmt.Sprintf("r%d.%d", i.A, i.B)
	case "b":
		return fmt.Sprintf("B%d", i.A)
	case "w":
		return fmt.Sprintf("W%d", i.A)
	}
	return "?" + i.T
}

// Shape is the source / cluster structure shared with the spec.
type Shape struct {
	NSplits, NRec, NOps, NKeys, KeyCode, KeyDigits, KeyGroups int
}

func pow(b, e int) int {
	r := 1
	for ; e > 0; e-- {
		r *= b
	}
	return r
}

// Key is the model key (1..NKeys) of record (sp, idx), both 1-based: same formula as Pipeline.tla KeyAt.
func (s Shape) Key(sp, idx int) int {
	d := ((sp-1)*s.NRec + idx - 1) % s.KeyDigits
	return (s.KeyCode/pow(s.NKeys, d))%s.NKeys + 1
}

// Owner is the operator (1-based) the model says owns key k.
func (s Shape) Owner(k int) int { return (k-1)%s.NOps + 1 }

// keyStrings picks for every model key a concrete key that the repo's key
// space places at the model's owner; key 1 in the first key group of its
// owner's range when possible, the last key in the LAST key group.
func (s Shape) keyStrings() []string {
	ks := partitioning.NewKeySpace(s.KeyGroups, s.NOps)
	out := make([]string, s.NKeys+1)
	for k := 1; k <= s.NKeys; k++ {
		want := s.Owner(k) - 1
		wantKG := -1
		if k == s.NKeys && ks.RangeIndex(kgProbe(ks, s.KeyGroups-1)) == want {
			wantKG = s.KeyGroups - 1
		}
		for j := 0; j < 100000; j++ {
			c := fmt.Sprintf("key%d-%d", k, j)
			if ks.RangeIndex([]byte(c)) != want {
				continue
			}
			if wantKG >= 0 && int(ks.KeyGroup([]byte(c))) != wantKG {
				continue
			}
			out[k] = c
			break
		}
		if out[k] == "" {
			panic("no concrete key found")
		}
	}
	return out
}

// kgProbe returns some key that hashes into key group kg.
func kgProbe(ks *partitioning.KeySpace, kg int) []byte {
	for j := 0; ; j++ {
		c := []byte(fmt.Sprintf("probe-%d", j))
		if int(ks.KeyGroup(c)) == kg {
			return c
		}
	}
}

type wireRec struct {
	Sp  int    `json:"sp"`
	Idx int    `json:"idx"`
	Key string `json:"key"`
	G   int    `json:"g"`
}

type ckpt struct {
	N   int   `json:"n"`
	Pos []int `json:"pos"` // per split (0-based index): records already read
	// number of records this run had read when the position was reported
	NRead int `json:"nread"`
}

type splitState struct {
	Split  int `json:"split"`
	Cursor int `json:"cursor"`
}

// Opts configure one world.
type Opts struct {
	Shape     Shape
	MaxSize   int
	Delay     time.Duration // MaxDelay of every batcher
	HarnessTm bool          // harness-owned timer (explicit expiry) instead of the real SystemTimer
	Gated     bool          // replay mode: gates park
	TickMs    int           // watermark ticker period
	Start     []int         // start cursors per split
	GBase     int           // first global read index - 1
	Rng       *rand.Rand    // free mode randomness (may be nil)
	ReadMax   int           // free mode: read batch size 1..ReadMax
	JitterUs  int           // free mode: random latencies 0..JitterUs
	EOI       bool          // free mode: report end of input after the last record
	Record    func(ev map[string]any)
}

// world is one real SourceRunner with harness-owned reader, handler, job,
// operators and timers.
type world struct {
	o    Opts
	keys []string
	s    *gate.Sched
	sr   *sourcerunner.SourceRunner
	ctx  context.Context
	stop context.CancelFunc

	sent   atomic.Int64 // sourcerunner.sent notifications
	closed atomic.Bool

	mu        sync.Mutex
	auto      bool // free-running: reader, handler, operators and timers do not wait for the stepper
	cursor    []int
	next      *readCmd
	lgid      int64
	order     []Item // records in read order
	ckpts     []ckpt
	streams   [][]Item
	nbatches  []int // recorded HandleEventBatch calls per operator (non-empty)
	empties   int
	eoiSent   bool
	kdo       func()
	opFifo    []func()
	optimer   []func()
	calls     int64
	inflight  []int // concurrent HandleEventBatch calls per operator
	maxConc   int
	overtakes int
	exit      chan error
}

type readCmd struct {
	sp, n int // sp 0-based; n = 0: return nothing
	eoi   bool
}

var tickMs atomic.Int64
var streamSize atomic.Int64 // capacity of the runner's output stream (0: the code's 1000)

func tune(name string, def int64) int64 {
	if name == "sourcerunner.outputStreamSize" {
		return streamSize.Load()
	}
	if name == "sourcerunner.watermarkTickMs" {
		if v := tickMs.Load(); v > 0 {
			return v
		}
	}
	return def
}

func newWorld(o Opts) (*world, error) {
	w := &world{o: o, keys: o.Shape.keyStrings(), exit: make(chan error, 1)}
	w.cursor = make([]int, o.Shape.NSplits)
	copy(w.cursor, o.Start)
	w.streams = make([][]Item, o.Shape.NOps)
	w.nbatches = make([]int, o.Shape.NOps)
	w.optimer = make([]func(), o.Shape.NOps)
	w.inflight = make([]int, o.Shape.NOps)
	w.auto = !o.Gated
	w.s = gate.New("batching.flush.enter", "batching.flush.between", "batching.fetch.beforeDrain", "fetch.call", "src.read", "job.ckpt", "op.call")
	if !o.Gated {
		w.s.FreeRun()
	}
	w.ctx, w.stop = context.WithCancel(context.Background())
	params := batching.EventBatcherParams{MaxSize: o.MaxSize, MaxDelay: o.Delay}
	if o.HarnessTm {
		params.Timer = (*hTimer)(w)
	}
	verifhook.Install(w.at, tune)
	w.sr = sourcerunner.New(sourcerunner.NewParams{
		Host: "sr0", UserHandler: (*hHandler)(w), Job: &hJob{w: w}, Clock: clocks.NewFrozenClock(),
		OperatorFactory: func(senderID string, node *jobpb.NodeIdentity) proto.Operator {
			var i int
			fmt.Sscanf(node.Id, "op%d", &i)
			return &hOp{w: w, i: i}
		},
		SourceReaderFactory: func(*jobconfigpb.Source) connectors.SourceReader { return (*hReader)(w) },
		EventBatching:       params,
	})
	go func() { w.exit <- w.sr.Start(w.ctx) }()
	ops := make([]*jobpb.NodeIdentity, o.Shape.NOps)
	for i := range ops {
		ops[i] = &jobpb.NodeIdentity{Id: fmt.Sprintf("op%d", i), Host: fmt.Sprintf("op%d", i)}
	}
	if err := w.sr.HandleDeploy(w.ctx, &workerpb.DeploySourceRunnerRequest{
		Operators: ops, KeyGroupCount: int32(o.Shape.KeyGroups), Sources: []*jobconfigpb.Source{{}},
	}); err != nil {
		return nil, err
	}
	splits := make([]*workerpb.SourceSplit, o.Shape.NSplits)
	for i := range splits {
		cur, _ := json.Marshal(splitState{Split: i, Cursor: w.cursor[i]})
		splits[i] = &workerpb.SourceSplit{SplitId: fmt.Sprint(i), SourceId: "harness", Cursor: cur}
	}
	if err := w.sr.HandleAssignSplits(splits); err != nil {
		return nil, err
	}
	return w, nil
}

// at is the verifhook handler while this world is current.
func (w *world) at(point string, args ...any) {
	if point == "sourcerunner.sent" {
		w.sent.Add(1)
		return
	}
	w.s.At(point, args...)
}

func (w *world) jitter() {
	if w.o.Rng == nil || w.o.JitterUs <= 0 {
		return
	}
	w.mu.Lock()
	d := w.o.Rng.Intn(w.o.JitterUs + 1)
	skip := w.o.Rng.Intn(3) == 0
	w.mu.Unlock()
	if !skip {
		time.Sleep(time.Duration(d) * time.Microsecond)
	}
}

func (w *world) close() {
	if w.closed.Swap(true) {
		return
	}
	w.s.FreeRun()
	w.mu.Lock()
	w.auto = true
	w.mu.Unlock()
	w.sr.Halt()
	w.stop()
	select {
	case <-w.exit:
	case <-time.After(time.Second):
	}
}

func (w *world) record(ev map[string]any) {
	if w.o.Record != nil {
		w.o.Record(ev)
	}
}

// ------------------------------------------------------------------ reader

type hReader world

func (r *hReader) AssignSplits(splits []*workerpb.SourceSplit) error {
	w := (*world)(r)
	w.mu.Lock()
	defer w.mu.Unlock()
	for _, sp := range splits {
		var st splitState
		if err := json.Unmarshal(sp.Cursor, &st); err != nil {
			return err
		}
		w.cursor[st.Split] = st.Cursor
	}
	return nil
}

func (r *hReader) allRead() bool {
	for _, c := range r.cursor {
		if c < r.o.Shape.NRec {
			return false
		}
	}
	return true
}

func (r *hReader) ReadEvents() ([][]byte, error) {
	w := (*world)(r)
	w.mu.Lock()
	if w.lgid == 0 {
		w.lgid = gate.Goid()
	}
	auto := w.auto
	w.mu.Unlock()
	var cmd *readCmd
	if !auto {
		w.s.At("src.read")
		w.mu.Lock()
		cmd, w.next = w.next, nil
		auto = w.auto
		w.mu.Unlock()
	}
	if cmd == nil {
		if !auto {
			return nil, nil
		}
		w.jitter()
		w.mu.Lock()
		if r.allRead() {
			eoi := w.o.EOI && !w.eoiSent
			if eoi {
				w.eoiSent = true
			}
			w.mu.Unlock()
			if eoi {
				w.record(map[string]any{"op": "EOI"})
				return nil, connectors.ErrEndOfInput
			}
			time.Sleep(500 * time.Microsecond)
			return nil, nil
		}
		var cand []int
		for i, c := range w.cursor {
			if c < w.o.Shape.NRec {
				cand = append(cand, i)
			}
		}
		sp, n := cand[0], w.o.Shape.NRec
		if w.o.Rng != nil {
			sp = cand[w.o.Rng.Intn(len(cand))]
			n = 1 + w.o.Rng.Intn(max(w.o.ReadMax, 1))
		}
		cmd = &readCmd{sp: sp, n: n}
		w.mu.Unlock()
	}
	if cmd.eoi {
		w.mu.Lock()
		w.eoiSent = true
		w.mu.Unlock()
		return nil, connectors.ErrEndOfInput
	}
	w.mu.Lock()
	defer w.mu.Unlock()
	n := min(cmd.n, w.o.Shape.NRec-w.cursor[cmd.sp])
	if n <= 0 {
		return nil, nil
	}
	from := w.cursor[cmd.sp]
	out := make([][]byte, n)
	for i := 0; i < n; i++ {
		idx := from + i + 1
		w.order = append(w.order, Item{T: "r", A: cmd.sp + 1, B: idx})
		b, _ := json.Marshal(wireRec{Sp: cmd.sp + 1, Idx: idx, Key: w.keys[w.o.Shape.Key(cmd.sp+1, idx)], G: w.o.GBase + len(w.order)})
		out[i] = b
	}
	w.cursor[cmd.sp] = from + n
	w.record(map[string]any{"op": "Read", "sp": cmd.sp + 1, "from": from, "n": n})
	return out, nil
}

func (r *hReader) Checkpoint() [][]byte {
	w := (*world)(r)
	w.mu.Lock()
	defer w.mu.Unlock()
	out := make([][]byte, len(w.cursor))
	for i, c := range w.cursor {
		out[i], _ = json.Marshal(splitState{Split: i, Cursor: c})
	}
	return out
}

// ----------------------------------------------------------------- handler

type hHandler world

func recIDs(events [][]byte) ([]string, []wireRec, error) {
	ids := make([]string, len(events))
	recs := make([]wireRec, len(events))
	for i, b := range events {
		if err := json.Unmarshal(b, &recs[i]); err != nil {
			return nil, nil, err
		}
		ids[i] = fmt.Sprintf("%d.%d", recs[i].Sp, recs[i].Idx)
	}
	return ids, recs, nil
}

func (h *hHandler) KeyEventBatch(ctx context.Context, events [][]byte) ([][]*handlerpb.KeyedEvent, error) {
	w := (*world)(h)
	ids, recs, err := recIDs(events)
	if err != nil {
		return nil, err
	}
	w.s.At("fetch.call", ids)
	w.mu.Lock()
	auto := w.auto
	w.mu.Unlock()
	if auto {
		w.jitter()
	}
	out := make([][]*handlerpb.KeyedEvent, len(events))
	for i, rc := range recs {
		out[i] = []*handlerpb.KeyedEvent{{Key: []byte(rc.Key), Timestamp: timestamppb.New(time.Unix(0, int64(rc.G)*int64(time.Millisecond))), Value: events[i]}}
	}
	return out, nil
}

func (h *hHandler) ProcessEventBatch(ctx context.Context, req *handlerpb.ProcessEventBatchRequest) (*handlerpb.ProcessEventBatchResponse, error) {
	return nil, fmt.Errorf("not used")
}

// --------------------------------------------------------------------- job

type hJob struct {
	proto.NoopJob
	w *world
}

func (j *hJob) OnSourceRunnerCheckpointComplete(ctx context.Context, req *jobpb.SourceRunnerCheckpointCompleteRequest) error {
	w := j.w
	w.mu.Lock()
	c := ckpt{N: int(req.CheckpointId), Pos: make([]int, w.o.Shape.NSplits), NRead: len(w.order)}
	for i := range c.Pos {
		c.Pos[i] = -1
	}
	for _, b := range req.SplitStates {
		var st splitState
		if err := json.Unmarshal(b, &st); err != nil || st.Split < 0 || st.Split >= len(c.Pos) {
			w.mu.Unlock()
			return fmt.Errorf("bad split state %q", b)
		}
		c.Pos[st.Split] = st.Cursor
	}
	w.ckpts = append(w.ckpts, c)
	w.record(map[string]any{"op": "Ckpt", "n": c.N, "pos": c.Pos})
	w.mu.Unlock()
	w.s.At("job.ckpt", c)
	return nil
}

// ---------------------------------------------------------------- operator

type hOp struct {
	proto.UnimplementedOperator
	w *world
	i int
}

func (o *hOp) ID() string   { return fmt.Sprintf("op%d", o.i) }
func (o *hOp) Host() string { return o.ID() }

func decodeItem(ev *workerpb.Event) (Item, string, error) {
	switch t := ev.Event.(type) {
	case *workerpb.Event_KeyedEvent:
		var rc wireRec
		if err := json.Unmarshal(t.KeyedEvent.Value, &rc); err != nil {
			return Item{}, "", err
		}
		return Item{T: "r", A: rc.Sp, B: rc.Idx}, string(t.KeyedEvent.Key), nil
	case *workerpb.Event_CheckpointBarrier:
		return Item{T: "b", A: int(t.CheckpointBarrier.CheckpointId)}, "", nil
	case *workerpb.Event_Watermark:
		ts := t.Watermark.Timestamp
		if ts == nil || ts.Seconds < 0 {
			return Item{T: "w", A: 0}, "", nil
		}
		ns := ts.Seconds*int64(time.Second) + int64(ts.Nanos) + 1
		return Item{T: "w", A: int(ns / int64(time.Millisecond))}, "", nil
	case *workerpb.Event_SourceComplete:
		return Item{T: "c"}, "", nil
	}
	return Item{}, "", fmt.Errorf("unknown event %T", ev.Event)
}

func (o *hOp) HandleEventBatch(ctx context.Context, batch []*workerpb.Event) error {
	w := o.w
	items := make([]Item, 0, len(batch))
	for _, ev := range batch {
		it, _, err := decodeItem(ev)
		if err != nil {
			return err
		}
		items = append(items, it)
	}
	if len(items) == 0 {
		w.mu.Lock()
		w.empties++
		w.mu.Unlock()
		return nil
	}
	w.mu.Lock()
	w.inflight[o.i]++
	conc := w.inflight[o.i]
	if conc > w.maxConc {
		w.maxConc = conc
	}
	gated := !w.auto
	if gated && conc > 1 {
		// A second call to this operator while an earlier one is still in
		// flight (held at the gate): nothing orders two concurrent requests,
		// the adversarial operator handles the later one first.
		w.deliverLocked(o.i, items)
		w.overtakes++
		w.inflight[o.i]--
		w.mu.Unlock()
		return nil
	}
	w.mu.Unlock()
	if gated {
		w.s.At("op.call", o.i, items)
	} else {
		w.jitter() // time in flight: concurrent requests may arrive in any order
	}
	w.mu.Lock()
	w.deliverLocked(o.i, items)
	w.mu.Unlock()
	if !gated {
		w.jitter() // handler latency (back-pressure)
	}
	w.mu.Lock()
	w.inflight[o.i]--
	w.mu.Unlock()
	return nil
}

func (w *world) deliverLocked(op int, items []Item) {
	w.streams[op] = append(w.streams[op], items...)
	w.nbatches[op]++
	w.record(map[string]any{"op": "Batch", "o": op + 1, "items": items})
}

// ------------------------------------------------------------------ timers

// hTimer is the clocks.Timer shared by every batcher of the runner (the
// runner hands the same EventBatcherParams to all of them). Set calls made on
// the event-loop goroutine belong to the key-by batcher, all others to the
// operator batchers, in routing order.
type hTimer world

func (t *hTimer) Set(_ time.Duration, do func()) {
	w := (*world)(t)
	w.mu.Lock()
	if w.auto {
		w.mu.Unlock()
		go do()
		return
	}
	if gate.Goid() == w.lgid {
		w.kdo = do
	} else {
		w.opFifo = append(w.opFifo, do)
	}
	w.mu.Unlock()
}

func (t *hTimer) Stop() {}

// goAuto switches every harness-owned part to free-running and fires all timers.
func (w *world) goAuto() {
	w.mu.Lock()
	w.auto = true
	var fire []func()
	if w.kdo != nil {
		fire = append(fire, w.kdo)
		w.kdo = nil
	}
	fire = append(fire, w.opFifo...)
	w.opFifo = nil
	for i, d := range w.optimer {
		if d != nil {
			fire = append(fire, d)
			w.optimer[i] = nil
		}
	}
	w.mu.Unlock()
	w.s.FreeRun()
	for _, d := range fire {
		go d()
	}
}

func (w *world) snapshot() (streams [][]Item, order []Item, ckpts []ckpt) {
	w.mu.Lock()
	defer w.mu.Unlock()
	streams = make([][]Item, len(w.streams))
	for i := range w.streams {
		streams[i] = append([]Item(nil), w.streams[i]...)
	}
	return streams, append([]Item(nil), w.order...), append([]ckpt(nil), w.ckpts...)
}
