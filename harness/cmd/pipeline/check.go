package main

import (
	"fmt"
)

// The property as stated (C04 + cut half of C16), decided on what the
// operators were handed. Every function returns "" when the observation is
// allowed, otherwise a description of what is forbidden.

type runObs struct {
	sh      Shape
	order   []Item // records in the order the runner read them
	gbase   int    // global read index of order[0] minus 1
	ckpts   []ckpt
	streams [][]Item
	maxSize int
}

func (o *runObs) owner(r Item) int { return o.sh.Owner(o.sh.Key(r.A, r.B)) }

// safety: prefix-closed clauses; valid at any moment of a run.
func (o *runObs) safety() (prop, what string) {
	read := map[Item]int{}
	for i, r := range o.order {
		read[r] = i + 1
	}
	seenAll := map[Item]int{}
	for oi, st := range o.streams {
		op := oi + 1
		var before []Item
		seen := map[Item]bool{}
		lastIdx := map[[2]int]int{} // (split, key) -> last idx
		lastBar, lastWm := 0, -1
		for pos, it := range st {
			switch it.T {
			case "r":
				if read[it] == 0 {
					return "C04", fmt.Sprintf("operator %d was handed record %v that the source never produced in this run", op, it)
				}
				if seen[it] || seenAll[it] != 0 {
					return "C04", fmt.Sprintf("record %v delivered twice (operator %d position %d)", it, op, pos)
				}
				if ow := o.owner(it); ow != op {
					return "C04", fmt.Sprintf("record %v (key %d) delivered to operator %d, its key group belongs to operator %d", it, o.sh.Key(it.A, it.B), op, ow)
				}
				k := [2]int{it.A, o.sh.Key(it.A, it.B)}
				if lastIdx[k] > it.B {
					return "C04", fmt.Sprintf("operator %d: record %v after record %d of the same split and key (split order broken)", op, it, lastIdx[k])
				}
				lastIdx[k] = it.B
				seen[it] = true
				seenAll[it] = op
				before = append(before, it)
			case "b":
				if it.A <= lastBar {
					return "C04", fmt.Sprintf("operator %d: barrier %d delivered after barrier %d", op, it.A, lastBar)
				}
				lastBar = it.A
				var c *ckpt
				for i := range o.ckpts {
					if o.ckpts[i].N == it.A {
						c = &o.ckpts[i]
					}
				}
				if c == nil {
					return "C16", fmt.Sprintf("operator %d received barrier %d but the runner reported no split positions for it", op, it.A)
				}
				for _, r := range o.order {
					if o.owner(r) != op {
						continue
					}
					below := r.B <= c.Pos[r.A-1]
					if below && !seen[r] {
						return "C04+C16", fmt.Sprintf("barrier %d overtook record %v at operator %d: the record is below the reported position %v but was not delivered ahead of the barrier", it.A, r, op, c.Pos)
					}
					if !below && seen[r] {
						return "C16", fmt.Sprintf("record %v was delivered to operator %d ahead of barrier %d but is NOT below the reported position %v (a restart from it would deliver it again)", r, op, it.A, c.Pos)
					}
				}
			case "w":
				if it.A < lastWm {
					return "C11", fmt.Sprintf("operator %d: watermark %d after watermark %d", op, it.A, lastWm)
				}
				lastWm = it.A
				k := it.A - o.gbase
				if k > len(o.order) {
					return "C04", fmt.Sprintf("operator %d: watermark stamped after %d records but only %d were read", op, k, len(o.order))
				}
				for i := 0; i < k; i++ {
					if r := o.order[i]; o.owner(r) == op && !seen[r] {
						return "C04", fmt.Sprintf("watermark (stamped after %d forwarded records) overtook record %v at operator %d", k, r, op)
					}
				}
			case "c":
			default:
				return "C04", fmt.Sprintf("unknown item %v", it)
			}
		}
	}
	return "", ""
}

// complete: at quiescence of a run whose batch time-outs all fired (or batch
// size 1): everything read was delivered and every reported checkpoint's
// barrier reached every operator. stuckOK: no time-outs configured, the tail
// of each operator's records may still sit in the batchers.
//
// eoi: the source reported end of input. Then nothing will ever push the tail
// out; the property ("every record read is delivered", for delay 0 too) is
// broken. The code as it is does this (known finding Dev_NoFlushAtEndOfInput:
// the loop's SourceComplete branch with its Flush is unreachable).
func (o *runObs) complete(stuckOK, eoi bool) (prop, what, known string) {
	del := map[Item]bool{}
	for _, st := range o.streams {
		for _, it := range st {
			del[it] = true
		}
	}
	for oi := range o.streams {
		op := oi + 1
		missingTail := 0
		for _, r := range o.order {
			if o.owner(r) != op {
				continue
			}
			if !del[r] {
				missingTail++
				continue
			}
			if missingTail > 0 {
				return "C04", fmt.Sprintf("a record of operator %d read before %v was never delivered although %v was", op, r, r), ""
			}
		}
		if missingTail > 0 && (!stuckOK || missingTail > 2*(o.maxSize-1)) {
			return "C04", fmt.Sprintf("%d record(s) of operator %d were read but never delivered (run is quiescent)", missingTail, op), ""
		}
		if missingTail > 0 && eoi {
			return "C04", fmt.Sprintf("the source reported end of input but the last %d record(s) of operator %d stay in the batchers for ever "+
				"(no batch time-out configured, the runner never flushes at end of input)", missingTail, op), "Dev_NoFlushAtEndOfInput"
		}
		if !stuckOK {
			for _, c := range o.ckpts {
				if !del[Item{T: "b", A: c.N}] {
					return "C04", fmt.Sprintf("barrier %d never reached any operator", c.N), ""
				}
				found := false
				for _, it := range o.streams[oi] {
					if it.T == "b" && it.A == c.N {
						found = true
					}
				}
				if !found {
					return "C04", fmt.Sprintf("barrier %d never reached operator %d", c.N, op), ""
				}
			}
		}
	}
	return "", "", ""
}

// restartUnion: run 1 up to barrier n, then run 2 started from the positions
// reported for n: every record of the source exactly once, per-split key
// order kept across the cut.
func restartUnion(sh Shape, n int, s1, s2 [][]Item) string {
	seen := map[Item]bool{}
	for oi := range s1 {
		op := oi + 1
		var cat []Item
		cutFound := false
		for _, it := range s1[oi] {
			if it.T == "b" && it.A == n {
				cutFound = true
				break
			}
			if it.T == "r" {
				cat = append(cat, it)
			}
		}
		if !cutFound {
			return fmt.Sprintf("barrier %d missing in run 1 at operator %d", n, op)
		}
		for _, it := range s2[oi] {
			if it.T == "r" {
				cat = append(cat, it)
			}
		}
		last := map[[2]int]int{}
		for _, it := range cat {
			if seen[it] {
				return fmt.Sprintf("record %v is delivered both ahead of barrier %d and again after a restart from the reported positions", it, n)
			}
			seen[it] = true
			if sh.Owner(sh.Key(it.A, it.B)) != op {
				return fmt.Sprintf("record %v at operator %d is not owned by it", it, op)
			}
			k := [2]int{it.A, sh.Key(it.A, it.B)}
			if last[k] > it.B {
				return fmt.Sprintf("record %v after record %d of the same split and key across the restart", it, last[k])
			}
			last[k] = it.B
		}
	}
	for sp := 1; sp <= sh.NSplits; sp++ {
		for i := 1; i <= sh.NRec; i++ {
			if !seen[Item{T: "r", A: sp, B: i}] {
				return fmt.Sprintf("record r%d.%d is neither ahead of barrier %d in run 1 nor delivered after a restart from the reported positions (lost)", sp, i, n)
			}
		}
	}
	return ""
}
