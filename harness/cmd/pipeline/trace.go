package main

import (
	"context"
	"fmt"
	"math/rand"
	"strings"
	"sync"
	"time"

	"reduction.dev/reduction/util/verifhook"
	"verif/harness/mbt"
)

// traceMode records Runs free-running executions.
func traceMode(in *mbt.Input, res *mbt.Result) {
	sh := shapeOf(in)
	runs := in.CfgInt("Runs", 20)
	sizeMax := in.CfgInt("SizeMax", 4)
	delayMax := in.CfgInt("DelayMaxMs", 3)
	var all []any
	for ri := 0; ri < runs; ri++ {
		rng := rand.New(rand.NewSource(in.Seed*7919 + int64(ri)))
		maxSize := 1 + rng.Intn(sizeMax)
		delayMs := rng.Intn(delayMax + 1)
		tick := 1 + rng.Intn(3)
		nck := rng.Intn(3)
		eoi := rng.Intn(2) == 0
		var emu sync.Mutex
		var events []map[string]any
		rec := func(ev map[string]any) { emu.Lock(); events = append(events, ev); emu.Unlock() }
		tickMs.Store(int64(tick))
		// back-pressure up to the read loop: in a third of the runs that have a batch time-out the runner's output stream
		// holds just one key-event batch. Without a time-out a small stream can stall for good: the read loop queues the
		// placeholder before it adds the event, barriers and watermark placeholders take slots too, and a partial
		// key-event batch then never fills (the code's 1000 slots make that a matter of MaxSize and time).
		stream := 0
		if small := rng.Intn(3) == 0; small && in.CfgBool("SmallStreams", true) && delayMs > 0 {
			stream = maxSize + rng.Intn(2)
			res.Count("runs_with_a_small_output_stream", 1)
		}
		streamSize.Store(int64(stream))
		w, err := newWorld(Opts{Shape: sh, MaxSize: maxSize, Delay: time.Duration(delayMs) * time.Millisecond, HarnessTm: false, Gated: false,
			Start: make([]int, sh.NSplits), Rng: rng, ReadMax: in.CfgInt("ReadMax", 4), JitterUs: in.CfgInt("JitterUs", 400), EOI: eoi, Record: rec, TickMs: tick})
		if err != nil {
			res.Errors = append(res.Errors, err.Error())
			return
		}
		ckDone := make(chan struct{})
		gaps := make([]int, nck)
		for i := range gaps {
			gaps[i] = rng.Intn(2500)
		}
		go func() {
			defer close(ckDone)
			for i, g := range gaps {
				time.Sleep(time.Duration(g) * time.Microsecond)
				w.sr.HandleStartCheckpoint(context.Background(), uint64(i+1))
			}
		}()
		total := sh.NSplits * sh.NRec
		stuckOK := delayMs == 0 && maxSize > 1
		dl := time.Now().Add(4 * time.Second)
		last, lastChange := -1, time.Now()
		for time.Now().Before(dl) {
			select {
			case <-ckDone:
			default:
				time.Sleep(300 * time.Microsecond)
				continue
			}
			streams, _, ckpts := w.snapshot()
			n, bars, tot := 0, 0, 0
			for _, st := range streams {
				tot += len(st)
				for _, it := range st {
					if it.T == "r" {
						n++
					} else if it.T == "b" {
						bars++
					}
				}
			}
			if n >= total && len(ckpts) == nck && bars >= nck*len(streams) {
				break
			}
			if n != last {
				last, lastChange = n, time.Now()
				dl = time.Now().Add(4 * time.Second) // only a run that stopped moving is judged
			} else if stuckOK && time.Since(lastChange) > 60*time.Millisecond && total-n <= (maxSize-1)*(sh.NOps+1) {
				// nothing moved for a while and what is missing fits into partial batches (one per operator batcher
				// plus the key-event batcher) that, without a batch time-out, never flush: the run is over. With more
				// missing than that the runner is merely slow (loaded machine): wait for the 4 s deadline.
				break
			}
			time.Sleep(300 * time.Microsecond)
		}
		time.Sleep(time.Duration(2+tick) * time.Millisecond)
		w.mu.Lock()
		w.o.Record = nil
		w.mu.Unlock()
		o := obsOf(w)
		w.close()
		verifhook.Install(nil, nil)
		emu.Lock()
		evs := events
		emu.Unlock()
		all = append(all, map[string]any{"op": "Reset", "run": ri, "maxSize": maxSize, "delayMs": delayMs, "tickMs": tick, "eoi": eoi})
		for _, e := range evs {
			all = append(all, e)
		}
		all = append(all, map[string]any{"op": "End", "stuck": stuckOK, "maxSize": maxSize})
		res.Executed++
		nw := 0
		for _, st := range o.streams {
			for _, it := range st {
				if it.T == "w" {
					nw++
				}
			}
		}
		res.Count("watermarks", nw)
		res.Count("checkpoints", len(o.ckpts))
		p, what := o.safety()
		known := ""
		if what == "" {
			w.mu.Lock()
			sent := w.eoiSent
			w.mu.Unlock()
			p, what, known = o.complete(stuckOK, sent)
		}
		for _, p := range strings.Split(p, "+") {
			if what == "" {
				break
			}
			res.Violations = append(res.Violations, mbt.Violation{Known: known, Property: p, Behaviour: ri, Step: -1, What: fmt.Sprintf("free run %d (maxSize %d, delay %dms): %s", ri, maxSize, delayMs, what),
				Observed: map[string]any{"streams": fmtStreams(o.streams), "read_order": fmt.Sprint(o.order), "checkpoints": o.ckpts}})
		}
	}
	res.Samples = all
}
