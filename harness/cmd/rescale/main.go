package main

import (
	"fmt"
	"os"
	"path/filepath"

	"reduction.dev/reduction/dkv"
	"reduction.dev/reduction/dkv/recovery"
	"reduction.dev/reduction/dkv/storage"
)

func scan(db *dkv.DB, p []byte) string {
	var err error
	s := ""
	for e := range db.ScanPrefix(p, &err) {
		s += fmt.Sprintf("%x=%s ", e.Key(), e.Value())
	}
	if err != nil {
		s += "ERR " + err.Error()
	}
	return s
}

func main() {
	dir, _ := os.MkdirTemp("/dev/shm", "probe")
	defer os.RemoveAll(dir)
	mk := func(name string, mem uint64, hs []recovery.CheckpointHandle) *dkv.DB {
		return dkv.Open(dkv.DBOptions{FileSystem: storage.NewLocalFilesystem(filepath.Join(dir, name)), MemTableSize: mem}, hs)
	}
	hi := byte(0)
	if len(os.Args) > 1 && os.Args[1] == "hi" {
		hi = 0x80
	}
	a := mk("a", 40, nil)
	b := mk("b", 40, nil)
	for i := 0; i < 6; i++ {
		a.Put([]byte{0, hi + 1, byte('a' + i)}, []byte("va"))
		b.Put([]byte{0, hi + 2, byte('a' + i)}, []byte("vb"))
		a.WaitOnTasks()
		b.WaitOnTasks()
	}
	fmt.Println("a:", a.Diagnostics())
	ha, err := a.Checkpoint(1)()
	fmt.Println(ha, err)
	hb, err := b.Checkpoint(1)()
	fmt.Println(hb, err)
	for _, order := range [][]recovery.CheckpointHandle{{ha, hb}, {hb, ha}} {
		c := mk(fmt.Sprintf("c%v", order[0] == ha), 1<<20, order)
		fmt.Println("order a-first:", order[0] == ha)
		fmt.Println(" scan a-keys:", scan(c, []byte{0, hi + 1}))
		fmt.Println(" scan b-keys:", scan(c, []byte{0, hi + 2}))
		fmt.Println(c.Diagnostics())
		func() {
			defer func() { fmt.Println(" checkpoint recover:", recover()) }()
			h, err := c.Checkpoint(2)()
			fmt.Println(" checkpoint 2:", h, err)
		}()
	}
}
