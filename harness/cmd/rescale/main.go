// Command rescale replays behaviours of spec/Rescale.tla (property C06) on real operators.
//
// Every generation of a behaviour is a set of real workers/operator.Operator instances (own dkv.DB on a
// shared tmpfs directory, reference handler, recording job) deployed by the REAL jobs.Assembly.Deploy
// through proto.Operator adapters: the harness only hands it the JobCheckpoint whose operator
// checkpoints are the real OperatorCheckpointComplete acknowledgements in the order in which they
// really arrived (the harness sends the barrier to the operators in the order the model chose).
//
//	Init    count, grp (key group of every subject key), n operators, compaction regime
//	W       one keyed event for subject key k to its operator: the handler puts / deletes the state
//	        entry or registers timer t. When the model's next step is Flush(o) the value is padded
//	        to the memtable size (verif tunable dkv.memTableSize) so that this write fills the memtable
//	Flush   wait for the flush and compaction tasks that write started (hooks dkv.flush.start /
//	        dkv.compact.done); compaction regime through the tunable dkv.maxSizeAmpPct
//	Wm      watermark t to operator o: the timers handed to the handler are compared
//	Ckpt    barrier to the operators in ack order perm: real OperatorCheckpoints
//	Resume  the job goes on with the same operators: the retention round jobs.Job runs when a checkpoint completed
//	        (UpdateRetainedCheckpoints([that checkpoint]) to every operator)
//	Deploy  n new operators (new ids, hence new DKV directories) through jobs.Assembly.Deploy
//	Finish  every remaining timer is fired, the operators checkpoint once more and that checkpoint is
//	        restored once more (same operator count) and read back
//
// After every step every subject key is read back through the handler of the operator the real
// KeySpace routes it to (a read event: the handler is given the key's state and changes nothing).
// Verdicts: the state a handler is given / the timers that fire differ from the model's abstract
// oracle (exp), an assignment outside must/may, or the code under test crashes the process.
package main

import (
	"context"
	"encoding/json"
	"fmt"
	"io"
	"log/slog"
	"math"
	"os"
	"path/filepath"
	"reflect"
	"regexp"
	"runtime"
	"sort"
	"strconv"
	"strings"
	"sync"
	"sync/atomic"
	"time"
	"unsafe"

	gproto "google.golang.org/protobuf/proto"
	"google.golang.org/protobuf/types/known/timestamppb"
	"reduction.dev/reduction-protocol/handlerpb"
	"reduction.dev/reduction/batching"
	"reduction.dev/reduction/clocks"
	"reduction.dev/reduction/config"
	"reduction.dev/reduction/dkv"
	"reduction.dev/reduction/jobs"
	"reduction.dev/reduction/partitioning"
	"reduction.dev/reduction/proto"
	"reduction.dev/reduction/proto/jobpb"
	"reduction.dev/reduction/proto/snapshotpb"
	"reduction.dev/reduction/proto/workerpb"
	"reduction.dev/reduction/util/verifhook"
	"reduction.dev/reduction/workers/operator"
	"verif/harness/mbt"
	"verif/harness/opkit"
)

const stepWait = 20 * time.Second

// ------------------------------------------------------------------ hooks ----

type hookState struct {
	mu         sync.Mutex
	cond       *sync.Cond
	flushStart int
	compDone   int
	lastDB     *dkv.DB
	memSize    int64
	regime     string
}

var hooks = func() *hookState { h := &hookState{}; h.cond = sync.NewCond(&h.mu); return h }()

func (h *hookState) at(point string, args ...any) {
	switch point {
	case "dkv.flush.start":
		h.mu.Lock()
		h.flushStart++
		if len(args) > 0 {
			if db, ok := args[0].(*dkv.DB); ok {
				h.lastDB = db
			}
		}
		h.cond.Broadcast()
		h.mu.Unlock()
	case "dkv.compact.done":
		h.mu.Lock()
		h.compDone++
		h.cond.Broadcast()
		h.mu.Unlock()
	}
}

func (h *hookState) tune(name string, def int64) int64 {
	h.mu.Lock()
	defer h.mu.Unlock()
	switch name {
	case "dkv.memTableSize":
		return h.memSize
	case "dkv.maxSizeAmpPct":
		if h.regime == "major" {
			return -1 // every compaction is a major one taking everything into the base level
		}
		return math.MaxInt64 // never a major compaction: L0+L1 -> L1
	}
	return def
}

// awaitStart waits until the flush task of the n-th rotation has started; the DB it belongs to
func (h *hookState) awaitStart(n int) (*dkv.DB, error) {
	deadline := time.Now().Add(stepWait)
	timer := time.AfterFunc(stepWait, func() { h.mu.Lock(); h.cond.Broadcast(); h.mu.Unlock() })
	defer timer.Stop()
	h.mu.Lock()
	defer h.mu.Unlock()
	for h.flushStart < n {
		if time.Now().After(deadline) {
			return nil, fmt.Errorf("the padded write did not fill the memtable (flush tasks started %d, wanted %d)", h.flushStart, n)
		}
		h.cond.Wait()
	}
	return h.lastDB, nil
}

// awaitQuiet waits until at least `want` rotations have been flushed and compacted and none is in flight.
func (h *hookState) awaitQuiet(want int) (*dkv.DB, error) {
	deadline := time.Now().Add(stepWait)
	timer := time.AfterFunc(stepWait, func() { h.mu.Lock(); h.cond.Broadcast(); h.mu.Unlock() })
	defer timer.Stop()
	h.mu.Lock()
	defer h.mu.Unlock()
	for !(h.compDone >= want && h.compDone == h.flushStart) {
		if time.Now().After(deadline) {
			return nil, fmt.Errorf("flush/compaction did not finish (flush tasks started %d, compaction loops done %d, wanted %d)", h.flushStart, h.compDone, want)
		}
		h.cond.Wait()
	}
	return h.lastDB, nil
}

// ---------------------------------------------------------------- handler ----

type cmd struct {
	Op  string `json:"op"` // put | del | timer | read
	V   string `json:"v,omitempty"`
	T   int64  `json:"t,omitempty"`
	Pad int    `json:"pad,omitempty"`
}

type call struct {
	key    string
	states map[string][]string // subject key -> "ns/entry=value"
	timers [][2]string         // (subject key, seconds) expired in this call
}

type refHandler struct {
	mu    sync.Mutex
	calls []*call
}

func (h *refHandler) KeyEventBatch(ctx context.Context, events [][]byte) ([][]*handlerpb.KeyedEvent, error) {
	panic("unused by operators")
}

func (h *refHandler) ProcessEventBatch(ctx context.Context, req *handlerpb.ProcessEventBatchRequest) (*handlerpb.ProcessEventBatchResponse, error) {
	c := &call{states: map[string][]string{}}
	for _, ks := range req.KeyStates {
		ents := []string{}
		for _, ns := range ks.StateEntryNamespaces {
			for _, e := range ns.Entries {
				v := string(e.Value)
				if i := strings.IndexByte(v, '|'); i >= 0 {
					v = v[:i]
				}
				ents = append(ents, ns.Namespace+"/"+string(e.Key)+"="+v)
			}
		}
		sort.Strings(ents)
		c.states[string(ks.Key)] = ents
	}
	resp := &handlerpb.ProcessEventBatchResponse{}
	for _, ev := range req.Events {
		switch e := ev.Event.(type) {
		case *handlerpb.Event_KeyedEvent:
			c.key = string(e.KeyedEvent.Key)
			var m cmd
			if err := json.Unmarshal(e.KeyedEvent.Value, &m); err != nil {
				return nil, err
			}
			kr := &handlerpb.KeyResult{Key: e.KeyedEvent.Key}
			switch m.Op {
			case "put":
				val := m.V
				if m.Pad > 0 {
					val += "|" + strings.Repeat("p", m.Pad)
				}
				kr.StateMutationNamespaces = []*handlerpb.StateMutationNamespace{{Namespace: "s", Mutations: []*handlerpb.StateMutation{{
					Mutation: &handlerpb.StateMutation_Put{Put: &handlerpb.PutMutation{Key: []byte("x"), Value: []byte(val)}}}}}}
			case "del":
				kr.StateMutationNamespaces = []*handlerpb.StateMutationNamespace{{Namespace: "s", Mutations: []*handlerpb.StateMutation{{
					Mutation: &handlerpb.StateMutation_Delete{Delete: &handlerpb.DeleteMutation{Key: []byte("x")}}}}}}
			case "timer":
				kr.NewTimers = []*timestamppb.Timestamp{{Seconds: m.T}}
			}
			if m.Op != "read" {
				resp.KeyResults = append(resp.KeyResults, kr)
			}
		case *handlerpb.Event_TimerExpired:
			c.timers = append(c.timers, [2]string{string(e.TimerExpired.Key), strconv.FormatInt(e.TimerExpired.Timestamp.GetSeconds(), 10)})
		}
	}
	h.mu.Lock()
	h.calls = append(h.calls, c)
	h.mu.Unlock()
	return resp, nil
}

func (h *refHandler) take() []*call {
	h.mu.Lock()
	defer h.mu.Unlock()
	c := h.calls
	h.calls = nil
	return c
}

var _ proto.Handler = (*refHandler)(nil)

// ------------------------------------------------------------ adapters ----

// opNode: a real operator + what jobs.Assembly (proto.Operator) and its neighbours hold for it
type opNode struct {
	proto.UnimplementedOperator
	id      string
	op      *operator.Operator
	h       *refHandler
	cancel  context.CancelFunc
	done    chan error
	deploy  *workerpb.DeployOperatorRequest
	cluster *generation
	wrote   bool // processed a write since its deployment
	// alias: this operator refers to shared table files under a different spelling of their URIs (".../x/./f.sst"),
	// as if it lived in another process: table files are reference counted per process by URI, so without this an
	// in-process neighbour that still holds a table would keep every other operator's cleanup from even asking
	alias bool
	asked atomic.Int32
}

func (n *opNode) ID() string   { return n.id }
func (n *opNode) Host() string { return n.id + "-host" }
func (n *opNode) Deploy(ctx context.Context, req *workerpb.DeployOperatorRequest) error {
	// Assembly.Deploy calls the operators concurrently; dkv.Open is serialised here only so that the hook
	// counters of one operator's WAL replay do not interleave with another's (no effect on the operators)
	n.cluster.deployMu.Lock()
	defer n.cluster.deployMu.Unlock()
	if n.alias {
		// jobs.Assembly.Deploy hands every operator the same checkpoint messages: re-spell a copy
		req = gproto.Clone(req).(*workerpb.DeployOperatorRequest)
		for _, ck := range req.Checkpoints {
			if uri, err := aliasDoc(ck.DkvFileUri, n.id); err == nil {
				ck.DkvFileUri = uri
			} else {
				return err
			}
		}
	}
	n.deploy = req
	return n.op.HandleDeploy(ctx, req, nil)
}
func (n *opNode) NeedsTable(ctx context.Context, uri string) (bool, error) {
	n.asked.Add(1)
	if n.alias {
		// tables restored from the aliased document carry the alias spelling, tables of its own later checkpoints the plain one
		return n.op.HandleNeedsTable(aliasURI(uri)) || n.op.HandleNeedsTable(uri), nil
	}
	return n.op.HandleNeedsTable(strings.Replace(uri, "/./", "/", 1)), nil
}

// aliasURI spells the same file differently: /a/b/f.sst -> /a/b/./f.sst
func aliasURI(uri string) string {
	i := strings.LastIndex(uri, "/")
	if i < 0 || strings.HasSuffix(uri[:i], "/.") {
		return uri
	}
	return uri[:i] + "/." + uri[i:]
}

// aliasDoc copies a DKV checkpoints document with every table and WAL URI re-spelled.
func aliasDoc(docURI, who string) (string, error) {
	path := strings.TrimPrefix(docURI, "file://")
	b, err := os.ReadFile(path)
	if err != nil {
		return "", err
	}
	var d map[string]any
	if err := json.Unmarshal(b, &d); err != nil {
		return "", err
	}
	var walk func(v any)
	walk = func(v any) {
		switch x := v.(type) {
		case map[string]any:
			for k, e := range x {
				if s, ok := e.(string); ok && (k == "URI" || k == "uri") {
					x[k] = aliasURI(s)
				} else {
					walk(e)
				}
			}
		case []any:
			for _, e := range x {
				walk(e)
			}
		}
	}
	walk(d)
	out, err := json.Marshal(d)
	if err != nil {
		return "", err
	}
	dst := path + ".alias-" + who
	if err := os.WriteFile(dst, out, 0o644); err != nil {
		return "", err
	}
	return strings.TrimSuffix(docURI, path) + dst, nil
}

// docTables lists the table URIs of checkpoint id in a DKV checkpoints document.
func docTables(docURI string, id uint64) []string {
	b, err := os.ReadFile(strings.TrimPrefix(docURI, "file://"))
	if err != nil {
		return nil
	}
	var d struct {
		Checkpoints []struct {
			ID     uint64                   `json:"id"`
			Levels [][]struct{ URI string } `json:"levels"`
		} `json:"checkpoints"`
	}
	if json.Unmarshal(b, &d) != nil {
		return nil
	}
	var out []string
	for _, c := range d.Checkpoints {
		if c.ID != id {
			continue
		}
		for _, l := range c.Levels {
			for _, t := range l {
				out = append(out, t.URI)
			}
		}
	}
	return out
}
func (n *opNode) UpdateRetainedCheckpoints(ctx context.Context, ids []uint64) error { return nil }

type srNode struct {
	proto.UnimplementedSourceRunner
}

func (*srNode) ID() string                                                        { return "sr" }
func (*srNode) Host() string                                                      { return "sr-host" }
func (*srNode) Deploy(context.Context, *workerpb.DeploySourceRunnerRequest) error { return nil }

type generation struct {
	n        int
	nodes    []*opNode
	job      *opkit.JobRec
	ks       *partitioning.KeySpace
	deployMu sync.Mutex
}

// ------------------------------------------------------------- replayer ----

type run struct {
	bi      int
	in      *mbt.Input
	res     *mbt.Result
	dir     string
	count   int
	keys    [][]byte // subject key of k (1-based: keys[k-1])
	keyNo   map[string]int
	genNo   int
	gens    []*generation // all generations stay referenced until the behaviour ends
	cur     *generation
	ckptID  uint64
	acks    []*snapshotpb.OperatorCheckpoint
	rot     int         // rotations the harness has caused so far (process-wide hook counters)
	pending map[int]int // operator -> padded writes whose Flush step has not been reached yet
	dbOf    map[int]*dkv.DB
	failed  bool
	serial  int
	byID    map[string]*opNode // every operator node of the behaviour (ids are unique)
	reuseNo int
}

func (r *run) violate(step int, what string, exp, obs any) {
	r.failed = true
	r.res.Violations = append(r.res.Violations, mbt.Violation{Property: r.in.Property, Behaviour: r.bi, Step: step, What: what, Expected: exp, Observed: obs})
}

func (r *run) pendingTotal() int {
	n := 0
	for _, v := range r.pending {
		n += v
	}
	return n
}

func (r *run) machinery(format string, a ...any) {
	r.failed = true
	r.res.Errors = append(r.res.Errors, fmt.Sprintf("behaviour %d: ", r.bi)+fmt.Sprintf(format, a...))
}

// findKey: a subject key "k<no>-<nonce>" (fixed width, byte order = order of no) that the real KeySpace puts in group g
func findKey(ks *partitioning.KeySpace, no, g int) []byte {
	for nonce := 0; ; nonce++ {
		k := []byte(fmt.Sprintf("k%02d-%07d", no, nonce))
		if int(ks.KeyGroup(k)) == g {
			return k
		}
	}
}

func withTimeout(what string, f func() error) error {
	errc := make(chan error, 1)
	go func() { errc <- f() }()
	select {
	case err := <-errc:
		return err
	case <-time.After(stepWait):
		return fmt.Errorf("%s: no answer within %s", what, stepWait)
	}
}

func (r *run) send(n *opNode, ev *workerpb.Event) error {
	return withTimeout("event to "+n.id, func() error { return n.op.HandleEvent(context.Background(), "sr", ev) })
}

func keyed(key []byte, c cmd) *workerpb.Event {
	b, _ := json.Marshal(c)
	return &workerpb.Event{Event: &workerpb.Event_KeyedEvent{KeyedEvent: &handlerpb.KeyedEvent{Key: key, Value: b, Timestamp: timestamppb.New(time.Unix(1, 0))}}}
}

// deploy a new generation of n operators from the recorded acks through the real jobs.Assembly.Deploy
func (r *run) deploy(step int, n int, regime string, st mbt.Step) bool {
	hooks.mu.Lock()
	hooks.regime = regime
	hooks.mu.Unlock()
	// InPlace: a deploy to the same number of operators re-deploys the running operators themselves (same Operator
	// objects, same ids, same storage directories), as jobs.Job does when it re-assembles with surviving workers
	inPlace := r.in.CfgBool("InPlace", false) && r.cur != nil && r.cur.n == n
	// Reuse: the surviving workers of a job that re-assembles keep their Operator objects (ids, directories), whatever
	// the new operator count is, and need not keep their position in the operator list: the first min(old, n) positions
	// are taken by the old operators in rotated order, the rest by new ones
	var kept []*opNode
	if r.in.CfgBool("Reuse", false) && r.cur != nil && !inPlace {
		old := r.cur.nodes
		rot := (r.reuseNo + 1) % len(old)
		r.reuseNo++
		kept = append(append([]*opNode{}, old[rot:]...), old[:rot]...)
		if len(kept) > n {
			for _, nd := range kept[n:] {
				nd.op.Halt()
				nd.cancel()
			}
			for _, nd := range kept[n:] {
				select {
				case <-nd.done:
				case <-time.After(2 * time.Second):
				}
			}
			kept = kept[:n]
		}
		r.res.Count("operators_redeployed_at_another_position_or_count", len(kept))
	}
	if r.cur != nil && !inPlace && kept == nil {
		for _, nd := range r.cur.nodes {
			nd.op.Halt()
			nd.cancel()
		}
		for _, nd := range r.cur.nodes {
			select {
			case <-nd.done:
			case <-time.After(2 * time.Second):
			}
		}
	}
	g := &generation{n: n, job: &opkit.JobRec{}, ks: partitioning.NewKeySpace(r.count, n)}
	if r.byID == nil {
		r.byID = map[string]*opNode{}
	}
	byID := r.byID
	ops := make([]proto.Operator, n)
	if inPlace {
		g.job, g.nodes = r.cur.job, r.cur.nodes
		for j, nd := range g.nodes {
			nd.cluster = g
			ops[j] = nd
		}
		r.res.Count("redeploys_in_place", 1)
	}
	if kept != nil {
		g.job = r.cur.job
		for j, nd := range kept {
			nd.cluster = g
			g.nodes = append(g.nodes, nd)
			ops[j] = nd
		}
	}
	for j := len(kept); j < n && !inPlace; j++ {
		r.serial++
		id := fmt.Sprintf("g%do%d-%03d", len(r.gens)+1, j, r.serial)
		nd := &opNode{id: id, h: &refHandler{}, done: make(chan error, 1), cluster: g}
		if r.genNo >= 1 { // operators deployed by a rescale (not the first generation)
			for _, a := range r.in.Ints("AliasOps") {
				nd.alias = nd.alias || a == j
			}
		}
		nd.op = operator.NewOperator(operator.NewOperatorParams{ID: id, Host: id + "-host", Job: g.job, UserHandler: nd.h,
			Clock:         clocks.NewFrozenClock(),
			EventBatching: batching.EventBatcherParams{MaxSize: 1, Timer: &opkit.Timer{}},
			NeighborOperatorFactory: func(senderID string, node *jobpb.NodeIdentity) proto.Operator {
				if r.in.CfgBool("GCInDeploy", false) {
					// a garbage collection in the middle of HandleDeploy (the factory is called from there): whatever the
					// operator no longer references at this point is collected and its cleanups run
					for i := 0; i < 2; i++ {
						runtime.GC()
						time.Sleep(2 * time.Millisecond)
					}
					r.res.Count("gcs_inside_deploy", 1)
				}
				return byID[node.Id]
			}})
		byID[id] = nd
		g.nodes = append(g.nodes, nd)
		ops[j] = nd
		ctx, cancel := context.WithCancel(context.Background())
		nd.cancel = cancel
		go func() { nd.done <- nd.op.Start(ctx) }()
	}
	asm := jobs.NewAssembly(ops, []proto.SourceRunner{&srNode{}})
	var ckpt *snapshotpb.JobCheckpoint
	if r.acks != nil {
		ckpt = &snapshotpb.JobCheckpoint{Id: r.ckptID, OperatorCheckpoints: r.acks}
	}
	cfg := &config.Config{WorkerCount: n, KeyGroupCount: r.count, WorkingStorageLocation: r.dir}
	if err := withTimeout("Assembly.Deploy", func() error { return asm.Deploy(cfg, ckpt) }); err != nil {
		r.violate(step, fmt.Sprintf("jobs.Assembly.Deploy of %d operators from checkpoint %d failed: %v", n, r.ckptID, err), nil, err.Error())
		return false
	}
	r.genNo++
	for _, og := range r.gens {
		for _, nd := range og.nodes {
			r.res.Count("needs_table_calls", int(nd.asked.Swap(0)))
		}
	}
	if r.in.CfgBool("GC", false) && len(r.in.Ints("AliasOps")) == 0 {
		// C09 arm: the replaced (halted) operators become garbage, as after a real redeploy; only storage keeps their
		// work. (Not with aliased operators: an aliased operator does not share the per-process reference count of the
		// tables its predecessor wrote itself, so the predecessor's unconditional own-table cleanup would delete them -
		// real predecessors in other processes die without running cleanups.)
		r.gens = nil
	}
	r.gens = append(r.gens, g)
	r.cur = g
	r.pending, r.dbOf = map[int]int{}, map[int]*dkv.DB{}
	// observable "AssignRanges result": which recorded checkpoints each new operator was handed
	if st != nil && r.acks != nil {
		idx := map[string]int{}
		for i, a := range r.acks {
			idx[a.OperatorId] = i
		}
		for j, nd := range g.nodes {
			got := []int{}
			for _, c := range nd.deploy.Checkpoints {
				got = append(got, idx[c.OperatorId])
			}
			must, may := ints(st.List("must")[j]), ints(st.List("may")[j])
			if !subset(must, got) || !subset(got, may) {
				r.violate(step, fmt.Sprintf("new operator %d of %d was handed the recorded checkpoints %v (ack positions); it shares key groups with %v", j, n, got, must), must, got)
				return false
			}
		}
	}
	return true
}

func ints(v any) []int {
	arr, _ := v.([]any)
	out := []int{}
	for _, x := range arr {
		f, _ := x.(float64)
		out = append(out, int(f))
	}
	return out
}

func subset(a, b []int) bool {
	m := map[int]bool{}
	for _, x := range b {
		m[x] = true
	}
	for _, x := range a {
		if !m[x] {
			return false
		}
	}
	return true
}

// readBack: every subject key through the handler of the operator the real key space routes it to
func (r *run) readBack(step int, exp map[string]any, where string) bool {
	if r.in.CfgBool("GC", false) {
		// C09: collect every table object nothing refers to any more (its cleanup may delete the file, after asking
		// the neighbouring operators) before reading everything back through every operator
		for i := 0; i < 3; i++ {
			runtime.GC()
			time.Sleep(3 * time.Millisecond)
		}
	}
	st := ints(exp["st"])
	for k := 1; k <= len(r.keys); k++ {
		key := r.keys[k-1]
		nd := r.cur.nodes[r.cur.ks.RangeIndex(key)]
		nd.h.take()
		if err := r.send(nd, keyed(key, cmd{Op: "read"})); err != nil {
			r.machinery("step %d: read of key %d: %v", step, k, err)
			return false
		}
		calls := nd.h.take()
		if len(calls) != 1 {
			r.machinery("step %d: read of key %d produced %d handler calls", step, k, len(calls))
			return false
		}
		got := calls[0].states[string(key)]
		want := []string{}
		if st[k-1] != 0 {
			want = []string{"s/x=" + strconv.Itoa(st[k-1])}
		}
		if fmt.Sprint(got) != fmt.Sprint(want) {
			r.violate(step, fmt.Sprintf("%s: operator %s (%d of %d, key groups %v) gave its handler the state %v for subject key %d (key group %d of %d); the job's state of that key is %v",
				where, nd.id, r.cur.ks.RangeIndex(key), r.cur.n, r.cur.ks.KeyGroupRanges()[r.cur.ks.RangeIndex(key)], got, k, r.cur.ks.KeyGroup(key), r.count, want), want, got)
			return false
		}
	}
	// the two read paths of every operator's database agree: what ScanPrefix yields (the path keyed state and timers
	// use) is what Get returns for that key (point lookups take another way through the levels; after a restore from
	// several checkpoints level 0 holds tables of every source)
	for _, nd := range r.cur.nodes {
		db := operatorDB(nd.op)
		if db == nil {
			continue
		}
		bad := ""
		func() {
			defer func() {
				if p := recover(); p != nil {
					bad = fmt.Sprintf("reading the database of operator %s panics: %v", nd.id, p)
					if os.Getenv("RESCALE_DEBUG") != "" {
						fmt.Fprintln(os.Stderr, "DEBUG", nd.id, "deploy:", nd.deploy, "\n", db.Diagnostics())
						filepath.WalkDir(r.dir, func(p string, d os.DirEntry, err error) error { fmt.Fprintln(os.Stderr, "  ", p); return nil })
					}
				}
			}()
			var serr error
			for e := range db.ScanPrefix(nil, &serr) {
				g, err := db.Get(e.Key())
				r.res.Count("get_vs_scan_probes", 1)
				switch {
				case err != nil:
					bad = fmt.Sprintf("%s: operator %s: ScanPrefix yields key %q but Get fails: %v", where, nd.id, e.Key(), err)
				case g.IsDelete():
					bad = fmt.Sprintf("%s: operator %s: ScanPrefix yields key %q but Get returns a delete marker", where, nd.id, e.Key())
				case string(g.Value()) != string(e.Value()):
					bad = fmt.Sprintf("%s: operator %s: Get(%q) returns %q, ScanPrefix yields %q for the same key", where, nd.id, e.Key(), g.Value(), e.Value())
				}
				if bad != "" {
					return
				}
			}
			if serr != nil {
				bad = fmt.Sprintf("%s: operator %s: ScanPrefix fails: %v", where, nd.id, serr)
			}
		}()
		if bad != "" {
			r.violate(step, bad, nil, nil)
			return false
		}
	}
	return true
}

// operatorDB reads the unexported db field of a real Operator (harness only).
func operatorDB(op *operator.Operator) (db *dkv.DB) {
	defer func() {
		if recover() != nil {
			db = nil
		}
	}()
	f := reflect.ValueOf(op).Elem().FieldByName("db")
	if !f.IsValid() || f.IsNil() {
		return nil
	}
	return (*dkv.DB)(unsafe.Pointer(f.Pointer()))
}

// fire: watermark t to one operator; the timers its handler is given
func (r *run) fire(step int, o int, t int64) ([][2]int, bool) {
	nd := r.cur.nodes[o]
	nd.h.take()
	if err := r.send(nd, &workerpb.Event{Event: &workerpb.Event_Watermark{Watermark: &workerpb.Watermark{Timestamp: &timestamppb.Timestamp{Seconds: t}}}}); err != nil {
		r.machinery("step %d: watermark to operator %d: %v", step, o, err)
		return nil, false
	}
	out := [][2]int{}
	for _, c := range nd.h.take() {
		for _, tm := range c.timers {
			no, ok := r.keyNo[tm[0]]
			if !ok {
				no = -1
			}
			sec, _ := strconv.Atoi(tm[1])
			out = append(out, [2]int{no, sec})
		}
	}
	sort.Slice(out, func(i, j int) bool { return out[i][0] < out[j][0] || (out[i][0] == out[j][0] && out[i][1] < out[j][1]) })
	return out, true
}

func pairs(v any) [][2]int {
	arr, _ := v.([]any)
	out := [][2]int{}
	for _, x := range arr {
		p := ints(x)
		if len(p) == 2 {
			out = append(out, [2]int{p[0], p[1]})
		}
	}
	sort.Slice(out, func(i, j int) bool { return out[i][0] < out[j][0] || (out[i][0] == out[j][0] && out[i][1] < out[j][1]) })
	return out
}

func indexOf(nodes []*opNode, nd *opNode) int {
	for i, x := range nodes {
		if x == nd {
			return i
		}
	}
	return -1
}

// checkpoint: barrier to the operators in the given order (0-based); the acks in arrival order
func (r *run) checkpoint(step int, order []int) bool {
	r.ckptID++
	g := r.cur
	before := len(g.job.Acks())
	for _, o := range order {
		nd := g.nodes[o]
		if err := r.send(nd, &workerpb.Event{Event: &workerpb.Event_CheckpointBarrier{CheckpointBarrier: &workerpb.CheckpointBarrier{CheckpointId: r.ckptID}}}); err != nil {
			r.violate(step, fmt.Sprintf("operator %s (%d of %d) could not take checkpoint %d: %v", nd.id, o, g.n, r.ckptID, err), nil, err.Error())
			return false
		}
	}
	acks := g.job.Acks()[before:]
	if len(acks) != len(order) {
		r.machinery("step %d: %d acks for %d barriers", step, len(acks), len(order))
		return false
	}
	for i, a := range acks {
		if a.OperatorId != g.nodes[order[i]].id || a.CheckpointId != r.ckptID {
			r.machinery("step %d: ack %d is from %s for checkpoint %d", step, i, a.OperatorId, a.CheckpointId)
			return false
		}
	}
	r.acks = acks
	return true
}

var levelRe = regexp.MustCompile(`level (\d+), tables (\d+)`)

func layout(db *dkv.DB) []int {
	out := make([]int, 6)
	for _, m := range levelRe.FindAllStringSubmatch(db.Diagnostics(), -1) {
		l, _ := strconv.Atoi(m[1])
		n, _ := strconv.Atoi(m[2])
		if l < 6 {
			out[l] = n
		}
	}
	return out
}

func replay(bi int, beh []mbt.Step, in *mbt.Input, res *mbt.Result) {
	slog.SetDefault(slog.New(slog.NewTextHandler(io.Discard, nil)))
	dir, err := opkit.TempDir("verif-rescale-")
	if err != nil {
		res.Errors = append(res.Errors, err.Error())
		return
	}
	defer os.RemoveAll(dir)
	r := &run{bi: bi, in: in, res: res, dir: dir, keyNo: map[string]int{}, pending: map[int]int{}, dbOf: map[int]*dkv.DB{}}
	hooks.mu.Lock()
	hooks.memSize = int64(in.CfgInt("MemSize", 4096))
	r.rot = hooks.compDone
	hooks.mu.Unlock()
	verifhook.Install(hooks.at, hooks.tune)
	defer func() {
		for _, g := range r.gens {
			for _, nd := range g.nodes {
				res.Count("needs_table_calls", int(nd.asked.Swap(0)))
				if nd.op != nil {
					nd.op.Halt()
				}
				nd.cancel()
			}
		}
	}()
	layoutDrift := false
	var lastExp map[string]any
	for si, st := range beh {
		if os.Getenv("RESCALE_TRACE") != "" {
			fmt.Fprintf(os.Stderr, "STEP %d %v\n", si, st)
		}
		if r.failed {
			break
		}
		exp := st.Map("exp")
		switch st.Str("a") {
		case "Init":
			r.count = st.Int("count")
			ks1 := partitioning.NewKeySpace(r.count, 1)
			for i, g := range st.Ints("grp") {
				k := findKey(ks1, i+1, g)
				r.keys = append(r.keys, k)
				r.keyNo[string(k)] = i + 1
			}
			if !r.deploy(si, st.Int("n"), st.Str("reg"), nil) {
				break
			}
			exp = map[string]any{"st": make([]any, len(r.keys)), "tm": []any{}}
			for i := range r.keys {
				exp["st"].([]any)[i] = float64(0)
			}
			r.readBack(si, exp, "fresh job")
		case "W":
			o, k := st.Int("o")-1, st.Int("k")
			key := r.keys[k-1]
			if own := r.cur.ks.RangeIndex(key); own != o {
				r.machinery("step %d: the model sends key %d to operator %d, the real key space routes it to %d", si, k, o, own)
				break
			}
			c := cmd{Op: "put", V: strconv.Itoa(st.Int("v"))}
			if t := st.Int("t"); t > 0 {
				c = cmd{Op: "timer", T: int64(t)}
			} else if st.Int("v") == 0 {
				c = cmd{Op: "del"}
			}
			// is this the write that fills the memtable? (the model's Flush(o) follows the last write of o; steps of
			// other operators may lie in between)
			flushNext := false
			for j := si + 1; j < len(beh); j++ {
				a := beh[j].Str("a")
				if a == "Ckpt" || a == "Deploy" || a == "Finish" {
					break
				}
				if beh[j].Int("o") == o+1 {
					flushNext = a == "Flush"
					break
				}
			}
			if flushNext {
				c.Pad = in.CfgInt("MemSize", 4096)
			}
			nd := r.cur.nodes[o]
			nd.h.take()
			if err := r.send(nd, keyed(key, c)); err != nil {
				r.machinery("step %d: %v", si, err)
				break
			}
			// the state the handler was given BEFORE this write is the job's state before it
			if calls := nd.h.take(); len(calls) == 1 && lastExp != nil {
				want := []string{}
				if v := ints(lastExp["st"])[k-1]; v != 0 {
					want = []string{"s/x=" + strconv.Itoa(v)}
				}
				if got := calls[0].states[string(key)]; fmt.Sprint(got) != fmt.Sprint(want) {
					r.violate(si, fmt.Sprintf("operator %s gave its handler the state %v for subject key %d with the event that writes it; the job's state of that key was %v", nd.id, got, k, want), want, got)
					break
				}
			}
			if flushNext {
				r.rot++
				r.pending[o]++
				r.cur.nodes[o].wrote = true
				db, err := hooks.awaitStart(r.rot)
				if err != nil {
					r.machinery("step %d: %v", si, err)
					break
				}
				r.dbOf[o] = db
			}
			if r.pendingTotal() == 0 {
				r.readBack(si, exp, "after a write")
			}
		case "Flush":
			if r.pending[st.Int("o")-1] != 1 {
				r.machinery("step %d: Flush(%d) without a padded write", si, st.Int("o"))
				break
			}
			r.pending[st.Int("o")-1] = 0
			if _, err := hooks.awaitQuiet(r.rot); err != nil {
				r.machinery("step %d: %v", si, err)
				break
			}
			db := r.dbOf[st.Int("o")-1]
			hooks.mu.Lock()
			extra := hooks.compDone != r.rot
			hooks.mu.Unlock()
			if extra {
				r.machinery("step %d: a memtable rotation the harness did not cause", si)
				break
			}
			if db != nil && !layoutDrift {
				if got, want := layout(db), st.Ints("lay"); fmt.Sprint(got) != fmt.Sprint(want) {
					layoutDrift = true // internal detail: the property does not demand a layout
					res.Count("layout_differs", 1)
					if len(res.DriftNotes) < 5 {
						res.DriftNotes = append(res.DriftNotes, fmt.Sprintf("behaviour %d step %d: tables per level %v, model %v", bi, si, got, want))
					}
				}
			}
			r.readBack(si, exp, "after a flush and compaction")
		case "Wm":
			o := st.Int("o") - 1
			got, ok := r.fire(si, o, int64(st.Int("t")))
			if !ok {
				break
			}
			if want := pairs(st["fire"]); fmt.Sprint(got) != fmt.Sprint(want) {
				nd := r.cur.nodes[o]
				r.violate(si, fmt.Sprintf("watermark %d at operator %s (%d of %d, key groups %v): the timers (subject key, time) %v fired; the job's pending timers of the keys it owns up to that time are %v",
					st.Int("t"), nd.id, o, r.cur.n, r.cur.ks.KeyGroupRanges()[o], got, want), want, got)
				break
			}
			r.readBack(si, exp, "after timers fired")
		case "Ckpt":
			order := []int{}
			for _, p := range st.Ints("perm") {
				order = append(order, p-1)
			}
			r.checkpoint(si, order)
		case "Resume":
			// what jobs.Job does when a checkpoint completes: the completed checkpoint is the only retained one
			// (Assembly.UpdateRetainedCheckpoints; the job ignores the operators' answers)
			for _, nd := range r.cur.nodes {
				err := withTimeout("retention", func() error {
					return nd.op.HandleRemoveCheckpoints(context.Background(), &workerpb.UpdateRetainedCheckpointsRequest{CheckpointIds: []uint64{r.ckptID}})
				})
				if err != nil {
					res.Count("retention_errors", 1)
				}
			}
			r.readBack(si, exp, "after the retention round of checkpoint "+strconv.FormatUint(r.ckptID, 10))
		case "Deploy":
			if !r.deploy(si, st.Int("n"), st.Str("reg"), st) {
				break
			}
			r.readBack(si, exp, fmt.Sprintf("after restoring checkpoint %d of %d operators into %d operators (acks recorded in the order %v)", r.ckptID, len(r.acks), st.Int("n"), ackOrder(r.acks)))
		case "Finish":
			r.finish(si, exp)
		default:
			r.machinery("unknown step %q", st.Str("a"))
		}
		if exp != nil {
			lastExp = exp
		}
		res.Steps++
	}
	if r.failed {
		return
	}
	if last := beh[len(beh)-1]; last.Str("a") != "Finish" && lastExp != nil && r.cur != nil {
		// a behaviour cut by the length bound: still drain the timers and checkpoint/restore once more
		r.finish(len(beh)-1, lastExp)
		if r.failed {
			return
		}
	}
	res.Executed++
	if bi < 2 {
		res.Samples = append(res.Samples, map[string]any{"kind": "Rescale behaviour replayed on real operators", "steps": slim(beh)})
	}
}

func ackOrder(acks []*snapshotpb.OperatorCheckpoint) []string {
	out := []string{}
	for _, a := range acks {
		out = append(out, fmt.Sprintf("%s[%d,%d)", a.OperatorId, a.KeyGroupRange.GetStart(), a.KeyGroupRange.GetEnd()))
	}
	return out
}

func slim(beh []mbt.Step) []any {
	out := []any{}
	for _, s := range beh {
		m := map[string]any{}
		for k, v := range s {
			if k != "lay" && k != "pred" {
				m[k] = v
			}
		}
		out = append(out, m)
	}
	return out
}

// finish: fire every remaining timer at every operator, checkpoint once more (ascending order), restore that
// checkpoint into the same number of fresh operators and read everything back once more
func (r *run) finish(step int, exp map[string]any) {
	want := map[int][][2]int{}
	for _, p := range pairs(exp["tm"]) {
		o := r.cur.ks.RangeIndex(r.keys[p[0]-1])
		want[o] = append(want[o], p)
	}
	for o := range r.cur.nodes {
		got, ok := r.fire(step, o, 1<<40)
		if !ok {
			return
		}
		w := want[o]
		if w == nil {
			w = [][2]int{}
		}
		if fmt.Sprint(got) != fmt.Sprint(w) {
			nd := r.cur.nodes[o]
			r.violate(step, fmt.Sprintf("final watermark at operator %s (%d of %d, key groups %v): the timers (subject key, time) %v fired; the job's pending timers of the keys it owns are %v",
				nd.id, o, r.cur.n, r.cur.ks.KeyGroupRanges()[o], got, w), w, got)
			return
		}
	}
	noTimers := map[string]any{"st": exp["st"], "tm": []any{}}
	if !r.readBack(step, noTimers, "after the last timers fired") {
		return
	}
	order := []int{}
	for o := range r.cur.nodes {
		order = append(order, o)
	}
	if !r.checkpoint(step, order) {
		return
	}
	hooks.mu.Lock()
	reg := hooks.regime
	hooks.mu.Unlock()
	if !r.deploy(step, r.cur.n, reg, nil) {
		return
	}
	if !r.readBack(step, noTimers, fmt.Sprintf("after restoring the final checkpoint %d into %d fresh operators", r.ckptID, r.cur.n)) {
		return
	}
	for o := range r.cur.nodes {
		got, ok := r.fire(step, o, 1<<40)
		if !ok {
			return
		}
		if len(got) != 0 {
			r.violate(step, fmt.Sprintf("timers %v fired again after restoring the final checkpoint (they had fired before it)", got), [][2]int{}, got)
			return
		}
	}
}

func main() { mbt.Main(replay) }
