// dkvtrace records API-level traces of the real dkv.DB under seeded random
// histories, random configurations (memtable / WAL / table sizes, compaction
// triggers and level sizes) and FREE-RUNNING background flush and compaction
// goroutines (perturbed by random tiny delays at the verif hook points), for
// validation against spec/DkvAbsTrace.tla. Each "behaviour" of the input is
// one run: [{"run": n}]; the recorded events go to Result.Traces.
package main

import (
	"bytes"
	"fmt"
	"math/rand"
	"runtime"
	"sort"
	"sync"
	"time"

	"reduction.dev/reduction/dkv"
	"reduction.dev/reduction/dkv/kv"
	"reduction.dev/reduction/dkv/recovery"
	"reduction.dev/reduction/util/verifhook"
	"verif/harness/fsx"
	"verif/harness/mbt"
)

var keys = []string{"", "", "a", "a\x00", "ab", "abc", "b", "b\xff", "\x00", "\xff", "\xff\xff", "k1", "k10"} // index 0 unused
var vals = []string{"", "", "x", "yy", "\x00\xff0123456789012345678901234567890123456789"}                    // value 1 is the empty value
var prefixes = []string{"", "a", "ab", "b", "\xff", "k1", "zz", "\x00"}

func keyID(b []byte) int {
	for i := 1; i < len(keys); i++ {
		if string(b) == keys[i] {
			return i
		}
	}
	return -1
}
func valID(b []byte) int {
	for i := 1; i < len(vals); i++ {
		if string(b) == vals[i] {
			return i
		}
	}
	return -1
}

type ev = map[string]any

func get(db *dkv.DB, k int) int {
	e, err := db.Get([]byte(keys[k]))
	if err == kv.ErrNotFound {
		return 0
	}
	if err != nil {
		return -9
	}
	if e.IsDelete() {
		return 0
	}
	return valID(e.Value())
}

func scan(db *dkv.DB, prefix string) (map[string]int, bool) {
	res := map[string]int{}
	ok := true
	var serr error
	var order []string
	for e := range db.ScanPrefix([]byte(prefix), &serr) {
		order = append(order, string(e.Key()))
		id := keyID(e.Key())
		if e.IsDelete() || id < 0 || !bytes.HasPrefix(e.Key(), []byte(prefix)) {
			ok = false
			continue
		}
		if _, dup := res[fmt.Sprint(id)]; dup {
			ok = false
		}
		res[fmt.Sprint(id)] = valID(e.Value())
	}
	if serr != nil || !sort.StringsAreSorted(order) {
		ok = false
	}
	return res, ok
}

func selected(prefix string) []int {
	out := []int{}
	for i := 1; i < len(keys); i++ {
		if bytes.HasPrefix([]byte(keys[i]), []byte(prefix)) {
			out = append(out, i)
		}
	}
	return out
}

// bulk: tables with thousands of entries and interleaved key ranges, so that
// bloom-filter false positives and the sparse index matter at the DB level
// (with a dozen keys a filter never errs). Keys are numbered 1..2n.
func bulk(n int, in *mbt.Input, res *mbt.Result) {
	verifhook.Install(nil, nil)
	store := fsx.NewStore()
	db := dkv.Open(dkv.DBOptions{FileSystem: store.View("g0", "/db"), MemTableSize: uint64(n * 24), L0TableNumCompactionTrigger: 1000}, nil)
	key := func(i int) []byte { return []byte(fmt.Sprintf("k%06d", i)) }
	var events []any
	put := func(i, v int) {
		db.Put(key(i), []byte(vals[v]))
		events = append(events, ev{"op": "Put", "k": i, "v": v})
	}
	getv := func(i int) {
		e, err := db.Get(key(i))
		r := -9
		switch {
		case err == kv.ErrNotFound:
			r = 0
		case err != nil:
			r = -9
		case e.IsDelete():
			r = 0
		default:
			r = valID(e.Value())
		}
		events = append(events, ev{"op": "Get", "k": i, "res": r})
	}
	for i := 2; i <= 2*n; i += 2 { // even keys -> first table(s)
		put(i, 2)
	}
	put(2*n, 3) // rotate
	db.WaitOnTasks()
	for i := 1; i <= 2*n; i += 2 { // odd keys, same range -> newer overlapping table(s)
		put(i, 3)
	}
	for i := 4; i <= 2*n; i += 400 {
		db.Delete(key(i))
		events = append(events, ev{"op": "Delete", "k": i})
	}
	put(1, 2)
	db.WaitOnTasks()
	for i := 1; i <= 2*n; i++ {
		getv(i)
	}
	res.Steps += len(events)
	res.Traces = append(res.Traces, map[string]any{"bulk": 2 * n, "events": events})
	res.Executed++
}

func replay(bi int, beh []mbt.Step, in *mbt.Input, res *mbt.Result) {
	if n := beh[0].Int("bulk"); n > 0 {
		bulk(n, in, res)
		return
	}
	run := beh[0].Int("run")
	rng := rand.New(rand.NewSource(in.Seed*1000003 + int64(run)))
	var jmu sync.Mutex
	jit := rand.New(rand.NewSource(in.Seed*7919 + int64(run)))
	verifhook.Install(func(point string, args ...any) {
		jmu.Lock()
		d := jit.Intn(6)
		us := jit.Intn(300)
		jmu.Unlock()
		switch d {
		case 0:
			time.Sleep(time.Duration(us) * time.Microsecond)
		case 1:
			runtime.Gosched()
		}
	}, func(name string, def int64) int64 {
		switch name {
		case "dkv.smallestLevelSize":
			return int64(200 + 200*(run%5))
		case "dkv.maxSizeAmpPct":
			return int64([]int{50, 120, 400}[run%3])
		}
		return def
	})
	defer verifhook.Install(nil, nil)

	memSizes := []uint64{40, 64, 100, 180, 400, 1 << 20}
	walSizes := []uint64{0, 90, 300}
	targets := []uint64{0, 60, 150}
	opts := func(v *fsx.View) dkv.DBOptions {
		return dkv.DBOptions{FileSystem: v, MemTableSize: memSizes[run%len(memSizes)], MaxWALSize: walSizes[(run/2)%len(walSizes)],
			TargetFileSize: targets[(run/3)%len(targets)], L0TableNumCompactionTrigger: 1 + (run/5)%4}
	}
	store := fsx.NewStore()
	gen := 0
	view := store.View("g0", "/db")
	db := dkv.Open(opts(view), nil)
	var events []any
	handles := map[int]recovery.CheckpointHandle{}
	var live []int // retained checkpoint ids, ascending
	nextCk := 1
	ops := in.CfgInt("Ops", 120)

	restoreCheck := func(id int) {
		clone := store.Clone()
		v := clone.View("r", "/db")
		o := opts(v)
		o.MemTableSize = 1 << 20
		var pan any
		var rdb *dkv.DB
		func() {
			defer func() { pan = recover() }()
			rdb = dkv.Open(o, []recovery.CheckpointHandle{handles[id]})
		}()
		if pan != nil {
			events = append(events, ev{"op": "Restore", "id": id, "ok": false, "res": ev{}, "err": fmt.Sprint(pan)})
			return
		}
		sc, ok := scan(rdb, "")
		note := ""
		if !ok {
			note = "scan not ascending/unique/live; "
		}
		// point reads must agree with the scan
		for k := 1; k < len(keys); k++ {
			g := get(rdb, k)
			if s, has := sc[fmt.Sprint(k)]; (has && s != g) || (!has && g != 0) {
				ok = false
				note += fmt.Sprintf("Get(%q)=%d but scan has %v/%d; ", keys[k], g, has, s)
			}
		}
		events = append(events, ev{"op": "Restore", "id": id, "ok": ok, "res": sc, "note": note})
		v.Kill()
	}

	for i := 0; i < ops; i++ {
		switch r := rng.Intn(100); {
		case r < 40:
			k, v := 1+rng.Intn(len(keys)-1), 1+rng.Intn(len(vals)-1)
			db.Put([]byte(keys[k]), []byte(vals[v]))
			events = append(events, ev{"op": "Put", "k": k, "v": v})
		case r < 55:
			k := 1 + rng.Intn(len(keys)-1)
			db.Delete([]byte(keys[k]))
			events = append(events, ev{"op": "Delete", "k": k})
		case r < 75:
			k := 1 + rng.Intn(len(keys)-1)
			events = append(events, ev{"op": "Get", "k": k, "res": get(db, k)})
		case r < 83:
			p := prefixes[rng.Intn(len(prefixes))]
			sc, ok := scan(db, p)
			events = append(events, ev{"op": "Scan", "p": selected(p), "ok": ok, "res": sc})
		case r < 88:
			id := nextCk
			nextCk++
			h, err := db.Checkpoint(uint64(id))()
			if err != nil {
				res.Errors = append(res.Errors, fmt.Sprintf("run %d: checkpoint: %v", run, err))
				return
			}
			handles[id] = h
			live = append(live, id)
			events = append(events, ev{"op": "Checkpoint", "id": id})
			restoreCheck(id)
		case r < 91:
			if len(live) > 0 {
				restoreCheck(live[rng.Intn(len(live))])
			}
		case r < 93:
			if len(live) > 1 {
				keep := live[len(live)-1-rng.Intn(2):]
				ids := []uint64{}
				for _, id := range keep {
					ids = append(ids, uint64(id))
				}
				if err := db.UpdateRetainedCheckpoints(ids); err != nil {
					res.Errors = append(res.Errors, fmt.Sprintf("run %d: retain: %v", run, err))
					return
				}
				live = append([]int{}, keep...)
			}
		case r < 95:
			if len(live) > 0 {
				id := live[len(live)-1]
				crash := rng.Intn(2) == 0
				if crash {
					view.Kill()
				} else if err := db.WaitOnTasks(); err != nil {
					res.Errors = append(res.Errors, fmt.Sprintf("run %d: tasks: %v", run, err))
					return
				}
				gen++
				view = store.View(fmt.Sprintf("g%d", gen), "/db")
				var pan any
				func() {
					defer func() { pan = recover() }()
					db = dkv.Open(opts(view), []recovery.CheckpointHandle{handles[id]})
				}()
				if pan != nil {
					events = append(events, ev{"op": "Restore", "id": id, "ok": false, "res": ev{}, "err": fmt.Sprint(pan)})
					res.Traces = append(res.Traces, events)
					return
				}
				events = append(events, ev{"op": "Reopen", "id": id})
				live = []int{id}
			}
		case r < 98:
			runtime.GC()
			time.Sleep(time.Millisecond)
		default:
			if err := db.WaitOnTasks(); err != nil {
				res.Errors = append(res.Errors, fmt.Sprintf("run %d: tasks: %v", run, err))
				return
			}
		}
		res.Steps++
	}
	// read everything back at the end
	for k := 1; k < len(keys); k++ {
		events = append(events, ev{"op": "Get", "k": k, "res": get(db, k)})
	}
	sc, ok := scan(db, "")
	events = append(events, ev{"op": "Scan", "p": selected(""), "ok": ok, "res": sc})
	db.WaitOnTasks()
	res.Traces = append(res.Traces, events)
	res.Executed++
}

func main() { mbt.Main(replay) }
