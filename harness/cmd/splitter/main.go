// splitter replays behaviours of spec/Splitter.tla on the real source
// splitters of reduction (assignment half of property C16).
//
// Kind "kinesis": the real kinesis.SourceSplitter (with its SplitTracker) is
// created through kinesis.SourceConfig.NewSourceSplitter against the repo's
// kinesisfake (an httptest server). The stream is created and resharded
// (SplitShard / MergeShards) through a second, harness-owned Kinesis client,
// exactly as TLC chose. The splitter's own client carries a harness-owned
// HTTPClient that parks every ListShards request: the discovery goroutine
// (ShardDiscoveryInterval = 1 ms) therefore sits at the gate between model
// steps, and one model `Tick` is "release the parked request, wait for the next
// one to arrive" = exactly one ListShards + AddSplits + AvailableSplits +
// AssignSplits hook + TrackAssigned round.
//
// The job's part (jobs/job.go, storage/snapshots) is played as the code does it:
// the AssignSplits hook hands every runner its list; NotifySplitsFinished is
// forwarded to the splitter; a checkpoint is created in a real snapshots.Store
// with the splitter registered (RegisterSourceSplitter); a runner's split states
// (serialised by the real SourceReader.Checkpoint of the connector) are added at
// that runner's Barrier step and the store itself calls the splitter's
// Checkpoint() when the last acknowledgement (a stand-in operator's) arrives;
// the published snapshotpb.SourceCheckpoint is what a fresh splitter's Start()
// receives at the next Start step.
//
// Kind "embedded" / "httpapi": the same protocol with the real embedded /
// httpapi splitters and the real SourceReaders as runners (RunnerRead =
// ReadEvents; the events read must continue at the checkpointed position).
//
// Every assignment message is judged against the property with ground truth
// kept by the harness (lineage from the fake, what was finished in the current
// timeline, what every runner holds, the cursors of the restored cut):
//
//	dup     a split appears twice in a message / is handed out while a runner holds it
//	reread  a split that is finished in the timeline is handed out again
//	early   a split is handed out while one of its parents is not finished
//	cursor  a split is handed out with another cursor than the checkpointed one
//	runner  a split is handed to an unknown runner
//	lost    after the final discovery rounds an unfinished split whose parents
//	        are all finished is read by nobody
//	crash   Start panics or fails
//
// A violation the model predicts for a named deviation (step field `bad`)
// is reported with Known = that deviation; any other one is a VIOLATION. An
// assignment that differs from the prediction without breaking the property is
// model drift (behaviour abandoned).
package main

import (
	"context"
	"encoding/json"
	"fmt"
	"math/big"
	"net/http"
	"net/http/httptest"
	"os"
	"sort"
	"strconv"
	"strings"
	"sync"
	"time"

	"github.com/aws/aws-sdk-go-v2/aws"
	awskinesis "github.com/aws/aws-sdk-go-v2/service/kinesis"
	"google.golang.org/protobuf/proto"
	"reduction.dev/reduction/connectors"
	"reduction.dev/reduction/connectors/embedded"
	"reduction.dev/reduction/connectors/httpapi"
	"reduction.dev/reduction/connectors/httpapi/httpapitest"
	"reduction.dev/reduction/connectors/kinesis"
	"reduction.dev/reduction/connectors/kinesis/kinesisfake"
	"reduction.dev/reduction/connectors/kinesis/kinesispb"
	"reduction.dev/reduction/proto/jobpb"
	"reduction.dev/reduction/proto/snapshotpb"
	"reduction.dev/reduction/proto/workerpb"
	"reduction.dev/reduction/storage/locations"
	"reduction.dev/reduction/storage/snapshots"
	"verif/harness/mbt"
)

const wait = 4 * time.Second

// ---------------------------------------------------------------- gate ----

// lsGate is the splitter's HTTP client: ListShards requests park until released.
type lsGate struct {
	inner    *http.Client
	arrivals chan *arrival
}

type arrival struct{ release chan struct{} }

func newGate() *lsGate {
	return &lsGate{inner: &http.Client{}, arrivals: make(chan *arrival, 8)}
}

func (g *lsGate) Do(req *http.Request) (*http.Response, error) {
	if strings.HasSuffix(req.Header.Get("X-Amz-Target"), ".ListShards") {
		a := &arrival{release: make(chan struct{})}
		select {
		case g.arrivals <- a:
		case <-req.Context().Done():
			return nil, req.Context().Err()
		}
		select {
		case <-a.release:
		case <-req.Context().Done():
			return nil, req.Context().Err()
		}
	}
	return g.inner.Do(req)
}

func (g *lsGate) await() (*arrival, error) {
	select {
	case a := <-g.arrivals:
		return a, nil
	case <-time.After(wait):
		return nil, fmt.Errorf("no ListShards request arrived at the gate")
	}
}

func localClient(url string, hc awskinesis.HTTPClient) *awskinesis.Client {
	o := awskinesis.Options{
		EndpointResolver: awskinesis.EndpointResolverFromURL(url),
		Region:           "us-east-2",
		Credentials:      aws.AnonymousCredentials{},
		Retryer:          aws.NopRetryer{},
	}
	if hc != nil {
		o.HTTPClient = hc
	}
	return awskinesis.New(o)
}

// --------------------------------------------------------------- world ----

type entry struct {
	runner string
	shard  int
	cursor string
}

type drift struct{ msg string }

func (d *drift) Error() string        { return d.msg }
func driftf(f string, a ...any) error { return &drift{fmt.Sprintf(f, a...)} }

type viol struct {
	kind  string
	shard int
	what  string
}

// world is one behaviour's universe: the source system, the current splitter
// incarnation, the runners, the job's store and the ghost state of the property.
type world struct {
	kind  string
	ninit int

	// kinesis
	srv     *httptest.Server
	admin   *awskinesis.Client
	stream  string
	arn     string
	ids     []string   // model shard i (1-based) -> ids[i-1]
	lo, hi  []*big.Int // hash key range (inclusive)
	parents [][]int
	closed  []bool
	gate    *lsGate
	parked  *arrival
	errChan chan error

	// httpapi
	hsrv *httpapitest.SinkServer

	cfg     connectors.SourceConfig
	sp      connectors.SourceSplitter
	runners []string
	store   *snapshots.Store
	dir     string
	ckptID  uint64

	mu    sync.Mutex
	calls []map[string][]*workerpb.SourceSplit

	// runners: harness-owned for kinesis, real readers for the fixed kinds
	held    map[int]string                     // shard -> runner holding it
	cursor  map[int]int                        // shard -> model cursor (kinesis)
	readers map[string]connectors.SourceReader // fixed kinds

	// ghost state of the property
	fin    map[int]bool
	finBy  map[int]string // "" = finished before the restored cut
	pcur   map[int]int    // captured at the barriers of the pending checkpoint
	pfin   map[int]bool
	kSrc   *snapshotpb.SourceCheckpoint // latest completed checkpoint as published by the store
	kCur   map[int]int
	kFin   map[int]bool
	obs    []any // sample of observed calls
	closeF []func()
}

const embBatch = 2 // embedded BatchSize / httpapi read batch size

func newWorld(kind string, ninit int) (*world, error) {
	w := &world{kind: kind, ninit: ninit, held: map[int]string{}, cursor: map[int]int{}, fin: map[int]bool{}, finBy: map[int]string{},
		kCur: map[int]int{}, kFin: map[int]bool{}}
	switch kind {
	case "kinesis":
		srv, _ := kinesisfake.StartFake()
		w.srv = srv
		w.closeF = append(w.closeF, srv.Close)
		w.admin = localClient(srv.URL, nil)
		w.stream = "s"
		ctx := context.Background()
		n := int32(ninit)
		if _, err := w.admin.CreateStream(ctx, &awskinesis.CreateStreamInput{StreamName: &w.stream, ShardCount: &n}); err != nil {
			return nil, fmt.Errorf("CreateStream: %w", err)
		}
		d, err := w.admin.DescribeStream(ctx, &awskinesis.DescribeStreamInput{StreamName: &w.stream})
		if err != nil {
			return nil, fmt.Errorf("DescribeStream: %w", err)
		}
		w.arn = *d.StreamDescription.StreamARN
		if err := w.refresh(); err != nil {
			return nil, err
		}
	case "embedded":
		w.cfg = embedded.SourceConfig{SplitCount: ninit, BatchSize: embBatch}
		w.fixedShards(ninit)
	case "httpapi":
		w.hsrv = httpapitest.StartServer(httpapitest.WithReadBatchSize(embBatch), httpapitest.WithUnboundedReading())
		w.closeF = append(w.closeF, w.hsrv.Close)
		for i := 0; i < 64; i++ {
			w.hsrv.Write("t", []byte(strconv.Itoa(i)))
		}
		w.cfg = httpapi.SourceConfig{Addr: w.hsrv.URL(), Topics: []string{"t"}}
		w.fixedShards(1)
	default:
		return nil, fmt.Errorf("unknown Kind %q", kind)
	}
	return w, nil
}

func (w *world) fixedShards(n int) {
	for i := 0; i < n; i++ {
		if w.kind == "embedded" {
			w.ids = append(w.ids, strconv.Itoa(i))
		} else {
			w.ids = append(w.ids, "only")
		}
		w.parents = append(w.parents, nil)
		w.closed = append(w.closed, false)
	}
}

func (w *world) close() {
	w.stopSplitter()
	for _, f := range w.closeF {
		f()
	}
	if w.dir != "" {
		os.RemoveAll(w.dir)
	}
}

// refresh reads the stream's shard list through the admin client (ground truth
// for lineage and hash ranges).
func (w *world) refresh() error {
	out, err := w.admin.ListShards(context.Background(), &awskinesis.ListShardsInput{StreamName: &w.stream})
	if err != nil {
		return fmt.Errorf("admin ListShards: %w", err)
	}
	w.ids, w.lo, w.hi, w.parents = nil, nil, nil, nil
	idx := map[string]int{}
	for i, s := range out.Shards {
		idx[*s.ShardId] = i + 1
	}
	for _, s := range out.Shards {
		w.ids = append(w.ids, *s.ShardId)
		lo, _ := new(big.Int).SetString(*s.HashKeyRange.StartingHashKey, 10)
		hi, _ := new(big.Int).SetString(*s.HashKeyRange.EndingHashKey, 10)
		w.lo, w.hi = append(w.lo, lo), append(w.hi, hi)
		var ps []int
		for _, p := range []*string{s.ParentShardId, s.AdjacentParentShardId} {
			if p != nil && *p != "" {
				ps = append(ps, idx[*p])
			}
		}
		w.parents = append(w.parents, ps)
	}
	for len(w.closed) < len(w.ids) {
		w.closed = append(w.closed, false)
	}
	return nil
}

func (w *world) shardOf(id string) int {
	for i, s := range w.ids {
		if s == id {
			return i + 1
		}
	}
	return 0
}

func runnerName(i int) string { return "sr" + strconv.Itoa(i) }

func (w *world) runnerIdx(name string) int {
	for i, r := range w.runners {
		if r == name {
			return i + 1
		}
	}
	return 0
}

// cursor encoding of the harness-owned kinesis runners
func curStr(c int) string {
	if c <= 0 {
		return ""
	}
	return "seq-" + strconv.Itoa(c)
}

func (w *world) stopSplitter() {
	if w.sp == nil {
		return
	}
	func() {
		defer func() { recover() }()
		w.sp.Close()
	}()
	if w.parked != nil {
		close(w.parked.release)
		w.parked = nil
	}
	w.sp = nil
}

func (w *world) takeCalls() []map[string][]*workerpb.SourceSplit {
	w.mu.Lock()
	defer w.mu.Unlock()
	c := w.calls
	w.calls = nil
	return c
}

// ------------------------------------------------------------ judging ----

// judge applies the property to the assignment messages of one step, updates
// what the runners hold, and returns the observed entries and violations.
func (w *world) judge(calls []map[string][]*workerpb.SourceSplit) ([]entry, []viol) {
	var es []entry
	var vs []viol
	for _, call := range calls {
		names := make([]string, 0, len(call))
		for n := range call {
			names = append(names, n)
		}
		sort.Strings(names)
		for _, rn := range names {
			var deliver []*workerpb.SourceSplit
			for _, sp := range call[rn] {
				s := w.shardOf(sp.SplitId)
				e := entry{runner: rn, shard: s, cursor: string(sp.Cursor)}
				es = append(es, e)
				if s == 0 {
					vs = append(vs, viol{"runner", 0, fmt.Sprintf("unknown split %q handed to %s", sp.SplitId, rn)})
					continue
				}
				if w.runnerIdx(rn) == 0 {
					vs = append(vs, viol{"runner", s, fmt.Sprintf("split %d handed to %q which is not a runner of this assembly %v", s, rn, w.runners)})
					continue
				}
				if h, ok := w.held[s]; ok {
					vs = append(vs, viol{"dup", s, fmt.Sprintf("split %d (%s) handed to %s while %s reads it", s, sp.SplitId, rn, h)})
					continue
				}
				if w.fin[s] {
					vs = append(vs, viol{"reread", s, fmt.Sprintf("split %d (%s) is finished in this timeline and is handed out again to %s", s, sp.SplitId, rn)})
				}
				for _, p := range w.parents[s-1] {
					if !w.fin[p] {
						vs = append(vs, viol{"early", s, fmt.Sprintf("split %d (%s) handed to %s while its parent %d is not finished", s, sp.SplitId, rn, p)})
						break
					}
				}
				if exp := w.expectedCursor(s); !w.cursorEq(sp.Cursor, exp) {
					vs = append(vs, viol{"cursor", s, fmt.Sprintf("split %d (%s) handed to %s with cursor %q, the checkpointed position is %s", s, sp.SplitId, rn, sp.Cursor, w.cursorText(exp))})
				}
				w.held[s] = rn
				w.cursor[s] = w.expectedCursor(s)
				deliver = append(deliver, sp)
			}
			if w.kind != "kinesis" && len(deliver) > 0 {
				if rd := w.readers[rn]; rd != nil {
					if err := rd.AssignSplits(deliver); err != nil {
						vs = append(vs, viol{"cursor", w.shardOf(deliver[0].SplitId), fmt.Sprintf("the connector's reader rejects the assignment: %v", err)})
					}
				}
			}
		}
	}
	return es, vs
}

// expectedCursor: the model cursor of the restored cut (0 = from the beginning)
func (w *world) expectedCursor(s int) int {
	if c, ok := w.kCur[s]; ok {
		return c
	}
	return 0
}

// real position of model cursor c for the fixed kinds (number of records per batch)
func (w *world) position(c int) int {
	if w.kind == "embedded" {
		return c * w.ninit * embBatch
	}
	return c * embBatch
}

func (w *world) cursorText(c int) string {
	if w.kind == "kinesis" {
		return fmt.Sprintf("%q", curStr(c))
	}
	return strconv.Itoa(w.position(c))
}

func (w *world) cursorEq(got []byte, c int) bool {
	if w.kind == "kinesis" {
		return string(got) == curStr(c)
	}
	// big endian int64; empty = 0
	if len(got) == 0 {
		return c == 0
	}
	if len(got) < 8 {
		return false
	}
	var v uint64
	for _, b := range got[:8] {
		v = v<<8 | uint64(b)
	}
	return int(v) == w.position(c)
}

// lost: unfinished splits whose parents are all finished and that nobody reads
func (w *world) lost() []viol {
	var vs []viol
	for s := 1; s <= len(w.ids); s++ {
		if w.fin[s] {
			continue
		}
		if _, ok := w.held[s]; ok {
			continue
		}
		ready := true
		for _, p := range w.parents[s-1] {
			if !w.fin[p] {
				ready = false
			}
		}
		if ready {
			vs = append(vs, viol{"lost", s, fmt.Sprintf("split %d (%s) is not finished, all its parents are, and after three more discovery rounds no runner reads it", s, w.ids[s-1])})
		}
	}
	return vs
}

// ------------------------------------------------------------- actions ----

func (w *world) start(r int) (err error, crash string) {
	w.stopSplitter()
	w.runners = nil
	for i := 1; i <= r; i++ {
		w.runners = append(w.runners, runnerName(i))
	}
	// a restart loses everything volatile; the timeline is the restored cut
	w.held, w.cursor = map[int]string{}, map[int]int{}
	w.fin, w.finBy = map[int]bool{}, map[int]string{}
	for s := range w.kFin {
		w.fin[s] = true
	}
	w.pcur, w.pfin = nil, nil
	w.takeCalls()
	w.readers = map[string]connectors.SourceReader{}

	if w.kind == "kinesis" {
		w.gate = newGate()
		w.errChan = make(chan error, 16)
		w.cfg = kinesis.SourceConfig{StreamARN: w.arn, Client: localClient(w.srv.URL, w.gate), ShardDiscoveryInterval: time.Millisecond}
	} else {
		for _, rn := range w.runners {
			w.readers[rn] = w.cfg.NewSourceReader(connectors.SourceReaderHooks{NotifySplitsFinished: func([]string) {}})
		}
	}
	hooks := connectors.SourceSplitterHooks{AssignSplits: func(a map[string][]*workerpb.SourceSplit) {
		w.mu.Lock()
		w.calls = append(w.calls, a)
		w.mu.Unlock()
	}}
	w.sp = w.cfg.NewSourceSplitter(w.runners, hooks, w.errChan)

	// the job's store of this incarnation (fresh directory: what is restored is
	// the SourceCheckpoint published by the previous incarnation's store)
	if w.dir != "" {
		os.RemoveAll(w.dir)
	}
	w.dir, _ = os.MkdirTemp("", "splitter-store-")
	w.store = snapshots.NewStore(&snapshots.NewStoreParams{FileStore: locations.NewLocalDirectory(w.dir), CheckpointsPath: "checkpoints", SavepointsPath: "savepoints"})
	w.store.RegisterSourceSplitter(w.sp)

	done := make(chan string, 1)
	go func() {
		defer func() {
			if p := recover(); p != nil {
				done <- fmt.Sprintf("Start panicked: %v", p)
			}
		}()
		if e := w.sp.Start(w.kSrc); e != nil {
			done <- fmt.Sprintf("Start failed: %v", e)
			return
		}
		done <- ""
	}()
	if w.kind == "kinesis" {
		select {
		case a := <-w.gate.arrivals:
			close(a.release)
		case msg := <-done:
			if msg == "" {
				return fmt.Errorf("Start returned without listing shards"), ""
			}
			return nil, msg
		case <-time.After(wait):
			return fmt.Errorf("Start neither listed shards nor returned"), ""
		}
	}
	select {
	case msg := <-done:
		if msg != "" {
			return nil, msg
		}
	case <-time.After(wait):
		return fmt.Errorf("Start did not return"), ""
	}
	if w.kind == "kinesis" {
		a, e := w.gate.await()
		if e != nil {
			return fmt.Errorf("after Start: %w", e), ""
		}
		w.parked = a
	}
	return nil, ""
}

func (w *world) tick() error {
	if w.parked == nil {
		return fmt.Errorf("Tick: discovery goroutine is not parked")
	}
	close(w.parked.release)
	w.parked = nil
	a, err := w.gate.await()
	if err != nil {
		select {
		case e := <-w.errChan:
			return fmt.Errorf("Tick: splitter reported %v", e)
		default:
		}
		return fmt.Errorf("Tick: %w", err)
	}
	w.parked = a
	return nil
}

func (w *world) split(s int) error {
	mid := new(big.Int).Add(w.lo[s-1], w.hi[s-1])
	mid.Add(mid, big.NewInt(1))
	mid.Div(mid, big.NewInt(2))
	ms := mid.String()
	if _, err := w.admin.SplitShard(context.Background(), &awskinesis.SplitShardInput{StreamName: &w.stream, ShardToSplit: &w.ids[s-1], NewStartingHashKey: &ms}); err != nil {
		return fmt.Errorf("SplitShard: %w", err)
	}
	w.closed[s-1] = true
	return w.refresh()
}

func (w *world) merge(s, t int) error {
	if _, err := w.admin.MergeShards(context.Background(), &awskinesis.MergeShardsInput{StreamARN: &w.arn, ShardToMerge: &w.ids[s-1], AdjacentShardToMerge: &w.ids[t-1]}); err != nil {
		return fmt.Errorf("MergeShards: %w", err)
	}
	w.closed[s-1], w.closed[t-1] = true, true
	return w.refresh()
}

// splitterState decodes the kinesis splitter's Checkpoint() bytes.
func splitterState(b []byte) (*kinesispb.SplitterState, error) {
	st := &kinesispb.SplitterState{}
	return st, proto.Unmarshal(b, st)
}

func (w *world) finish(s int) error {
	rn, ok := w.held[s]
	if !ok {
		return driftf("Finish(%d): no runner reads it", s)
	}
	delete(w.held, s)
	delete(w.cursor, s)
	w.fin[s] = true
	w.finBy[s] = rn
	sp := w.sp
	id := w.ids[s-1]
	// the job forwards it on its task queue; the send inside may block while the
	// discovery goroutine is parked, the removal itself happens first
	go sp.NotifySplitsFinished(rn, []string{id})
	dl := time.Now().Add(wait)
	for {
		st, err := splitterState(sp.Checkpoint())
		if err != nil {
			return fmt.Errorf("Finish: decode splitter state: %w", err)
		}
		found := false
		for _, a := range st.AssignedShards {
			if a.ShardId == id {
				found = true
			}
		}
		if !found {
			return nil
		}
		if time.Now().After(dl) {
			return fmt.Errorf("Finish(%d): the splitter still lists the shard as assigned", s)
		}
		time.Sleep(100 * time.Microsecond)
	}
}

// splitStates serialises what runner rn holds, with the connector's own reader.
func (w *world) splitStates(rn string) ([][]byte, map[int]int) {
	capt := map[int]int{}
	if w.kind != "kinesis" {
		for s, h := range w.held {
			if h == rn {
				capt[s] = w.cursor[s]
			}
		}
		return w.readers[rn].Checkpoint(), capt
	}
	var ss []int
	for s, h := range w.held {
		if h == rn {
			ss = append(ss, s)
		}
	}
	sort.Ints(ss)
	rd := w.cfg.NewSourceReader(connectors.SourceReaderHooks{NotifySplitsFinished: func([]string) {}})
	var splits []*workerpb.SourceSplit
	for _, s := range ss {
		capt[s] = w.cursor[s]
		splits = append(splits, &workerpb.SourceSplit{SplitId: w.ids[s-1], Cursor: []byte(curStr(w.cursor[s]))})
	}
	rd.AssignSplits(splits)
	return rd.Checkpoint(), capt
}

func (w *world) startCkpt() error {
	id, err := w.store.CreateCheckpoint([]string{"op"}, w.runners)
	if err != nil {
		return fmt.Errorf("CreateCheckpoint: %w", err)
	}
	w.ckptID = id
	w.pcur, w.pfin = map[int]int{}, map[int]bool{}
	for s := range w.fin {
		if _, held := w.held[s]; w.finBy[s] == "" && !held {
			w.pfin[s] = true
		}
	}
	return nil
}

func (w *world) barrier(r int) (map[int]int, error) {
	rn := runnerName(r)
	states, capt := w.splitStates(rn)
	for s, c := range capt {
		w.pcur[s] = c
	}
	for s := range w.fin {
		if _, held := w.held[s]; w.finBy[s] == rn && !held {
			w.pfin[s] = true
		}
	}
	err := w.store.AddSourceSnapshot(&jobpb.SourceRunnerCheckpointCompleteRequest{CheckpointId: w.ckptID, SourceRunnerId: rn, SplitStates: states})
	if err != nil {
		return nil, fmt.Errorf("AddSourceSnapshot: %w", err)
	}
	return capt, nil
}

func (w *world) complete() (*snapshotpb.SourceCheckpoint, error) {
	if err := w.store.AddOperatorSnapshot(&snapshotpb.OperatorCheckpoint{CheckpointId: w.ckptID, OperatorId: "op"}); err != nil {
		return nil, fmt.Errorf("AddOperatorSnapshot: %w", err)
	}
	dl := time.Now().Add(wait)
	for {
		if cp := w.store.CurrentCheckpoint(); cp != nil && cp.Id == w.ckptID {
			if len(cp.SourceCheckpoints) != 1 {
				return nil, fmt.Errorf("published checkpoint has %d source checkpoints", len(cp.SourceCheckpoints))
			}
			w.kSrc = cp.SourceCheckpoints[0]
			break
		}
		if time.Now().After(dl) {
			return nil, fmt.Errorf("checkpoint %d was not published", w.ckptID)
		}
		time.Sleep(200 * time.Microsecond)
	}
	w.kCur, w.kFin = map[int]int{}, map[int]bool{}
	for s, c := range w.pcur {
		w.kCur[s] = c
	}
	for s := range w.pfin {
		if _, captured := w.pcur[s]; !captured {
			w.kFin[s] = true
		}
	}
	w.pcur, w.pfin = nil, nil
	return w.kSrc, nil
}

// runnerRead: one ReadEvents of the real reader of a fixed-kind runner; the
// records must continue exactly where each of its splits stands.
func (w *world) runnerRead(r int, maxCur int) ([]viol, error) {
	rn := runnerName(r)
	rd := w.readers[rn]
	var ss []int
	for s, h := range w.held {
		if h == rn {
			ss = append(ss, s)
		}
	}
	sort.Ints(ss)
	evs, err := rd.ReadEvents()
	if err != nil {
		return nil, fmt.Errorf("ReadEvents: %w", err)
	}
	var want []string
	for _, s := range ss {
		pos := w.position(w.cursor[s])
		for i := 0; i < embBatch; i++ {
			if w.kind == "embedded" {
				want = append(want, strconv.Itoa((s-1)+pos+w.ninit*i))
			} else {
				want = append(want, strconv.Itoa(pos+i))
			}
		}
		w.cursor[s]++
	}
	var got []string
	for _, e := range evs {
		got = append(got, string(e))
	}
	if strings.Join(got, ",") != strings.Join(want, ",") {
		s := 0
		if len(ss) > 0 {
			s = ss[0]
		}
		return []viol{{"cursor", s, fmt.Sprintf("runner %s read records %v, the records following its splits' positions are %v", rn, got, want)}}, nil
	}
	return nil, nil
}

// ------------------------------------------------------------- replay ----

func predicted(st mbt.Step) []entry {
	var es []entry
	for _, x := range st.List("assign") {
		m, _ := x.(map[string]any)
		e := mbt.Step(m)
		es = append(es, entry{runner: runnerName(e.Int("r")), shard: e.Int("s"), cursor: strconv.Itoa(e.Int("c"))})
	}
	return es
}

func predictedBad(st mbt.Step) map[string]string {
	out := map[string]string{}
	for _, x := range st.List("bad") {
		m, _ := x.(map[string]any)
		e := mbt.Step(m)
		out[e.Str("k")+":"+strconv.Itoa(e.Int("s"))] = e.Str("dev")
	}
	return out
}

func replay(bi int, beh []mbt.Step, in *mbt.Input, res *mbt.Result) {
	kind := in.CfgStr("Kind", "kinesis")
	w, err := newWorld(kind, in.CfgInt("NInit", 1))
	if err != nil {
		res.Errors = append(res.Errors, fmt.Sprintf("behaviour %d: %v", bi, err))
		return
	}
	defer w.close()
	maxCur := in.CfgInt("MaxCur", 1)
	// Adversarial: the behaviour was generated with a Pre_* switch on (a schedule
	// of the unrepaired code). Its predictions are not the code's; only the
	// property is judged, and a step the code does not offer ends the replay.
	adversarial := in.CfgBool("Adversarial", false)
	seenKnown := map[string]bool{}
	report := func(si int, v viol, known string) {
		if known != "" {
			if seenKnown[known+v.kind] {
				res.Count("known:"+known, 1)
				return
			}
			seenKnown[known+v.kind] = true
			res.Count("known:"+known, 1)
		}
		res.Violations = append(res.Violations, mbt.Violation{Property: in.Property, Behaviour: bi, Step: si,
			What: "[" + v.kind + "] " + v.what, Known: known})
	}
	// handle the violations of one step: predicted ones are known findings,
	// others are violations; returns false if the behaviour cannot continue
	settle := func(si int, st mbt.Step, vs []viol, judgeLost bool) bool {
		if adversarial {
			for _, v := range vs {
				report(si, v, "")
			}
			return len(vs) == 0
		}
		pb := predictedBad(st)
		unknown := false
		seen := map[string]bool{}
		for _, v := range vs {
			key := v.kind + ":" + strconv.Itoa(v.shard)
			seen[key] = true
			dev, ok := pb[key]
			if ok && dev != "?" {
				report(si, v, dev)
			} else {
				report(si, v, "")
				unknown = true
			}
		}
		if unknown {
			return false
		}
		for key, dev := range pb {
			if strings.HasPrefix(key, "lost:") && !judgeLost {
				continue
			}
			if !seen[key] {
				res.Driftf("behaviour %d step %d: the model predicts %s (%s), the code does not show it", bi, si, key, dev)
				return false
			}
		}
		return true
	}
	ended := false
	fail := func(si int, err error) {
		if _, ok := err.(*drift); ok && adversarial {
			ended = true
			return
		}
		if d, ok := err.(*drift); ok {
			res.Driftf("behaviour %d step %d: %s", bi, si, d.msg)
		} else {
			res.Errors = append(res.Errors, fmt.Sprintf("behaviour %d step %d (%s): %v", bi, si, beh[si].Str("a"), err))
		}
	}
	// compare the observed entries with the prediction; a difference that broke
	// nothing is drift
	sameAssign := func(si int, st mbt.Step, es []entry) bool {
		if adversarial {
			return true
		}
		norm := func(es []entry, model bool) []string {
			var out []string
			for _, e := range es {
				c := e.cursor
				if model {
					n, _ := strconv.Atoi(c)
					c = w.cursorText(n)
				} else if kind == "kinesis" {
					c = fmt.Sprintf("%q", c)
				} else {
					var v uint64
					for _, b := range []byte(c) {
						v = v<<8 | uint64(b)
					}
					c = strconv.Itoa(int(v))
				}
				out = append(out, fmt.Sprintf("%s<-%d@%s", e.runner, e.shard, c))
			}
			sort.Strings(out)
			return out
		}
		a, b := norm(predicted(st), true), norm(es, false)
		if strings.Join(a, " ") != strings.Join(b, " ") {
			res.Driftf("behaviour %d step %d (%s): predicted assignment %v, observed %v", bi, si, st.Str("a"), a, b)
			return false
		}
		return true
	}
	sampleOn := bi == 0
	// doStep executes one model step; false = the behaviour ends here
	doStep := func(si int, st mbt.Step) bool {
		res.Steps++
		switch st.Str("a") {
		case "Start":
			err, crash := w.start(st.Int("r"))
			if err != nil {
				fail(si, err)
				return false
			}
			if crash != "" {
				report(si, viol{"crash", 0, fmt.Sprintf("splitter Start(%s) of the %s source with %d runners: %s", ckptText(w.kSrc), kind, st.Int("r"), crash)}, "")
				return false
			}
			calls := w.takeCalls()
			if sampleOn {
				w.obs = append(w.obs, map[string]any{"step": si, "a": "Start", "runners": w.runners, "restored": w.kSrc != nil, "AssignSplits": callsText(calls)})
			}
			es, vs := w.judge(calls)
			if !settle(si, st, vs, false) {
				return false
			}
			if !sameAssign(si, st, es) {
				return false
			}
		case "Tick":
			if err := w.tick(); err != nil {
				fail(si, err)
				return false
			}
			calls := w.takeCalls()
			if sampleOn && len(calls) > 0 {
				w.obs = append(w.obs, map[string]any{"step": si, "a": "Tick", "AssignSplits": callsText(calls)})
			}
			es, vs := w.judge(calls)
			final := st.Bool("final")
			if final {
				vs = append(vs, w.lost()...)
			}
			if !settle(si, st, vs, final) {
				return false
			}
			if !sameAssign(si, st, es) {
				return false
			}
		case "Split":
			if err := w.split(st.Int("s")); err != nil {
				fail(si, err)
				return false
			}
		case "Merge":
			if err := w.merge(st.Int("s"), st.Int("t")); err != nil {
				fail(si, err)
				return false
			}
		case "Progress":
			s := st.Int("s")
			if _, ok := w.held[s]; !ok {
				fail(si, driftf("Progress(%d): nobody reads it", s))
				return false
			}
			w.cursor[s] = st.Int("c")
		case "RunnerRead":
			vs, err := w.runnerRead(st.Int("r"), maxCur)
			if err != nil {
				fail(si, err)
				return false
			}
			if !settle(si, st, vs, false) {
				return false
			}
		case "Finish":
			if rn := w.held[st.Int("s")]; rn != runnerName(st.Int("r")) {
				fail(si, driftf("Finish(%d): model says runner %d reads it, it is %q", st.Int("s"), st.Int("r"), rn))
				return false
			}
			if err := w.finish(st.Int("s")); err != nil {
				fail(si, err)
				return false
			}
		case "StartCkpt":
			if err := w.startCkpt(); err != nil {
				fail(si, err)
				return false
			}
		case "Barrier":
			capt, err := w.barrier(st.Int("r"))
			if err != nil {
				fail(si, err)
				return false
			}
			want := map[int]int{}
			for _, x := range st.List("states") {
				m, _ := x.(map[string]any)
				want[mbt.Step(m).Int("s")] = mbt.Step(m).Int("c")
			}
			if !adversarial && fmt.Sprint(want) != fmt.Sprint(capt) {
				fail(si, driftf("Barrier(%d): model captures %v, the runner holds %v", st.Int("r"), want, capt))
				return false
			}
		case "Complete":
			src, err := w.complete()
			if err != nil {
				fail(si, err)
				return false
			}
			if kind == "kinesis" && !adversarial {
				stt, err := splitterState(src.SplitterState)
				if err != nil {
					fail(si, err)
					return false
				}
				var got []int
				for _, a := range stt.AssignedShards {
					got = append(got, w.shardOf(a.ShardId))
				}
				sort.Ints(got)
				want := st.Ints("known")
				if fmt.Sprint(got) != fmt.Sprint(want) || w.shardOf(stt.LastAssignedShardId) != st.Int("last") {
					res.Driftf("behaviour %d step %d: splitter checkpoint holds shards %v last %q, model %v last %d", bi, si, got, stt.LastAssignedShardId, want, st.Int("last"))
					return false
				}
				if sampleOn {
					w.obs = append(w.obs, map[string]any{"step": si, "a": "Complete", "splitterState.shards": got, "last": stt.LastAssignedShardId, "splitStates": len(src.SplitStates)})
				}
			}
		default:
			res.Errors = append(res.Errors, fmt.Sprintf("unknown action %q", st.Str("a")))
			return false
		}
		if w.errChan != nil {
			select {
			case e := <-w.errChan:
				res.Errors = append(res.Errors, fmt.Sprintf("behaviour %d step %d: the splitter reported an error: %v", bi, si, e))
				return false
			default:
			}
		}
		return true
	}
	for si, st := range beh {
		if !doStep(si, st) {
			if ended {
				break
			}
			return
		}
	}
	if adversarial && kind == "kinesis" && w.sp != nil && w.parked != nil {
		for i := 0; i < 3; i++ {
			if err := w.tick(); err != nil {
				res.Errors = append(res.Errors, fmt.Sprintf("behaviour %d final rounds: %v", bi, err))
				return
			}
			_, vs := w.judge(w.takeCalls())
			if i == 2 {
				vs = append(vs, w.lost()...)
			}
			for _, v := range vs {
				report(len(beh)-1, v, "")
			}
		}
	}
	res.Executed++
	if sampleOn && len(res.Samples) < 2 {
		res.Samples = append(res.Samples, map[string]any{"kind": "observed on the real " + kind + " splitter (behaviour 0)", "events": w.obs})
	}
}

func ckptText(k *snapshotpb.SourceCheckpoint) string {
	if k == nil {
		return "nil"
	}
	return fmt.Sprintf("checkpoint with %d split states, %d bytes of splitter state", len(k.SplitStates), len(k.SplitterState))
}

func callsText(calls []map[string][]*workerpb.SourceSplit) []string {
	var out []string
	for _, c := range calls {
		names := make([]string, 0, len(c))
		for n := range c {
			names = append(names, n)
		}
		sort.Strings(names)
		var parts []string
		for _, n := range names {
			var ss []string
			for _, sp := range c[n] {
				ss = append(ss, fmt.Sprintf("%s@%q", sp.SplitId, sp.Cursor))
			}
			parts = append(parts, n+":["+strings.Join(ss, " ")+"]")
		}
		out = append(out, strings.Join(parts, " "))
	}
	return out
}

var _ = json.Marshal

func main() { mbt.Main(replay) }
