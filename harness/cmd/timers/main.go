// timers replays behaviours of spec/Timers.tla and spec/Watermark.tla on the
// real code (properties C10, C11):
//
//	mode "registry"    real operator.TimerRegistry + TimerStore over a real dkv.DB
//	                   on the in-memory filesystem; Checkpoint = real DKV
//	                   checkpoint, Restore = fresh DB + store + registry opened
//	                   from that checkpoint.
//	mode "operator"    the same behaviours through a real operator.Operator
//	                   (watermark / keyed events in, handler calls out).
//	mode "opbatch"     behaviours of spec/TimersOp.tla through a real operator.Operator
//	                   with event batches of 1..3 items, a manually fired batch
//	                   timer, barriers of several runners with traffic in
//	                   between, crash/restore and re-deployment (opbatch.go).
//	mode "watermarker" behaviours of Watermark.tla on the real wmark.Watermarker.
//
// Verdicts are decided by what the property demands (carried by every step:
// the set of timers due, the operator watermark), never by the model's
// prediction of internals.
package main

import (
	"bytes"
	"fmt"
	"io"
	"iter"
	"log/slog"
	"os"
	"sort"
	"time"

	"google.golang.org/protobuf/types/known/timestamppb"
	"reduction.dev/reduction/dkv"
	"reduction.dev/reduction/dkv/recovery"
	"reduction.dev/reduction/dkv/storage"
	"reduction.dev/reduction/partitioning"
	"reduction.dev/reduction/proto/workerpb"
	"reduction.dev/reduction/workers/operator"
	"reduction.dev/reduction/workers/wmark"
	"verif/harness/mbt"
)

var quiet = slog.New(slog.NewTextHandler(io.Discard, nil))

// ---------------------------------------------------------------- config ----

type config struct {
	kgOf     []int // model key (1-based) -> key group 1..NG
	keyLen   []int
	ng       int
	nsr      int
	maxBytes int
	totalBytes int
	unit     int64 // nanoseconds per model time unit
	rangeIdx int   // 0: the operator owns the whole key space; 1: the upper half of a 2*NG space
	memtable int   // 0 = DKV default (nothing is ever flushed)
	free     bool  // the Fire steps of the behaviour are not binding (schedules generated from a deviating model)

	keySpace *partitioning.KeySpace
	kgRange  partitioning.KeyGroupRange
	keys     [][]byte // concretisation, index = model key - 1
	srIDs    []string
}

func digits(n int) []int {
	if n < 10 {
		return []int{n}
	}
	return append(digits(n/10), n%10)
}

func newConfig(in *mbt.Input) (*config, error) {
	c := &config{
		kgOf: digits(in.CfgInt("KGCode", 112)), keyLen: digits(in.CfgInt("LenCode", 111)),
		ng: in.CfgInt("NG", 2), nsr: in.CfgInt("NSR", 2), maxBytes: in.CfgInt("MaxBytes", 25), totalBytes: in.CfgInt("TotalCacheBytes", -1),
		unit: int64(in.CfgInt("Unit", 1)), rangeIdx: in.CfgInt("RangeIdx", 0), memtable: in.CfgInt("MemTable", 0),
		free: in.CfgBool("Free", false),
	}
	if len(c.kgOf) != len(c.keyLen) {
		return nil, fmt.Errorf("KGCode and LenCode differ in length")
	}
	if c.rangeIdx == 0 {
		c.keySpace = partitioning.NewKeySpace(c.ng, 1)
	} else {
		c.keySpace = partitioning.NewKeySpace(2*c.ng, 2)
	}
	c.kgRange = c.keySpace.KeyGroupRanges()[c.rangeIdx]
	if c.kgRange.Size() != c.ng {
		return nil, fmt.Errorf("key group range %v has not %d groups", c.kgRange, c.ng)
	}
	for i := 0; i < c.nsr; i++ {
		c.srIDs = append(c.srIDs, fmt.Sprintf("sr%d", i+1))
	}
	// Concretisation: model key k -> a byte string of the modelled length that
	// hashes into the modelled key group, order preserving within a group
	// (the encoded timer keys are ordered by <timestamp><subject key>).
	last := map[int][]byte{}
	start := byte(in.Seed * 37 % 120)
	for i, g := range c.kgOf {
		want := partitioning.KeyGroup(c.kgRange.Start + g - 1)
		var found []byte
		n := c.keyLen[i]
		buf := make([]byte, n)
		buf[0] = start
		for {
			if c.keySpace.KeyGroup(buf) == want && (last[g] == nil || bytes.Compare(buf, last[g]) > 0) {
				found = append([]byte{}, buf...)
				break
			}
			// next byte string of length n in lexicographic order
			j := n - 1
			for j >= 0 && buf[j] == 0xff {
				buf[j] = 0
				j--
			}
			if j < 0 {
				break
			}
			buf[j]++
		}
		if found == nil {
			return nil, fmt.Errorf("no concrete key for model key %d (len %d, group %d)", i+1, n, g)
		}
		last[g] = found
		c.keys = append(c.keys, found)
	}
	return c, nil
}

// model time -> Go time. -2 is what a runner that has not seen any event
// reports: (zero time.Time) - 1ns.
func (c *config) tm(t int) time.Time {
	if t == -2 {
		return time.Time{}.Add(-time.Nanosecond)
	}
	return time.Unix(0, int64(t)*c.unit)
}

func (c *config) modelKey(b []byte) int {
	for i, k := range c.keys {
		if bytes.Equal(k, b) {
			return i + 1
		}
	}
	return 0
}

type tk struct {
	K int `json:"k"`
	T int `json:"t"`
}

func (c *config) toTk(key []byte, t time.Time) (tk, string) {
	k := c.modelKey(key)
	ns := t.UnixNano()
	if k == 0 || ns%c.unit != 0 {
		return tk{}, fmt.Sprintf("key %q at %v", key, t)
	}
	return tk{k, int(ns / c.unit)}, ""
}

func dueOf(st mbt.Step, field string) map[tk]bool {
	out := map[tk]bool{}
	for _, x := range st.List(field) {
		m := x.(map[string]any)
		out[tk{int(m["k"].(float64)), int(m["t"].(float64))}] = true
	}
	return out
}

func sortedTks(m map[tk]bool) []tk {
	out := []tk{}
	for x := range m {
		out = append(out, x)
	}
	sort.Slice(out, func(i, j int) bool { return out[i].T < out[j].T || (out[i].T == out[j].T && out[i].K < out[j].K) })
	return out
}

// advance tracks what the property demands of one AdvanceWatermark call.
type advance struct {
	remaining map[tk]bool
	fired     []tk
	lastT     int
	wm        int
}

func newAdvance(st mbt.Step) *advance {
	return &advance{remaining: dueOf(st, "due"), lastT: -1 << 30, wm: st.Int("wm")}
}

// yielded judges one timer returned by the code. "" = allowed.
func (a *advance) yielded(x tk, raw string) string {
	defer func() { a.fired = append(a.fired, x) }()
	if raw != "" {
		return "a timer that was never registered was returned: " + raw
	}
	if !a.remaining[x] {
		for _, f := range a.fired {
			if f == x {
				return fmt.Sprintf("timer (key %d, t=%d) was returned twice by one AdvanceWatermark", x.K, x.T)
			}
		}
		if x.T > a.wm {
			return fmt.Sprintf("timer (key %d, t=%d) fired although the operator watermark Min(up) is %d", x.K, x.T, a.wm)
		}
		return fmt.Sprintf("timer (key %d, t=%d) fired although it is not pending (never accepted, or already fired)", x.K, x.T)
	}
	delete(a.remaining, x)
	if x.T < a.lastT {
		return fmt.Sprintf("timers returned out of timestamp order: t=%d after t=%d", x.T, a.lastT)
	}
	a.lastT = x.T
	return ""
}

// ended judges the end of the iteration.
func (a *advance) ended() string {
	if len(a.remaining) > 0 {
		return fmt.Sprintf("AdvanceWatermark (operator watermark %d) did not return pending timers that are due: %v", a.wm, sortedTks(a.remaining))
	}
	return ""
}

// ------------------------------------------------------- registry replay ----

type regRun struct {
	c    *config
	fs   *storage.MemoryFilesystem
	db   *dkv.DB
	reg  *operator.TimerRegistry
	ckpt *recovery.CheckpointHandle
	next func() ([]byte, time.Time, bool)
	stop func()
	adv  *advance
}

func (r *regRun) dbOptions() dkv.DBOptions {
	return dkv.DBOptions{FileSystem: r.fs, Logger: quiet, MemTableSize: uint64(r.c.memtable)}
}

func (r *regRun) open(handles []recovery.CheckpointHandle) {
	r.db = dkv.Open(r.dbOptions(), handles)
	total := uint64(r.c.maxBytes * r.c.ng)
	if r.c.totalBytes >= 0 { // a cache budget given for the whole operator (e.g. fewer bytes than key groups: every share is 0)
		total = uint64(r.c.totalBytes)
	}
	store := operator.NewTimerStore(r.db, r.c.keySpace, r.c.kgRange, total)
	r.reg = operator.NewTimerRegistry(store, r.c.srIDs)
}

func replayRegistry(bi int, beh []mbt.Step, c *config, prop string, res *mbt.Result) (err error) {
	r := &regRun{c: c, fs: storage.NewMemoryFilesystem()}
	si := 0
	defer func() {
		if p := recover(); p != nil {
			// a panic inside an API call the behaviour makes: no verdict (it may
			// come from the DKV underneath); reported as a machinery error
			err = fmt.Errorf("b%d s%d: panic in %s: %v", bi, si, beh[si].Str("a"), p)
		}
		if r.stop != nil {
			func() { defer func() { recover() }(); r.stop() }()
		}
	}()
	r.open(nil)
	viol := func(what string, exp, obs any) {
		if c.memtable > 0 {
			what += fmt.Sprintf(" [DKV memtable of %d bytes: flushes/compactions are happening underneath; if the same history passes with the default memtable the cause is in the DKV read path]", c.memtable)
		}
		res.Violations = append(res.Violations, mbt.Violation{Property: prop, Behaviour: bi, Step: si, What: what, Expected: exp, Observed: obs})
	}
	// pull takes one turn of the running iteration and judges it; done = the
	// behaviour is over (violation recorded).
	pull := func() (ended bool, done bool) {
		key, t, ok := r.next()
		if ok {
			x, raw := c.toTk(key, t)
			if msg := r.adv.yielded(x, raw); msg != "" {
				viol(msg, map[string]any{"still_due": sortedTks(r.adv.remaining)}, map[string]any{"returned": r.adv.fired})
				return false, true
			}
			return false, false
		}
		if msg := r.adv.ended(); msg != "" {
			viol(msg, map[string]any{"still_due": sortedTks(r.adv.remaining)}, map[string]any{"returned": r.adv.fired})
			return true, true
		}
		r.stop()
		r.next, r.stop, r.adv = nil, nil, nil
		return true, false
	}
	drain := func() (done bool) {
		for r.adv != nil {
			if _, done := pull(); done {
				return true
			}
		}
		return false
	}
	var st mbt.Step
	for si, st = range beh {
		a := st.Str("a")
		if c.free && r.adv != nil && a != "Fire" && a != "SetTimer" {
			// schedule generated from a deviating model: the code's iteration is longer than the model's
			if drain() {
				return nil
			}
		}
		switch a {
		case "SetTimer":
			r.reg.SetTimer(c.keys[st.Int("k")-1], c.tm(st.Int("t")))
		case "Adv":
			if r.adv != nil {
				return fmt.Errorf("b%d s%d: Adv while an iteration is running", bi, si)
			}
			it := r.reg.AdvanceWatermark(c.srIDs[st.Int("sr")-1], &workerpb.Watermark{Timestamp: timestamppb.New(c.tm(st.Int("t")))})
			r.next, r.stop = iter.Pull2(it)
			r.adv = newAdvance(st)
		case "Fire":
			if r.adv == nil {
				if c.free {
					break // the code's iteration ended before the deviating model's
				}
				return fmt.Errorf("b%d s%d: Fire without Adv", bi, si)
			}
			ended, done := pull()
			if done {
				return nil
			}
			if !c.free && ended != st.Bool("end") {
				// unreachable while the model is right: both follow the same due set
				res.Driftf("b%d s%d: iteration end: code %v, model %v", bi, si, ended, st.Bool("end"))
				return nil
			}
		case "Checkpoint":
			h, err := r.db.Checkpoint(uint64(st.Int("id")))()
			if err != nil {
				return fmt.Errorf("b%d s%d: dkv checkpoint: %v", bi, si, err)
			}
			r.ckpt = &h
		case "Restore":
			if r.ckpt == nil {
				return fmt.Errorf("b%d s%d: Restore without checkpoint", bi, si)
			}
			r.open([]recovery.CheckpointHandle{*r.ckpt})
		case "Finish":
		default:
			return fmt.Errorf("unknown action %q", a)
		}
		res.Steps++
	}
	if c.free && r.adv != nil {
		si = len(beh) - 1
		if drain() {
			return nil
		}
	}
	res.Executed++
	return nil
}

// ---------------------------------------------------- watermarker replay ----

func replayWatermarker(bi int, beh []mbt.Step, in *mbt.Input, res *mbt.Result) error {
	unit := int64(in.CfgInt("Unit", 1))
	lateness := time.Duration(in.CfgInt("Lateness", 0)) * time.Duration(unit)
	if lateness != 0 {
		return fmt.Errorf("wmark.Watermarker.allowedLateness is unexported and always zero in the runner")
	}
	w := &wmark.Watermarker{}
	// Offset shifts the model's timestamps 1..MaxTs on the real time line: 0 = after the Unix epoch, 1 = the smallest one
	// is the epoch itself, MaxTs+2 = all before 1970 (the property is about the order of timestamps, not their origin)
	off := int64(in.CfgInt("Offset", 0))
	tm := func(t int) time.Time { return time.Unix(0, (int64(t)-off)*unit) }
	var prev *time.Time
	for si, st := range beh {
		if st.Str("a") != "Send" {
			res.Steps++
			continue // Read / Tick only queue placeholders
		}
		if st.Str("ty") == "ev" {
			w.AdvanceTime(tm(st.Int("ts")))
			res.Steps++
			continue
		}
		got := w.CurrentWatermark()
		bad := ""
		if prev != nil && got.Before(*prev) {
			bad = fmt.Sprintf("watermark decreased: %v after %v", got.UnixNano(), prev.UnixNano())
		} else if st.Bool("has") {
			f := tm(st.Int("fmax"))
			if !got.Before(f) {
				bad = fmt.Sprintf("watermark %dns reaches the largest event timestamp already forwarded (%dns)", got.UnixNano(), f.UnixNano())
			} else if got.Before(f.Add(-(lateness + time.Nanosecond))) {
				bad = fmt.Sprintf("watermark %dns does not follow the largest forwarded event timestamp (%dns) closely (allowed lateness %v + 1ns)", got.UnixNano(), f.UnixNano(), lateness)
			}
		}
		if bad != "" {
			res.Violations = append(res.Violations, mbt.Violation{Property: "C11", Behaviour: bi, Step: si, What: bad})
			return nil
		}
		g := got
		prev = &g
		res.Steps++
	}
	res.Executed++
	return nil
}

// ------------------------------------------------------------------ main ----

func main() {
	in, err := mbt.ReadInput(os.Args[1])
	if err != nil {
		fmt.Fprintln(os.Stderr, err)
		os.Exit(2)
	}
	res := &mbt.Result{}
	mode := in.CfgStr("Mode", "registry")
	prop := in.Property
	if prop == "" {
		prop = "C10"
	}
	var c *config
	if mode == "sourcerunner" || mode == "srsched" {
		if mode == "srsched" {
			runSchedules(in, res)
		} else {
			runSourceRunners(in, res)
		}
		if err := mbt.WriteResult(os.Args[2], res); err != nil {
			fmt.Fprintln(os.Stderr, err)
			os.Exit(2)
		}
		return
	}
	if mode != "watermarker" {
		if c, err = newConfig(in); err != nil {
			fmt.Fprintln(os.Stderr, err)
			os.Exit(2)
		}
		res.Samples = append(res.Samples, map[string]any{"kind": "concretisation", "keys": fmt.Sprintf("%q", c.keys), "range": c.kgRange.String()})
	}
	for bi, beh := range in.Behaviours {
		var err error
		switch mode {
		case "registry":
			err = replayRegistry(bi, beh, c, prop, res)
		case "operator":
			err = replayOperator(bi, beh, c, prop, res)
		case "opbatch":
			err = replayOpBatch(bi, beh, c, in, prop, res)
		case "watermarker":
			err = replayWatermarker(bi, beh, in, res)
		default:
			err = fmt.Errorf("unknown mode %q", mode)
		}
		if err != nil {
			res.Errors = append(res.Errors, err.Error())
			if len(res.Errors) > 5 {
				break
			}
		}
	}
	if err := mbt.WriteResult(os.Args[2], res); err != nil {
		fmt.Fprintln(os.Stderr, err)
		os.Exit(2)
	}
}
