package main

// Mode "srsched" (C11, runner half, model -> code -> model): behaviours of
// spec/Watermark.tla with Keying, Pipe = 2 and Eager switched on are replayed
// on a real sourcerunner.SourceRunner whose surroundings are harness-owned and
// gated:
//
//	Read(ts)  the source reader returns one record (ts = the timestamp the handler will key it with); the step ends
//	          when the runner's KeyEventBatch call for it has arrived at the handler gate
//	Keyed     the handler gate lets that KeyEventBatch call return
//	Tick      the replayer waits for the next boundary of the runner's own 200 ms ticker (it cannot be driven)
//	Deliver   the operator gate lets the HandleEventBatch call it holds return (back-pressure: while a call is held
//	          one more batch blocks in batchingOperator.Flush and the runner's sender stalls behind it)
//	Send      nothing to do: the runner's sender goroutine sends as soon as it can (Eager)
//
// At the end every gate is opened and the run is over when every record has
// reached the operator and one more tick has been delivered. The stream the operator
// received (in the order of its HandleEventBatch calls) is the result: it is
// validated against spec/WatermarkTrace.tla by the driver (Monotone, Below,
// Close). The model's own prediction of the stamps is not used for the
// verdict; where the code's stream differs from the model's `out` the
// behaviour counts as drift (unmodelled tick, scheduling).

import (
	"context"
	"fmt"
	"sync"
	"time"

	"google.golang.org/protobuf/types/known/timestamppb"
	"reduction.dev/reduction-protocol/handlerpb"
	"reduction.dev/reduction-protocol/jobconfigpb"
	"reduction.dev/reduction/batching"
	"reduction.dev/reduction/clocks"
	"reduction.dev/reduction/connectors"
	"reduction.dev/reduction/proto"
	"reduction.dev/reduction/proto/jobpb"
	"reduction.dev/reduction/proto/workerpb"
	"reduction.dev/reduction/workers/sourcerunner"
	"verif/harness/mbt"
)

const (
	tickPeriod = 200 * time.Millisecond
	tickMargin = 12 * time.Millisecond
	settle     = 4 * time.Millisecond
)

// reader that never blocks the runner's event loop for long (ReadEvents runs on it)
type gatedReader struct {
	connectors.UnimplementedSourceReader
	chunks chan [][]byte
	eoi    chan struct{}
}

func (r *gatedReader) AssignSplits(splits []*workerpb.SourceSplit) error { return nil }
func (r *gatedReader) Checkpoint() [][]byte                              { return nil }
func (r *gatedReader) ReadEvents() ([][]byte, error) {
	select {
	case c := <-r.chunks:
		return c, nil
	default:
	}
	select {
	case c := <-r.chunks:
		return c, nil
	case <-r.eoi:
		select { // records handed over before the end of input are not lost
		case c := <-r.chunks:
			return c, nil
		default:
		}
		return nil, connectors.ErrEndOfInput
	case <-time.After(2 * time.Millisecond):
		return nil, nil
	}
}

type gatedHandler struct {
	unit    int64
	arrived chan struct{}
	tokens  chan struct{}
	free    chan struct{}
}

func (h *gatedHandler) ProcessEventBatch(ctx context.Context, req *handlerpb.ProcessEventBatchRequest) (*handlerpb.ProcessEventBatchResponse, error) {
	return &handlerpb.ProcessEventBatchResponse{}, nil
}
func (h *gatedHandler) KeyEventBatch(ctx context.Context, events [][]byte) ([][]*handlerpb.KeyedEvent, error) {
	h.arrived <- struct{}{}
	select {
	case <-h.tokens:
	case <-h.free:
	}
	out := make([][]*handlerpb.KeyedEvent, len(events))
	for i, raw := range events {
		for _, b := range raw {
			out[i] = append(out[i], &handlerpb.KeyedEvent{Key: []byte{b}, Timestamp: timestamppb.New(time.Unix(0, int64(b)*h.unit))})
		}
	}
	return out, nil
}

// the operator: records what it is given when the call enters, then holds the call
type gatedOperator struct {
	proto.UnimplementedOperator
	rec    srRecorder
	tokens chan struct{}
	free   chan struct{}
}

func (o *gatedOperator) ID() string   { return "op" }
func (o *gatedOperator) Host() string { return "h" }
func (o *gatedOperator) HandleEventBatch(ctx context.Context, batch []*workerpb.Event) error {
	o.rec.HandleEventBatch(ctx, batch)
	select {
	case <-o.tokens:
	case <-o.free:
	}
	return nil
}

func replaySchedule(beh []mbt.Step) (stream []map[string]any, notes []string, err error) {
	rd := &gatedReader{chunks: make(chan [][]byte, 16), eoi: make(chan struct{})}
	free := make(chan struct{})
	hd := &gatedHandler{unit: 1, arrived: make(chan struct{}, 16), tokens: make(chan struct{}, 16), free: free}
	op := &gatedOperator{rec: srRecorder{unit: 1}, tokens: make(chan struct{}, 64), free: free}
	sr := sourcerunner.New(sourcerunner.NewParams{
		Host: "h", UserHandler: hd, Job: proto.NoopJob{}, Clock: clocks.NewFrozenClock(), EventBatching: batching.EventBatcherParams{MaxSize: 1},
		OperatorFactory:     func(senderID string, node *jobpb.NodeIdentity) proto.Operator { return op },
		SourceReaderFactory: func(*jobconfigpb.Source) connectors.SourceReader { return rd },
	})
	sr.Logger = quiet
	startErr := make(chan error, 1)
	go func() { startErr <- sr.Start(context.Background()) }()
	var freeOnce sync.Once
	open := func() { freeOnce.Do(func() { close(free) }) }
	defer func() {
		open()
		sr.Halt()
		select {
		case <-startErr:
		case <-time.After(5 * time.Second):
			if err == nil {
				err = fmt.Errorf("source runner did not stop")
			}
		}
	}()
	t0 := time.Now() // the runner creates its ticker inside HandleDeploy
	if err := sr.HandleDeploy(context.Background(), &workerpb.DeploySourceRunnerRequest{
		Operators: []*jobpb.NodeIdentity{{Id: "op", Host: "h"}}, KeyGroupCount: 4, Sources: []*jobconfigpb.Source{{Id: "src"}},
	}); err != nil {
		return nil, nil, err
	}
	t1 := time.Now()
	if err := sr.HandleAssignSplits([]*workerpb.SourceSplit{{SplitId: "s", SourceId: "src"}}); err != nil {
		return nil, nil, err
	}
	// index of the last ticker boundary that has certainly passed / may have passed
	passedFor := func(ref time.Time, slack time.Duration) int { return int((time.Since(ref) - slack) / tickPeriod) }
	boundary := 0 // ticks accounted for by Tick steps
	fed := 0
	for si, st := range beh {
		if n := passedFor(t0, 0); n > boundary {
			notes = append(notes, fmt.Sprintf("s%d: %d tick(s) of the runner's ticker happened that the schedule does not have", si, n-boundary))
			boundary = n
		}
		switch st.Str("a") {
		case "Read":
			rd.chunks <- [][]byte{{byte(st.Int("ts"))}}
			fed++
			select {
			case <-hd.arrived:
			case <-time.After(3 * time.Second):
				return nil, notes, fmt.Errorf("s%d: the runner did not ask the handler to key the record", si)
			}
		case "Keyed":
			hd.tokens <- struct{}{}
		case "Deliver":
			op.tokens <- struct{}{}
		case "Tick":
			// the next boundary, seen from the latest moment the ticker can have been created
			next := boundary + 1
			if d := time.Until(t1.Add(time.Duration(next)*tickPeriod + tickMargin)); d > 0 {
				time.Sleep(d)
			}
			boundary = next
			if n := passedFor(t0, 0); n > boundary {
				notes = append(notes, fmt.Sprintf("s%d: a Tick step spanned %d boundaries", si, n-boundary+1))
				boundary = n
			}
		case "Send":
			continue // the sender goroutine does it
		default:
			return nil, notes, fmt.Errorf("unknown action %q", st.Str("a"))
		}
		time.Sleep(settle)
	}
	// let everything through; the run is over when every record read has reached the operator and one more tick
	// of the runner's ticker has been stamped and delivered (the runner does nothing at the end of its input)
	open()
	close(rd.eoi)
	count := func() (nev int) {
		op.rec.mu.Lock()
		defer op.rec.mu.Unlock()
		for _, e := range op.rec.events {
			if e["op"] == "ev" {
				nev++
			}
		}
		return nev
	}
	deadline := time.Now().Add(8 * time.Second)
	for count() != fed {
		if time.Now().After(deadline) {
			return nil, notes, fmt.Errorf("the operator received %d keyed events, %d records were read", count(), fed)
		}
		time.Sleep(2 * time.Millisecond)
	}
	next := passedFor(t0, 0) + 1
	time.Sleep(time.Until(t1.Add(time.Duration(next)*tickPeriod + 3*tickMargin)))
	op.rec.mu.Lock()
	defer op.rec.mu.Unlock()
	return op.rec.events, notes, nil
}

// what the model says the runner sends (for the drift count only)
func modelStream(beh []mbt.Step) []map[string]any {
	var out []map[string]any
	for _, st := range beh {
		if st.Str("a") != "Send" {
			continue
		}
		if st.Str("ty") == "ev" {
			out = append(out, map[string]any{"op": "ev", "ts": int64(st.Int("ts"))})
		} else {
			v := int64(st.Int("pred"))
			if !st.Bool("has") {
				v = -1001
			}
			out = append(out, map[string]any{"op": "wm", "v": v})
		}
	}
	return out
}

func startsWith(stream, prefix []map[string]any) bool {
	if len(stream) < len(prefix) {
		return false
	}
	for i, p := range prefix {
		s := stream[i]
		if s["op"] != p["op"] || fmt.Sprint(s["ts"]) != fmt.Sprint(p["ts"]) || fmt.Sprint(s["v"]) != fmt.Sprint(p["v"]) {
			return false
		}
	}
	return true
}

func runSchedules(in *mbt.Input, res *mbt.Result) {
	n := len(in.Behaviours)
	out := make([][]map[string]any, n)
	notes := make([][]string, n)
	errs := make([]error, n)
	sem := make(chan struct{}, in.CfgInt("Parallel", 12))
	var wg sync.WaitGroup
	for i := 0; i < n; i++ {
		wg.Add(1)
		go func(i int) {
			defer wg.Done()
			sem <- struct{}{}
			defer func() { <-sem }()
			out[i], notes[i], errs[i] = replaySchedule(in.Behaviours[i])
		}(i)
	}
	wg.Wait()
	for i := range out {
		if errs[i] != nil {
			res.Errors = append(res.Errors, fmt.Sprintf("schedule %d: %v", i, errs[i]))
			continue
		}
		res.Samples = append(res.Samples, map[string]any{"op": "Reset", "b": i})
		for _, e := range out[i] {
			res.Samples = append(res.Samples, e)
		}
		res.Executed++
		res.Steps += len(in.Behaviours[i])
		if !startsWith(out[i], modelStream(in.Behaviours[i])) {
			res.Count("stream_differs_from_model", 1)
			if len(notes[i]) > 0 {
				res.Count("unmodelled_ticks", 1)
			}
		}
	}
}
