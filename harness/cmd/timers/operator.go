package main

// Operator mode: the behaviours of spec/Timers.tla driven through a real
// operator.Operator.
//
//	SetTimer(k,t) while idle  a keyed event for key k whose handler response registers t
//	Adv(sr,t)                 HandleEvent(sr, Watermark{t})
//	Fire (a timer)            the handler call that delivers one TimerExpired (batch size 1)
//	SetTimer(k,t) after Fire  NewTimers in the response of that handler call
//	Fire (end)                HandleEvent(sr, Watermark) returns
//	Checkpoint                a checkpoint barrier from every source runner
//	Restore                   Halt; a new Operator deployed from the acknowledged checkpoint
//
// Observables: TimerExpired deliveries (C10, "no timer later than Min(up)" of
// C11) and ProcessEventBatchRequest.Watermark of every handler call (C11).

import (
	"context"
	"fmt"
	"os"
	"time"

	"google.golang.org/protobuf/types/known/timestamppb"
	"reduction.dev/reduction-protocol/handlerpb"
	"reduction.dev/reduction/batching"
	"reduction.dev/reduction/clocks"
	"reduction.dev/reduction/connectors/embedded"
	"reduction.dev/reduction/proto"
	"reduction.dev/reduction/proto/jobpb"
	"reduction.dev/reduction/proto/snapshotpb"
	"reduction.dev/reduction/proto/workerpb"
	"reduction.dev/reduction/util/verifhook"
	"reduction.dev/reduction/workers/operator"
	"verif/harness/mbt"
)

const opWait = 5 * time.Second

type handlerCall struct {
	req  *handlerpb.ProcessEventBatchRequest
	resp chan *handlerpb.ProcessEventBatchResponse
}

type opHandler struct {
	calls chan handlerCall
	quit  chan struct{} // closed when the behaviour is over: answer everything with an empty response
}

func (h *opHandler) ProcessEventBatch(ctx context.Context, req *handlerpb.ProcessEventBatchRequest) (*handlerpb.ProcessEventBatchResponse, error) {
	c := handlerCall{req, make(chan *handlerpb.ProcessEventBatchResponse, 1)}
	select {
	case h.calls <- c:
	case <-h.quit:
		return &handlerpb.ProcessEventBatchResponse{}, nil
	}
	select {
	case resp := <-c.resp:
		return resp, nil
	case <-h.quit:
		return &handlerpb.ProcessEventBatchResponse{}, nil
	}
}

func (h *opHandler) KeyEventBatch(ctx context.Context, events [][]byte) ([][]*handlerpb.KeyedEvent, error) {
	return nil, fmt.Errorf("not used")
}

type opJob struct {
	proto.NoopJob
	ckpts chan *snapshotpb.OperatorCheckpoint
}

func (j *opJob) OperatorCheckpointComplete(ctx context.Context, req *snapshotpb.OperatorCheckpoint) error {
	j.ckpts <- req
	return nil
}

// neighbour of the operator when it owns only the upper half of the key space
type stubNeighbour struct{ proto.UnimplementedOperator }

func (s *stubNeighbour) NeedsTable(ctx context.Context, fileURI string) (bool, error) {
	return false, nil
}

type opRun struct {
	c       *config
	dir     string
	gen     int
	op      *operator.Operator
	h       *opHandler
	job     *opJob
	ckpt    *snapshotpb.OperatorCheckpoint
	evDone  chan error // result of the HandleEvent in flight
	adv     *advance
	pending []*handlerpb.KeyResult // timers to register with the next handler response
}

func (r *opRun) boot(ckpts []*snapshotpb.OperatorCheckpoint) error {
	r.gen++
	id := fmt.Sprintf("op-%d", r.gen)
	if r.h != nil {
		close(r.h.quit)
	}
	r.h = &opHandler{calls: make(chan handlerCall), quit: make(chan struct{})}
	r.job = &opJob{ckpts: make(chan *snapshotpb.OperatorCheckpoint, 4)}
	r.op = operator.NewOperator(operator.NewOperatorParams{
		ID: id, Host: "h", Job: r.job, UserHandler: r.h, Clock: clocks.NewFrozenClock(),
		EventBatching:           batching.EventBatcherParams{MaxSize: 1},
		NeighborOperatorFactory: func(senderID string, node *jobpb.NodeIdentity) proto.Operator { return &stubNeighbour{} },
	})
	r.op.Logger = quiet
	op := r.op
	go op.Start(context.Background())
	ops := []*jobpb.NodeIdentity{{Id: id, Host: "h"}}
	kgCount := r.c.ng
	if r.c.rangeIdx == 1 {
		ops = []*jobpb.NodeIdentity{{Id: "other", Host: "o"}, {Id: id, Host: "h"}}
		kgCount = 2 * r.c.ng
	}
	return r.op.HandleDeploy(context.Background(), &workerpb.DeployOperatorRequest{
		Operators: ops, SourceRunnerIds: r.c.srIDs, Checkpoints: ckpts, KeyGroupCount: int32(kgCount), StorageLocation: r.dir,
	}, &embedded.RecordingSink{})
}

func (r *opRun) send(sender string, ev *workerpb.Event) {
	done := make(chan error, 1)
	op := r.op
	go func() { done <- op.HandleEvent(context.Background(), sender, ev) }()
	r.evDone = done
}

// next waits for the next thing the operator does with the event in flight:
// a handler call, or the return of HandleEvent.
func (r *opRun) next() (*handlerCall, error, bool) {
	select {
	case c := <-r.h.calls:
		return &c, nil, true
	case err := <-r.evDone:
		r.evDone = nil
		return nil, err, true
	case <-time.After(opWait):
		return nil, nil, false
	}
}

func (r *opRun) respond(c *handlerCall) {
	c.resp <- &handlerpb.ProcessEventBatchResponse{KeyResults: r.pending}
	r.pending = nil
}

func replayOperator(bi int, beh []mbt.Step, c *config, prop string, res *mbt.Result) (err error) {
	dir, err := os.MkdirTemp("", "verif-timers-op")
	if err != nil {
		return err
	}
	defer os.RemoveAll(dir)
	verifhook.Install(nil, func(name string, def int64) int64 {
		if name == "operator.timerCacheBytes" {
			return int64(c.maxBytes * c.ng)
		}
		return def
	})
	defer verifhook.Install(nil, nil)
	r := &opRun{c: c, dir: dir}
	defer func() {
		if r.h != nil {
			close(r.h.quit)
		}
		if r.op != nil {
			r.op.Halt()
		}
	}()
	if err := r.boot(nil); err != nil {
		return fmt.Errorf("b%d: deploy: %v", bi, err)
	}
	si := 0
	viol := func(p, what string, exp, obs any) {
		res.Violations = append(res.Violations, mbt.Violation{Property: p, Behaviour: bi, Step: si, What: what, Expected: exp, Observed: obs})
	}
	// the watermark the handler is told must be Min(up) (C11)
	wmOK := func(call *handlerCall, want int) bool {
		got := call.req.Watermark.AsTime()
		if !got.Equal(c.tm(want)) {
			viol("C11", fmt.Sprintf("the handler was told watermark %s but the minimum of the upstreams' latest watermarks is %s (model time %d)",
				got.UTC().Format(time.RFC3339Nano), c.tm(want).UTC().Format(time.RFC3339Nano), want), nil, nil)
			return false
		}
		return true
	}
	collectMid := func(from int) int {
		// SetTimer steps directly after a Fire step are the handler's response to that delivery
		j := from
		for j < len(beh) && beh[j].Str("a") == "SetTimer" {
			r.pending = append(r.pending, &handlerpb.KeyResult{Key: c.keys[beh[j].Int("k")-1],
				NewTimers: []*timestamppb.Timestamp{timestamppb.New(c.tm(beh[j].Int("t")))}})
			j++
		}
		return j
	}
	for si = 0; si < len(beh); si++ {
		st := beh[si]
		switch st.Str("a") {
		case "SetTimer":
			if r.adv != nil {
				return fmt.Errorf("b%d s%d: SetTimer inside an iteration that was not consumed by a Fire step", bi, si)
			}
			k, t := st.Int("k"), st.Int("t")
			r.send(c.srIDs[(k+t)%c.nsr], &workerpb.Event{Event: &workerpb.Event_KeyedEvent{KeyedEvent: &handlerpb.KeyedEvent{
				Key: c.keys[k-1], Timestamp: timestamppb.New(c.tm(1)), Value: []byte{byte(t)}}}})
			call, _, ok := r.next()
			if !ok || call == nil {
				return fmt.Errorf("b%d s%d: no handler call for a keyed event", bi, si)
			}
			if !wmOK(call, st.Int("wm")) {
				call.resp <- &handlerpb.ProcessEventBatchResponse{}
				return nil
			}
			r.pending = []*handlerpb.KeyResult{{Key: c.keys[k-1], NewTimers: []*timestamppb.Timestamp{timestamppb.New(c.tm(t))}}}
			r.respond(call)
			if call, err, ok := r.next(); !ok || call != nil || err != nil {
				return fmt.Errorf("b%d s%d: HandleEvent(keyed event) did not return cleanly: %v", bi, si, err)
			}
		case "Adv":
			r.send(c.srIDs[st.Int("sr")-1], &workerpb.Event{Event: &workerpb.Event_Watermark{Watermark: &workerpb.Watermark{
				Timestamp: timestamppb.New(c.tm(st.Int("t")))}}})
			r.adv = newAdvance(st)
		case "Fire":
			if r.adv == nil {
				return fmt.Errorf("b%d s%d: Fire without Adv", bi, si)
			}
			call, herr, ok := r.next()
			if !ok {
				return fmt.Errorf("b%d s%d: operator neither called the handler nor finished the watermark event", bi, si)
			}
			if call != nil {
				if len(call.req.Events) != 1 || call.req.Events[0].GetTimerExpired() == nil {
					call.resp <- &handlerpb.ProcessEventBatchResponse{}
					return fmt.Errorf("b%d s%d: unexpected handler batch %v", bi, si, call.req.Events)
				}
				te := call.req.Events[0].GetTimerExpired()
				x, raw := c.toTk(te.Key, te.Timestamp.AsTime())
				msg := r.adv.yielded(x, raw)
				if msg != "" {
					viol(prop, "TimerExpired delivery: "+msg, map[string]any{"still_due": sortedTks(r.adv.remaining)}, map[string]any{"delivered": r.adv.fired})
				}
				if msg != "" || !wmOK(call, r.adv.wm) {
					call.resp <- &handlerpb.ProcessEventBatchResponse{}
					return nil
				}
				if st.Bool("end") {
					call.resp <- &handlerpb.ProcessEventBatchResponse{}
					res.Driftf("b%d s%d: operator delivered a due timer where the model ends", bi, si)
					return nil
				}
				next := collectMid(si + 1)
				r.respond(call)
				res.Steps += next - si - 1
				si = next - 1
			} else {
				if herr != nil {
					return fmt.Errorf("b%d s%d: HandleEvent(watermark): %v", bi, si, herr)
				}
				if msg := r.adv.ended(); msg != "" {
					viol(prop, "TimerExpired deliveries: "+msg, map[string]any{"still_due": sortedTks(r.adv.remaining)}, map[string]any{"delivered": r.adv.fired})
					return nil
				}
				if !st.Bool("end") {
					res.Driftf("b%d s%d: operator finished the watermark where the model yields", bi, si)
					return nil
				}
				r.adv = nil
			}
		case "Checkpoint":
			for _, sr := range c.srIDs {
				r.send(sr, &workerpb.Event{Event: &workerpb.Event_CheckpointBarrier{CheckpointBarrier: &workerpb.CheckpointBarrier{
					CheckpointId: uint64(st.Int("id"))}}})
				if call, err, ok := r.next(); !ok || call != nil || err != nil {
					return fmt.Errorf("b%d s%d: barrier from %s: %v", bi, si, sr, err)
				}
			}
			select {
			case r.ckpt = <-r.job.ckpts:
			case <-time.After(opWait):
				return fmt.Errorf("b%d s%d: no OperatorCheckpointComplete", bi, si)
			}
		case "Restore":
			if r.ckpt == nil {
				return fmt.Errorf("b%d s%d: Restore without checkpoint", bi, si)
			}
			r.op.Halt()
			if err := r.boot([]*snapshotpb.OperatorCheckpoint{r.ckpt}); err != nil {
				return fmt.Errorf("b%d s%d: redeploy: %v", bi, si, err)
			}
		case "Finish":
		default:
			return fmt.Errorf("unknown action %q", st.Str("a"))
		}
		res.Steps++
	}
	res.Executed++
	return nil
}
