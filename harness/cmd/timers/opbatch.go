package main

// Mode "opbatch": behaviours of spec/TimersOp.tla driven through a real
// operator.Operator whose handler-event batcher holds up to BatchMax items and
// whose batch timer is fired by the harness (opkit.Timer).
//
//	Ev(sr,k,t)     keyed event for key k from runner sr; the handler's response to it registers the timer (k,t)
//	Adv(sr,t)      HandleEvent(sr, Watermark{t})
//	Barrier(sr)    HandleEvent(sr, CheckpointBarrier{id}); other runners keep sending until their own barrier
//	Timeout        the batch timer fires (MaxDelay elapsed)
//	Restore        Halt; a NEW Operator object deployed from the last reported checkpoint
//	Redeploy(ck)   a second HandleDeploy on the SAME Operator object, from the last reported checkpoint / from nothing
//	Finish         the batch timer fires a last time
//
// Verdicts are taken at the handler only, against a ledger of what the
// property demands (never against the model's prediction of batch boundaries):
//
//	pending  = timers registered by a handler response with t > Min(up) whose TimerExpired was not given to the
//	           handler yet, per timeline.
//	C10: a TimerExpired must be pending (else: twice / never registered / fired before the checkpoint), not later than
//	     Min(up), in non-decreasing time; whenever the batch delay has elapsed (Timeout, Finish; every step if
//	     BatchMax = 1) no pending timer may be at or before Min(up)
//	C11: ProcessEventBatchRequest.Watermark = Min(up) of the current deployment on every handler call
//
// What is pending in a RESTORED timeline is read from the restored state, the way a user handler would know it: the
// harness handler keeps, in the keyed state of k, an entry p/<t> from the response that registers (k,t) (t later than
// the watermark it was told) until the response to TimerExpired (k,t), which deletes it. Every Restore /
// Redeploy-from-checkpoint is followed by one probe event per key (a keyed event whose response does nothing); the
// p entries in the KeyStates of those calls are the timers pending at the checkpoint - wherever the implementation
// cut it relative to the handler calls around the barriers. (The cut "when OperatorCheckpointComplete is called" is
// kept for comparison, counter cut_differs_from_report, and used when probing is switched off.) The probes are also
// the "keyed events before the first watermark of the new deployment" of C11: they must be told the epoch.
//
// Differences between the model's and the code's batch boundaries are counted
// (delivery_drift), nothing else.

import (
	"context"
	"fmt"
	"os"
	"time"

	"google.golang.org/protobuf/types/known/timestamppb"
	"reduction.dev/reduction-protocol/handlerpb"
	"reduction.dev/reduction/batching"
	"reduction.dev/reduction/clocks"
	"reduction.dev/reduction/connectors/embedded"
	"reduction.dev/reduction/proto"
	"reduction.dev/reduction/proto/jobpb"
	"reduction.dev/reduction/proto/snapshotpb"
	"reduction.dev/reduction/proto/workerpb"
	"reduction.dev/reduction/util/verifhook"
	"reduction.dev/reduction/workers/operator"
	"verif/harness/mbt"
	"verif/harness/opkit"
)

type ackCall struct {
	ck   *snapshotpb.OperatorCheckpoint
	done chan struct{}
}

// obJob hands every OperatorCheckpointComplete to the replayer in the order of
// the operator's event loop (so the ledger is cut exactly there).
type obJob struct {
	proto.NoopJob
	acks chan ackCall
	quit chan struct{}
}

func (j *obJob) OperatorCheckpointComplete(ctx context.Context, req *snapshotpb.OperatorCheckpoint) error {
	c := ackCall{req, make(chan struct{})}
	select {
	case j.acks <- c:
	case <-j.quit:
		return nil
	}
	select {
	case <-c.done:
	case <-j.quit:
	}
	return nil
}

type obItem struct {
	Ty string `json:"ty"`
	K  int    `json:"k"`
	T  int    `json:"t"`
}

type obRun struct {
	c       *config
	prop    string
	dir     string
	gen     int
	maxSize int
	op      *operator.Operator
	opID    string
	h       *opHandler
	job     *obJob
	tm      *opkit.Timer
	ckpt    *snapshotpb.OperatorCheckpoint
	evDone  chan error

	upv []int        // last watermark sent per runner in this deployment
	bar map[int]bool // runners whose barrier of the open checkpoint was sent

	// ledger
	pending map[tk]string // -> where it comes from (for the message)
	snaps   map[uint64]map[tk]string
	marks   map[tk]bool // p/<t> entries seen in the KeyStates of the probe calls
	lastT   int
	wm      int // Min(up) of the step being executed

	bi, si int
	res    *mbt.Result
	stop   bool // a violation was recorded: the behaviour is over
	probes bool
}

func (r *obRun) viol(p, what string, exp, obs any) {
	r.res.Violations = append(r.res.Violations, mbt.Violation{Property: p, Behaviour: r.bi, Step: r.si, What: what, Expected: exp, Observed: obs})
	r.stop = true
}

func (r *obRun) deployReq(ckpts []*snapshotpb.OperatorCheckpoint) *workerpb.DeployOperatorRequest {
	ops := []*jobpb.NodeIdentity{{Id: r.opID, Host: "h"}}
	kgCount := r.c.ng
	if r.c.rangeIdx == 1 {
		ops = []*jobpb.NodeIdentity{{Id: "other", Host: "o"}, {Id: r.opID, Host: "h"}}
		kgCount = 2 * r.c.ng
	}
	return &workerpb.DeployOperatorRequest{Operators: ops, SourceRunnerIds: r.c.srIDs, Checkpoints: ckpts,
		KeyGroupCount: int32(kgCount), StorageLocation: r.dir}
}

func (r *obRun) resetDeployment() {
	r.upv = make([]int, r.c.nsr)
	r.bar = map[int]bool{}
	r.lastT = -1 << 30
}

// bootNew starts a new Operator object (a new process after a crash).
func (r *obRun) bootNew(ckpts []*snapshotpb.OperatorCheckpoint) error {
	r.retire()
	r.gen++
	r.opID = fmt.Sprintf("op-%d", r.gen)
	r.h = &opHandler{calls: make(chan handlerCall), quit: make(chan struct{})}
	r.job = &obJob{acks: make(chan ackCall), quit: make(chan struct{})}
	r.tm = &opkit.Timer{}
	r.op = operator.NewOperator(operator.NewOperatorParams{
		ID: r.opID, Host: "h", Job: r.job, UserHandler: r.h, Clock: clocks.NewFrozenClock(),
		EventBatching:           batching.EventBatcherParams{MaxSize: r.maxSize, MaxDelay: time.Hour, Timer: r.tm},
		NeighborOperatorFactory: func(senderID string, node *jobpb.NodeIdentity) proto.Operator { return &stubNeighbour{} },
	})
	r.op.Logger = quiet
	op := r.op
	go op.Start(context.Background())
	r.resetDeployment()
	return r.op.HandleDeploy(context.Background(), r.deployReq(ckpts), &embedded.RecordingSink{})
}

func (r *obRun) retire() {
	if r.h != nil {
		close(r.h.quit)
		close(r.job.quit)
		r.h = nil
	}
	if r.op != nil {
		r.op.Halt()
		r.op = nil
	}
}

func (r *obRun) send(sr int, ev *workerpb.Event) {
	done := make(chan error, 1)
	op, id := r.op, r.c.srIDs[sr-1]
	go func() { done <- op.HandleEvent(context.Background(), id, ev) }()
	r.evDone = done
}

func (r *obRun) respond(c *handlerCall) {
	resp := &handlerpb.ProcessEventBatchResponse{}
	told := c.req.Watermark.AsTime()
	put := func(key []byte, m *handlerpb.StateMutation) *handlerpb.KeyResult {
		return &handlerpb.KeyResult{Key: key, StateMutationNamespaces: []*handlerpb.StateMutationNamespace{{Namespace: "p", Mutations: []*handlerpb.StateMutation{m}}}}
	}
	for _, ev := range c.req.Events {
		if ke := ev.GetKeyedEvent(); ke != nil && len(ke.Value) == 1 {
			t := int(ke.Value[0])
			kr := &handlerpb.KeyResult{Key: ke.Key, NewTimers: []*timestamppb.Timestamp{timestamppb.New(r.c.tm(t))}}
			if r.c.tm(t).After(told) { // the handler's own record of its pending timers
				kr = put(ke.Key, &handlerpb.StateMutation{Mutation: &handlerpb.StateMutation_Put{Put: &handlerpb.PutMutation{Key: []byte{byte(t)}, Value: []byte("1")}}})
				kr.NewTimers = []*timestamppb.Timestamp{timestamppb.New(r.c.tm(t))}
			}
			resp.KeyResults = append(resp.KeyResults, kr)
		}
		if te := ev.GetTimerExpired(); te != nil {
			if x, raw := r.c.toTk(te.Key, te.Timestamp.AsTime()); raw == "" {
				resp.KeyResults = append(resp.KeyResults, put(te.Key, &handlerpb.StateMutation{Mutation: &handlerpb.StateMutation_Delete{Delete: &handlerpb.DeleteMutation{Key: []byte{byte(x.T)}}}}))
			}
		}
	}
	c.resp <- resp
}

// judge one handler call against the ledger
func (r *obRun) judge(call *handlerCall, got *[]obItem) {
	c := r.c
	told := call.req.Watermark.AsTime()
	if !told.Equal(c.tm(r.wm)) {
		r.viol("C11", fmt.Sprintf("the handler was told watermark %s but the minimum of the latest watermarks of the upstreams of this deployment is %s (model time %d; a runner that has not reported counts as the epoch)",
			told.UTC().Format(time.RFC3339Nano), c.tm(r.wm).UTC().Format(time.RFC3339Nano), r.wm), nil, nil)
		return
	}
	for _, ks := range call.req.KeyStates {
		k := c.modelKey(ks.Key)
		for _, ns := range ks.StateEntryNamespaces {
			if ns.Namespace != "p" || k == 0 {
				continue
			}
			for _, e := range ns.Entries {
				if len(e.Key) == 1 {
					r.marks[tk{k, int(e.Key[0])}] = true
				}
			}
		}
	}
	var reg []tk
	for _, ev := range call.req.Events {
		if ke := ev.GetKeyedEvent(); ke != nil {
			k := c.modelKey(ke.Key)
			if k != 0 && len(ke.Value) == 2 {
				continue // probe
			}
			if k == 0 || len(ke.Value) != 1 {
				r.viol(r.prop, fmt.Sprintf("the handler was given a keyed event that was never sent: key %q", ke.Key), nil, nil)
				return
			}
			t := int(ke.Value[0])
			*got = append(*got, obItem{"e", k, t})
			if t > r.wm { // later than the operator's watermark: the registration counts
				reg = append(reg, tk{k, t})
			}
			continue
		}
		te := ev.GetTimerExpired()
		if te == nil {
			continue
		}
		x, raw := c.toTk(te.Key, te.Timestamp.AsTime())
		*got = append(*got, obItem{"x", x.K, x.T})
		if raw != "" {
			r.viol("C10", "TimerExpired for a timer that was never registered: "+raw, nil, nil)
			return
		}
		if _, ok := r.pending[x]; !ok {
			r.viol("C10", fmt.Sprintf("TimerExpired (key %d, t=%d) was given to the handler although that timer is not pending in this timeline (never accepted, already fired, or fired before the checkpoint the operator was restored from)", x.K, x.T),
				map[string]any{"pending": r.pendingList()}, nil)
			return
		}
		if x.T > r.wm {
			r.viol(r.prop, fmt.Sprintf("TimerExpired (key %d, t=%d) was given to the handler although the operator watermark Min(up) is %d", x.K, x.T, r.wm), nil, nil)
			return
		}
		if x.T < r.lastT {
			r.viol("C10", fmt.Sprintf("timers fired out of timestamp order: t=%d after t=%d", x.T, r.lastT), nil, nil)
			return
		}
		r.lastT = x.T
		delete(r.pending, x)
	}
	// the response is applied after the handler returns
	for _, x := range reg {
		if _, ok := r.pending[x]; !ok {
			r.pending[x] = fmt.Sprintf("registered at step %d", r.si)
		}
	}
}

func (r *obRun) pendingList() []tk {
	m := map[tk]bool{}
	for x := range r.pending {
		m[x] = true
	}
	return sortedTks(m)
}

// pump serves what the operator does until the HandleEvent in flight returns.
func (r *obRun) pump(got *[]obItem) error {
	for {
		select {
		case call := <-r.h.calls:
			if !r.stop {
				r.judge(&call, got)
			}
			if r.stop {
				call.resp <- &handlerpb.ProcessEventBatchResponse{}
			} else {
				r.respond(&call)
			}
		case a := <-r.job.acks:
			snap := map[tk]string{}
			for x := range r.pending {
				snap[x] = fmt.Sprintf("pending when checkpoint %d was reported (registered, TimerExpired not given to the handler before it)", a.ck.CheckpointId)
			}
			r.snaps[a.ck.CheckpointId] = snap
			r.ckpt = a.ck
			close(a.done)
		case err := <-r.evDone:
			r.evDone = nil
			return err
		case <-time.After(opWait):
			return fmt.Errorf("the operator neither called the handler nor finished the event")
		}
	}
}

// the batch delay elapses: fire the batch timer if it is armed, then let the event loop settle (a watermark message
// repeating the runner's latest value changes nothing and returns only after the loop has finished the flush)
func (r *obRun) fireTimer(got *[]obItem) error {
	do := r.tm.Take()
	if do == nil {
		return nil
	}
	fired := make(chan struct{})
	go func() { do(); close(fired) }()
	sr := 0
	for i := 1; i <= r.c.nsr; i++ {
		if !r.bar[i] {
			sr = i
			break
		}
	}
	if sr == 0 {
		return fmt.Errorf("no runner free to settle the loop")
	}
	select {
	case <-fired:
	case <-time.After(opWait):
		return fmt.Errorf("the operator's loop did not take the batch time-out")
	}
	r.send(sr, &workerpb.Event{Event: &workerpb.Event_Watermark{Watermark: &workerpb.Watermark{Timestamp: timestamppb.New(r.c.tm(r.upv[sr-1]))}}})
	return r.pump(got)
}

// the batch delay has elapsed: nothing due may still be pending
func (r *obRun) settled(why string) {
	if r.stop {
		return
	}
	lost := map[tk]bool{}
	for x := range r.pending {
		if x.T <= r.wm {
			lost[x] = true
		}
	}
	if len(lost) == 0 {
		return
	}
	l := sortedTks(lost)
	r.viol("C10", fmt.Sprintf("timer (key %d, t=%d) is pending [%s] and the operator watermark Min(up) is %d, but its TimerExpired was not given to the handler (%s): the timer fires zero times",
		l[0].K, l[0].T, r.pending[l[0]], r.wm, why), map[string]any{"due_and_pending": l}, nil)
}

// equal up to the order of timers with equal timestamps (the property orders by time only)
func sameItems(model []any, got []obItem) bool {
	if len(model) != len(got) {
		return false
	}
	got = append([]obItem(nil), got...)
	for i := 1; i < len(got); i++ {
		for j := i; j > 0 && got[j].Ty == "x" && got[j-1].Ty == "x" && got[j].T == got[j-1].T && got[j].K < got[j-1].K; j-- {
			got[j], got[j-1] = got[j-1], got[j]
		}
	}
	for i, m := range model {
		mm := m.(map[string]any)
		if mm["ty"].(string) != got[i].Ty || int(mm["k"].(float64)) != got[i].K || int(mm["t"].(float64)) != got[i].T {
			return false
		}
	}
	return true
}

func replayOpBatch(bi int, beh []mbt.Step, c *config, in *mbt.Input, prop string, res *mbt.Result) (err error) {
	dir, err := os.MkdirTemp("", "verif-timers-ob")
	if err != nil {
		return err
	}
	defer os.RemoveAll(dir)
	verifhook.Install(nil, func(name string, def int64) int64 {
		if name == "operator.timerCacheBytes" {
			return int64(c.maxBytes * c.ng)
		}
		return def
	})
	defer verifhook.Install(nil, nil)
	r := &obRun{c: c, prop: prop, dir: dir, maxSize: in.CfgInt("BatchMax", 2), pending: map[tk]string{}, snaps: map[uint64]map[tk]string{},
		marks: map[tk]bool{}, probes: in.CfgBool("Probe", true), bi: bi, res: res}
	defer r.retire()
	if err := r.bootNew(nil); err != nil {
		return fmt.Errorf("b%d: deploy: %v", bi, err)
	}
	fromSnap := func(id uint64) error {
		s, ok := r.snaps[id]
		if !ok {
			return fmt.Errorf("no ledger cut for checkpoint %d", id)
		}
		r.pending = map[tk]string{}
		for x, w := range s {
			r.pending[x] = w
		}
		return nil
	}
	// after a deployment: one probe event per key; from a checkpoint, the restored state tells what is pending
	probe := func(id uint64, fromCkpt bool) error {
		if !r.probes {
			return nil
		}
		r.marks = map[tk]bool{}
		var got []obItem
		for k := range c.keys {
			r.send(1, &workerpb.Event{Event: &workerpb.Event_KeyedEvent{KeyedEvent: &handlerpb.KeyedEvent{
				Key: c.keys[k], Timestamp: timestamppb.New(c.tm(1)), Value: []byte{0xff, 0}}}})
			if err := r.pump(&got); err != nil {
				return err
			}
		}
		if err := r.fireTimer(&got); err != nil {
			return err
		}
		if !fromCkpt || r.stop {
			return nil
		}
		same := len(r.marks) == len(r.pending)
		for x := range r.marks {
			if _, ok := r.pending[x]; !ok {
				same = false
			}
		}
		if !same {
			res.Count("cut_differs_from_report", 1)
		}
		r.pending = map[tk]string{}
		for x := range r.marks {
			r.pending[x] = fmt.Sprintf("pending at checkpoint %d: the state restored from it holds the handler's record that it registered this timer and was not given its TimerExpired", id)
		}
		return nil
	}
	for si, st := range beh {
		r.si, r.wm = si, st.Int("wm")
		var got []obItem
		a := st.Str("a")
		switch a {
		case "Ev":
			k, t := st.Int("k"), st.Int("t")
			r.send(st.Int("sr"), &workerpb.Event{Event: &workerpb.Event_KeyedEvent{KeyedEvent: &handlerpb.KeyedEvent{
				Key: c.keys[k-1], Timestamp: timestamppb.New(c.tm(1)), Value: []byte{byte(t)}}}})
			err = r.pump(&got)
		case "Adv":
			r.upv[st.Int("sr")-1] = st.Int("t")
			r.send(st.Int("sr"), &workerpb.Event{Event: &workerpb.Event_Watermark{Watermark: &workerpb.Watermark{
				Timestamp: timestamppb.New(c.tm(st.Int("t")))}}})
			err = r.pump(&got)
		case "Barrier":
			id := uint64(st.Int("id"))
			r.bar[st.Int("sr")] = true
			r.send(st.Int("sr"), &workerpb.Event{Event: &workerpb.Event_CheckpointBarrier{CheckpointBarrier: &workerpb.CheckpointBarrier{CheckpointId: id}}})
			err = r.pump(&got)
			if err == nil && st.Bool("last") {
				r.bar = map[int]bool{}
				if r.ckpt == nil || r.ckpt.CheckpointId != id {
					err = fmt.Errorf("no OperatorCheckpointComplete(%d) after the barriers of all runners", id)
				} else if !r.stop && !sameTks(st.List("cpend"), r.snaps[id]) {
					res.Count("ckpt_pending_differs_from_model", 1)
				}
			}
		case "Timeout", "Finish":
			err = r.fireTimer(&got)
			if err == nil {
				r.settled("the batch delay has elapsed")
			}
		case "Restore":
			if r.ckpt == nil {
				return fmt.Errorf("b%d s%d: Restore without a reported checkpoint", bi, si)
			}
			if err = fromSnap(r.ckpt.CheckpointId); err == nil {
				err = r.bootNew([]*snapshotpb.OperatorCheckpoint{r.ckpt})
			}
			if err == nil {
				err = probe(r.ckpt.CheckpointId, true)
			}
		case "Redeploy":
			var ck []*snapshotpb.OperatorCheckpoint
			if st.Bool("ck") {
				if r.ckpt == nil {
					return fmt.Errorf("b%d s%d: Redeploy from a checkpoint that was not reported", bi, si)
				}
				ck = []*snapshotpb.OperatorCheckpoint{r.ckpt}
				err = fromSnap(r.ckpt.CheckpointId)
			} else {
				r.pending, r.ckpt = map[tk]string{}, nil
			}
			if err == nil {
				r.resetDeployment()
				err = r.op.HandleDeploy(context.Background(), r.deployReq(ck), &embedded.RecordingSink{})
			}
			if err == nil {
				if ck != nil {
					err = probe(r.ckpt.CheckpointId, true)
				} else {
					err = probe(0, false)
				}
			}
		default:
			return fmt.Errorf("unknown action %q", a)
		}
		if err != nil {
			return fmt.Errorf("b%d s%d %s: %v", bi, si, a, err)
		}
		if r.stop {
			return nil
		}
		if r.maxSize == 1 && a != "Timeout" && a != "Finish" && a != "Restore" && a != "Redeploy" {
			r.settled("event batches hold one item")
			if r.stop {
				return nil
			}
		}
		if _, ok := st["dl"]; ok && !sameItems(st.List("dl"), got) {
			res.Count("delivery_drift", 1)
			if len(res.Samples) < 4 {
				res.Samples = append(res.Samples, map[string]any{"kind": "delivery drift", "behaviour": bi, "step": si, "action": a, "model": st.List("dl"), "code": got})
			}
		}
		res.Steps++
	}
	res.Executed++
	return nil
}

func sameTks(model []any, got map[tk]string) bool {
	if len(model) != len(got) {
		return false
	}
	for _, m := range model {
		mm := m.(map[string]any)
		if _, ok := got[tk{int(mm["k"].(float64)), int(mm["t"].(float64))}]; !ok {
			return false
		}
	}
	return true
}
