package main

// Source-runner mode (C11, runner half, code -> model): real
// sourcerunner.SourceRunner instances are fed seeded random event-timestamp
// sequences (ordered or not) by a harness-owned SourceReader that paces its
// reads so that the runner's own 200 ms watermark ticker fires at varying
// stream positions. The stream each runner sends to its (single, harness-owned)
// operator (which, in half of the runs, holds one HandleEventBatch call for
// longer than a tick period) is recorded in order: one ndjson line per keyed event / watermark,
// validated against spec/WatermarkTrace.tla by the driver. Runs are separated
// by {"op":"Reset"}.

import (
	"context"
	"fmt"
	"math/rand"
	"sync"
	"time"

	"google.golang.org/protobuf/types/known/timestamppb"
	"reduction.dev/reduction-protocol/handlerpb"
	"reduction.dev/reduction-protocol/jobconfigpb"
	"reduction.dev/reduction/batching"
	"reduction.dev/reduction/clocks"
	"reduction.dev/reduction/connectors"
	"reduction.dev/reduction/proto"
	"reduction.dev/reduction/proto/jobpb"
	"reduction.dev/reduction/proto/workerpb"
	"reduction.dev/reduction/workers/sourcerunner"
	"verif/harness/mbt"
)

// scripted reader: chunks of raw events, a pause before each read
type srReader struct {
	connectors.UnimplementedSourceReader
	mu     sync.Mutex
	chunks [][][]byte
	pauses []time.Duration
	done   chan struct{}
}

func (r *srReader) AssignSplits(splits []*workerpb.SourceSplit) error { return nil }
func (r *srReader) Checkpoint() [][]byte                              { return nil }
func (r *srReader) ReadEvents() ([][]byte, error) {
	r.mu.Lock()
	defer r.mu.Unlock()
	if len(r.chunks) == 0 {
		select {
		case <-r.done:
		default:
			close(r.done)
		}
		return nil, connectors.ErrEndOfInput
	}
	time.Sleep(r.pauses[0])
	c := r.chunks[0]
	r.chunks, r.pauses = r.chunks[1:], r.pauses[1:]
	return c, nil
}

// raw event = one byte per keyed event it produces: the timestamp in model units
type srHandler struct {
	unit   int64
	mu     sync.Mutex
	delays []time.Duration // per KeyEventBatch call: the async keying is slow, so placeholders queue up behind it
}

func (h *srHandler) ProcessEventBatch(ctx context.Context, req *handlerpb.ProcessEventBatchRequest) (*handlerpb.ProcessEventBatchResponse, error) {
	return &handlerpb.ProcessEventBatchResponse{}, nil
}
func (h *srHandler) KeyEventBatch(ctx context.Context, events [][]byte) ([][]*handlerpb.KeyedEvent, error) {
	h.mu.Lock()
	var d time.Duration
	if len(h.delays) > 0 {
		d, h.delays = h.delays[0], h.delays[1:]
	}
	h.mu.Unlock()
	time.Sleep(d)
	out := make([][]*handlerpb.KeyedEvent, len(events))
	for i, raw := range events {
		for _, b := range raw {
			out[i] = append(out[i], &handlerpb.KeyedEvent{Key: []byte{b}, Timestamp: timestamppb.New(time.Unix(0, int64(b)*h.unit))})
		}
	}
	return out, nil
}

type srRecorder struct {
	proto.UnimplementedOperator
	mu     sync.Mutex
	unit   int64
	events []map[string]any
	bad    []string
	holds  []time.Duration // per HandleEventBatch call: the operator is slow (back-pressure on the runner's sender)
}

func (o *srRecorder) ID() string   { return "op" }
func (o *srRecorder) Host() string { return "h" }
func (o *srRecorder) HandleEventBatch(ctx context.Context, batch []*workerpb.Event) error {
	o.mu.Lock()
	var hold time.Duration
	if len(o.holds) > 0 {
		hold, o.holds = o.holds[0], o.holds[1:]
	}
	defer func() {
		o.mu.Unlock()
		time.Sleep(hold) // after recording: the stream is the order in which the batches entered the operator
	}()
	zeroWM := time.Time{}.Add(-time.Nanosecond)
	for _, e := range batch {
		switch ev := e.Event.(type) {
		case *workerpb.Event_KeyedEvent:
			o.events = append(o.events, map[string]any{"op": "ev", "ts": ev.KeyedEvent.Timestamp.AsTime().UnixNano() / o.unit})
		case *workerpb.Event_Watermark:
			t := ev.Watermark.Timestamp.AsTime()
			if t.Equal(zeroWM) {
				o.events = append(o.events, map[string]any{"op": "wm", "v": -1001}) // Stamp(ZeroT) of Watermark.tla
			} else {
				// model unit = 1ns: the value is exact
				o.events = append(o.events, map[string]any{"op": "wm", "v": t.UnixNano()})
			}
		}
	}
	return nil
}

func recordSourceRunner(rng *rand.Rand, maxTs, maxEv int) ([]map[string]any, error) {
	n := 1 + rng.Intn(maxEv)
	rd := &srReader{done: make(chan struct{})}
	for left := n; left > 0; {
		var chunk [][]byte
		for c := 1 + rng.Intn(2); c > 0 && left > 0; c-- {
			raw := []byte{byte(1 + rng.Intn(maxTs))}
			left--
			if left > 0 && rng.Intn(4) == 0 { // one raw record yielding two keyed events
				raw = append(raw, byte(1+rng.Intn(maxTs)))
				left--
			}
			chunk = append(chunk, raw)
		}
		rd.chunks = append(rd.chunks, chunk)
		rd.pauses = append(rd.pauses, time.Duration(rng.Intn(160))*time.Millisecond)
	}
	rec := &srRecorder{unit: 1}
	hd := &srHandler{unit: 1}
	for i := 0; i < 8; i++ {
		if rng.Intn(2) == 0 {
			hd.delays = append(hd.delays, time.Duration(rng.Intn(250))*time.Millisecond)
		} else {
			hd.delays = append(hd.delays, 0)
		}
	}
	bp := batching.EventBatcherParams{MaxSize: 1}
	if rng.Intn(2) == 0 {
		bp = batching.EventBatcherParams{MaxSize: 2, MaxDelay: 3 * time.Millisecond}
	}
	// in half of the runs one of the first calls into the operator takes longer than one or two tick periods
	var held time.Duration
	if rng.Intn(2) == 0 {
		rec.holds = make([]time.Duration, 1+rng.Intn(4))
		held = time.Duration(250+rng.Intn(400)) * time.Millisecond
		rec.holds[len(rec.holds)-1] = held
	}
	sr := sourcerunner.New(sourcerunner.NewParams{
		Host: "h", UserHandler: hd, Job: proto.NoopJob{}, Clock: clocks.NewFrozenClock(), EventBatching: bp,
		OperatorFactory:     func(senderID string, node *jobpb.NodeIdentity) proto.Operator { return rec },
		SourceReaderFactory: func(*jobconfigpb.Source) connectors.SourceReader { return rd },
	})
	sr.Logger = quiet
	startErr := make(chan error, 1)
	go func() { startErr <- sr.Start(context.Background()) }()
	if err := sr.HandleDeploy(context.Background(), &workerpb.DeploySourceRunnerRequest{
		Operators: []*jobpb.NodeIdentity{{Id: "op", Host: "h"}}, KeyGroupCount: 4, Sources: []*jobconfigpb.Source{{Id: "src"}},
	}); err != nil {
		return nil, err
	}
	if err := sr.HandleAssignSplits([]*workerpb.SourceSplit{{SplitId: "s", SourceId: "src"}}); err != nil {
		return nil, err
	}
	select {
	case <-rd.done:
	case <-time.After(10 * time.Second):
		return nil, fmt.Errorf("source reader was not drained")
	}
	time.Sleep(700*time.Millisecond + held) // the slowest keying call and the slow operator call, then at least two more ticks
	sr.Halt()
	select {
	case <-startErr:
	case <-time.After(5 * time.Second):
		return nil, fmt.Errorf("source runner did not stop")
	}
	rec.mu.Lock()
	defer rec.mu.Unlock()
	nev := 0
	for _, e := range rec.events {
		if e["op"] == "ev" {
			nev++
		}
	}
	if nev != n {
		return nil, fmt.Errorf("recorded %d keyed events, fed %d", nev, n)
	}
	return rec.events, nil
}

func runSourceRunners(in *mbt.Input, res *mbt.Result) {
	runs := in.CfgInt("Runs", 20)
	maxTs, maxEv := in.CfgInt("MaxTs", 4), in.CfgInt("MaxEv", 5)
	out := make([][]map[string]any, runs)
	errs := make([]error, runs)
	sem := make(chan struct{}, 8)
	var wg sync.WaitGroup
	for i := 0; i < runs; i++ {
		wg.Add(1)
		go func(i int) {
			defer wg.Done()
			sem <- struct{}{}
			defer func() { <-sem }()
			out[i], errs[i] = recordSourceRunner(rand.New(rand.NewSource(in.Seed*7919+int64(i))), maxTs, maxEv)
		}(i)
	}
	wg.Wait()
	first := true
	for i := range out {
		if errs[i] != nil {
			res.Errors = append(res.Errors, fmt.Sprintf("run %d: %v", i, errs[i]))
			continue
		}
		if !first {
			res.Samples = append(res.Samples, map[string]any{"op": "Reset"})
		}
		first = false
		for _, e := range out[i] {
			res.Samples = append(res.Samples, e)
		}
		res.Count("streams", 1)
		res.Steps += len(out[i])
	}
}
