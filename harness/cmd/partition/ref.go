package main

// Independent reference for the hash clause of C05.
//
// refMurmur3 is MurmurHash3_x86_32 written from Austin Appleby's published
// description (MurmurHash3.cpp, public domain): 4-byte little-endian blocks
// mixed with c1/rotl 15/c2, h rotl 13, h*5+0xe6546b64; a 1..3 byte tail
// xor-ed in little-endian order and mixed without the h rotation; length xor;
// fmix32 avalanche.  It deliberately shares nothing with
// reduction.dev/reduction/util/murmur (64-bit arithmetic masked to 32 bits,
// no math/bits) and is pinned by published vectors before every use.

import (
	"encoding/hex"
	"fmt"
	"math/rand"
)

const m32 = 0xffffffff

func rotl(x uint64, r uint) uint64 { x &= m32; return ((x << r) | (x >> (32 - r))) & m32 }

func refMurmur3(key []byte, seed uint32) uint32 {
	const c1, c2 = uint64(0xcc9e2d51), uint64(0x1b873593)
	h := uint64(seed)
	n := len(key)
	nblocks := n / 4
	for b := 0; b < nblocks; b++ {
		p := b * 4
		k := uint64(key[p]) + uint64(key[p+1])*0x100 + uint64(key[p+2])*0x10000 + uint64(key[p+3])*0x1000000
		k = (k * c1) & m32
		k = rotl(k, 15)
		k = (k * c2) & m32
		h ^= k
		h = rotl(h, 13)
		h = (h*5 + 0xe6546b64) & m32
	}
	tail := key[nblocks*4:]
	var k uint64
	if len(tail) >= 3 {
		k ^= uint64(tail[2]) * 0x10000
	}
	if len(tail) >= 2 {
		k ^= uint64(tail[1]) * 0x100
	}
	if len(tail) >= 1 {
		k ^= uint64(tail[0])
		k = (k * c1) & m32
		k = rotl(k, 15)
		k = (k * c2) & m32
		h ^= k
	}
	h ^= uint64(n) & m32
	// fmix32
	h ^= h >> 16
	h = (h * 0x85ebca6b) & m32
	h ^= h >> 13
	h = (h * 0xc2b2ae35) & m32
	h ^= h >> 16
	return uint32(h)
}

// Published MurmurHash3_x86_32 vectors (seed 0 unless stated) and the four
// vectors of the repository's own util/murmur test.
var pinned = []struct {
	key  string
	seed uint32
	want uint32
}{
	{"", 0, 0},
	{"", 1, 0x514e28b7},
	{"", 0xffffffff, 0x81f16f39},
	{"\x00\x00\x00\x00", 0, 0x2362f9de},
	{"a", 0, 0x3c2569b2},
	{"aaaa", 0x9747b28c, 0x5a97808a},
	{"abc", 0, 0xb3dd93fa},
	{"hello", 0, 0x248bfa47},
	{"hello, world", 0, 0x149bbb7f},
	{"Hello, world!", 0x9747b28c, 0x24884cba},
	{"The quick brown fox jumps over the lazy dog", 0, 0x2e4ff723},
	{"The quick brown fox jumps over the lazy dog", 0x9747b28c, 0x2fa826cd},
	// repo: util/murmur/murmur_test.go
	{"abcdefg", 0, 2285673222},
	{"123456", 0, 3210799800},
	{"a1", 0, 882153338},
}

func checkReference() error {
	for _, p := range pinned {
		if got := refMurmur3([]byte(p.key), p.seed); got != p.want {
			return fmt.Errorf("reference MurmurHash3 is wrong on pinned vector %q seed %#x: got %#x want %#x", p.key, p.seed, got, p.want)
		}
	}
	return nil
}

// ---------------------------------------------------------------- corpus ---

var alphabet = []byte{0x00, 0x01, 'a', 'b', 0x80, 0xff}
var boundaryLens = []int{3, 4, 5, 7, 8, 9, 15, 16, 17}

// shortKeys: all byte strings of length <= maxLen over the alphabet.
func shortKeys(maxLen int) [][]byte {
	out := [][]byte{{}}
	prev := [][]byte{{}}
	for l := 1; l <= maxLen; l++ {
		var cur [][]byte
		for _, p := range prev {
			for _, a := range alphabet {
				k := append(append([]byte{}, p...), a)
				cur = append(cur, k)
			}
		}
		out = append(out, cur...)
		prev = cur
	}
	return out
}

func randBytes(rng *rand.Rand, n int) []byte {
	b := make([]byte, n)
	for i := range b {
		switch rng.Intn(8) {
		case 0:
			b[i] = 0xff
		case 1:
			b[i] = 0x00
		case 2:
			b[i] = 0x80 + byte(rng.Intn(128)) // high bit set: a sign-extended tail/body byte shows
		default:
			b[i] = byte(rng.Intn(256))
		}
	}
	return b
}

// boundaryKeys: for every tail/body boundary length some fixed and some seeded keys.
func boundaryKeys(rng *rand.Rand, perLen int) [][]byte {
	var out [][]byte
	for _, l := range boundaryLens {
		ff := make([]byte, l)
		asc := make([]byte, l)
		for i := range ff {
			ff[i] = 0xff
			asc[i] = byte('a' + i%26)
		}
		hi := make([]byte, l) // only the last byte has the high bit set
		hi[l-1] = 0x80
		out = append(out, ff, asc, hi)
		for i := 0; i < perLen; i++ {
			out = append(out, randBytes(rng, l))
		}
	}
	return out
}

func vectorKeys() [][]byte {
	var out [][]byte
	for _, s := range []string{"hello", "hello, world", "The quick brown fox jumps over the lazy dog", "abcdefg", "123456", "a1", "my-key", "static", "subject-key"} {
		out = append(out, []byte(s))
	}
	return out
}

func dedup(keys [][]byte) [][]byte {
	seen := map[string]bool{}
	var out [][]byte
	for _, k := range keys {
		if !seen[string(k)] {
			seen[string(k)] = true
			out = append(out, k)
		}
	}
	return out
}

// keyRow is one line of the concretisation + reference table handed to TLC.
type keyRow struct {
	ID  int    `json:"id"` // 1-based position = key id in trace events
	Hex string `json:"hex"`
	Hi  int    `json:"hi"` // reference hash, upper 16 bits
	Lo  int    `json:"lo"` // reference hash, lower 16 bits
}

func tableOf(keys [][]byte) []keyRow {
	rows := make([]keyRow, len(keys))
	for i, k := range keys {
		h := refMurmur3(k, 0)
		rows[i] = keyRow{ID: i + 1, Hex: hex.EncodeToString(k), Hi: int(h >> 16), Lo: int(h & 0xffff)}
	}
	return rows
}
