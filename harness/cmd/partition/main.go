// partition binds spec/Partition.tla (C05, and the AssignRanges part of C06) to
// the real code of reduction-dev/reduction.  Modes (config "mode"):
//
//	ranges  every (count, n) of the TLC grid: the real partitioning.NewKeySpace
//	        ranges are compared with the ranges TLC printed (model drift if they
//	        differ but still satisfy the property) and checked with predicates
//	        transcribed from the spec (first validated on TLC's own ranges); the
//	        lookup table is probed through RangeIndex for every key group.  Then
//	        the sweep: every count 1..65535 with a set of n (relative to count,
//	        fixed boundaries, seeded random, n > count).
//	assign  the real partitioning.AssignRanges on the cases TLC enumerated (every
//	        permutation of `from`) and on a larger harness-enumerated sweep.
//	hash    the independent reference MurmurHash3 (ref.go) against the real
//	        murmur.Hash and KeySpace.KeyGroup on the adversarial key corpus.
//	sites   records (key, group, operator) events at the real call sites
//	        (sites.go) for validation by spec/PartitionTrace.tla.
//
// A VIOLATION is only ever an observation of the real code that C05 forbids;
// a mismatch with a model-only detail (closed form, which ranges get the extra
// group) is drift.
package main

import (
	"fmt"
	"math/rand"
	"os"
	"runtime"
	"runtime/debug"
	"slices"
	"sort"
	"strings"
	"sync"

	"encoding/json"

	"reduction.dev/reduction/partitioning"
	"reduction.dev/reduction/util/murmur"
	"verif/harness/mbt"
)

type result struct {
	mbt.Result
	Keys   []keyRow `json:"keys,omitempty"`
	Events []any    `json:"events,omitempty"`
}

var (
	res   = &result{}
	resMu sync.Mutex
)

const maxViolations = 40

func violate(cfg map[string]any, what string, expected, observed any) {
	resMu.Lock()
	defer resMu.Unlock()
	if len(res.Violations) >= maxViolations {
		res.Count("violations_not_listed", 1)
		return
	}
	res.Violations = append(res.Violations, mbt.Violation{Property: "C05", What: what,
		Expected: map[string]any{"replay_config": cfg, "expected": expected}, Observed: observed})
}

func machinery(format string, a ...any) {
	resMu.Lock()
	defer resMu.Unlock()
	if len(res.Errors) < 20 {
		res.Errors = append(res.Errors, fmt.Sprintf(format, a...))
	}
}

func drift(format string, a ...any) {
	resMu.Lock()
	defer resMu.Unlock()
	res.Driftf(format, a...)
}

func count(k string, n int) {
	resMu.Lock()
	res.Count(k, n)
	resMu.Unlock()
}

func main() {
	in, err := mbt.ReadInput(os.Args[1])
	if err != nil {
		fmt.Fprintln(os.Stderr, err)
		os.Exit(2)
	}
	if err := checkReference(); err != nil {
		fmt.Fprintln(os.Stderr, err) // the trusted reference is broken: no verdict
		os.Exit(2)
	}
	func() {
		// a panic raised inside the code under test (first frame below the runtime in reduction.dev/reduction) is an
		// observation of the real code for the configuration being probed; one raised by the harness is a machinery error
		defer func() {
			p := recover()
			if p == nil {
				return
			}
			first := ""
			for _, ln := range strings.Split(string(debug.Stack()), "\n") {
				if strings.HasPrefix(ln, "\t") || strings.HasPrefix(ln, "goroutine ") || strings.HasPrefix(ln, "runtime") || strings.HasPrefix(ln, "panic(") ||
					strings.HasPrefix(ln, "main.main.func") || strings.Contains(ln, "debug.Stack") || ln == "" {
					continue
				}
				first = ln
				break
			}
			if !strings.HasPrefix(first, "reduction.dev/reduction/") {
				panic(p)
			}
			violate(map[string]any{"mode": in.CfgStr("mode", "")}, fmt.Sprintf("the code under test panicked in %s: %v (last configuration probed: %s)", first, p, lastProbe), nil, fmt.Sprint(p))
		}()
		dispatch(in)
	}()
	sort.SliceStable(res.Violations, func(i, j int) bool { // smallest witness first
		a, b := res.Violations[i].What, res.Violations[j].What
		if len(a) != len(b) {
			return len(a) < len(b)
		}
		return a < b
	})
	if res.Violations == nil {
		res.Violations = []mbt.Violation{}
	}
	b, _ := json.Marshal(res)
	if err := os.WriteFile(os.Args[2], b, 0o644); err != nil {
		fmt.Fprintln(os.Stderr, err)
		os.Exit(2)
	}
}

var lastProbe string // set by the modes before they call into the code under test

func dispatch(in *mbt.Input) {
	switch mode := in.CfgStr("mode", ""); mode {
	case "ranges":
		modeRanges(in)
	case "assign":
		modeAssign(in)
	case "hash":
		modeHash(in)
	case "sites":
		modeSites(in)
	default:
		fmt.Fprintln(os.Stderr, "unknown mode "+mode)
		os.Exit(2)
	}
}

// ------------------------------------------------- predicates (Partition.tla)

type iv = partitioning.KeyGroupRange // [Start, End)

func toIv(rs []partitioning.KeyGroupRange) []iv { return rs }

func ivs(p [][2]int) []iv {
	out := make([]iv, len(p))
	for i, x := range p {
		out[i] = iv{Start: x[0], End: x[1]}
	}
	return out
}

func includes(r iv, g int) bool { return r.Start <= g && g < r.End }                 // Includes
func sharesGroup(a, b iv) bool  { return max(a.Start, b.Start) < min(a.End, b.End) } // SharesGroup
func startCF(c, n, i int) int   { return i*(c/n) + min(i, c%n) }                     // StartCF
func wellFormed(R []iv) bool { // WellFormed
	for _, r := range R {
		if r.Start < 0 || r.Start > r.End {
			return false
		}
	}
	return true
}
func contiguous(R []iv) bool { // Contiguous
	for i := 0; i+1 < len(R); i++ {
		if R[i+1].Start != R[i].End {
			return false
		}
	}
	return true
}
func coverLinear(R []iv, c int) bool { // CoverLinear
	return len(R) > 0 && wellFormed(R) && contiguous(R) && R[0].Start == 0 && R[len(R)-1].End == c
}
func balanced(R []iv) bool { // Balanced
	lo, hi := 1<<62, -1
	for _, r := range R {
		lo, hi = min(lo, r.End-r.Start), max(hi, r.End-r.Start)
	}
	return hi-lo <= 1
}
func closedForm(R []iv, c int) bool { // ClosedForm
	if len(R) == 0 {
		return false
	}
	q, rem := c/len(R), c%len(R)
	for i, r := range R {
		if r.Start != i*q+min(i, rem) || r.End != (i+1)*q+min(i+1, rem) {
			return false
		}
	}
	return true
}

// singleOwner: SingleOwner /\ Cover (every key group of 0..count-1 in exactly one range, no range outside 0..count)
func singleOwner(R []iv, c int, buf []uint8) bool {
	buf = buf[:c]
	for i := range buf {
		buf[i] = 0
	}
	for _, r := range R {
		if r.Start < 0 || r.End > c || r.Start > r.End {
			return false
		}
		for g := r.Start; g < r.End; g++ {
			if buf[g] != 0 {
				return false
			}
			buf[g] = 1
		}
	}
	for _, b := range buf {
		if b != 1 {
			return false
		}
	}
	return true
}

// demanded: what C05 states about a list of ranges; returns the names of the failing clauses.
// fast: use the telescoping lemma (checked by TLC on the grid in both forms) when the ranges are in order.
func demanded(R []iv, c, n int, buf []uint8, fast bool) []string {
	var bad []string
	if len(R) != n {
		bad = append(bad, fmt.Sprintf("Count(%d ranges for %d operators)", len(R), n))
	}
	if !wellFormed(R) {
		bad = append(bad, "WellFormed")
	}
	if !(fast && coverLinear(R, c)) && !singleOwner(R, c, buf) {
		bad = append(bad, "Cover/Disjoint")
	}
	if !balanced(R) {
		bad = append(bad, "Balanced")
	}
	return bad
}

// ------------------------------------------------------------------ pool ---

// pool keys with reference hashes; used to reach key groups through the public API (RangeIndex takes a key)
type poolKey struct {
	key []byte
	h   uint32
}

func makePool(n int) []poolKey {
	out := make([]poolKey, n)
	for i := range out {
		k := []byte(fmt.Sprintf("p%07d", i))
		out[i] = poolKey{k, refMurmur3(k, 0)}
	}
	return out
}

func safeKeySpace(c, n int) (ks *partitioning.KeySpace, R []iv, panicked any) {
	defer func() {
		if r := recover(); r != nil {
			panicked = r
		}
	}()
	ks = partitioning.NewKeySpace(c, n)
	R = toIv(ks.KeyGroupRanges())
	return
}

// probe the lookup table through the real API: RangeIndex(key) must be the operator whose range includes
// the key's reference group, and KeyGroup(key) must be that group.
func probe(cfg map[string]any, ks *partitioning.KeySpace, R []iv, c, n int, keys []poolKey) (ok bool) {
	ok = true
	defer func() {
		if r := recover(); r != nil {
			violate(cfg, fmt.Sprintf("NewKeySpace(%d,%d): KeyGroup/RangeIndex panicked: %v", c, n, r), nil, fmt.Sprint(r))
			ok = false
		}
	}()
	for _, pk := range keys {
		g := int(pk.h % uint32(c))
		if got := int(ks.KeyGroup(pk.key)); got != g {
			violate(cfg, fmt.Sprintf("NewKeySpace(%d,%d).KeyGroup(%q) = %d, MurmurHash3-32(seed 0) %% count = %d", c, n, pk.key, got, g), g, got)
			return false
		}
		idx := ks.RangeIndex(pk.key)
		if idx < 0 || idx >= len(R) || !includes(R[idx], g) {
			violate(cfg, fmt.Sprintf("NewKeySpace(%d,%d).RangeIndex(%q) = %d but the key's group %d is not in that operator's range (ranges %v)", c, n, pk.key, idx, g, clip(R)),
				map[string]any{"group": g}, map[string]any{"rangeIndex": idx, "ranges": clip(R)})
			return false
		}
	}
	return true
}

func clip(R []iv) [][2]int {
	if len(R) > 12 {
		return pairs(append(append([]iv{}, R[:6]...), R[len(R)-6:]...))
	}
	return pairs(R)
}

// ---------------------------------------------------------------- ranges ---

type gridEntry struct {
	c, n int
	R    []iv
}

func parseGrid(v any) []gridEntry {
	var out []gridEntry
	arr, _ := v.([]any)
	for _, e := range arr {
		t, _ := e.([]any)
		if len(t) != 3 {
			continue
		}
		g := gridEntry{c: int(t[0].(float64)), n: int(t[1].(float64))}
		for _, p := range t[2].([]any) {
			pp := p.([]any)
			g.R = append(g.R, iv{Start: int(pp[0].(float64)), End: int(pp[1].(float64))})
		}
		out = append(out, g)
	}
	return out
}

func pairsOf(v any) [][2]int {
	var out [][2]int
	arr, _ := v.([]any)
	for _, e := range arr {
		t, _ := e.([]any)
		if len(t) >= 2 {
			out = append(out, [2]int{int(t[0].(float64)), int(t[1].(float64))})
		}
	}
	return out
}

func checkOne(c, n int, tlc []iv, buf []uint8, keys []poolKey, fast bool) {
	cfg := map[string]any{"mode": "ranges", "pairs": [][2]int{{c, n}}}
	ks, R, p := safeKeySpace(c, n)
	if p != nil {
		violate(cfg, fmt.Sprintf("NewKeySpace(%d,%d) panicked: %v", c, n, p), nil, fmt.Sprint(p))
		return
	}
	if bad := demanded(R, c, n, buf, fast); len(bad) > 0 {
		violate(cfg, fmt.Sprintf("key-group ranges of NewKeySpace(%d,%d) violate %v: %v", c, n, bad, clip(R)), clip(tlc), clip(R))
		return
	}
	// model-only details
	if tlc != nil && !slices.Equal(tlc, R) {
		drift("NewKeySpace(%d,%d) ranges %v differ from Partition.tla's %v (property still holds)", c, n, clip(R), clip(tlc))
	} else if !closedForm(R, c) || !contiguous(R) {
		drift("NewKeySpace(%d,%d) ranges %v are not the closed form i*q+min(i,r) (property still holds)", c, n, clip(R))
	}
	// "identical in every process": the first lookups on a fresh key space come from several goroutines at once in the
	// source runner (fetch goroutines); every one of them must get the owner, also while another is still warming up
	// whatever the key space builds on first use. Every 64th configuration and all large ones.
	if concurrentEvery++; concurrentEvery%64 == 0 || c >= 4096 {
		if ks2, R2, p2 := safeKeySpace(c, n); p2 == nil {
			if !probeConcurrently(cfg, ks2, R2, c, n, keys) {
				return
			}
			count("configs_probed_concurrently_on_first_use", 1)
		}
	}
	probe(cfg, ks, R, c, n, keys)
	count("configs_checked", 1)
}

var concurrentEvery int

func probeConcurrently(cfg map[string]any, ks *partitioning.KeySpace, R []iv, c, n int, keys []poolKey) bool {
	const G = 8
	var wg sync.WaitGroup
	var mu sync.Mutex
	bad := ""
	start := make(chan struct{})
	for g := 0; g < G; g++ {
		wg.Add(1)
		go func(g int) {
			defer wg.Done()
			defer func() {
				if r := recover(); r != nil {
					mu.Lock()
					bad = fmt.Sprintf("NewKeySpace(%d,%d): RangeIndex panicked when first used from %d goroutines at once: %v", c, n, G, r)
					mu.Unlock()
				}
			}()
			<-start
			for i := g; i < len(keys); i += G {
				pk := keys[i]
				kg := int(pk.h % uint32(c))
				if idx := ks.RangeIndex(pk.key); idx < 0 || idx >= len(R) || !includes(R[idx], kg) {
					mu.Lock()
					if bad == "" {
						bad = fmt.Sprintf("NewKeySpace(%d,%d).RangeIndex(%q) = %d when the fresh key space is first used from %d goroutines at once, but the key's group %d is not in that operator's range (ranges %v)",
							c, n, pk.key, idx, G, kg, clip(R))
					}
					mu.Unlock()
					return
				}
			}
		}(g)
	}
	close(start)
	wg.Wait()
	if bad != "" {
		violate(cfg, bad, nil, nil)
		return false
	}
	return true
}

func modeRanges(in *mbt.Input) {
	grid := parseGrid(in.Config["grid"])
	pool := makePool(in.CfgInt("pool", 4096))
	buf := make([]uint8, 65536)

	// 1. the transcribed predicates agree with TLC: they hold on every range list TLC established them for,
	//    and fail on perturbed ones
	for _, g := range grid {
		if bad := demanded(g.R, g.c, g.n, buf, false); len(bad) > 0 || !closedForm(g.R, g.c) || !coverLinear(g.R, g.c) {
			machinery("harness predicates %v fail on TLC's ranges for (%d,%d): %v", bad, g.c, g.n, clip(g.R))
		}
		if demanded(g.R, g.c, g.n, buf, true) != nil {
			machinery("fast-path predicates fail on TLC's ranges for (%d,%d)", g.c, g.n)
		}
		if g.n >= 2 {
			p := append([]iv{}, g.R...)
			p[0].End++ // overlap with the next range (or a range beyond count)
			if demanded(p, g.c, g.n, buf, false) == nil || demanded(p, g.c, g.n, buf, true) == nil {
				machinery("harness predicates accept overlapping ranges %v", clip(p))
			}
			q := append([]iv{}, g.R...)
			if q[0].End > q[0].Start {
				q[0].End-- // gap
				if demanded(q, g.c, g.n, buf, false) == nil || demanded(q, g.c, g.n, buf, true) == nil {
					machinery("harness predicates accept a gap %v", clip(q))
				}
			}
			if g.c >= 2*g.n {
				u := append([]iv{}, g.R...) // move two groups from the last range to the one before it
				u[g.n-2].End += 2
				u[g.n-1].Start += 2
				if g.c%g.n == 0 && demanded(u, g.c, g.n, buf, false) == nil {
					machinery("harness predicates accept unbalanced ranges %v", clip(u))
				}
			}
		}
		count("grid_predicate_crosschecks", 1)
	}

	// 2. the real code on the grid, against TLC's ranges; every key group probed through RangeIndex
	for _, g := range grid {
		var keys []poolKey
		if g.c <= 4096 {
			seen := map[int]bool{}
			for _, pk := range pool {
				if gg := int(pk.h % uint32(g.c)); !seen[gg] {
					seen[gg] = true
					keys = append(keys, pk)
				}
				if len(seen) == g.c {
					break
				}
			}
			if len(seen) != g.c {
				machinery("pool does not reach every key group of count %d", g.c)
			}
		} else {
			keys = pool
		}
		checkOne(g.c, g.n, g.R, buf, keys, false)
		count("grid_configs", 1)
	}

	// 3. explicit pairs (replay) and deep pairs: whole pool through the lookup table
	for _, p := range pairsOf(in.Config["pairs"]) {
		checkOne(p[0], p[1], nil, buf, pool, false)
	}
	if deep := pairsOf(in.Config["deep"]); len(deep) > 0 {
		big := makePool(in.CfgInt("deepPool", 300000))
		for _, p := range deep {
			checkOne(p[0], p[1], nil, buf, big, false)
			count("deep_configs", 1)
		}
	}

	// 4. the sweep over every count
	from, to := in.CfgInt("sweepFrom", 1), in.CfgInt("sweepTo", 0)
	if to >= from {
		sweep(in, from, to, pool[:in.CfgInt("sweepKeys", 24)])
	}
	res.Executed = res.Counters["grid_configs"] // compared with the ranges TLC printed
	res.Steps = res.Counters["configs_checked"]
}

// ns: the operator counts tried for a key-group count c.  Every count gets n = 1, count, count+1, one small
// fixed boundary value and one "heavy" relative value in rotation (all of them when all is set, for small counts
// and near 65535), plus seeded random ones (a quarter of them > count: zero-width ranges).
var smallFixed = []int{2, 3, 7, 64, 255, 256, 257, 1000, 4096}

func nsFor(c int, seed int64, extra int, all bool) []int {
	set := map[int]bool{}
	add := func(n int) {
		if n >= 1 && n <= 70000 {
			set[n] = true
		}
	}
	for _, n := range []int{1, c, c + 1} {
		add(n)
	}
	heavy := []int{c - 1, 2*c + 1, c / 2, c/2 + 1, 65535, 65536}
	if all || c <= 512 || c >= 65500 {
		for _, n := range append(heavy, smallFixed...) {
			add(n)
		}
	} else {
		add(smallFixed[c%len(smallFixed)])
		add(heavy[c%len(heavy)])
	}
	rng := rand.New(rand.NewSource(seed*1000003 + int64(c)))
	for i := 0; i < extra; i++ {
		if rng.Intn(4) == 0 {
			add(c + 1 + rng.Intn(c+8)) // n > count: zero-width ranges
		} else {
			add(1 + rng.Intn(c))
		}
	}
	out := make([]int, 0, len(set))
	for n := range set {
		out = append(out, n)
	}
	sort.Ints(out)
	return out
}

func sweep(in *mbt.Input, from, to int, keys []poolKey) {
	all := in.CfgBool("sweepAllNs", false)
	extra := in.CfgInt("sweepRandomNs", 1)
	// the sweep allocates a fresh range list and lookup table per configuration: collect rarely
	debug.SetGCPercent(-1)
	debug.SetMemoryLimit(3 << 30)
	defer debug.SetGCPercent(100)
	workers := min(runtime.GOMAXPROCS(0), 12)
	var wg sync.WaitGroup
	next := make(chan int, 256)
	for w := 0; w < workers; w++ {
		wg.Add(1)
		go func() {
			defer wg.Done()
			buf := make([]uint8, 65536)
			for c := range next {
				for _, n := range nsFor(c, in.Seed, extra, all) {
					checkOne(c, n, nil, buf, keys, true)
					count("sweep_configs", 1)
				}
				// the telescoping fast path against the declarative form on the real ranges, sampled
				if c%97 == 0 {
					_, R, _ := safeKeySpace(c, c/3+1)
					if R != nil && (demanded(R, c, c/3+1, buf, true) == nil) != (demanded(R, c, c/3+1, buf, false) == nil) {
						machinery("fast and declarative predicates disagree on (%d,%d)", c, c/3+1)
					}
				}
			}
		}()
	}
	for c := from; c <= to; c++ {
		next <- c
	}
	close(next)
	wg.Wait()
	count("sweep_counts", to-from+1)
}

// ---------------------------------------------------------------- assign ---

type assignCase struct {
	Count int      `json:"count"`
	From  [][2]int `json:"from"`
	To    [][2]int `json:"to"`
	Must  [][]int  `json:"must"`
	May   [][]int  `json:"may"`
}

func pairs(R []iv) [][2]int {
	out := make([][2]int, len(R))
	for i, r := range R {
		out[i] = [2]int{r.Start, r.End}
	}
	return out
}

func demandedAssign(to, from []iv) (must, may [][]int) { // AssignDemanded
	must, may = make([][]int, len(to)), make([][]int, len(to))
	for t := range to {
		must[t], may[t] = []int{}, []int{}
		for j := range from {
			if sharesGroup(to[t], from[j]) {
				must[t] = append(must[t], j)
			}
			if sharesGroup(to[t], from[j]) || from[j].End-from[j].Start == 0 {
				may[t] = append(may[t], j)
			}
		}
	}
	return
}

func toKGR(R []iv) []partitioning.KeyGroupRange { return append([]partitioning.KeyGroupRange{}, R...) }

func checkAssign(c int, to, from []iv, must, may [][]int) {
	cfg := map[string]any{"mode": "assign", "cases": []assignCase{{Count: c, From: pairs(from), To: pairs(to), Must: must, May: may}}}
	var got [][]int
	var p any
	func() {
		defer func() { p = recover() }()
		got = partitioning.AssignRanges(toKGR(to), toKGR(from))
	}()
	what := ""
	switch {
	case p != nil:
		what = fmt.Sprintf("panicked: %v", p)
	case len(got) != len(to):
		what = fmt.Sprintf("returned %d assignment lists for %d new ranges", len(got), len(to))
	default:
		for t := range to {
			has := map[int]bool{}
			for _, j := range got[t] {
				has[j] = true
			}
			for _, j := range must[t] {
				if !has[j] {
					what = fmt.Sprintf("new range %d %v is not assigned old range #%d %v although they share key groups", t, pairs(to)[t], j, pairs(from)[j])
				}
			}
			allowed := map[int]bool{}
			for _, j := range may[t] {
				allowed[j] = true
			}
			for _, j := range got[t] {
				if !allowed[j] {
					what = fmt.Sprintf("new range %d %v is assigned old range #%d which shares no key group with it", t, pairs(to)[t], j)
				}
			}
		}
	}
	count("assign_cases", 1)
	if what != "" {
		resMu.Lock()
		res.Violations = append(res.Violations, mbt.Violation{Property: "C05",
			What:     fmt.Sprintf("AssignRanges(to=%v, from=%v) = %v: %s", pairs(to), pairs(from), got, what),
			Expected: map[string]any{"replay_config": cfg, "expected": must}, Observed: got})
		resMu.Unlock()
	}
}

func rangesCF(c, n int) []iv { // the spec's Ranges(count, n) (closed form, equal to it by TLC's ClosedForm)
	R := make([]iv, n)
	for i := range R {
		R[i] = iv{Start: startCF(c, n, i), End: startCF(c, n, i+1)}
	}
	return R
}

func permutations(n int, f func([]int)) {
	p := make([]int, n)
	for i := range p {
		p[i] = i
	}
	var rec func(int)
	rec = func(k int) {
		if k == n {
			f(p)
			return
		}
		for i := k; i < n; i++ {
			p[k], p[i] = p[i], p[k]
			rec(k + 1)
			p[k], p[i] = p[i], p[k]
		}
	}
	rec(0)
}

func modeAssign(in *mbt.Input) {
	// 1. the cases TLC enumerated, with TLC's demanded sets (and the harness transcription cross-checked on them)
	var cases []assignCase
	b, _ := json.Marshal(in.Config["cases"])
	if err := json.Unmarshal(b, &cases); err != nil {
		machinery("cannot parse cases: %v", err)
	}
	for _, cs := range cases {
		must, may := demandedAssign(ivs(cs.To), ivs(cs.From))
		if fmt.Sprint(must) != fmt.Sprint(norm(cs.Must)) || fmt.Sprint(may) != fmt.Sprint(norm(cs.May)) {
			machinery("harness AssignDemanded differs from TLC's on to=%v from=%v: %v/%v vs %v/%v", cs.To, cs.From, must, may, cs.Must, cs.May)
		}
		checkAssign(cs.Count, ivs(cs.To), ivs(cs.From), norm(cs.Must), norm(cs.May))
	}
	// 2. larger sweep enumerated here: old ranges Ranges(count, m) in every (or seeded random) ack order
	rng := rand.New(rand.NewSource(in.Seed))
	maxOps, full := in.CfgInt("sweepMaxOps", 0), in.CfgInt("sweepAllPermsUpTo", 5)
	var counts []int
	if v, ok := in.Config["sweepCounts"].([]any); ok {
		for _, x := range v {
			counts = append(counts, int(x.(float64)))
		}
	}
	for _, c := range counts {
		for m := 1; m <= maxOps; m++ {
			old := rangesCF(c, m)
			for n := 1; n <= maxOps; n++ {
				to := rangesCF(c, n)
				try := func(p []int) {
					from := make([]iv, m)
					for j := range from {
						from[j] = old[p[j]]
					}
					must, may := demandedAssign(to, from)
					checkAssign(c, to, from, must, may)
				}
				if m <= full {
					permutations(m, try)
				} else {
					for k := 0; k < in.CfgInt("sweepRandomPerms", 20); k++ {
						try(rng.Perm(m))
					}
				}
			}
		}
	}
	res.Executed = len(cases) // enumerated by TLC
	res.Steps = res.Counters["assign_cases"]
}

func norm(a [][]int) [][]int {
	out := make([][]int, len(a))
	for i := range a {
		out[i] = append([]int{}, a[i]...)
	}
	return out
}

// ------------------------------------------------------------------ hash ---

func short(k []byte) string {
	if len(k) > 40 {
		return fmt.Sprintf("%x..(%d bytes)", k[:40], len(k))
	}
	return fmt.Sprintf("%x", k)
}

func modeHash(in *mbt.Input) {
	rng := rand.New(rand.NewSource(in.Seed))
	keys := shortKeys(in.CfgInt("shortLen", 3))
	keys = append(keys, boundaryKeys(rng, in.CfgInt("perLen", 200))...)
	keys = append(keys, vectorKeys()...)
	for i := 0; i < in.CfgInt("random", 20000); i++ {
		keys = append(keys, randBytes(rng, rng.Intn(65)))
	}
	for l := 0; l <= 64; l++ { // every length once more, all bytes high
		k := make([]byte, l)
		for i := range k {
			k[i] = byte(0x80 + (i*37+l)%128)
		}
		keys = append(keys, k)
	}
	for _, l := range []int{255, 256, 257, 1023, 1024, 4099, 65535, 65536, 70001} { // lengths beyond one byte / 16 bits
		keys = append(keys, randBytes(rng, l))
	}
	counts := []int{1, 2, 3, 7, 255, 256, 257, 1000, 32768, 65521, 65534, 65535}
	spaces := make([]*partitioning.KeySpace, len(counts))
	for i, c := range counts {
		spaces[i] = partitioning.NewKeySpace(c, 1+i%3)
	}
	cfgOf := func(k []byte) map[string]any {
		return map[string]any{"mode": "hash", "keys": []string{fmt.Sprintf("%x", k)}}
	}
	if v, ok := in.Config["keys"].([]any); ok { // replay: explicit keys only
		keys = nil
		for _, x := range v {
			var k []byte
			fmt.Sscanf(x.(string), "%x", &k)
			keys = append(keys, k)
		}
	}
	bad := 0
	for _, k := range keys {
		want := refMurmur3(k, 0)
		func() {
			defer func() {
				if r := recover(); r != nil {
					violate(cfgOf(k), fmt.Sprintf("murmur.Hash/KeyGroup panicked on key %x: %v", k, r), nil, fmt.Sprint(r))
					bad++
				}
			}()
			if got := murmur.Hash(k, 0); got != want {
				bad++
				violate(cfgOf(k), fmt.Sprintf("murmur.Hash(%s, 0) = %#08x, MurmurHash3_x86_32 reference = %#08x (len %d)", short(k), got, want, len(k)), want, got)
				return
			}
			for i, c := range counts {
				if got := uint32(spaces[i].KeyGroup(k)); got != want%uint32(c) {
					bad++
					violate(cfgOf(k), fmt.Sprintf("KeySpace(count=%d).KeyGroup(%s) = %d, MurmurHash3-32(seed 0) %% count = %d", c, short(k), got, want%uint32(c)), want%uint32(c), got)
					return
				}
			}
		}()
		res.Steps++
		if bad >= maxViolations {
			break
		}
	}
	count("hash_keys", res.Steps)
}
