package main

// Trace recording at the three real call sites of C05.
//
// direct  (count, n): the real partitioning.KeySpace (KeyGroup, RangeIndex, KeyGroupRanges) and the real
//         operator.KeyedStateStore / operator.TimerStore over a real dkv.DB: the keys they persist are read
//         back from the DB and their two-byte prefix is logged.
// cluster (count, n, n2): one real sourcerunner.SourceRunner routing keys to n real operator.Operators
//         (each deployed through HandleDeploy, which builds the KeySpace, the OperatorPartition and the
//         stores) over harness-owned proto.Job / proto.Operator / proto.Handler / SourceReader adapters:
//           Route  which operator's handler received each key,
//           Range  the KeyGroupRange each operator reports in its OperatorCheckpoint,
//           Store  the key prefixes found in each operator's DKV checkpoint (state and timer entries),
//           Owns   n2 new operators are deployed on a checkpoint holding every sampled key; dkv.Start replays
//                  its WAL through OperatorPartition.OwnsKey, so an entry survives in new operator j iff
//                  OwnsKey said yes.
// No hooks: everything is observed through the repo's own interfaces and files.

import (
	"context"
	"encoding/binary"
	"encoding/hex"
	"fmt"
	"io"
	"log/slog"
	"math/rand"
	"os"
	"path/filepath"
	"sort"
	"sync"
	"sync/atomic"
	"time"

	"google.golang.org/protobuf/types/known/timestamppb"
	"reduction.dev/reduction-protocol/handlerpb"
	"reduction.dev/reduction-protocol/jobconfigpb"
	"reduction.dev/reduction/connectors"
	"reduction.dev/reduction/dkv"
	"reduction.dev/reduction/dkv/recovery"
	"reduction.dev/reduction/dkv/storage"
	"reduction.dev/reduction/partitioning"
	"reduction.dev/reduction/proto"
	"reduction.dev/reduction/proto/jobpb"
	"reduction.dev/reduction/proto/snapshotpb"
	"reduction.dev/reduction/proto/workerpb"
	"reduction.dev/reduction/util/size"
	"reduction.dev/reduction/workers/operator"
	"reduction.dev/reduction/workers/sourcerunner"
	"verif/harness/mbt"
)

const siteWait = 30 * time.Second

type event = map[string]any

var opOrder = map[string]int{"Config": 0, "Range": 1, "KeyGroup": 2, "Route": 3, "Store": 4, "Prefix": 5, "Owns": 6}

func sortEvents(evs []event) {
	num := func(e event, k string) int {
		switch v := e[k].(type) {
		case int:
			return v
		}
		return -1
	}
	sort.SliceStable(evs, func(i, j int) bool {
		a, b := evs[i], evs[j]
		if x, y := opOrder[a["op"].(string)], opOrder[b["op"].(string)]; x != y {
			return x < y
		}
		for _, k := range []string{"operator", "to", "key"} {
			if x, y := num(a, k), num(b, k); x != y {
				return x < y
			}
		}
		return fmt.Sprint(a["kind"]) < fmt.Sprint(b["kind"])
	})
}

func triples(v any) [][]int {
	var out [][]int
	arr, _ := v.([]any)
	for _, e := range arr {
		var t []int
		for _, x := range e.([]any) {
			t = append(t, int(x.(float64)))
		}
		out = append(out, t)
	}
	return out
}

type siteRun struct {
	keys [][]byte
	idOf map[string]int // key bytes -> 1-based id
}

// sample: key ids for one configuration (deterministic in seed and configuration)
func (s *siteRun) sample(seed int64, cfg []int, k int) []int {
	h := seed
	for _, x := range cfg {
		h = h*1000003 + int64(x)
	}
	rng := rand.New(rand.NewSource(h))
	set := map[int]bool{1: true} // the empty key
	for len(set) < k && len(set) < len(s.keys) {
		set[1+rng.Intn(len(s.keys))] = true
	}
	ids := make([]int, 0, len(set))
	for id := range set {
		ids = append(ids, id)
	}
	sort.Ints(ids)
	return ids
}

func modeSites(in *mbt.Input) {
	slog.SetDefault(slog.New(slog.NewTextHandler(io.Discard, nil)))
	rng := rand.New(rand.NewSource(in.Seed))
	keys := shortKeys(2)
	keys = append(keys, boundaryKeys(rng, 1)...)
	keys = append(keys, vectorKeys()...)
	for i := 0; i < in.CfgInt("randomKeys", 100); i++ {
		keys = append(keys, randBytes(rng, rng.Intn(65)))
	}
	keys = dedup(keys)
	s := &siteRun{keys: keys, idOf: map[string]int{}}
	for i, k := range keys {
		s.idOf[string(k)] = i + 1
	}
	res.Keys = tableOf(keys)

	for _, d := range triples(in.Config["direct"]) {
		evs := s.recordDirect(d[0], d[1], s.sample(in.Seed, d, in.CfgInt("directKeys", 40)))
		for _, e := range evs {
			res.Events = append(res.Events, e)
		}
		res.Executed++
		res.Steps += len(evs)
	}
	for _, c := range triples(in.Config["cluster"]) {
		evs, err := s.recordCluster(c[0], c[1], c[2], s.sample(in.Seed, c, in.CfgInt("clusterKeys", 24)))
		if err != nil {
			machinery("cluster %v: %v", c, err)
			continue
		}
		for _, e := range evs {
			res.Events = append(res.Events, e)
		}
		res.Executed++
		res.Steps += len(evs)
	}
}

// decodeStored: prefix, kind and subject key of a persisted DKV key (layouts of encodeDBKey / encodeTimerKey)
func decodeStored(b []byte) (prefix int, kind string, subject []byte, err error) {
	if len(b) < 3 {
		return 0, "", nil, fmt.Errorf("persisted key too short: %x", b)
	}
	prefix = int(binary.BigEndian.Uint16(b[0:2]))
	switch b[2] {
	case 0x00:
		if len(b) < 7 {
			return 0, "", nil, fmt.Errorf("state key too short: %x", b)
		}
		l := int(binary.BigEndian.Uint32(b[3:7]))
		if 7+l > len(b) {
			return 0, "", nil, fmt.Errorf("state key length field exceeds key: %x", b)
		}
		return prefix, "state", b[7 : 7+l], nil
	case 0x01:
		if len(b) < 11 {
			return 0, "", nil, fmt.Errorf("timer key too short: %x", b)
		}
		return prefix, "timer", b[11:], nil
	}
	return 0, "", nil, fmt.Errorf("unknown schema byte in persisted key %x", b)
}

func putMutation() []*handlerpb.StateMutationNamespace {
	return []*handlerpb.StateMutationNamespace{{Namespace: "ns", Mutations: []*handlerpb.StateMutation{{
		Mutation: &handlerpb.StateMutation_Put{Put: &handlerpb.PutMutation{Key: []byte("e"), Value: []byte("v")}}}}}}
}

var timerTime = time.Unix(4_000_000_000, 0) // far beyond every watermark of the run

// ---------------------------------------------------------------- direct ---

func (s *siteRun) recordDirect(c, n int, ids []int) (evs []event) {
	cfg := map[string]any{"mode": "sites", "direct": [][]int{{c, n}}}
	evs = []event{{"op": "Config", "count": c, "n": n, "level": "direct"}}
	defer func() {
		if r := recover(); r != nil {
			violate(cfg, fmt.Sprintf("direct calls for (count=%d, n=%d) panicked: %v", c, n, r), nil, fmt.Sprint(r))
		}
		sortEvents(evs)
	}()
	ks := partitioning.NewKeySpace(c, n)
	for i, r := range ks.KeyGroupRanges() {
		evs = append(evs, event{"op": "Range", "operator": i, "start": r.Start, "end": r.End})
	}
	db := dkv.Open(dkv.DBOptions{FileSystem: storage.NewMemoryFilesystem()}, nil)
	store := operator.NewKeyedStateStore(db, ks)
	timers := operator.NewTimerStore(db, ks, partitioning.KeyGroupRange{Start: 0, End: c}, size.GB)
	for _, id := range ids {
		k := s.keys[id-1]
		evs = append(evs, event{"op": "KeyGroup", "key": id, "group": int(ks.KeyGroup(k))})
		evs = append(evs, event{"op": "Route", "key": id, "to": ks.RangeIndex(k), "via": "RangeIndex"})
		if err := store.ApplyMutations(k, putMutation()); err != nil {
			machinery("ApplyMutations: %v", err)
		}
		timers.Put(k, timerTime)
	}
	var err error
	n0 := len(evs)
	for e := range db.ScanPrefix(nil, &err) {
		prefix, kind, subject, derr := decodeStored(e.Key())
		if derr != nil {
			machinery("direct (%d,%d): %v", c, n, derr)
			continue
		}
		id, ok := s.idOf[string(subject)]
		if !ok {
			machinery("direct (%d,%d): persisted subject key %x is not a key of the run", c, n, subject)
			continue
		}
		evs = append(evs, event{"op": "Prefix", "key": id, "prefix": prefix, "kind": kind})
	}
	if err != nil {
		machinery("scan: %v", err)
	}
	if len(evs)-n0 != 2*len(ids) {
		machinery("direct (%d,%d): %d persisted entries for %d keys (expected a state and a timer entry each)", c, n, len(evs)-n0, len(ids))
	}
	return evs
}

// --------------------------------------------------------------- cluster ---

type jobAdapter struct {
	proto.UnimplementedJob
	mu    sync.Mutex
	acks  map[string]*snapshotpb.OperatorCheckpoint // operator id -> latest ack
	ackCh chan struct{}
}

func (j *jobAdapter) RegisterOperator(context.Context, *jobpb.NodeIdentity) error       { return nil }
func (j *jobAdapter) DeregisterOperator(context.Context, *jobpb.NodeIdentity) error     { return nil }
func (j *jobAdapter) RegisterSourceRunner(context.Context, *jobpb.NodeIdentity) error   { return nil }
func (j *jobAdapter) DeregisterSourceRunner(context.Context, *jobpb.NodeIdentity) error { return nil }
func (j *jobAdapter) OnSourceRunnerCheckpointComplete(context.Context, *jobpb.SourceRunnerCheckpointCompleteRequest) error {
	return nil
}
func (j *jobAdapter) NotifySplitsFinished(context.Context, string, []string) error { return nil }
func (j *jobAdapter) OperatorCheckpointComplete(_ context.Context, req *snapshotpb.OperatorCheckpoint) error {
	j.mu.Lock()
	j.acks[req.OperatorId] = req
	j.mu.Unlock()
	j.ackCh <- struct{}{}
	return nil
}

// opClient: what the source runner (or a neighbour) holds for an operator -- forwards to the real Operator
type opClient struct {
	proto.UnimplementedOperator
	op       *operator.Operator
	senderID string
	id       string
}

func (c *opClient) ID() string   { return c.id }
func (c *opClient) Host() string { return c.id }
func (c *opClient) HandleEventBatch(ctx context.Context, batch []*workerpb.Event) error {
	for _, e := range batch {
		if err := c.op.HandleEvent(ctx, c.senderID, e); err != nil {
			return err
		}
	}
	return nil
}
func (c *opClient) NeedsTable(context.Context, string) (bool, error) { return true, nil }

// handler: proto.Handler of operator idx (records receipts) and of the source runner (keys events)
type handler struct {
	idx    int
	mu     *sync.Mutex
	got    *[]event
	idOf   map[string]int
	recv   chan struct{}
	timers *atomic.Bool // also register a timer for every key (second pass, see recordCluster)
	// fan-out: a source record keyed into TWO events with different keys (possibly owned by different operators):
	// record -> the partner key emitted in addition to the record's own key
	partner map[string][]byte
}

func (h *handler) KeyEventBatch(_ context.Context, events [][]byte) ([][]*handlerpb.KeyedEvent, error) {
	out := make([][]*handlerpb.KeyedEvent, len(events))
	for i, raw := range events {
		out[i] = []*handlerpb.KeyedEvent{{Key: append([]byte{}, raw...), Timestamp: timestamppb.New(time.Unix(1, 0))}}
		if p, ok := h.partner[string(raw)]; ok {
			out[i] = append(out[i], &handlerpb.KeyedEvent{Key: append([]byte{}, p...), Timestamp: timestamppb.New(time.Unix(1, 0))})
		}
	}
	return out, nil
}

func (h *handler) ProcessEventBatch(_ context.Context, req *handlerpb.ProcessEventBatchRequest) (*handlerpb.ProcessEventBatchResponse, error) {
	resp := &handlerpb.ProcessEventBatchResponse{}
	for _, e := range req.Events {
		ke := e.GetKeyedEvent()
		if ke == nil {
			continue
		}
		h.mu.Lock()
		*h.got = append(*h.got, event{"op": "Route", "key": h.idOf[string(ke.Key)], "to": h.idx, "via": "routeEvent"})
		h.mu.Unlock()
		kr := &handlerpb.KeyResult{Key: ke.Key, StateMutationNamespaces: putMutation()}
		if h.timers.Load() {
			kr.NewTimers = []*timestamppb.Timestamp{timestamppb.New(timerTime)}
		}
		resp.KeyResults = append(resp.KeyResults, kr)
		h.recv <- struct{}{}
	}
	return resp, nil
}

type reader struct {
	connectors.UnimplementedSourceReader
	mu   sync.Mutex
	keys [][]byte
}

func (r *reader) AssignSplits([]*workerpb.SourceSplit) error { return nil }
func (r *reader) Checkpoint() [][]byte                       { return nil }
func (r *reader) push(keys [][]byte) {
	r.mu.Lock()
	r.keys = append(r.keys, keys...)
	r.mu.Unlock()
}
func (r *reader) ReadEvents() ([][]byte, error) {
	r.mu.Lock()
	n := min(7, len(r.keys))
	out := r.keys[:n]
	r.keys = r.keys[n:]
	r.mu.Unlock()
	if n == 0 {
		time.Sleep(time.Millisecond) // nothing to read right now (must not block: the runner's loop also handles barriers)
	}
	return out, nil
}

func waitN(ch chan struct{}, n int, what string) error {
	deadline := time.After(siteWait)
	for i := 0; i < n; i++ {
		select {
		case <-ch:
		case <-deadline:
			return fmt.Errorf("timed out waiting for %s (%d of %d)", what, i, n)
		}
	}
	return nil
}

// scanCheckpoint reads every entry of an operator's DKV checkpoint (no ownership filter).
func scanCheckpoint(dir string, ack *snapshotpb.OperatorCheckpoint) (keys [][]byte, err error) {
	defer func() {
		if r := recover(); r != nil {
			err = fmt.Errorf("reading checkpoint %s: %v", ack.DkvFileUri, r)
		}
	}()
	db := dkv.Open(dkv.DBOptions{FileSystem: storage.NewLocalFilesystem(filepath.Join(dir, "reader-"+ack.OperatorId))},
		[]recovery.CheckpointHandle{{CheckpointID: ack.CheckpointId, URI: ack.DkvFileUri}})
	var serr error
	for e := range db.ScanPrefix(nil, &serr) {
		keys = append(keys, append([]byte{}, e.Key()...))
	}
	return keys, serr
}

func (s *siteRun) recordCluster(c, n, n2 int, ids []int) ([]event, error) {
	dir, err := os.MkdirTemp("", "verif-partition-")
	if err != nil {
		return nil, err
	}
	defer os.RemoveAll(dir)
	ctx, cancel := context.WithCancel(context.Background())
	defer cancel()

	job := &jobAdapter{acks: map[string]*snapshotpb.OperatorCheckpoint{}, ackCh: make(chan struct{}, 1024)}
	var mu sync.Mutex
	var got []event
	recv := make(chan struct{}, 4096)
	timers := &atomic.Bool{}

	byID := map[string]*operator.Operator{}
	deployOps := func(prefix string, n int, srIDs []string, ckpts []*snapshotpb.OperatorCheckpoint) ([]*operator.Operator, []*jobpb.NodeIdentity, error) {
		ops := make([]*operator.Operator, n)
		idents := make([]*jobpb.NodeIdentity, n)
		for i := range ops {
			id := fmt.Sprintf("%s%03d", prefix, i)
			ops[i] = operator.NewOperator(operator.NewOperatorParams{ID: id, Host: id, Job: job,
				UserHandler: &handler{idx: i, mu: &mu, got: &got, idOf: s.idOf, recv: recv, timers: timers},
				NeighborOperatorFactory: func(senderID string, node *jobpb.NodeIdentity) proto.Operator {
					return &opClient{op: byID[node.Id], senderID: senderID, id: node.Id}
				}})
			byID[id] = ops[i]
			idents[i] = &jobpb.NodeIdentity{Id: id, Host: id}
			go ops[i].Start(ctx)
		}
		for i := range ops {
			if err := ops[i].HandleDeploy(ctx, &workerpb.DeployOperatorRequest{Operators: idents, SourceRunnerIds: srIDs,
				KeyGroupCount: int32(c), StorageLocation: dir, Checkpoints: ckpts}, nil); err != nil {
				return nil, nil, fmt.Errorf("deploy %s: %w", idents[i].Id, err)
			}
		}
		return ops, idents, nil
	}

	// ---- phase 1: source runner -> router -> n operators.
	// Pass A: a state entry per key, checkpoint 1.  Pass B (only when every key of pass A reached an operator whose
	// reported range holds the key's persisted group: a real operator panics in its timer store on a foreign key,
	// which would kill the recorder before the misrouting is on record): the same keys again, now also registering
	// a timer, checkpoint 2.  The verdict on the recorded events is TLC's either way.
	rd := &reader{}
	var sample [][]byte
	for _, id := range ids {
		sample = append(sample, s.keys[id-1])
	}
	// every second configuration: records fan out into two keyed events (own key + the next sampled key), so that
	// routing is exercised per keyed event, not per source record
	records := sample
	partner := map[string][]byte{}
	if (c+n)%2 == 1 && len(sample) >= 2 {
		records = nil
		for i := 0; i+1 < len(sample); i += 2 {
			records = append(records, sample[i])
			partner[string(sample[i])] = sample[i+1]
		}
		if len(sample)%2 == 1 {
			records = append(records, sample[len(sample)-1])
		}
	}
	sr := sourcerunner.New(sourcerunner.NewParams{Host: "sr", Job: job,
		UserHandler: &handler{idx: -1, mu: &mu, got: &got, idOf: s.idOf, recv: recv, timers: timers, partner: partner},
		OperatorFactory: func(senderID string, node *jobpb.NodeIdentity) proto.Operator {
			return &opClient{op: byID[node.Id], senderID: senderID, id: node.Id}
		},
		SourceReaderFactory: func(*jobconfigpb.Source) connectors.SourceReader { return rd }})
	go sr.Start(ctx)
	ops, idents, err := deployOps("op", n, []string{sr.ID}, nil)
	if err != nil {
		return nil, err
	}
	if err := sr.HandleDeploy(ctx, &workerpb.DeploySourceRunnerRequest{Operators: idents, KeyGroupCount: int32(c),
		Sources: []*jobconfigpb.Source{{}}}); err != nil {
		return nil, fmt.Errorf("deploy source runner: %w", err)
	}
	if err := sr.HandleAssignSplits([]*workerpb.SourceSplit{{SplitId: "s0", SourceId: "src"}}); err != nil {
		return nil, err
	}
	type stored struct {
		op, id, prefix int
		kind           string
	}
	var ranges []event
	pass := func(ckpt uint64) ([]stored, error) {
		rd.push(records)
		if err := waitN(recv, len(ids), "keyed events to reach an operator's handler"); err != nil {
			return nil, err
		}
		sr.HandleStartCheckpoint(ctx, ckpt)
		if err := waitN(job.ackCh, n, "operator checkpoint acks"); err != nil {
			return nil, err
		}
		var out []stored
		ranges = nil
		for i := range ops {
			job.mu.Lock()
			ack := job.acks[idents[i].Id]
			job.mu.Unlock()
			if ack == nil || ack.CheckpointId != ckpt {
				return nil, fmt.Errorf("no ack for checkpoint %d from %s", ckpt, idents[i].Id)
			}
			ranges = append(ranges, event{"op": "Range", "operator": i, "start": int(ack.KeyGroupRange.GetStart()), "end": int(ack.KeyGroupRange.GetEnd())})
			keys, err := scanCheckpoint(dir, ack)
			if err != nil {
				return nil, err
			}
			for _, b := range keys {
				prefix, kind, subject, derr := decodeStored(b)
				if derr != nil {
					return nil, derr
				}
				id, ok := s.idOf[string(subject)]
				if !ok {
					return nil, fmt.Errorf("persisted subject key %x is not a key of the run", subject)
				}
				out = append(out, stored{i, id, prefix, kind})
			}
		}
		return out, nil
	}
	st, err := pass(1)
	if err != nil {
		return nil, err
	}
	mu.Lock()
	routes := append([]event{}, got...)
	mu.Unlock()
	consistent := true
	prefixOf := map[int]int{}
	for _, x := range st {
		prefixOf[x.id] = x.prefix
	}
	for _, r := range routes {
		g, ok := prefixOf[r["key"].(int)]
		rg := ranges[r["to"].(int)]
		if !ok || g < rg["start"].(int) || g >= rg["end"].(int) {
			consistent = false
		}
	}
	if consistent {
		timers.Store(true)
		mu.Lock()
		got = nil
		mu.Unlock()
		if st, err = pass(2); err != nil {
			return nil, err
		}
		mu.Lock()
		for _, r := range got { // routing of the second pass, when it differs
			dup := false
			for _, q := range routes {
				dup = dup || (q["key"] == r["key"] && q["to"] == r["to"])
			}
			if !dup {
				routes = append(routes, r)
			}
		}
		mu.Unlock()
	}
	evs := []event{{"op": "Config", "count": c, "n": n, "level": "cluster", "cfg": []int{c, n, n2}}}
	evs = append(evs, ranges...)
	evs = append(evs, routes...)
	for _, x := range st {
		evs = append(evs, event{"op": "Store", "operator": x.op, "key": x.id, "prefix": x.prefix, "kind": x.kind})
	}
	sortEvents(evs)
	sr.Stop()
	for _, o := range ops {
		o.Stop()
	}
	timers.Store(true)
	var ckpts []*snapshotpb.OperatorCheckpoint

	// ---- phase 2: OwnsKey.  One operator alone ("all") receives every sampled key and takes checkpoint 1; n2 new
	// operators are deployed on that single checkpoint: dkv.Start replays its WAL through OperatorPartition.OwnsKey,
	// so an entry is in new operator j's next checkpoint iff OwnsKey(entry) was true for j.  (One source checkpoint:
	// a DB restored from several checkpoints cannot take a checkpoint -- "should not serialize a checkpoint with
	// multiple WALs" -- which is outside C05.)
	all, allIdent, err := deployOps("all", 1, []string{"probe"}, nil)
	if err != nil {
		return nil, err
	}
	for _, id := range ids {
		if err := all[0].HandleEvent(ctx, "probe", &workerpb.Event{Event: &workerpb.Event_KeyedEvent{
			KeyedEvent: &handlerpb.KeyedEvent{Key: s.keys[id-1], Timestamp: timestamppb.New(time.Unix(1, 0))}}}); err != nil {
			return nil, fmt.Errorf("probe event: %w", err)
		}
	}
	if err := all[0].HandleEvent(ctx, "probe", &workerpb.Event{Event: &workerpb.Event_CheckpointBarrier{
		CheckpointBarrier: &workerpb.CheckpointBarrier{CheckpointId: 1}}}); err != nil {
		return nil, fmt.Errorf("barrier: %w", err)
	}
	if err := waitN(job.ackCh, 1, "checkpoint ack of the single operator"); err != nil {
		return nil, err
	}
	mu.Lock()
	got = nil
	mu.Unlock()
	ckpts = []*snapshotpb.OperatorCheckpoint{job.acks[allIdent[0].Id]}
	all[0].Stop()
	ops2, idents2, err := deployOps("np", n2, []string{"probe"}, ckpts)
	if err != nil {
		return nil, err
	}
	for _, o := range ops2 {
		if err := o.HandleEvent(ctx, "probe", &workerpb.Event{Event: &workerpb.Event_CheckpointBarrier{
			CheckpointBarrier: &workerpb.CheckpointBarrier{CheckpointId: 2}}}); err != nil {
			return nil, fmt.Errorf("barrier: %w", err)
		}
	}
	if err := waitN(job.ackCh, n2, "checkpoint acks of the restored operators"); err != nil {
		return nil, err
	}
	evs2 := []event{{"op": "Config", "count": c, "n": n2, "level": "cluster-restore", "cfg": []int{c, n, n2}}}
	for j := range ops2 {
		ack := job.acks[idents2[j].Id]
		evs2 = append(evs2, event{"op": "Range", "operator": j, "start": int(ack.KeyGroupRange.GetStart()), "end": int(ack.KeyGroupRange.GetEnd())})
		stored, err := scanCheckpoint(dir, ack)
		if err != nil {
			return nil, err
		}
		present := map[string]bool{}
		for _, b := range stored {
			_, kind, subject, derr := decodeStored(b)
			if derr != nil {
				return nil, derr
			}
			present[kind+hex.EncodeToString(subject)] = true
		}
		for _, id := range ids {
			for _, kind := range []string{"state", "timer"} {
				evs2 = append(evs2, event{"op": "Owns", "operator": j, "key": id, "kind": kind,
					"res": present[kind+hex.EncodeToString(s.keys[id-1])]})
			}
		}
	}
	sortEvents(evs2)
	for _, o := range ops2 {
		o.Stop()
	}
	return append(evs, evs2...), nil
}

var _ = mbt.Step{}
