package main

// Arm (a): the REAL jobs.Job (+ its real snapshots.Store) on a frozen clock,
// surrounded by FAKE nodes that only record the RPCs they receive. Behaviours
// of spec/Membership.tla are replayed step by step; every Deploy /
// StartCheckpoint target set is judged against the property; afterwards a
// model-free epilogue requires that the job gets back to Running and publishes
// a new checkpoint (the progress clause of C15).

import (
	"context"
	"fmt"
	"log/slog"
	"os"
	"path/filepath"
	"sort"
	"strings"
	"sync"
	"sync/atomic"
	"time"

	"reduction.dev/reduction-protocol/jobconfigpb"
	"reduction.dev/reduction/config"
	"reduction.dev/reduction/connectors"
	"reduction.dev/reduction/jobs"
	"reduction.dev/reduction/proto"
	"reduction.dev/reduction/proto/jobpb"
	"reduction.dev/reduction/proto/snapshotpb"
	"reduction.dev/reduction/proto/workerpb"
	"verif/harness/mbt"
)

type fnode struct {
	kind string // "op" | "sr"
	i    int
	id   string
	dead atomic.Bool
}

func nodeID(kind string, i int) string {
	if kind == "op" {
		return fmt.Sprintf("o%02d", i)
	}
	return fmt.Sprintf("s%02d", i)
}

type fenv struct {
	W     int
	Wchk  int // the WorkerCount deployments are judged against (differs from W only in the binding self-test)
	ev    *events
	clock *hclock
	job   *jobs.Job
	store *hstore
	dir   string
	lh    *logHandler
	free  bool
	mu    sync.Mutex
	nodes map[string]*fnode
	used  map[int]bool // consumed event indices

	// mirror of the job's registry / liveness (ages: 2 fresh, 1, 0 expired)
	reg   map[string]bool
	age   map[string]int
	snaps []map[string]bool // registry after every evaluate since the last start attempt ended

	// what the real job did
	running    bool
	asmOps     []string // members of the last assembly that was deployed
	asmSrs     []string
	startGate  *ev                 // parked "starting" log record of a start() in flight
	deploys    map[string]*ev      // parked Deploy calls of the attempt in flight
	ckOps      map[uint64][]string // real checkpoint id -> members at creation
	ckSrs      map[uint64][]string
	opAcks     map[uint64]map[string]*snapshotpb.OperatorCheckpoint
	lastCk     uint64 // newest checkpoint created by a tick
	lastCkRun  int    // run (number of "running" transitions) it was created in
	runs       int
	published  map[uint64]bool
	newestPub  uint64
	writing    map[uint64]*ev
	idMap      map[int]uint64 // model checkpoint id -> real id
	panicNote  string

	// restart arm (restart.go): park start() inside the harness-owned NewSourceSplitter / SourceSplitter.Start
	parkSplitter bool
}

// ------------------------------------------------------------ fake nodes ----

type fop struct {
	e  *fenv
	id string
}

func (o *fop) ID() string   { return o.id }
func (o *fop) Host() string { return "fake" }
func (o *fop) HandleEventBatch(context.Context, []*workerpb.Event) error { return nil }
func (o *fop) NeedsTable(context.Context, string) (bool, error)          { return false, nil }
func (o *fop) Deploy(ctx context.Context, req *workerpb.DeployOperatorRequest) error {
	return o.e.deployCall(o.id, req)
}
func (o *fop) UpdateRetainedCheckpoints(ctx context.Context, ids []uint64) error {
	o.e.ev.add(ev{Kind: "retain", Node: o.id, Arg: ids})
	if o.e.isDead(o.id) {
		return fmt.Errorf("fake: %s is dead", o.id)
	}
	return nil
}

type fsr struct {
	e  *fenv
	id string
}

func (s *fsr) ID() string   { return s.id }
func (s *fsr) Host() string { return "fake" }
func (s *fsr) Deploy(ctx context.Context, req *workerpb.DeploySourceRunnerRequest) error {
	return s.e.deployCall(s.id, req)
}
func (s *fsr) AssignSplits(ctx context.Context, splits []*workerpb.SourceSplit) error {
	s.e.ev.add(ev{Kind: "assign", Node: s.id})
	if s.e.isDead(s.id) {
		return fmt.Errorf("fake: %s is dead", s.id)
	}
	return nil
}
func (s *fsr) StartCheckpoint(ctx context.Context, id uint64) error {
	s.e.ev.add(ev{Kind: "startckpt", Node: s.id, Id: id})
	if s.e.isDead(s.id) {
		return fmt.Errorf("fake: %s is dead", s.id)
	}
	return nil
}

var _ proto.Operator = (*fop)(nil)
var _ proto.SourceRunner = (*fsr)(nil)

func (e *fenv) isDead(id string) bool {
	e.mu.Lock()
	n := e.nodes[id]
	e.mu.Unlock()
	return n != nil && n.dead.Load()
}

func (e *fenv) deployCall(id string, req any) error {
	e.mu.Lock()
	free := e.free
	e.mu.Unlock()
	if free {
		return fmt.Errorf("fake: environment closed")
	}
	x := ev{Kind: "deploy", Node: id, Arg: req, gate: make(chan error, 1)}
	e.ev.add(x)
	return <-x.gate
}

// parkable records an observation made on a goroutine of the code under test; in the restart arm that goroutine
// is parked until the replayer releases it (the splitter is harness-owned: no hook needed).
func (e *fenv) parkable(x ev) {
	e.mu.Lock()
	park := e.parkSplitter && !e.free
	e.mu.Unlock()
	if park {
		x.gate = make(chan error, 1)
	}
	e.ev.add(x)
	if park {
		<-x.gate
	}
}

// fake source: the splitter assigns one split to every runner
type fsource struct{ e *fenv }

func (s *fsource) Validate() error                  { return nil }
func (s *fsource) ProtoMessage() *jobconfigpb.Source { return &jobconfigpb.Source{} }
func (s *fsource) NewSourceReader(connectors.SourceReaderHooks) connectors.SourceReader {
	panic("not used")
}
func (s *fsource) NewSourceSplitter(ids []string, hooks connectors.SourceSplitterHooks, _ chan<- error) connectors.SourceSplitter {
	s.e.parkable(ev{Kind: "splitter.new", Arg: append([]string(nil), ids...)})
	return &fsplitter{e: s.e, ids: append([]string(nil), ids...), hooks: hooks}
}

type fsplitter struct {
	connectors.UnimplementedSourceSplitter
	e     *fenv
	ids   []string
	hooks connectors.SourceSplitterHooks
}

func (s *fsplitter) IsSourceSplitter() {}
func (s *fsplitter) Start(ck *snapshotpb.SourceCheckpoint) error {
	var id uint64
	if ck != nil {
		id = ck.CheckpointId
	}
	s.e.parkable(ev{Kind: "splitter.start", Id: id, Arg: ck})
	m := map[string][]*workerpb.SourceSplit{}
	for i, id := range s.ids {
		m[id] = []*workerpb.SourceSplit{{SplitId: fmt.Sprint(i), SourceId: "fake"}}
	}
	s.hooks.AssignSplits(m)
	return nil
}
func (s *fsplitter) Close() error                              { return nil }
func (s *fsplitter) NotifySplitsFinished(string, []string)     {}
func (s *fsplitter) Checkpoint() []byte                        { return []byte("fake-splitter") }

// ------------------------------------------------------------------- env ----

func newFenv(W int) (*fenv, error) {
	e := &fenv{W: W, Wchk: W, ev: newEvents(), nodes: map[string]*fnode{}, used: map[int]bool{}, reg: map[string]bool{}, age: map[string]int{},
		deploys: map[string]*ev{}, ckOps: map[uint64][]string{}, ckSrs: map[uint64][]string{}, opAcks: map[uint64]map[string]*snapshotpb.OperatorCheckpoint{},
		published: map[uint64]bool{}, writing: map[uint64]*ev{}, idMap: map[int]uint64{}}
	setCurrent(e.ev)
	e.dir = tempDir()
	e.clock = newClock(e.ev, "job")
	e.store = newHStore(filepath.Join(e.dir, "job"), e.ev, true)
	e.lh = &logHandler{ev: e.ev, who: "job", gates: map[string]bool{"starting": true}, free: &e.free, mu: &e.mu}
	cfg := &config.Config{WorkerCount: W, KeyGroupCount: 8, WorkingStorageLocation: filepath.Join(e.dir, "work"),
		Sources: []connectors.SourceConfig{&fsource{e: e}}}
	job, err := jobs.New(&jobs.NewParams{
		JobConfig: cfg, Clock: e.clock, Store: e.store, ErrChan: make(chan error, 64), Logger: slog.New(e.lh),
		OperatorFactory:     func(senderID string, node *jobpb.NodeIdentity) proto.Operator { return &fop{e: e, id: node.Id} },
		SourceRunnerFactory: func(node *jobpb.NodeIdentity) proto.SourceRunner { return &fsr{e: e, id: node.Id} },
	})
	if err != nil {
		return nil, err
	}
	e.job = job
	return e, nil
}

// close releases everything that is parked so that the goroutines of this job end or idle.
func (e *fenv) close() {
	e.mu.Lock()
	e.free = true
	e.mu.Unlock()
	e.store.freeRun()
	for _, x := range e.ev.since(0) {
		if x.gate != nil {
			select {
			case x.gate <- fmt.Errorf("fake: environment closed"):
			default:
			}
		}
	}
	setCurrent(nil)
	os.RemoveAll(e.dir)
}

func (e *fenv) node(kind string, i int) *fnode {
	id := nodeID(kind, i)
	e.mu.Lock()
	defer e.mu.Unlock()
	n := e.nodes[id]
	if n == nil {
		n = &fnode{kind: kind, i: i, id: id}
		e.nodes[id] = n
	}
	return n
}

// take consumes the first unconsumed event accepted by pred, waiting up to d for it.
func (e *fenv) take(d time.Duration, pred func(ev) bool) (ev, bool) {
	deadline := time.Now().Add(d)
	for {
		all := e.ev.since(0)
		for j, y := range all {
			if !e.used[j] && pred(y) {
				e.used[j] = true
				return y, true
			}
		}
		rest := time.Until(deadline)
		if rest <= 0 {
			return ev{}, false
		}
		e.ev.wait(len(all), rest, func(ev) bool { return true })
	}
}

// peek reports whether an unconsumed event accepted by pred exists right now.
func (e *fenv) peek(pred func(ev) bool) bool {
	for j, y := range e.ev.since(0) {
		if !e.used[j] && pred(y) {
			return true
		}
	}
	return false
}

func isLog(msg string) func(ev) bool {
	return func(x ev) bool { return x.Kind == "log" && x.Msg == msg }
}
func isKind(k string) func(ev) bool { return func(x ev) bool { return x.Kind == k } }

// isRunLog: the record the job logs in the task that sets it Running. (Not the creation of the checkpoint ticker:
// whether a running job HAS a live ticker is part of what is judged.)
func isRunLog(x ev) bool { return x.Kind == "log" && x.Node == "job" && x.Msg == "running" }

const noTicker = "checkpointing does not resume: the job is Running on a full assembly but has no live periodic checkpoint ticker " +
	"(on a clock whose Ticker.Stop is effective, like the production clock): no checkpoint will ever be started"

// -------------------------------------------------------------- mirror ----

func (e *fenv) purge() {
	for id, a := range e.age {
		if a == 0 {
			delete(e.age, id)
			delete(e.reg, id)
		}
	}
}

func (e *fenv) snapshot() {
	m := map[string]bool{}
	for k := range e.reg {
		m[k] = true
	}
	e.snaps = append(e.snaps, m)
	if len(e.snaps) > 64 {
		e.snaps = e.snaps[len(e.snaps)-64:]
	}
}

func (e *fenv) regList(kind string) []int {
	var out []int
	for id := range e.reg {
		n := e.nodes[id]
		if n != nil && n.kind == kind {
			out = append(out, n.i)
		}
	}
	sort.Ints(out)
	return out
}

// ------------------------------------------------------- job operations ----

// fence returns when every task queued so far has been fully processed.
func (e *fenv) fence() {
	if err := e.job.HandleNotifySplitsFinished("fence", nil); err == nil {
		// accepted by the task loop: everything queued before has finished; the fence task itself touches nothing
		return
	}
	// no splitter yet: the job has never passed the beginning of its first start(). An extra evaluation is
	// a no-op in Init and Starting (it can only purge what the next evaluation would purge first anyway).
	e.job.HandleDeregisterSourceRunner(&jobpb.NodeIdentity{Id: "~fence"})
	e.job.HandleDeregisterSourceRunner(&jobpb.NodeIdentity{Id: "~fence"})
}

func (e *fenv) register(n *fnode) {
	id := &jobpb.NodeIdentity{Id: n.id, Host: "fake"}
	if n.kind == "op" {
		e.job.HandleRegisterOperator(id)
	} else {
		e.job.HandleRegisterSourceRunner(id)
	}
	e.fence()
	e.age[n.id] = 2
	e.reg[n.id] = true
	e.purge()
	e.snapshot()
	e.noteStatus()
}

func (e *fenv) deregister(n *fnode) {
	id := &jobpb.NodeIdentity{Id: n.id, Host: "fake"}
	if n.kind == "op" {
		e.job.HandleDeregisterOperator(id)
	} else {
		e.job.HandleDeregisterSourceRunner(id)
	}
	e.fence()
	delete(e.reg, n.id)
	e.purge()
	e.snapshot()
	e.noteStatus()
}

func (e *fenv) advance() {
	e.clock.Advance(3 * time.Second) // heartbeat deadline 5 s: expired after two advances without a heartbeat
	for id, a := range e.age {
		if a > 0 {
			e.age[id] = a - 1
		}
	}
}

// noteStatus digests the job's own log records into the harness' view of its status.
func (e *fenv) noteStatus() {
	for j, y := range e.ev.since(0) {
		if e.used[j] {
			continue
		}
		switch {
		case y.Kind == "log" && (y.Msg == "assembly not healthy" || y.Msg == "failed to start job"):
			e.used[j] = true
			e.running = false
		case isRunLog(y):
			e.used[j] = true
			e.running = true
			e.runs++
		}
	}
}

// probeRunning asks the job itself (API level, independent of log texts): HandleCreateSavepoint refuses unless the
// job is Running. It has a side effect when it succeeds, so it is only used where the behaviour ends anyway.
func (e *fenv) probeRunning() bool {
	var err error
	done := make(chan struct{})
	go func() {
		defer close(done)
		err, _ = protect(func() error { _, er := e.job.HandleCreateSavepoint(context.Background()); return er })
	}()
	select {
	case <-done:
		return err == nil
	case <-time.After(waitLong):
		return false
	}
}

// attempt describes one start(): the Deploy calls it made.
type attempt struct {
	ops, srs []string
	opReqs   map[string]*workerpb.DeployOperatorRequest
}

// beginStart releases a parked start() and collects its Deploy calls. It returns
// nil, "" when no start() shows up within d.
func (e *fenv) beginStart(d time.Duration) (*attempt, string) {
	if e.startGate == nil {
		x, ok := e.take(d, func(x ev) bool { return x.Kind == "log" && x.Msg == "starting" && x.gate != nil })
		if !ok {
			return nil, ""
		}
		e.startGate = &x
	}
	e.startGate.gate <- nil
	e.startGate = nil
	if _, ok := e.take(waitLong, isKind("splitter.new")); !ok {
		return nil, "start() did not create a source splitter"
	}
	return e.collectDeploys(), ""
}

// collectDeploys waits for the Deploy calls of the start() in flight (they park at the fake nodes).
func (e *fenv) collectDeploys() *attempt {
	a := &attempt{opReqs: map[string]*workerpb.DeployOperatorRequest{}}
	e.deploys = map[string]*ev{}
	// the first Deploy tells how many to expect (the request names every member)
	want := -1
	for len(e.deploys) != want {
		// the Deploy calls of one start() are issued back to back: once the first has arrived the others are due
		d := waitLong
		if len(e.deploys) > 0 {
			d = 5 * time.Second
		}
		x, ok := e.take(d, func(x ev) bool { return x.Kind == "deploy" })
		if !ok {
			break
		}
		xx := x
		e.deploys[x.Node] = &xx
		switch r := x.Arg.(type) {
		case *workerpb.DeployOperatorRequest:
			a.opReqs[x.Node] = r
			a.ops = append(a.ops, x.Node)
			if want < 0 {
				want = len(r.Operators) + len(r.SourceRunnerIds)
			}
		case *workerpb.DeploySourceRunnerRequest:
			a.srs = append(a.srs, x.Node)
		}
		if want < 0 && len(e.deploys) >= 2*e.W {
			break
		}
	}
	sort.Strings(a.ops)
	sort.Strings(a.srs)
	e.asmOps, e.asmSrs = a.ops, a.srs
	return a
}

// checkAttempt judges a start attempt against the property. regs: registries (after purge) one of which
// must contain every target; newest: the checkpoint the deployment must come from (0 = none); altNewest:
// another acceptable one (a publication in flight).
func (e *fenv) checkAttempt(a *attempt, regs []map[string]bool, newest []uint64) string {
	if len(a.ops) != e.Wchk || len(a.srs) != e.Wchk {
		return fmt.Sprintf("Deploy went to %d operators %v and %d source runners %v; WorkerCount is %d", len(a.ops), a.ops, len(a.srs), a.srs, e.Wchk)
	}
	okReg := false
	for _, r := range regs {
		all := true
		for _, id := range append(append([]string(nil), a.ops...), a.srs...) {
			if !r[id] {
				all = false
			}
		}
		if all {
			okReg = true
		}
	}
	if !okReg {
		return fmt.Sprintf("Deploy went to %v %v which are not all registered, live nodes (registry: %v)", a.ops, a.srs, keys(regs[len(regs)-1]))
	}
	for id, r := range a.opReqs {
		var ops []string
		for _, o := range r.Operators {
			ops = append(ops, o.Id)
		}
		sort.Strings(ops)
		srs := append([]string(nil), r.SourceRunnerIds...)
		sort.Strings(srs)
		if strings.Join(ops, ",") != strings.Join(a.ops, ",") || strings.Join(srs, ",") != strings.Join(a.srs, ",") {
			return fmt.Sprintf("Deploy request of %s names operators %v / runners %v but Deploy was sent to %v / %v: not every member of the assembly is (re)deployed", id, ops, srs, a.ops, a.srs)
		}
	}
	// RedeployFromNewest: the operator checkpoints handed out are exactly those of the newest published job checkpoint
	got := map[uint64]int{}
	n := 0
	for _, r := range a.opReqs {
		for _, c := range r.Checkpoints {
			got[c.CheckpointId]++
			n++
		}
	}
	for _, want := range newest {
		if want == 0 && n == 0 {
			return ""
		}
		if want != 0 && got[want] == n && n == len(e.opAcks[want]) {
			return ""
		}
	}
	return fmt.Sprintf("operators were deployed from checkpoints %v but the latest completed job checkpoint is %v (with %d operator checkpoints)", got, newest, len(e.opAcks[newest[0]]))
}

func keys(m map[string]bool) []string {
	var out []string
	for k := range m {
		out = append(out, k)
	}
	sort.Strings(out)
	return out
}

// answer returns the parked Deploy of node id.
func (e *fenv) answer(id string, err error) bool {
	x := e.deploys[id]
	if x == nil {
		return false
	}
	delete(e.deploys, id)
	x.gate <- err
	return true
}

// outcome waits for the end of a start() all of whose Deploys have been answered: running / failed.
func (e *fenv) outcome() (string, bool) {
	x, ok := e.take(waitLong, func(x ev) bool {
		return isRunLog(x) || (x.Kind == "log" && x.Msg == "failed to start job")
	})
	if !ok {
		return "", false
	}
	e.fence()
	e.purge()
	e.snapshot()
	if isRunLog(x) {
		e.running = true
		e.runs++
		e.noteStatus() // the evaluation at the end of the running task may have paused it again
		return "running", true
	}
	e.running = false
	e.noteStatus()
	return "failed", true
}

// tick fires the checkpoint ticker; returns the StartCheckpoint calls it made.
func (e *fenv) tick() (id uint64, srs []string, had bool) {
	from := e.ev.len()
	had = e.clock.tick("checkpointing")
	for j, y := range e.ev.since(from) {
		if y.Kind == "startckpt" {
			e.used[from+j] = true
			id = y.Id
			srs = append(srs, y.Node)
		}
	}
	sort.Strings(srs)
	if id != 0 {
		e.lastCk, e.lastCkRun = id, e.runs
		e.ckOps[id], e.ckSrs[id] = e.asmOps, e.asmSrs
	}
	return
}

func (e *fenv) srAck(id string, ck uint64) (error, string) {
	return protect(func() error {
		return e.job.HandleSourceRunnerCheckpointComplete(context.Background(), &jobpb.SourceRunnerCheckpointCompleteRequest{
			CheckpointId: ck, SourceRunnerId: id, SplitStates: [][]byte{[]byte(fmt.Sprintf("%s@%d", id, ck))}})
	})
}

func (e *fenv) opAck(id string, ck uint64) (error, string) {
	oc := &snapshotpb.OperatorCheckpoint{CheckpointId: ck, OperatorId: id, DkvFileUri: fmt.Sprintf("fake://%s/%d", id, ck),
		KeyGroupRange: e.rangeOf(id, ck)}
	err, p := protect(func() error { return e.job.HandleOperatorCheckpointComplete(context.Background(), oc) })
	if err == nil {
		if e.opAcks[ck] == nil {
			e.opAcks[ck] = map[string]*snapshotpb.OperatorCheckpoint{}
		}
		e.opAcks[ck][id] = oc
	}
	return err, p
}

// rangeOf: the key group range of operator id in the assembly that took checkpoint ck (8 key groups split evenly)
func (e *fenv) rangeOf(id string, ck uint64) *snapshotpb.KeyGroupRange {
	ops := e.ckOps[ck]
	if len(ops) == 0 {
		ops = e.asmOps
	}
	idx := 0
	for i, o := range ops {
		if o == id {
			idx = i
		}
	}
	n := len(ops)
	if n == 0 {
		n = 1
	}
	per := 8 / n
	return &snapshotpb.KeyGroupRange{Start: int32(idx * per), End: int32((idx + 1) * per)}
}

// publish lets the snapshot write of checkpoint ck proceed and waits until the store has made it current.
func (e *fenv) publish(ck uint64) string {
	x := e.writing[ck]
	if x == nil {
		y, ok := e.take(waitLong, func(x ev) bool { return x.Kind == "write" && x.Id == ck && x.gate != nil })
		if !ok {
			return fmt.Sprintf("every member acknowledged checkpoint %d but the job never wrote its snapshot", ck)
		}
		x = &y
	}
	delete(e.writing, ck)
	from := e.ev.len()
	x.gate <- nil
	if _, _, ok := e.ev.wait(from, waitLong, func(x ev) bool { return x.Kind == "wrote" && x.Id == ck }); !ok {
		return fmt.Sprintf("snapshot write of checkpoint %d did not finish", ck)
	}
	// fence: the store logs after it has replaced its current checkpoint
	if _, _, ok := e.ev.wait(from, waitLong, func(x ev) bool { return x.Kind == "log" && x.Node == "default" && x.Msg == "store wrote checkpoint" }); !ok {
		time.Sleep(50 * time.Millisecond) // the log line is gone (refactored?): fall back to a pause
	}
	e.published[ck] = true
	if ck > e.newestPub {
		e.newestPub = ck
	}
	return ""
}

// expectWrite notes the parked snapshot write that a completing ack must have produced.
func (e *fenv) expectWrite(ck uint64) bool {
	y, ok := e.take(waitLong, func(x ev) bool { return x.Kind == "write" && x.Id == ck && x.gate != nil })
	if ok {
		e.writing[ck] = &y
	}
	return ok
}

// newestAcceptable: checkpoints a start() may legitimately deploy from right now
func (e *fenv) newestAcceptable() []uint64 {
	out := []uint64{e.newestPub}
	return out
}

// ---------------------------------------------------------------- replay ----

func replayFake(bi int, beh []mbt.Step, in *mbt.Input, res *mbt.Result) {
	if len(res.Violations) >= 3 {
		return // enough witnesses from this chunk; every further one may cost long waits
	}
	W := in.CfgInt("W", 1)
	boot := in.CfgInt("Boot", 0)
	e, err := newFenv(W)
	if err != nil {
		res.Errors = append(res.Errors, "jobs.New: "+err.Error())
		return
	}
	defer e.close()
	e.Wchk = in.CfgInt("CheckW", W)
	lenient := in.CfgBool("Lenient", false)
	drifted := false
	drift := func(format string, a ...any) {
		if lenient { // schedules generated from a deviating model: leave the model, the epilogue judges by the property alone
			drifted = true
			res.Count("left_model", 1)
			return
		}
		res.Driftf(format, a...)
	}
	viol := func(step int, known string, format string, a ...any) {
		res.Violations = append(res.Violations, mbt.Violation{Property: in.Property, Behaviour: bi, Step: step, What: fmt.Sprintf(format, a...), Known: known})
	}
	// initial state of the model: workers 1..Boot registered, assembly of 1..W being started
	for i := 1; i <= boot; i++ {
		e.register(e.node("op", i))
	}
	for i := 1; i <= boot; i++ {
		e.register(e.node("sr", i))
	}
	var spawnRegs []map[string]bool
	modelSpawned := false
	if boot >= W {
		spawnRegs = e.snaps
		modelSpawned = true
	}

	checkEv := func(si int, evo map[string]any) bool {
		// the model's registry after the evaluation must be the mirror's (else the harness' reading of liveness is off)
		mo, ms := mbt.Step(evo).Ints("ops"), mbt.Step(evo).Ints("srs")
		if fmt.Sprint(mo) != fmt.Sprint(e.regList("op")) || fmt.Sprint(ms) != fmt.Sprint(e.regList("sr")) {
			res.Errors = append(res.Errors, fmt.Sprintf("behaviour %d step %d: registry mirror %v %v differs from the model %v %v", bi, si, e.regList("op"), e.regList("sr"), mo, ms))
			return false
		}
		if st := mbt.Step(evo).Str("status"); (st == "Running") != e.running {
			if e.running && !e.probeRunning() {
				res.Errors = append(res.Errors, fmt.Sprintf("behaviour %d step %d: the job's log says Running but it refuses a savepoint: log-derived status is unreliable", bi, si))
				return false
			}
			if e.running {
				viol(si, "", "the job keeps Running on assembly %v %v although a member is no longer registered and live (registry %v)", e.asmOps, e.asmSrs, keys(e.reg))
			} else {
				drift("behaviour %d step %d: the job left Running although every member of its assembly is registered and live", bi, si)
			}
			return false
		}
		if mbt.Step(evo).Bool("spawn") {
			modelSpawned = true
			spawnRegs = []map[string]bool{e.snaps[len(e.snaps)-1]}
			x, ok := e.take(waitLong, func(x ev) bool { return x.Kind == "log" && x.Msg == "starting" && x.gate != nil })
			if !ok {
				viol(si, "", "%d operators %v and %d source runners %v are registered and live but the job does not start an assembly (WorkerCount %d)",
					len(mo), mo, len(ms), ms, W)
				return false
			}
			e.startGate = &x
		}
		return true
	}

	ok := true
	for si, s := range beh {
		if !ok {
			break
		}
		res.Steps++
		// a start() the model does not have is judged by the property alone
		if !modelSpawned && e.startGate == nil && e.peek(func(x ev) bool { return x.Kind == "log" && x.Msg == "starting" && x.gate != nil }) {
			a, msg := e.beginStart(waitLong)
			if a != nil && msg == "" {
				msg = e.checkAttempt(a, e.snaps, e.newestAcceptable())
			}
			if msg != "" {
				viol(si, "", "unexpected start of an assembly: %s", msg)
			} else {
				drift("behaviour %d step %d: the job started an assembly the model does not start", bi, si)
			}
			ok = false
			break
		}
		switch s.Str("a") {
		case "Register":
			e.register(e.node(s.Str("kind"), s.Int("i")))
			ok = checkEv(si, s.Map("ev"))
		case "Deregister":
			n := e.node(s.Str("kind"), s.Int("i"))
			e.deregister(n)
			n.dead.Store(true)
			ok = checkEv(si, s.Map("ev"))
		case "Kill":
			e.node(s.Str("kind"), s.Int("i")).dead.Store(true)
		case "Advance":
			e.advance()
		case "StartAssembly":
			modelSpawned = false
			a, msg := e.beginStart(waitLong)
			if a == nil && msg == "" {
				viol(si, "", "the job does not start the assembly it announced")
				ok = false
				break
			}
			if msg == "" {
				msg = e.checkAttempt(a, spawnRegs, e.newestAcceptable())
			}
			if msg != "" {
				viol(si, "", "%s", msg)
				ok = false
				break
			}
			var mops, msrs []string
			for _, i := range s.Ints("ops") {
				mops = append(mops, nodeID("op", i))
			}
			for _, i := range s.Ints("srs") {
				msrs = append(msrs, nodeID("sr", i))
			}
			if fmt.Sprint(mops) != fmt.Sprint(a.ops) || fmt.Sprint(msrs) != fmt.Sprint(a.srs) {
				drift("behaviour %d step %d: assembly %v %v is valid but not the one the model picks (%v %v)", bi, si, a.ops, a.srs, mops, msrs)
				ok = false
			}
		case "DeployDone", "DeployFail":
			id := nodeID(s.Str("kind"), s.Int("i"))
			var rerr error
			if s.Str("a") == "DeployFail" {
				rerr = fmt.Errorf("fake: deploy of %s failed", id)
			}
			if !e.answer(id, rerr) {
				res.Errors = append(res.Errors, fmt.Sprintf("behaviour %d step %d: no Deploy parked for %s", bi, si, id))
				ok = false
				break
			}
			fin := mbt.Step(s.Map("fin"))
			if !fin.Bool("done") {
				break
			}
			out, got := e.outcome()
			if !got && !fin.Bool("ok") && !e.probeRunning() {
				out, got = "failed", true // no recognisable log record, but the job itself says it is not running
			}
			if !got && e.probeRunning() {
				res.Errors = append(res.Errors, fmt.Sprintf("behaviour %d step %d: the job accepts a savepoint (it is Running) but logged no \"running\" record: the harness' status derivation is outdated", bi, si))
				ok = false
				break
			}
			if !got {
				viol(si, "", "every Deploy call has returned but the job neither runs nor reports a failed start")
				ok = false
				break
			}
			if fin.Bool("ok") != (out == "running") {
				if out == "running" {
					viol(si, "", "the job is Running although a Deploy call of this assembly failed")
				} else {
					viol(si, "", "every Deploy call succeeded but the job reports a failed start")
				}
				ok = false
				break
			}
			ok = checkEv(si, fin.Map("ev"))
		case "Tick":
			id, srs, had := e.tick()
			if !had {
				viol(si, "", "%s", noTicker)
				ok = false
				break
			}
			if s.Bool("created") {
				if id == 0 {
					viol(si, "Dev_PendingNotCleared", "checkpointing does not resume: the job runs on assembly %v %v, no checkpoint of this assembly is pending, yet the checkpoint tick starts none (checkpoint in progress)", e.asmOps, e.asmSrs)
					ok = false
					break
				}
				e.idMap[s.Int("id")] = id
				if fmt.Sprint(srs) != fmt.Sprint(e.asmSrs) {
					viol(si, "", "StartCheckpoint %d went to %v; the source runners of the running assembly are %v", id, srs, e.asmSrs)
					ok = false
				}
			} else if id != 0 {
				drift("behaviour %d step %d: tick created checkpoint %d while the model has one pending", bi, si, id)
				ok = false
			}
		case "SrCkpt", "OpBarrier":
			ack := mbt.Step(s.Map("ack"))
			if s.Str("a") == "OpBarrier" && !s.Bool("all") {
				break
			}
			ck, known := e.idMap[s.Int("id")]
			if !known {
				drift("behaviour %d step %d: no real id for model checkpoint %d", bi, si, s.Int("id"))
				ok = false
				break
			}
			var rerr error
			var pan string
			var who string
			if s.Str("a") == "SrCkpt" {
				who = nodeID("sr", s.Int("i"))
				rerr, pan = e.srAck(who, ck)
			} else {
				who = nodeID("op", s.Int("o"))
				rerr, pan = e.opAck(who, ck)
			}
			if (rerr == nil) != ack.Bool("ok") {
				if !ack.Bool("cur") {
					drift("behaviour %d step %d: ack of %s for checkpoint %d (not of the running assembly): model ok=%v, job err=%v", bi, si, who, ck, ack.Bool("ok"), rerr)
					ok = false
					break
				}
				known := ""
				if strings.Contains(pan, "only one source splitter") {
					known = "Dev_SplitterAppended"
				}
				if rerr != nil {
					viol(si, known, "checkpointing does not resume: the job refuses the acknowledgement of %s for checkpoint %d of the running assembly: %v", who, ck, rerr)
				} else {
					viol(si, "", "the job accepted an acknowledgement of %s for checkpoint %d that it must refuse", who, ck)
				}
				ok = false
				break
			}
			if ack.Bool("complete") {
				if !e.expectWrite(ck) {
					viol(si, "", "every member acknowledged checkpoint %d but the job does not write its snapshot", ck)
					ok = false
				}
			}
		case "Publish":
			ck, known := e.idMap[s.Int("id")]
			if !known {
				drift("behaviour %d step %d: no real id for model checkpoint %d", bi, si, s.Int("id"))
				ok = false
				break
			}
			if msg := e.publish(ck); msg != "" {
				viol(si, "", "%s", msg)
				ok = false
			}
		default:
			res.Errors = append(res.Errors, "unknown action "+s.Str("a"))
			ok = false
		}
	}
	if !ok && !drifted {
		return
	}
	if msg, known := e.epilogue(res); msg != "" {
		if strings.HasPrefix(msg, "machinery: ") {
			res.Errors = append(res.Errors, fmt.Sprintf("behaviour %d epilogue: %s", bi, msg))
			return
		}
		viol(len(beh), known, "%s", msg)
		return
	}
	res.Executed++
	if len(res.Samples) < 3 {
		res.Samples = append(res.Samples, map[string]any{"kind": "Membership behaviour replayed on the real jobs.Job with fake nodes", "steps": beh})
	}
}

// epilogue: from wherever the behaviour ended, let every live node keep heartbeating, add fresh nodes if fewer
// than W are alive, let deploys succeed: the job must get back to Running on a valid assembly and a checkpoint
// tick must lead to a NEW published checkpoint. Model-free; everything is synchronous or gated, the waits only
// cover goroutine hand-offs.
func (e *fenv) epilogue(res *mbt.Result) (string, string) {
	res.Count("epilogues", 1)
	fresh := 100
	liveOf := func(kind string) []*fnode {
		var out []*fnode
		e.mu.Lock()
		for _, n := range e.nodes {
			if n.kind == kind && !n.dead.Load() {
				out = append(out, n)
			}
		}
		e.mu.Unlock()
		sort.Slice(out, func(i, j int) bool { return out[i].id < out[j].id })
		return out
	}
	heartbeat := func() {
		for _, k := range []string{"op", "sr"} {
			l := liveOf(k)
			for len(l) < e.W {
				fresh++
				l = append(l, e.node(k, fresh))
			}
			for _, n := range l {
				e.register(n)
			}
		}
	}
	startWait := 5 * time.Millisecond
	serve := func() string {
		// finish whatever start() is in flight: live nodes deploy, dead ones fail
		for tries := 0; tries < 6; tries++ {
			if len(e.deploys) == 0 {
				a, msg := e.beginStart(startWait)
				if msg != "" {
					return msg
				}
				if a == nil {
					return ""
				}
				if msg := e.checkAttempt(a, e.snaps, e.newestAcceptable()); msg != "" {
					return msg
				}
			}
			for id := range e.deploys {
				var err error
				if e.isDead(id) {
					err = fmt.Errorf("fake: %s is dead", id)
				}
				e.answer(id, err)
			}
			if _, got := e.outcome(); !got {
				if e.probeRunning() {
					return "machinery: the job accepts a savepoint (it is Running) but logged no \"running\" record"
				}
				return "every Deploy call has returned but the job neither runs nor reports a failed start"
			}
			e.snaps = e.snaps[len(e.snaps)-1:]
		}
		return ""
	}
	healthy := func() bool {
		if !e.running {
			return false
		}
		for _, id := range append(append([]string(nil), e.asmOps...), e.asmSrs...) {
			if e.isDead(id) || !e.reg[id] {
				return false
			}
		}
		return true
	}
	for round := 0; round < 14 && !healthy(); round++ {
		if round >= 6 {
			startWait = time.Second // a goroutine the job has spawned may simply not have been scheduled yet
		}
		if msg := serve(); msg != "" {
			return msg, ""
		}
		heartbeat()
		if msg := serve(); msg != "" {
			return msg, ""
		}
		if healthy() {
			break
		}
		e.advance()
		heartbeat()
	}
	if msg := serve(); msg != "" {
		return msg, ""
	}
	if !healthy() {
		return fmt.Sprintf("the job does not get back to Running although %d live operators and source runners keep registering (registry %v)", e.W, keys(e.reg)), ""
	}
	res.Count("epilogue_running", 1)
	// checkpointing must resume
	ackAll := func(ck uint64) (string, string) {
		for _, id := range e.ckSrs[ck] {
			if err, pan := e.srAck(id, ck); pan != "" {
				return pan, fmt.Sprintf("acknowledgement of %s for checkpoint %d: %v", id, ck, err)
			}
		}
		for _, id := range e.ckOps[ck] {
			if err, pan := e.opAck(id, ck); pan != "" {
				return pan, fmt.Sprintf("acknowledgement of %s for checkpoint %d: %v", id, ck, err)
			}
		}
		return "", ""
	}
	before := e.newestPub
	var note string
	for try := 0; try < 3; try++ {
		// complete what this run already started
		if e.lastCk != 0 && e.lastCkRun == e.runs && !e.published[e.lastCk] {
			if pan, msg := ackAll(e.lastCk); pan != "" {
				known := ""
				if strings.Contains(pan, "only one source splitter") {
					known = "Dev_SplitterAppended"
				}
				return "checkpointing does not resume: " + msg, known
			}
			if e.writing[e.lastCk] != nil || e.peek(func(x ev) bool { return x.Kind == "write" && x.Id == e.lastCk && x.gate != nil }) {
				if msg := e.publish(e.lastCk); msg != "" {
					return msg, ""
				}
			}
		}
		// publications that were left in flight
		for ck := range e.writing {
			if msg := e.publish(ck); msg != "" {
				return msg, ""
			}
		}
		if e.newestPub > before {
			res.Count("epilogue_published", 1)
			return "", ""
		}
		id, srs, had := e.tick()
		if !had {
			return noTicker, ""
		}
		if id == 0 {
			note = "the checkpoint tick starts no checkpoint (checkpoint in progress) although no checkpoint of the running assembly is pending"
			continue
		}
		if fmt.Sprint(srs) != fmt.Sprint(e.asmSrs) {
			return fmt.Sprintf("StartCheckpoint %d went to %v; the source runners of the running assembly are %v", id, srs, e.asmSrs), ""
		}
		if pan, msg := ackAll(id); pan != "" {
			known := ""
			if strings.Contains(pan, "only one source splitter") {
				known = "Dev_SplitterAppended"
			}
			return "checkpointing does not resume: " + msg, known
		}
		if !e.expectWrite(id) {
			return fmt.Sprintf("checkpointing does not resume: every member of the running assembly acknowledged checkpoint %d but no snapshot is written", id), ""
		}
		if msg := e.publish(id); msg != "" {
			return msg, ""
		}
	}
	if e.newestPub > before {
		res.Count("epilogue_published", 1)
		return "", ""
	}
	known := ""
	if note != "" {
		known = "Dev_PendingNotCleared"
	}
	return "checkpointing does not resume after the recovery: no new job checkpoint within 3 ticks; " + note, known
}
