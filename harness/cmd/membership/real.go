package main

// Arm (b): the REAL jobs.Job with REAL workers (operator.Operator +
// sourcerunner.SourceRunner per worker, each with its real dkv.DB), wired in
// one process through harness-owned adapters. Unlike harness/cluster (one
// generation = one job + W workers, recovery = a new job process) this cluster
// keeps ONE job alive while workers come and go: standby workers, kill /
// graceful stop / delayed heartbeats of a live worker, in-process redeploy of
// surviving workers. Fault skeletons extracted from TLC behaviours of
// spec/Membership.tla are executed; afterwards the progress clause of C15 is
// REQUIRED: the job runs again on live workers, a NEW job checkpoint is
// published within a bounded number of ticks, and the operators of the running
// assembly keep processing events.

import (
	"context"
	"encoding/json"
	"fmt"
	"log/slog"
	"os"
	"path/filepath"
	"runtime"
	"sort"
	"strings"
	"sync"
	"sync/atomic"
	"time"

	"connectrpc.com/connect"
	"google.golang.org/protobuf/types/known/timestamppb"
	"reduction.dev/reduction-protocol/handlerpb"
	"reduction.dev/reduction-protocol/jobconfigpb"
	"reduction.dev/reduction/batching"
	"reduction.dev/reduction/config"
	"reduction.dev/reduction/connectors"
	"reduction.dev/reduction/jobs"
	"reduction.dev/reduction/proto"
	"reduction.dev/reduction/proto/jobpb"
	"reduction.dev/reduction/proto/snapshotpb"
	"reduction.dev/reduction/proto/workerpb"
	"reduction.dev/reduction/workers/operator"
	"reduction.dev/reduction/workers/sourcerunner"
	"verif/harness/mbt"
)

type rworker struct {
	c        *rcluster
	i        int
	opID     string
	srID     string
	op       *operator.Operator
	sr       *sourcerunner.SourceRunner
	opClock  *hclock
	srClock  *hclock
	dead     atomic.Bool // killed or exited: it sends nothing, nothing reaches it
	hang     atomic.Bool // data-plane calls to the dead worker block instead of failing
	mute     atomic.Bool // heartbeats are not delivered (network trouble between worker and job)
	exited   chan struct{}
	exitOnce sync.Once
	cancel   context.CancelFunc
	nproc    atomic.Int64 // events handed to the operator's handler
	nread    atomic.Int64
}

type rcluster struct {
	W       int
	ev      *events
	dir     string
	job     *jobs.Job
	clock   *hclock
	store   *hstore
	lh      *logHandler
	free    bool
	mu      sync.Mutex
	workers []*rworker
	byOp    map[string]*rworker
	bySr    map[string]*rworker
	holds   map[string]bool // "opack:<w>", "srack:<w>", "barrier:<from>-><to>", "deploy:<w>"
	closed  chan struct{}
	nsplits int
	errs    chan error
	panics  []string
}

func newRCluster(W int) (*rcluster, error) {
	c := &rcluster{W: W, ev: newEvents(), byOp: map[string]*rworker{}, bySr: map[string]*rworker{}, holds: map[string]bool{},
		closed: make(chan struct{}), nsplits: 2 * W, errs: make(chan error, 256)}
	setCurrent(c.ev)
	c.dir = tempDir()
	c.clock = newClock(c.ev, "job")
	c.store = newHStore(filepath.Join(c.dir, "job"), c.ev, false)
	c.lh = &logHandler{ev: c.ev, who: "job", gates: map[string]bool{}, free: &c.free, mu: &c.mu}
	cfg := &config.Config{WorkerCount: W, KeyGroupCount: 8, WorkingStorageLocation: filepath.Join(c.dir, "work"),
		Sources: []connectors.SourceConfig{&rsource{c: c}}}
	job, err := jobs.New(&jobs.NewParams{
		JobConfig: cfg, Clock: c.clock, Store: c.store, ErrChan: c.errs, Logger: slog.New(c.lh),
		OperatorFactory:     func(senderID string, node *jobpb.NodeIdentity) proto.Operator { return &rop{c: c, from: "job", senderID: senderID, id: node.Id} },
		SourceRunnerFactory: func(node *jobpb.NodeIdentity) proto.SourceRunner { return &rsr{c: c, id: node.Id} },
	})
	if err != nil {
		return nil, err
	}
	c.job = job
	return c, nil
}

func (c *rcluster) close() {
	c.mu.Lock()
	c.free = true
	ws := append([]*rworker(nil), c.workers...)
	c.mu.Unlock()
	close(c.closed)
	for _, w := range ws {
		w.dead.Store(true)
		w.sr.Halt()
		w.op.Halt()
	}
	c.store.freeRun()
	setCurrent(nil)
	go func() { time.Sleep(2 * time.Second); removeAll(c.dir) }()
}

func (c *rcluster) worker(i int) *rworker {
	c.mu.Lock()
	defer c.mu.Unlock()
	if i < len(c.workers) {
		return c.workers[i]
	}
	return nil
}

func (c *rcluster) opWorker(id string) *rworker { c.mu.Lock(); defer c.mu.Unlock(); return c.byOp[id] }
func (c *rcluster) srWorker(id string) *rworker { c.mu.Lock(); defer c.mu.Unlock(); return c.bySr[id] }

// hold parks the caller while key is held (until released or the cluster is closed).
func (c *rcluster) hold(key string, note ev) {
	c.mu.Lock()
	h := c.holds[key]
	c.mu.Unlock()
	if !h {
		return
	}
	note.Kind = "parked"
	note.Msg = key
	c.ev.add(note)
	for {
		c.mu.Lock()
		h := c.holds[key]
		c.mu.Unlock()
		if !h {
			return
		}
		select {
		case <-c.closed:
			return
		case <-time.After(200 * time.Microsecond):
		}
	}
}

func (c *rcluster) setHold(key string, on bool) { c.mu.Lock(); c.holds[key] = on; c.mu.Unlock() }
func (c *rcluster) releaseAll() {
	c.mu.Lock()
	c.holds = map[string]bool{}
	c.mu.Unlock()
}

// blockForever parks a call to a vanished node (the production client retries such calls for ever).
func (c *rcluster) blockForever(ctx context.Context) error {
	select {
	case <-c.closed:
	case <-ctx.Done():
	}
	return fmt.Errorf("cluster: call to a vanished node abandoned")
}

// addWorker starts a fresh worker (operator + source runner coupled like workers.Worker).
func (c *rcluster) addWorker() *rworker {
	c.mu.Lock()
	i := len(c.workers)
	w := &rworker{c: c, i: i, opID: fmt.Sprintf("w%02d-op", i), exited: make(chan struct{})}
	c.workers = append(c.workers, w)
	c.mu.Unlock()
	w.opClock = newClock(nil, "")
	w.srClock = newClock(nil, "")
	h := &rhandler{w: w}
	jc := &rjob{c: c, w: w}
	w.op = operator.NewOperator(operator.NewOperatorParams{
		ID: w.opID, Host: "w", Job: jc, UserHandler: h, Clock: w.opClock,
		EventBatching: batching.EventBatcherParams{MaxSize: 2, MaxDelay: 5 * time.Millisecond},
		NeighborOperatorFactory: func(senderID string, node *jobpb.NodeIdentity) proto.Operator {
			return &rop{c: c, from: w.opID, senderID: senderID, id: node.Id}
		},
	})
	w.sr = sourcerunner.New(sourcerunner.NewParams{
		Host: "w", UserHandler: h, Job: jc, Clock: w.srClock,
		OperatorFactory: func(senderID string, node *jobpb.NodeIdentity) proto.Operator {
			return &rop{c: c, from: w.srID, senderID: senderID, id: node.Id, fromW: w}
		},
		SourceReaderFactory: func(*jobconfigpb.Source) connectors.SourceReader { return &rreader{w: w, cursor: map[int]int{}} },
		EventBatching:       batching.EventBatcherParams{MaxSize: 2, MaxDelay: 5 * time.Millisecond},
	})
	w.srID = w.sr.ID
	c.mu.Lock()
	c.byOp[w.opID] = w
	c.bySr[w.srID] = w
	c.mu.Unlock()
	ctx, cancel := context.WithCancel(context.Background())
	w.cancel = cancel
	// like workers.Worker.Start: when one of the two ends, the other is stopped as well
	var wg sync.WaitGroup
	wg.Add(2)
	go func() {
		defer wg.Done()
		err, pan := protect(func() error { return w.op.Start(ctx) })
		c.ev.add(ev{Kind: "exit", Node: w.opID, Msg: errText(err) + pan})
		w.dead.Store(true) // the worker process is going down (it still deregisters)
		cancel()
	}()
	go func() {
		defer wg.Done()
		err, pan := protect(func() error { return w.sr.Start(ctx) })
		c.ev.add(ev{Kind: "exit", Node: w.srID, Msg: errText(err) + pan})
		w.dead.Store(true)
		cancel()
	}()
	go func() {
		wg.Wait()
		w.dead.Store(true)
		w.exitOnce.Do(func() { close(w.exited) })
	}()
	return w
}

func errText(err error) string {
	if err == nil {
		return ""
	}
	return err.Error()
}

func (w *rworker) alive() bool { return !w.dead.Load() }

// heartbeat fires the register tickers of a live worker (the job sees Register calls).
func (w *rworker) heartbeat() {
	if !w.alive() || w.mute.Load() {
		return
	}
	w.opClock.tick("register")
	w.srClock.tick("register")
}

// kill: the worker process is gone without a word.
func (c *rcluster) kill(w *rworker, hang bool) {
	w.hang.Store(hang)
	w.dead.Store(true)
	c.ev.add(ev{Kind: "kill", Node: w.opID, Msg: fmt.Sprint("hang=", hang)})
	w.sr.Halt()
	w.op.Halt()
}

// stop: graceful shutdown (deregisters).
func (c *rcluster) stop(w *rworker) {
	c.ev.add(ev{Kind: "stop", Node: w.opID})
	w.sr.Stop()
	w.op.Stop()
	select {
	case <-w.exited:
	case <-time.After(waitLong):
	}
}

// stopNoWait: graceful shutdown of a worker whose runner may be stuck in a call that is being held: wait for the
// operator's deregistration only (the runner follows when its call returns).
func (c *rcluster) stopNoWait(w *rworker) {
	from := c.ev.len()
	c.ev.add(ev{Kind: "stop", Node: w.opID})
	go w.sr.Stop()
	w.op.Stop()
	c.waitEv(from, 5*time.Second, func(x ev) bool { return x.Kind == "deregister" && x.Node == w.opID })
}

// --------------------------------------------------------------- adapters ----

type rjob struct {
	c *rcluster
	w *rworker
}

func (j *rjob) RegisterSourceRunner(ctx context.Context, id *jobpb.NodeIdentity) error {
	if j.w.dead.Load() || j.w.mute.Load() {
		return fmt.Errorf("cluster: not delivered")
	}
	j.c.job.HandleRegisterSourceRunner(id)
	j.c.ev.add(ev{Kind: "registered", Node: id.Id})
	return nil
}
func (j *rjob) RegisterOperator(ctx context.Context, id *jobpb.NodeIdentity) error {
	if j.w.dead.Load() || j.w.mute.Load() {
		return fmt.Errorf("cluster: not delivered")
	}
	j.c.job.HandleRegisterOperator(id)
	j.c.ev.add(ev{Kind: "registered", Node: id.Id})
	return nil
}
func (j *rjob) DeregisterSourceRunner(ctx context.Context, id *jobpb.NodeIdentity) error {
	if j.w.hang.Load() || j.w.mute.Load() {
		return fmt.Errorf("cluster: not delivered")
	}
	j.c.ev.add(ev{Kind: "deregister", Node: id.Id})
	j.c.job.HandleDeregisterSourceRunner(id)
	return nil
}
func (j *rjob) DeregisterOperator(ctx context.Context, id *jobpb.NodeIdentity) error {
	if j.w.hang.Load() || j.w.mute.Load() {
		return fmt.Errorf("cluster: not delivered")
	}
	j.c.ev.add(ev{Kind: "deregister", Node: id.Id})
	j.c.job.HandleDeregisterOperator(id)
	return nil
}
func (j *rjob) OperatorCheckpointComplete(ctx context.Context, req *snapshotpb.OperatorCheckpoint) error {
	j.c.hold(fmt.Sprintf("opack:%d", j.w.i), ev{Node: j.w.opID, Id: req.CheckpointId})
	if j.w.dead.Load() {
		return fmt.Errorf("cluster: sender is dead")
	}
	err, pan := protect(func() error { return j.c.job.HandleOperatorCheckpointComplete(ctx, req) })
	j.c.ev.add(ev{Kind: "opack", Node: j.w.opID, Id: req.CheckpointId, Msg: errText(err)})
	if pan != "" {
		j.c.notePanic(pan)
	}
	return err
}
func (j *rjob) OnSourceRunnerCheckpointComplete(ctx context.Context, req *jobpb.SourceRunnerCheckpointCompleteRequest) error {
	j.c.hold(fmt.Sprintf("srack:%d", j.w.i), ev{Node: j.w.srID, Id: req.CheckpointId})
	if j.w.dead.Load() {
		return fmt.Errorf("cluster: sender is dead")
	}
	err, pan := protect(func() error { return j.c.job.HandleSourceRunnerCheckpointComplete(ctx, req) })
	j.c.ev.add(ev{Kind: "srack", Node: j.w.srID, Id: req.CheckpointId, Msg: errText(err)})
	if pan != "" {
		j.c.notePanic(pan)
	}
	return err
}
func (j *rjob) NotifySplitsFinished(ctx context.Context, id string, splits []string) error {
	return j.c.job.HandleNotifySplitsFinished(id, splits)
}

var _ proto.Job = (*rjob)(nil)

func (c *rcluster) notePanic(p string) {
	c.mu.Lock()
	c.panics = append(c.panics, p)
	c.mu.Unlock()
}

// rop: how `from` (the job, a runner, a neighbour operator) reaches the operator with id `id`.
type rop struct {
	c        *rcluster
	from     string
	fromW    *rworker
	senderID string
	id       string
}

func (o *rop) ID() string   { return o.id }
func (o *rop) Host() string { return "w" }

func (o *rop) target(ctx context.Context, dataPlane bool) (*rworker, error) {
	w := o.c.opWorker(o.id)
	if w == nil {
		return nil, fmt.Errorf("cluster: unknown operator %s", o.id)
	}
	if o.fromW != nil && o.fromW.dead.Load() {
		return nil, fmt.Errorf("cluster: sender is dead")
	}
	if w.dead.Load() {
		if dataPlane && w.hang.Load() {
			return nil, o.c.blockForever(ctx)
		}
		return nil, fmt.Errorf("cluster: %s is unreachable", o.id)
	}
	return w, nil
}

func (o *rop) HandleEventBatch(ctx context.Context, batch []*workerpb.Event) error {
	for _, e := range batch {
		if b := e.GetCheckpointBarrier(); b != nil && o.fromW != nil {
			if tw := o.c.opWorker(o.id); tw != nil {
				o.c.hold(fmt.Sprintf("barrier:%d->%d", o.fromW.i, tw.i), ev{Node: o.id, Id: b.CheckpointId})
			}
		}
		for {
			w, err := o.target(ctx, true)
			if err != nil {
				return err
			}
			err = w.op.HandleEvent(ctx, o.senderID, e)
			if err == nil {
				if b := e.GetCheckpointBarrier(); b != nil && o.fromW != nil {
					o.c.ev.add(ev{Kind: "barrier.delivered", Node: o.id, Id: b.CheckpointId, Msg: fmt.Sprintf("%d->%d", o.fromW.i, w.i)})
				}
				break
			}
			// the production client retries Unavailable ("operator not ready") for ever
			if connect.CodeOf(err) == connect.CodeUnavailable {
				select {
				case <-ctx.Done():
					return ctx.Err()
				case <-o.c.closed:
					return err
				case <-time.After(time.Millisecond):
					continue
				}
			}
			if e.GetCheckpointBarrier() != nil {
				o.c.ev.add(ev{Kind: "barrier.refused", Node: o.id, Id: e.GetCheckpointBarrier().CheckpointId, Msg: err.Error()})
			}
			return err
		}
	}
	return nil
}

func (o *rop) Deploy(ctx context.Context, req *workerpb.DeployOperatorRequest) error {
	if tw := o.c.opWorker(o.id); tw != nil {
		o.c.hold(fmt.Sprintf("deploy:%d", tw.i), ev{Node: o.id})
	}
	w, err := o.target(ctx, false)
	o.c.ev.add(ev{Kind: "deploy", Node: o.id, Arg: req, Msg: errText(err)})
	if err != nil {
		return err
	}
	err, pan := protect(func() error { return w.op.HandleDeploy(ctx, req, &rsink{}) })
	if pan != "" {
		o.c.notePanic(pan)
	}
	o.c.ev.add(ev{Kind: "deployed", Node: o.id, Msg: errText(err)})
	return err
}

func (o *rop) UpdateRetainedCheckpoints(ctx context.Context, ids []uint64) error {
	w, err := o.target(ctx, false)
	if err != nil {
		return err
	}
	return w.op.HandleRemoveCheckpoints(ctx, &workerpb.UpdateRetainedCheckpointsRequest{CheckpointIds: ids})
}

func (o *rop) NeedsTable(ctx context.Context, uri string) (bool, error) {
	w, err := o.target(ctx, false)
	if err != nil {
		return false, err
	}
	return w.op.HandleNeedsTable(uri), nil
}

var _ proto.Operator = (*rop)(nil)

type rsink struct{}

func (*rsink) Write([]byte) error { return nil }

type rsr struct {
	c  *rcluster
	id string
}

func (s *rsr) ID() string   { return s.id }
func (s *rsr) Host() string { return "w" }
func (s *rsr) target() (*rworker, error) {
	w := s.c.srWorker(s.id)
	if w == nil {
		return nil, fmt.Errorf("cluster: unknown runner %s", s.id)
	}
	if w.dead.Load() {
		return nil, fmt.Errorf("cluster: %s is unreachable", s.id)
	}
	return w, nil
}
func (s *rsr) Deploy(ctx context.Context, req *workerpb.DeploySourceRunnerRequest) error {
	if tw := s.c.srWorker(s.id); tw != nil {
		s.c.hold(fmt.Sprintf("deploy:%d", tw.i), ev{Node: s.id})
	}
	w, err := s.target()
	s.c.ev.add(ev{Kind: "deploy", Node: s.id, Arg: req, Msg: errText(err)})
	if err != nil {
		return err
	}
	err, pan := protect(func() error { return w.sr.HandleDeploy(ctx, req) })
	if pan != "" {
		s.c.notePanic(pan)
	}
	s.c.ev.add(ev{Kind: "deployed", Node: s.id, Msg: errText(err)})
	return err
}
func (s *rsr) AssignSplits(ctx context.Context, splits []*workerpb.SourceSplit) error {
	w, err := s.target()
	if err != nil {
		return err
	}
	return w.sr.HandleAssignSplits(splits)
}
func (s *rsr) StartCheckpoint(ctx context.Context, id uint64) error {
	w, err := s.target()
	s.c.ev.add(ev{Kind: "startckpt", Node: s.id, Id: id, Msg: errText(err)})
	if err != nil {
		return err
	}
	done := make(chan struct{})
	go func() { w.sr.HandleStartCheckpoint(ctx, id); close(done) }()
	select {
	case <-done:
		return nil
	case <-s.c.closed:
		return fmt.Errorf("cluster closed")
	}
}

var _ proto.SourceRunner = (*rsr)(nil)

// ----------------------------------------------------------------- source ----

type splitState struct {
	Split  int `json:"split"`
	Cursor int `json:"cursor"`
}

type rsource struct{ c *rcluster }

func (s *rsource) Validate() error                  { return nil }
func (s *rsource) ProtoMessage() *jobconfigpb.Source { return &jobconfigpb.Source{} }
func (s *rsource) NewSourceReader(connectors.SourceReaderHooks) connectors.SourceReader {
	panic("readers come from SourceReaderFactory")
}
func (s *rsource) NewSourceSplitter(ids []string, hooks connectors.SourceSplitterHooks, _ chan<- error) connectors.SourceSplitter {
	return &rsplitter{c: s.c, ids: append([]string(nil), ids...), hooks: hooks}
}

type rsplitter struct {
	connectors.UnimplementedSourceSplitter
	c     *rcluster
	ids   []string
	hooks connectors.SourceSplitterHooks
}

func (s *rsplitter) IsSourceSplitter() {}
func (s *rsplitter) Start(ck *snapshotpb.SourceCheckpoint) error {
	cur := map[int]int{}
	var id uint64
	if ck != nil {
		id = ck.CheckpointId
		for _, b := range ck.SplitStates {
			var st splitState
			if json.Unmarshal(b, &st) == nil && st.Cursor > cur[st.Split] {
				cur[st.Split] = st.Cursor
			}
		}
	}
	s.c.ev.add(ev{Kind: "splitter.start", Id: id, Arg: cur})
	m := map[string][]*workerpb.SourceSplit{}
	for _, id := range s.ids {
		m[id] = nil
	}
	for k := 0; k < s.c.nsplits; k++ {
		b, _ := json.Marshal(splitState{Split: k, Cursor: cur[k]})
		id := s.ids[k%len(s.ids)]
		m[id] = append(m[id], &workerpb.SourceSplit{SplitId: fmt.Sprint(k), SourceId: "harness", Cursor: b})
	}
	s.hooks.AssignSplits(m)
	return nil
}
func (s *rsplitter) Close() error                          { return nil }
func (s *rsplitter) NotifySplitsFinished(string, []string) {}
func (s *rsplitter) Checkpoint() []byte                    { return []byte("harness-splitter") }

// rreader: an endless, paced stream of records per assigned split.
type rreader struct {
	w      *rworker
	mu     sync.Mutex
	splits []int
	cursor map[int]int
	rr     int
}

type record struct {
	Split int    `json:"split"`
	Idx   int    `json:"idx"`
	Key   string `json:"key"`
}

func (r *rreader) AssignSplits(splits []*workerpb.SourceSplit) error {
	r.mu.Lock()
	defer r.mu.Unlock()
	for _, sp := range splits {
		var st splitState
		if err := json.Unmarshal(sp.Cursor, &st); err != nil {
			return err
		}
		r.splits = append(r.splits, st.Split)
		r.cursor[st.Split] = st.Cursor
	}
	return nil
}

func (r *rreader) ReadEvents() ([][]byte, error) {
	time.Sleep(time.Millisecond) // pace the source
	if r.w.dead.Load() {
		return nil, nil
	}
	r.mu.Lock()
	defer r.mu.Unlock()
	if len(r.splits) == 0 {
		return nil, nil
	}
	s := r.splits[r.rr%len(r.splits)]
	r.rr++
	r.cursor[s]++
	r.w.nread.Add(1)
	b, _ := json.Marshal(record{Split: s, Idx: r.cursor[s], Key: fmt.Sprintf("k%d", (r.cursor[s]+s)%16)})
	return [][]byte{b}, nil
}

func (r *rreader) Checkpoint() [][]byte {
	r.mu.Lock()
	defer r.mu.Unlock()
	var out [][]byte
	for _, s := range r.splits {
		b, _ := json.Marshal(splitState{Split: s, Cursor: r.cursor[s]})
		out = append(out, b)
	}
	return out
}

// rhandler: the user handler of one worker: one keyed event per record; a counter per key in state.
type rhandler struct{ w *rworker }

func (h *rhandler) KeyEventBatch(ctx context.Context, raw [][]byte) ([][]*handlerpb.KeyedEvent, error) {
	out := make([][]*handlerpb.KeyedEvent, len(raw))
	for i, b := range raw {
		var rec record
		if err := json.Unmarshal(b, &rec); err != nil {
			return nil, err
		}
		out[i] = []*handlerpb.KeyedEvent{{Key: []byte(rec.Key), Value: b, Timestamp: timestamppb.New(time.UnixMilli(int64(rec.Idx)))}}
	}
	return out, nil
}

func (h *rhandler) ProcessEventBatch(ctx context.Context, req *handlerpb.ProcessEventBatchRequest) (*handlerpb.ProcessEventBatchResponse, error) {
	if h.w.dead.Load() {
		return nil, fmt.Errorf("cluster: handler of a dead worker")
	}
	resp := &handlerpb.ProcessEventBatchResponse{}
	n := 0
	seen := map[string]bool{}
	for _, e := range req.Events {
		ke := e.GetKeyedEvent()
		if ke == nil {
			continue
		}
		n++
		if seen[string(ke.Key)] {
			continue
		}
		seen[string(ke.Key)] = true
		resp.KeyResults = append(resp.KeyResults, &handlerpb.KeyResult{Key: ke.Key, StateMutationNamespaces: []*handlerpb.StateMutationNamespace{{
			Namespace: "last", Mutations: []*handlerpb.StateMutation{{Mutation: &handlerpb.StateMutation_Put{Put: &handlerpb.PutMutation{Key: []byte("v"), Value: ke.Value}}}},
		}}})
	}
	h.w.nproc.Add(int64(n))
	return resp, nil
}

var _ proto.Handler = (*rhandler)(nil)

// --------------------------------------------------------------- scenario ----

// state the harness derives from the job's own observable behaviour
type rview struct {
	running  bool
	asmOps   []string
	asmSrs   []string
	newest   uint64 // newest published checkpoint
	pubCount int
}

func (c *rcluster) view() rview {
	var v rview
	var ops, srs []string
	for _, x := range c.ev.since(0) {
		switch {
		case x.Kind == "log" && x.Node == "job" && x.Msg == "starting":
			ops, srs = nil, nil
			v.running = false
		case x.Kind == "deploy":
			if w := c.opWorker(x.Node); w != nil {
				ops = append(ops, x.Node)
			} else {
				srs = append(srs, x.Node)
			}
		case isRunLog(x):
			v.running = true
			v.asmOps, v.asmSrs = ops, srs
		case x.Kind == "log" && x.Node == "job" && (x.Msg == "assembly not healthy" || x.Msg == "failed to start job"):
			v.running = false
		case x.Kind == "wrote":
			v.pubCount++
			if x.Id > v.newest {
				v.newest = x.Id
			}
		}
	}
	sort.Strings(v.asmOps)
	sort.Strings(v.asmSrs)
	return v
}

func (c *rcluster) liveWorkers() []*rworker {
	c.mu.Lock()
	defer c.mu.Unlock()
	var out []*rworker
	for _, w := range c.workers {
		if w.alive() {
			out = append(out, w)
		}
	}
	return out
}

func (c *rcluster) reachableWorkers() int {
	n := 0
	for _, w := range c.liveWorkers() {
		if !w.mute.Load() {
			n++
		}
	}
	return n
}

// settle: every live worker heartbeats; returns once the job's task queue has processed all of it.
func (c *rcluster) heartbeats() {
	for _, w := range c.liveWorkers() {
		w.heartbeat()
	}
	c.fence()
}

func (c *rcluster) fence() {
	if err := c.job.HandleNotifySplitsFinished("fence", nil); err == nil {
		return
	}
	c.job.HandleDeregisterSourceRunner(&jobpb.NodeIdentity{Id: "~fence"})
	c.job.HandleDeregisterSourceRunner(&jobpb.NodeIdentity{Id: "~fence"})
}

// healthyRunning: the job runs on an assembly all of whose members are live workers.
func (c *rcluster) healthyRunning() (rview, bool) {
	v := c.view()
	if !v.running || len(v.asmOps) != c.W || len(v.asmSrs) != c.W {
		return v, false
	}
	for _, id := range v.asmOps {
		if w := c.opWorker(id); w == nil || !w.alive() {
			return v, false
		}
	}
	for _, id := range v.asmSrs {
		if w := c.srWorker(id); w == nil || !w.alive() {
			return v, false
		}
	}
	return v, true
}

// recover drives time and heartbeats until the job runs on live workers (adding workers when fewer than W are
// alive, like an orchestrator restarting worker processes). maxRounds bounds the number of clock advances; the
// real-time budget per round is generous (a start() opens real databases) so that a slow system is never
// mistaken for a dead one: a round ends early only when the job verifiably has nothing in flight.
func (c *rcluster) recover(maxRounds int) (rview, bool) {
	var v rview
	// a truly dead system costs between minTime and maxTime; a live one returns as soon as it runs. A round lasts long only
	// while a start() is in flight, which on a healthy tree takes milliseconds (it opens tiny databases): maxTime is three
	// orders of magnitude above that, so that a loaded machine is never mistaken for a dead job, and bounds the whole call.
	minTime := time.Now().Add(15 * time.Second)
	maxTime := time.Now().Add(recoverMax)
	for round := 0; (round < maxRounds || time.Now().Before(minTime)) && time.Now().Before(maxTime); round++ {
		if round >= maxRounds {
			time.Sleep(20 * time.Millisecond)
		}
		for c.reachableWorkers() < c.W { // a live worker whose heartbeats do not arrive cannot be part of an assembly
			c.addWorker()
		}
		// fresh workers register from their own goroutines
		regDeadline := time.Now().Add(5 * time.Second)
		for time.Now().Before(regDeadline) && !c.allRegisteredOnce() {
			time.Sleep(200 * time.Microsecond)
		}
		c.heartbeats()
		roundFrom := c.ev.len()
		quiet := 0
		deadline := time.Now().Add(10 * time.Second)
		for time.Now().Before(deadline) {
			var ok bool
			if v, ok = c.healthyRunning(); ok {
				// settled: one more heartbeat round must not change it
				c.heartbeats()
				if v2, ok2 := c.healthyRunning(); ok2 && fmt.Sprint(v2.asmOps) == fmt.Sprint(v.asmOps) {
					return v2, true
				}
			}
			if c.startInFlight() {
				quiet = 0
			} else {
				quiet++
			}
			if c.failedStartsSince(roundFrom) >= 3 {
				break // the job retries an assembly with an unreachable member in a hot loop: only time (expiry) helps
			}
			if quiet > 40 { // ~40 ms with nothing in flight after a fenced heartbeat round: the job waits for an event
				break
			}
			time.Sleep(time.Millisecond)
		}
		c.clock.Advance(3 * time.Second)
	}
	v, ok := c.healthyRunning()
	return v, ok
}

var recoverMax = 45 * time.Second

// awaitDeploy drives heartbeats and time (adding workers when fewer than W are reachable) until the job's NEXT start()
// has sent its Deploy call to worker w - whose operator is still busy (an acknowledgement of it is held), so that the
// call waits inside the operator. from: event index of the fault. Bounded: `rounds` clock advances of 3 s (two expire
// a dead worker's heartbeat) with at most 1.25 s of real time each.
func (c *rcluster) awaitDeploy(w *rworker, from int, rounds int) bool {
	pred := func(x ev) bool { return x.Kind == "deploy" && x.Node == w.opID }
	for round := 0; round < rounds; round++ {
		if !w.alive() {
			return false // the survivor went down as well (e.g. its runner's send to the lost worker failed): nothing to stage
		}
		for c.reachableWorkers() < c.W {
			c.addWorker()
		}
		regDeadline := time.Now().Add(5 * time.Second)
		for time.Now().Before(regDeadline) && !c.allRegisteredOnce() {
			time.Sleep(200 * time.Microsecond)
		}
		c.heartbeats()
		// the Deploy call follows the membership event within microseconds when a start() is spawned at all
		if c.waitEv(from, 250*time.Millisecond, pred) || (c.startInFlight() && c.waitEv(from, time.Second, pred)) {
			return true
		}
		c.clock.Advance(3 * time.Second)
	}
	return false
}

func (c *rcluster) failedStartsSince(from int) int {
	n := 0
	for _, x := range c.ev.since(from) {
		if x.Kind == "log" && x.Node == "job" && x.Msg == "failed to start job" {
			n++
		}
	}
	return n
}

// allRegisteredOnce: every live worker's first registration (made from its own goroutine) has reached the job.
func (c *rcluster) allRegisteredOnce() bool {
	seen := map[string]bool{}
	for _, x := range c.ev.since(0) {
		if x.Kind == "registered" {
			seen[x.Node] = true
		}
	}
	for _, w := range c.liveWorkers() {
		if !w.mute.Load() && (!seen[w.opID] || !seen[w.srID]) {
			return false
		}
	}
	return true
}

// startInFlight: the job logged "starting" and has neither reached running nor reported failure since.
func (c *rcluster) startInFlight() bool {
	in := false
	for _, x := range c.ev.since(0) {
		switch {
		case x.Kind == "log" && x.Node == "job" && x.Msg == "starting":
			in = true
		case isRunLog(x):
			in = false
		case x.Kind == "log" && x.Node == "job" && x.Msg == "failed to start job":
			in = false
		}
	}
	return in
}

func (c *rcluster) procOf(ids []string) int64 {
	var n int64
	for _, id := range ids {
		if w := c.opWorker(id); w != nil {
			n += w.nproc.Load()
		}
	}
	return n
}

func dbg(format string, a ...any) {
	if logOut != nil {
		fmt.Fprintf(logOut, time.Now().Format("15:04:05.000 ")+"HARNESS "+format+"\n", a...)
	}
}

func (c *rcluster) waitEv(from int, d time.Duration, pred func(ev) bool) bool {
	_, _, ok := c.ev.wait(from, d, pred)
	return ok
}

func replayReal(bi int, beh []mbt.Step, in *mbt.Input, res *mbt.Result) {
	if len(res.Violations) >= 3 {
		return
	}
	W := in.CfgInt("W", 1)
	c, err := newRCluster(W)
	if err != nil {
		res.Errors = append(res.Errors, "jobs.New: "+err.Error())
		return
	}
	defer c.close()
	viol := func(step int, known string, format string, a ...any) {
		res.Violations = append(res.Violations, mbt.Violation{Property: in.Property, Behaviour: bi, Step: step, What: fmt.Sprintf(format, a...), Known: known})
	}
	trace := []string{}
	note := func(format string, a ...any) { trace = append(trace, fmt.Sprintf(format, a...)) }

	for si, s := range beh {
		res.Steps++
		dbg("step %d %v", si, s)
		switch s.Str("a") {
		case "boot":
			for i := 0; i < s.Int("workers"); i++ {
				c.addWorker()
				time.Sleep(time.Millisecond)
			}
			if _, ok := c.recover(6); !ok {
				// nothing has failed yet: a cluster that does not even boot is not C15's recovery clause
				res.Errors = append(res.Errors, fmt.Sprintf("behaviour %d: cluster of %d workers did not reach Running: %s", bi, s.Int("workers"), c.tail(25)))
				return
			}
		case "bootheld": // start workers while the Deploy call to worker `w` is held: a fault can strike during deployment
			c.setHold(fmt.Sprintf("deploy:%d", s.Int("w")), true)
			from := c.ev.len()
			for i := 0; i < s.Int("workers"); i++ {
				c.addWorker()
			}
			deadline := time.Now().Add(waitLong)
			parked := false
			for time.Now().Before(deadline) && !parked {
				for len(c.liveWorkers()) < s.Int("workers") {
					c.addWorker()
				}
				if c.allRegisteredOnce() {
					c.heartbeats()
				}
				parked = c.waitEv(from, 20*time.Millisecond, func(x ev) bool { return x.Kind == "parked" && strings.HasPrefix(x.Msg, "deploy:") })
			}
			if !parked {
				res.Count("staging_skipped", 1) // the fault could not be staged; the recovery is still judged
			}
		case "recover": // between two faults: the cluster must be running again (judged like the final recovery)
			c.releaseAll()
			if v, ok := c.recover(16); !ok {
				viol(si, "", "after the fault the job does not get back to Running on live workers although %d live workers keep registering (running=%v assembly %v %v): %s",
					len(c.liveWorkers()), v.running, v.asmOps, v.asmSrs, c.tail(30))
				return
			}
		case "checkpoint": // a complete checkpoint before the fault (so that the recovery restores from one)
			if msg := c.checkpointOnce(8); msg != "" {
				res.Errors = append(res.Errors, fmt.Sprintf("behaviour %d step %d: failure-free checkpoint did not complete: %s; %s", bi, si, msg, c.tail(25)))
				return
			}
		case "hold": // hold messages so that the next tick leaves a checkpoint in progress
			c.setHold(s.Str("key"), true)
		case "release":
			c.releaseAll()
		case "unhold": // let one held message go (and wait until the checkpoint is stuck at the next hold)
			from := c.ev.len()
			c.setHold(s.Str("key"), false)
			if w := s.Str("await"); w != "" {
				if !c.waitEv(from, 5*time.Second, func(x ev) bool { return x.Kind == "parked" && x.Msg == w }) {
					res.Count("staging_skipped", 1)
				}
			}
		case "tick":
			from := c.ev.len()
			had, ret := c.clock.tickTimeout("checkpointing", 5*time.Second)
			if !had || !ret {
				res.Count("staging_skipped", 1)
				break
			}
			if w := s.Str("await"); w != "" { // wait until the checkpoint is stuck where the scenario wants it
				if !c.waitEv(from, 5*time.Second, func(x ev) bool { return x.Kind == "parked" && x.Msg == w }) {
					res.Count("staging_skipped", 1)
				}
			}
			if d := s.Str("delivered"); d != "" { // ... and the barrier "<from>-><to>" has been taken by its operator
				if !c.waitEv(from, 5*time.Second, func(x ev) bool { return x.Kind == "barrier.delivered" && x.Msg == d }) {
					res.Count("staging_skipped", 1)
				}
			}
		case "kill":
			if w := c.worker(s.Int("w")); w != nil && w.alive() {
				c.kill(w, s.Str("mode") == "hang")
			}
		case "killmember", "stopmember": // strike the worker of the first operator of whatever assembly runs now
			v := c.view()
			if len(v.asmOps) > 0 {
				if w := c.opWorker(v.asmOps[0]); w != nil && w.alive() {
					if s.Str("a") == "killmember" {
						c.kill(w, s.Str("mode") == "hang")
					} else {
						c.stop(w)
						c.fence()
					}
				}
			}
		case "tickpending": // leave a checkpoint of the running assembly in progress (its first operator's ack is held)
			v := c.view()
			if len(v.asmOps) == 0 {
				break
			}
			w := c.opWorker(v.asmOps[0])
			key := fmt.Sprintf("opack:%d", w.i)
			c.setHold(key, true)
			from := c.ev.len()
			if had, ret := c.clock.tickTimeout("checkpointing", 5*time.Second); !had || !ret {
				res.Count("staging_skipped", 1)
				break
			}
			if !c.waitEv(from, 5*time.Second, func(x ev) bool { return x.Kind == "parked" && x.Msg == key }) {
				if f := os.Getenv("MEMBERSHIP_STACKS"); f != "" {
					buf := make([]byte, 1<<22)
					buf = buf[:runtime.Stack(buf, true)]
					os.WriteFile(f, buf, 0o644)
				}
				res.Count("staging_skipped", 1) // e.g. the workers shut themselves down meanwhile
			}
		case "stop":
			if w := c.worker(s.Int("w")); w != nil && w.alive() {
				if s.Bool("nowait") {
					c.stopNoWait(w)
				} else {
					c.stop(w)
				}
				c.fence()
			}
		case "awaitdeploy": // the job re-assembles while an acknowledgement of survivor w is still held: its Deploy waits at the operator
			w := c.worker(s.Int("w"))
			from := 0
			for i, x := range c.ev.since(0) {
				if x.Kind == "kill" || x.Kind == "stop" {
					from = i
				}
			}
			if w == nil || !w.alive() || !c.awaitDeploy(w, from, 8) {
				res.Count("staging_skipped", 1)
			} else {
				res.Count("late_ack_staged", 1)
			}
		case "mute": // the worker lives but its heartbeats do not arrive
			if w := c.worker(s.Int("w")); w != nil {
				w.mute.Store(true)
			}
		case "unmute":
			if w := c.worker(s.Int("w")); w != nil {
				w.mute.Store(false)
			}
		case "advance":
			c.clock.Advance(3 * time.Second)
		case "heartbeat":
			c.heartbeats()
		case "add":
			for i := 0; i < s.Int("n"); i++ {
				c.addWorker()
			}
			time.Sleep(2 * time.Millisecond)
			c.fence()
		case "sleep":
			time.Sleep(time.Duration(s.Int("ms")) * time.Millisecond)
		default:
			res.Errors = append(res.Errors, "unknown scenario step "+s.Str("a"))
			return
		}
		note("%d:%s", si, s.Str("a"))
	}
	// ---- the recovery the property demands
	c.releaseAll()
	before := c.view()
	dbg("recover")
	v, ok := c.recover(16)
	dbg("recovered %v %v", ok, v)
	if !ok {
		// cross-check at API level before a verdict that rests on log texts: a job that accepts a savepoint IS running
		if _, err := c.job.HandleCreateSavepoint(context.Background()); err == nil && !v.running {
			res.Errors = append(res.Errors, fmt.Sprintf("behaviour %d: the job accepts a savepoint (it is Running) but its log / RPC trace does not show a running assembly of live workers: %s", bi, c.tail(30)))
			return
		}
		viol(len(beh), "", "after the faults the job does not get back to Running on live workers although %d live workers keep registering (running=%v assembly %v %v): %s",
			len(c.liveWorkers()), v.running, v.asmOps, v.asmSrs, c.tail(30))
		return
	}
	// every member was deployed for this assembly and from the newest completed checkpoint
	if msg := c.checkLastDeploy(v, before.newest); msg != "" {
		viol(len(beh), "", "%s", msg)
		return
	}
	if msg, known := c.requireCheckpoint(&v, 6); msg != "" {
		if f := os.Getenv("MEMBERSHIP_STACKS"); f != "" {
			buf := make([]byte, 1<<22)
			buf = buf[:runtime.Stack(buf, true)]
			os.WriteFile(f, buf, 0o644)
		}
		viol(len(beh), known, "%s", msg)
		return
	}
	// surviving / new workers keep processing
	proc0 := c.procOf(v.asmOps)
	deadline := time.Now().Add(waitLong)
	for time.Now().Before(deadline) {
		all := true
		for _, id := range v.asmOps {
			if w := c.opWorker(id); w == nil || w.nproc.Load() == 0 {
				all = false
			}
		}
		if all && c.procOf(v.asmOps) > proc0 {
			break
		}
		time.Sleep(2 * time.Millisecond)
	}
	if c.procOf(v.asmOps) <= proc0 {
		if _, still := c.healthyRunning(); still {
			viol(len(beh), "", "after the recovery the operators %v of the running assembly process no events any more (handed to handlers: %d): %s", v.asmOps, proc0, c.tail(30))
			return
		}
	}
	res.Executed++
	res.Count("real_recoveries", 1)
	if len(res.Samples) < 3 {
		res.Samples = append(res.Samples, map[string]any{"kind": "recovery scenario on real workers", "steps": beh, "assembly": append(append([]string{}, v.asmOps...), v.asmSrs...), "published": c.view().newest})
	}
}

// checkpointOnce ticks until one more job checkpoint is published.
func (c *rcluster) checkpointOnce(ticks int) string {
	start := c.view().newest
	for t := 0; t < ticks; t++ {
		from := c.ev.len()
		if had, ret := c.clock.tickTimeout("checkpointing", waitLong); !had || !ret {
			return fmt.Sprintf("tick: had=%v returned=%v", had, ret)
		}
		c.waitEv(from, 3*time.Second, func(x ev) bool { return x.Kind == "wrote" && x.Id > start })
		if c.view().newest > start {
			c.waitEv(from, time.Second, func(x ev) bool { return x.Kind == "log" && x.Node == "default" && x.Msg == "store wrote checkpoint" })
			return ""
		}
	}
	return "no publication"
}

// requireCheckpoint: the progress clause. Tick the checkpoint timer (with retries and long waits: a slow system is
// not a dead one) and require a NEW published job checkpoint, taken by the running assembly.
func (c *rcluster) requireCheckpoint(vp *rview, ticks int) (string, string) {
	v := *vp
	defer func() { *vp = v }()
	start := c.view().newest
	var notes []string
	for t := 0; t < ticks; t++ {
		if v2, ok := c.healthyRunning(); !ok || fmt.Sprint(v2.asmOps) != fmt.Sprint(v.asmOps) {
			// the assembly changed under us (e.g. a worker shut itself down): recover again, this is not yet a verdict
			var ok2 bool
			if v, ok2 = c.recover(12); !ok2 {
				return fmt.Sprintf("the job does not stay / get back to Running on live workers: %s", c.tail(30)), ""
			}
		}
		from := c.ev.len()
		dbg("require tick %d", t)
		had, ret := c.clock.tickTimeout("checkpointing", waitLong)
		dbg("require tick %d returned %v", t, ret)
		if !had {
			return noTicker + fmt.Sprintf(" (assembly %v %v): %s", v.asmOps, v.asmSrs, c.tail(12)), ""
		}
		if !ret {
			notes = append(notes, "the checkpoint tick did not return (StartCheckpoint blocked)")
			continue
		}
		// generous: a checkpoint of this tiny pipeline takes milliseconds
		wait := 2 * time.Second
		if t >= 3 {
			wait = 5 * time.Second
		}
		// the checkpoint completes - or a live operator of the running assembly REFUSES one of its barriers: that barrier is
		// lost for good (the runner that sent it treats the error as fatal and takes its worker down), so the checkpoint
		// started after the recovery can never complete. Decided by the event, not by waiting.
		refusedByMember := func(x ev) bool { // (called under the event log's lock: must not touch the log)
			if x.Kind != "barrier.refused" || x.Id <= start {
				return false
			}
			for _, id := range v.asmOps {
				if id == x.Node {
					return true
				}
			}
			return false
		}
		c.waitEv(from, wait, func(x ev) bool { return (x.Kind == "wrote" && x.Id > start) || refusedByMember(x) })
		if c.view().newest <= start {
			since := c.ev.since(from)
			mine := map[uint64]bool{} // the checkpoint THIS tick started
			for _, y := range since {
				if y.Kind == "startckpt" {
					mine[y.Id] = true
				}
			}
			for _, x := range since {
				if refusedByMember(x) && mine[x.Id] {
					known := ""
					if strings.Contains(x.Msg, "checkpoint ID mismatch") {
						known = "Dev_OpKeepsCheckpoint"
					}
					return fmt.Sprintf("checkpointing does not resume after the recovery: the job runs on live workers %v %v, but operator %s of that assembly refuses a barrier of checkpoint %d, "+
						"the first one started after the recovery: %q - the checkpoint can never complete and the runner that sent the barrier shuts its worker down: %s",
						v.asmOps, v.asmSrs, x.Node, x.Id, x.Msg, c.tail(25)), known
				}
			}
		}
		if c.view().newest > start {
			if len(notes) > 0 && logOut != nil {
				fmt.Fprintf(logOut, "requireCheckpoint succeeded at tick %d after: %v\n", t, notes)
			}
			return "", ""
		}
		started := false
		var ckid uint64
		acked := map[string]bool{}
		for _, x := range c.ev.since(from) {
			if x.Kind == "startckpt" {
				started = true
				ckid = x.Id
			}
			if (x.Kind == "opack" || x.Kind == "srack") && x.Msg == "" {
				acked[x.Node] = true
			}
			if x.Kind == "barrier.refused" || (x.Kind == "opack" || x.Kind == "srack") && x.Msg != "" {
				notes = append(notes, fmt.Sprintf("%s %s ckpt %d: %s", x.Kind, x.Node, x.Id, x.Msg))
			}
		}
		if !started {
			notes = append(notes, "tick started no checkpoint (checkpoint in progress)")
		} else {
			var missOps, missSrs []string
			for _, id := range v.asmOps {
				if !acked[id] {
					missOps = append(missOps, id)
				}
			}
			for _, id := range v.asmSrs {
				if !acked[id] {
					missSrs = append(missSrs, id)
				}
			}
			notes = append(notes, fmt.Sprintf("checkpoint %d was started but operators %v / runners %v of the running assembly never acknowledged it", ckid, missOps, missSrs))
		}
		c.heartbeats()
	}
	known := ""
	all := strings.Join(notes, "; ")
	c.mu.Lock()
	pan := strings.Join(c.panics, "; ")
	c.mu.Unlock()
	switch {
	case strings.Contains(pan, "only one source splitter"):
		known = "Dev_SplitterAppended"
	case strings.Contains(all, "checkpoint ID mismatch"), len(notes) > 0 && strings.Contains(notes[0], "never acknowledged it") && strings.Contains(notes[0], "runners []"):
		known = "Dev_OpKeepsCheckpoint" // every runner acknowledged, an operator is stuck behind a checkpoint of its previous deployment
	case len(notes) > 0 && strings.HasPrefix(notes[0], "tick started no checkpoint"):
		known = "Dev_PendingNotCleared"
	}
	if len(all) > 900 {
		all = all[:900]
	}
	return fmt.Sprintf("checkpointing does not resume after the recovery: the job runs on live workers %v %v but %d checkpoint ticks published nothing newer than %d [%s] panics[%s]: %s",
		v.asmOps, v.asmSrs, ticks, start, all, pan, c.tail(25)), known
}

// checkLastDeploy: the Deploy calls of the start() that led to the running assembly went to exactly its members,
// every request names all of them, and the operators got the operator checkpoints of the newest published checkpoint.
func (c *rcluster) checkLastDeploy(v rview, newestBefore uint64) string {
	all := c.ev.since(0)
	last := -1
	for i, x := range all {
		if x.Kind == "log" && x.Node == "job" && x.Msg == "starting" {
			last = i
		}
	}
	if last < 0 {
		return ""
	}
	// newest checkpoint published before that start() read it
	var newest uint64
	for _, x := range all[:last] {
		if x.Kind == "wrote" && x.Id > newest {
			newest = x.Id
		}
	}
	// a publication racing with the start is acceptable either way
	var racing uint64
	for _, x := range all[last:] {
		if x.Kind == "wrote" && x.Id > racing {
			racing = x.Id
		}
	}
	members := strings.Join(append(append([]string{}, v.asmOps...), v.asmSrs...), ",")
	for _, x := range all[last:] {
		if x.Kind != "deploy" {
			continue
		}
		r, isOp := x.Arg.(*workerpb.DeployOperatorRequest)
		if !isOp {
			continue
		}
		var ops []string
		for _, o := range r.Operators {
			ops = append(ops, o.Id)
		}
		sort.Strings(ops)
		srs := append([]string(nil), r.SourceRunnerIds...)
		sort.Strings(srs)
		if got := strings.Join(append(ops, srs...), ","); got != members {
			return fmt.Sprintf("Deploy request of %s names %s but the members that were deployed are %s", x.Node, got, members)
		}
		if len(ops) != c.W || len(srs) != c.W {
			return fmt.Sprintf("Deploy request of %s names %d operators and %d runners; WorkerCount is %d", x.Node, len(ops), len(srs), c.W)
		}
		for _, ck := range r.Checkpoints {
			if ck.CheckpointId != newest && ck.CheckpointId != racing {
				return fmt.Sprintf("%s was deployed from checkpoint %d but the latest completed job checkpoint is %d", x.Node, ck.CheckpointId, newest)
			}
		}
		if newest != 0 && racing == 0 && len(r.Checkpoints) == 0 {
			return fmt.Sprintf("%s was deployed from nothing but the latest completed job checkpoint is %d", x.Node, newest)
		}
	}
	return ""
}

func (c *rcluster) tail(n int) string {
	if v := os.Getenv("MEMBERSHIP_TAIL"); v != "" {
		fmt.Sscan(v, &n)
	}
	all := c.ev.since(0)
	var keep []string
	for i := len(all) - 1; i >= 0 && len(keep) < n; i-- {
		x := all[i]
		if (x.Kind == "log" && (x.Node == "default" || x.Msg == "registry updated")) || x.Kind == "registered" {
			continue
		}
		keep = append(keep, fmt.Sprintf("{%s %s %s %d}", x.Kind, x.Node, x.Msg, x.Id))
	}
	for i, j := 0, len(keep)-1; i < j; i, j = i+1, j-1 {
		keep[i], keep[j] = keep[j], keep[i]
	}
	return strings.Join(keep, " ")
}
