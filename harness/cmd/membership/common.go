package main

import (
	"bytes"
	"context"
	"fmt"
	"io"
	"iter"
	"log/slog"
	"os"
	"reflect"
	"strings"
	"sync"
	"time"
	"unsafe"

	gproto "google.golang.org/protobuf/proto"
	"reduction.dev/reduction/clocks"
	"reduction.dev/reduction/proto/snapshotpb"
	"reduction.dev/reduction/storage/locations"
)

// waitLong bounds every wait for something the code under test must do once it
// has been asked to (goroutine hand-offs that take microseconds): generous, so
// that a slow-but-live system is never mistaken for a dead one.
var waitLong = 20 * time.Second

// ------------------------------------------------------------------ events ----

// events is a totally ordered, waitable log of observations.
type events struct {
	mu   sync.Mutex
	cond *sync.Cond
	log  []ev
}

type ev struct {
	Kind string // log | every | ticker.stop | deploy | startckpt | assign | retain | splitter.new | splitter.start | write | wrote
	Node string
	Msg  string
	Id   uint64
	Arg  any
	gate chan error // non-nil: the caller is parked until something is sent
}

func newEvents() *events {
	e := &events{}
	e.cond = sync.NewCond(&e.mu)
	return e
}

func (e *events) add(x ev) {
	e.mu.Lock()
	e.log = append(e.log, x)
	e.cond.Broadcast()
	e.mu.Unlock()
}

func (e *events) len() int {
	e.mu.Lock()
	defer e.mu.Unlock()
	return len(e.log)
}

// wait returns the index of the first event at index >= from accepted by pred, waiting up to d.
func (e *events) wait(from int, d time.Duration, pred func(ev) bool) (int, ev, bool) {
	deadline := time.Now().Add(d)
	t := time.AfterFunc(d, func() { e.mu.Lock(); e.cond.Broadcast(); e.mu.Unlock() })
	defer t.Stop()
	e.mu.Lock()
	defer e.mu.Unlock()
	for {
		for i := from; i < len(e.log); i++ {
			if pred(e.log[i]) {
				return i, e.log[i], true
			}
		}
		if !time.Now().Before(deadline) {
			return len(e.log), ev{}, false
		}
		e.cond.Wait()
	}
}

func (e *events) since(from int) []ev {
	e.mu.Lock()
	defer e.mu.Unlock()
	if from > len(e.log) {
		from = len(e.log)
	}
	return append([]ev(nil), e.log[from:]...)
}

// ------------------------------------------------------------------- clock ----

// hclock is a clocks.Clock on frozen time whose tickers fire only when the
// replayer fires them (tick) and - unlike clocks.FrozenClock, whose Ticker.Stop
// is a no-op and whose callbacks stay registered by label for ever - HONOUR
// Stop the way the production SystemClock does: a stopped ticker never fires
// again. clocks.Ticker has only unexported fields, so the ticker handed to the
// code under test is assembled with reflect+unsafe (cancel -> marks the ticker
// stopped, trigger -> fires it); if the struct no longer has these two fields
// stopObservable is false, the clock degrades to FrozenClock semantics and the
// replayers count it (the progress clause is then only as strong as before).
type hclock struct {
	*clocks.FrozenClock
	mu      sync.Mutex
	tickers []*hticker
	ev      *events
	who     string
}

type hticker struct {
	label   string
	fn      func(*clocks.EveryContext)
	stopped bool
}

func newClock(e *events, who string) *hclock {
	return &hclock{FrozenClock: clocks.NewFrozenClock(), ev: e, who: who}
}

var stopObservable = func() bool {
	t := reflect.TypeOf(clocks.Ticker{})
	c, ok1 := t.FieldByName("cancel")
	g, ok2 := t.FieldByName("trigger")
	return ok1 && ok2 && c.Type == reflect.TypeOf(context.CancelFunc(nil)) && g.Type == reflect.TypeOf(func() {})
}()

func setField(v reflect.Value, name string, x any) {
	f := v.Elem().FieldByName(name)
	reflect.NewAt(f.Type(), unsafe.Pointer(f.UnsafeAddr())).Elem().Set(reflect.ValueOf(x).Convert(f.Type()))
}

func (c *hclock) Every(d time.Duration, fn func(*clocks.EveryContext), label string) *clocks.Ticker {
	ht := &hticker{label: label, fn: fn}
	c.mu.Lock()
	if !stopObservable {
		// FrozenClock semantics: one callback per label, never stopped
		keep := c.tickers[:0]
		for _, t := range c.tickers {
			if t.label != label {
				keep = append(keep, t)
			}
		}
		c.tickers = keep
	}
	c.tickers = append(c.tickers, ht)
	c.mu.Unlock()
	var t *clocks.Ticker
	if stopObservable {
		t = &clocks.Ticker{}
		setField(reflect.ValueOf(t), "cancel", context.CancelFunc(func() {
			c.mu.Lock()
			was := ht.stopped
			ht.stopped = true
			c.mu.Unlock()
			if c.ev != nil && !was {
				c.ev.add(ev{Kind: "ticker.stop", Node: c.who, Msg: label})
			}
		}))
		setField(reflect.ValueOf(t), "trigger", func() { c.fire(ht) })
	} else {
		t = c.FrozenClock.Every(d, fn, label)
	}
	if c.ev != nil {
		c.ev.add(ev{Kind: "every", Node: c.who, Msg: label})
	}
	return t
}

func (c *hclock) fire(ht *hticker) bool {
	c.mu.Lock()
	dead := ht.stopped
	c.mu.Unlock()
	if dead {
		return false
	}
	ht.fn(&clocks.EveryContext{})
	return true
}

// live: the tickers registered under label that have not been stopped.
func (c *hclock) live(label string) []*hticker {
	c.mu.Lock()
	defer c.mu.Unlock()
	var out []*hticker
	for _, t := range c.tickers {
		if t.label == label && !t.stopped {
			out = append(out, t)
		}
	}
	return out
}

// tick fires, on the caller's goroutine, every ticker registered under label that has not been stopped (what the
// passing of one period does on the production clock); false when there is none.
func (c *hclock) tick(label string) bool {
	ts := c.live(label)
	for _, t := range ts {
		c.fire(t)
	}
	return len(ts) > 0
}

// tickTimeout runs tick on its own goroutine and reports whether it returned within d.
func (c *hclock) tickTimeout(label string, d time.Duration) (had, returned bool) {
	if len(c.live(label)) == 0 {
		return false, true
	}
	done := make(chan bool, 1)
	go func() { done <- c.tick(label) }()
	select {
	case h := <-done:
		return h, true
	case <-time.After(d):
		return true, false
	}
}

var _ clocks.Clock = (*hclock)(nil)

// ------------------------------------------------------------------ logger ----

// logHandler turns the log records of the code under test into observations;
// records whose message is in gates park the logging goroutine until released.
type logHandler struct {
	ev    *events
	who   string
	gates map[string]bool
	free  *bool
	mu    *sync.Mutex
}

func (h *logHandler) Enabled(_ context.Context, l slog.Level) bool { return l >= slog.LevelInfo }
func (h *logHandler) WithAttrs([]slog.Attr) slog.Handler           { return h }
func (h *logHandler) WithGroup(string) slog.Handler                { return h }
func (h *logHandler) Handle(_ context.Context, r slog.Record) error {
	var sb strings.Builder
	r.Attrs(func(a slog.Attr) bool { fmt.Fprintf(&sb, " %s=%v", a.Key, a.Value); return true })
	x := ev{Kind: "log", Node: h.who, Msg: r.Message, Arg: sb.String()}
	h.mu.Lock()
	park := h.gates[r.Message] && !*h.free
	h.mu.Unlock()
	if park {
		x.gate = make(chan error, 1)
	}
	h.ev.add(x)
	if park {
		<-x.gate
	}
	return nil
}

// defaultLog routes the process-global slog default (used by snapshots.Store and
// the workers) to the environment of the behaviour being replayed.
type defaultLog struct{}

var (
	curMu  sync.Mutex
	curEv  *events
	logOut io.Writer
)

func setCurrent(e *events) { curMu.Lock(); curEv = e; curMu.Unlock() }

func (defaultLog) Enabled(_ context.Context, l slog.Level) bool { return l >= slog.LevelInfo }
func (d defaultLog) WithAttrs([]slog.Attr) slog.Handler         { return d }
func (d defaultLog) WithGroup(string) slog.Handler              { return d }
func (defaultLog) Handle(_ context.Context, r slog.Record) error {
	curMu.Lock()
	e := curEv
	curMu.Unlock()
	if logOut != nil {
		var sb strings.Builder
		r.Attrs(func(a slog.Attr) bool { fmt.Fprintf(&sb, " %s=%v", a.Key, a.Value); return true })
		fmt.Fprintf(logOut, "%s %s%s\n", r.Level, r.Message, sb.String())
	}
	if e != nil {
		e.add(ev{Kind: "log", Node: "default", Msg: r.Message})
	}
	return nil
}

func init() {
	if p := os.Getenv("MEMBERSHIP_LOG"); p != "" {
		logOut = os.Stderr
		if f, err := os.OpenFile(p, os.O_APPEND|os.O_CREATE|os.O_WRONLY, 0o644); err == nil {
			logOut = f
		}
	}
	slog.SetDefault(slog.New(defaultLog{}))
}

// ----------------------------------------------------------------- storage ----

// hstore is the job's StorageLocation: a LocalDirectory whose snapshot writes
// are observations and (gated = true) park until released.
type hstore struct {
	dir   *locations.LocalDirectory
	ev    *events
	gated bool
	mu    sync.Mutex
	free  bool
}

func newHStore(path string, e *events, gated bool) *hstore {
	return &hstore{dir: locations.NewLocalDirectory(path), ev: e, gated: gated}
}

func (s *hstore) freeRun() { s.mu.Lock(); s.free = true; s.mu.Unlock() }

func (s *hstore) Write(path string, data io.Reader) (string, error) {
	b, err := io.ReadAll(data)
	if err != nil {
		return "", err
	}
	var id uint64
	isSnap := strings.HasSuffix(path, ".snapshot")
	var ck *snapshotpb.JobCheckpoint
	if isSnap {
		ck = &snapshotpb.JobCheckpoint{}
		if gproto.Unmarshal(b, ck) == nil {
			id = ck.Id
		}
	}
	s.mu.Lock()
	park := s.gated && isSnap && !s.free
	s.mu.Unlock()
	x := ev{Kind: "write", Msg: path, Id: id, Arg: ck}
	if park {
		x.gate = make(chan error, 1)
	}
	s.ev.add(x)
	if park {
		if e := <-x.gate; e != nil {
			return "", e
		}
	}
	uri, err := s.dir.Write(path, bytes.NewReader(b))
	if isSnap {
		s.ev.add(ev{Kind: "wrote", Msg: path, Id: id, Arg: ck})
	}
	return uri, err
}
func (s *hstore) Read(path string) ([]byte, error)            { return s.dir.Read(path) }
func (s *hstore) List() iter.Seq2[string, error]              { return s.dir.List() }
func (s *hstore) URI(path string) (string, error)             { return s.dir.URI(path) }
func (s *hstore) Copy(src string, dst string) error           { return s.dir.Copy(src, dst) }
func (s *hstore) Remove(paths ...string) error                { return s.dir.Remove(paths...) }

var _ locations.StorageLocation = (*hstore)(nil)

func tempDir() string {
	base := ""
	if st, err := os.Stat("/dev/shm"); err == nil && st.IsDir() {
		base = "/dev/shm"
	}
	if b := os.Getenv("VERIF_SHM"); b != "" {
		base = b
	}
	d, err := os.MkdirTemp(base, "verif-membership-")
	if err != nil {
		panic(err)
	}
	return d
}

// protect converts a panic of the code under test that unwinds into the harness into an error.
func protect(f func() error) (err error, panicked string) {
	defer func() {
		if r := recover(); r != nil {
			panicked = fmt.Sprint(r)
			err = fmt.Errorf("panic: %v", r)
		}
	}()
	return f(), ""
}

func removeAll(p string) { os.RemoveAll(p) }
