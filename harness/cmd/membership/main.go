// Command membership: replayer of spec/Membership.tla (property C15).
//
//	mode "fake" (default): behaviours on the real jobs.Job with fake nodes (fake.go)
//	mode "real": recovery scenarios on real workers (real.go)
//	mode "restart": behaviours of spec/Restart.tla (one cut per restart: C13 / C16 / C01) on the real jobs.Job
//	                with fake nodes, start() stepped and the store's publication gated (restart.go)
package main

import (
	"verif/harness/mbt"
)

func main() {
	mbt.Main(func(bi int, beh []mbt.Step, in *mbt.Input, res *mbt.Result) {
		switch in.CfgStr("mode", "fake") {
		case "real":
			replayReal(bi, beh, in, res)
		case "restart":
			replayRestart(bi, beh, in, res)
		default:
			replayFake(bi, beh, in, res)
		}
	})
}
