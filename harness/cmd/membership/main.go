// Command membership: replayer of spec/Membership.tla (property C15).
//
//	mode "fake" (default): behaviours on the real jobs.Job with fake nodes (fake.go)
//	mode "real": recovery scenarios on real workers (real.go)
package main

import (
	"verif/harness/mbt"
)

func main() {
	mbt.Main(func(bi int, beh []mbt.Step, in *mbt.Input, res *mbt.Result) {
		switch in.CfgStr("mode", "fake") {
		case "real":
			replayReal(bi, beh, in, res)
		default:
			replayFake(bi, beh, in, res)
		}
	})
}
