package main

// Mode "restart": behaviours of spec/Restart.tla on the REAL jobs.Job + real
// snapshots.Store with recording fake nodes (the environment of fake.go).
//
// The model splits start() into ReadCheckpoint / SendDeploys / DeployNode(s) /
// StartSplitter / Run and the store's publication into the last Ack (write in
// flight) and PublishDone; PublishDone may strike between any two of them. The
// replayer forces exactly that schedule:
//
//	last Ack        the write of job-N.snapshot parks in the harness-owned StorageLocation (hstore)
//	Join            start() parks at its first log record ("starting")
//	ReadCheckpoint  released; start() parks again inside the harness-owned NewSourceSplitter
//	SendDeploys     released; every Deploy call parks at its fake node
//	DeployNode(s)   node s answers; after the last one start() parks inside the harness-owned SourceSplitter.Start
//	Run             released; the job reports Running
//	PublishDone(N)  the parked write is released and the replayer waits until the store's CurrentCheckpoint() is N
//
// Verdict (model-free, from the requests the real job sent): within one start
// every operator Deploy request and the SourceCheckpoint handed to the splitter
// belong to ONE job checkpoint; with JudgeNewest (C13) that checkpoint must
// have been the store's current one at some moment since the start was spawned.
// Everything else that differs from the model (no start, refused ack, ...) is
// another property's business or drift.

import (
	"fmt"
	"reflect"
	"sort"
	"strconv"
	"strings"
	"time"
	"unsafe"

	"reduction.dev/reduction/proto/snapshotpb"
	"reduction.dev/reduction/storage/snapshots"
	"verif/harness/mbt"
)

// storeOf digs the job's snapshots.Store out of the Job (unexported field); nil if the layout has changed.
func (e *fenv) storeOf() (st *snapshots.Store) {
	defer func() {
		if recover() != nil {
			st = nil
		}
	}()
	v := reflect.ValueOf(e.job).Elem().FieldByName("snapshotStore")
	if !v.IsValid() || v.Kind() != reflect.Ptr || v.IsNil() {
		return nil
	}
	p, _ := reflect.NewAt(v.Type(), unsafe.Pointer(v.UnsafeAddr())).Elem().Interface().(*snapshots.Store)
	return p
}

// curNow: id of the store's current checkpoint (0 = none). Falls back to the replayer's own bookkeeping of the
// publications it has released when the store cannot be reached.
func (e *fenv) curNow() uint64 {
	if st := e.storeOf(); st != nil {
		if ck := st.CurrentCheckpoint(); ck != nil {
			return ck.Id
		}
		return 0
	}
	return e.newestPub
}

// cutsOf: the job checkpoints a SourceCheckpoint handed to the splitter belongs to, by its id field and by the
// split positions in it (the fake runners acknowledge checkpoint N with the position "<runner>@N").
func cutsOf(ck *snapshotpb.SourceCheckpoint) (ids []uint64, positions []string) {
	set := map[uint64]bool{}
	if ck == nil {
		return []uint64{0}, nil
	}
	set[ck.CheckpointId] = true
	for _, b := range ck.SplitStates {
		positions = append(positions, string(b))
		if i := strings.LastIndexByte(string(b), '@'); i >= 0 {
			if n, err := strconv.ParseUint(string(b[i+1:]), 10, 64); err == nil {
				set[n] = true
			}
		}
	}
	for id := range set {
		ids = append(ids, id)
	}
	sort.Slice(ids, func(i, j int) bool { return ids[i] < ids[j] })
	sort.Strings(positions)
	return
}

func replayRestart(bi int, beh []mbt.Step, in *mbt.Input, res *mbt.Result) {
	if len(res.Violations) >= 3 {
		return
	}
	W := in.CfgInt("W", 1)
	judgeNewest := in.CfgBool("JudgeNewest", false)
	judgeLate := in.CfgBool("JudgeLateAck", false) // C12 / C13: a late acknowledgement must not complete an old assembly's checkpoint
	e, err := newFenv(W)
	if err != nil {
		res.Errors = append(res.Errors, "jobs.New: "+err.Error())
		return
	}
	e.parkSplitter = true
	defer e.close()
	if e.storeOf() == nil {
		res.Count("store_unreachable", 1)
	}
	viol := func(step int, format string, a ...any) {
		res.Violations = append(res.Violations, mbt.Violation{Property: in.Property, Behaviour: bi, Step: step, What: fmt.Sprintf(format, a...)})
	}

	var (
		att       *attempt // the start in flight / last start
		splitGate *ev      // start() parked in NewSourceSplitter
		startEv   *ev      // start() parked in SourceSplitter.Start
		seen      = map[uint64]bool{}
		inStart   bool
		began     int                          // number of starts that have executed their first statements (discard, read)
		ckStart   = map[uint64]int{}           // checkpoint -> the start (assembly) it was created for
		ackedReal = map[uint64]map[string]bool{} // acknowledgements the job accepted
		judged    bool
		starts    int
		lost      *fnode
		fresh     = W
		depID     uint64
	)
	seenList := func() []uint64 {
		var l []uint64
		for id := range seen {
			l = append(l, id)
		}
		sort.Slice(l, func(i, j int) bool { return l[i] < l[j] })
		return l
	}
	// slot s of an assembly: 1..W its operators, W+1..2W its source runners, both sorted by id
	slotNode := func(ops, srs []string, s int) (string, bool) {
		if s >= 1 && s <= len(ops) && s <= W {
			return ops[s-1], true
		}
		if s > W && s-W <= len(srs) {
			return srs[s-W-1], true
		}
		return "", false
	}
	// the Deploy requests of this start: which job checkpoint do the operator checkpoints in them belong to
	judgeDeploys := func(si int) bool {
		ids := map[uint64]int{}
		for _, r := range att.opReqs {
			for _, c := range r.Checkpoints {
				ids[c.CheckpointId]++
			}
		}
		if len(ids) > 1 {
			viol(si, "start %d: the Deploy requests of ONE start carry operator checkpoints of different job checkpoints %v: the operators do not restore one cut", starts, ids)
			return false
		}
		depID = 0
		for id := range ids {
			depID = id
		}
		if judgeNewest && !seen[depID] {
			viol(si, "start %d: the operators were deployed from job checkpoint %d, but the newest completed checkpoint was %v at every moment of this start", starts, depID, seenList())
			return false
		}
		return true
	}
	judgeSplitter := func(si int) bool {
		judged = true
		ck, _ := startEv.Arg.(*snapshotpb.SourceCheckpoint)
		ids, pos := cutsOf(ck)
		for _, id := range ids {
			if id != depID {
				effect := "the records the sources emitted between the two cuts are never applied to the restored state (lost)"
				if id < depID {
					effect = "the records the sources emitted between the two cuts are applied to the restored state a second time"
				}
				viol(si, "start %d: the operators were deployed from job checkpoint %d but the source splitter was started from the source checkpoint of job checkpoint %v (split positions %v): "+
					"the restart does not resume from one checkpoint; %s (the store's current checkpoint during this start: %v)",
					starts, depID, ids, pos, effect, seenList())
				return false
			}
		}
		return true
	}
	awaitSplitterStart := func() bool {
		if startEv != nil {
			return true
		}
		x, ok := e.take(waitLong, func(x ev) bool { return x.Kind == "splitter.start" && x.gate != nil })
		if !ok {
			return false
		}
		startEv = &x
		return true
	}

	for si, s := range beh {
		res.Steps++
		switch s.Str("a") {
		case "Join":
			cur := e.curNow()
			switch s.Str("how") {
			case "boot":
				for i := 1; i <= W; i++ {
					e.register(e.node("op", i))
				}
				for i := 1; i <= W; i++ {
					e.register(e.node("sr", i))
				}
			case "same":
				if lost == nil {
					res.Errors = append(res.Errors, fmt.Sprintf("behaviour %d step %d: Join(same) without a lost node", bi, si))
					return
				}
				lost.dead.Store(false) // a new process under the same id
				e.register(lost)
			default:
				if lost == nil {
					res.Errors = append(res.Errors, fmt.Sprintf("behaviour %d step %d: Join(fresh) without a lost node", bi, si))
					return
				}
				fresh++
				e.register(e.node(lost.kind, fresh))
			}
			x, ok := e.take(waitLong, func(x ev) bool { return x.Kind == "log" && x.Msg == "starting" && x.gate != nil })
			if !ok {
				res.Driftf("behaviour %d step %d: enough nodes are registered but the job starts no assembly (C15's subject)", bi, si)
				return
			}
			e.startGate = &x
			starts++
			seen = map[uint64]bool{cur: true}
			inStart, judged, att, splitGate, startEv = true, false, nil, nil, nil
		case "Lose":
			if att == nil {
				res.Errors = append(res.Errors, fmt.Sprintf("behaviour %d step %d: Lose without an assembly", bi, si))
				return
			}
			id, ok := slotNode(e.asmOps, e.asmSrs, s.Int("s"))
			if !ok {
				res.Driftf("behaviour %d step %d: the assembly has no slot %d", bi, si, s.Int("s"))
				return
			}
			e.mu.Lock()
			n := e.nodes[id]
			e.mu.Unlock()
			e.deregister(n)
			n.dead.Store(true)
			lost = n
			if e.running {
				res.Driftf("behaviour %d step %d: the job keeps Running after %s deregistered (C15's subject)", bi, si, id)
				return
			}
		case "ReadCheckpoint":
			if e.startGate == nil {
				res.Errors = append(res.Errors, fmt.Sprintf("behaviour %d step %d: no start() parked", bi, si))
				return
			}
			e.startGate.gate <- nil
			e.startGate = nil
			x, ok := e.take(waitLong, func(x ev) bool { return x.Kind == "splitter.new" && x.gate != nil })
			if !ok {
				res.Driftf("behaviour %d step %d: start() did not create a source splitter", bi, si)
				return
			}
			splitGate = &x
			began = starts
		case "SendDeploys":
			if splitGate == nil {
				res.Errors = append(res.Errors, fmt.Sprintf("behaviour %d step %d: start() is not parked in NewSourceSplitter", bi, si))
				return
			}
			splitGate.gate <- nil
			splitGate = nil
			att = e.collectDeploys()
			if len(att.ops) != W || len(att.srs) != W {
				res.Driftf("behaviour %d step %d: Deploy went to %v %v, WorkerCount is %d (C15's subject)", bi, si, att.ops, att.srs, W)
				return
			}
			if !judgeDeploys(si) {
				return
			}
			if int(depID) != s.Int("ck") {
				res.Count("deploy_ck_differs_from_model", 1)
			}
		case "DeployNode":
			id, ok := slotNode(e.asmOps, e.asmSrs, s.Int("s"))
			if !ok || !e.answer(id, nil) {
				res.Errors = append(res.Errors, fmt.Sprintf("behaviour %d step %d: no Deploy parked for slot %d (%s)", bi, si, s.Int("s"), id))
				return
			}
			if s.Bool("last") {
				// start() now hands the splitter its checkpoint; judged with what was current up to this moment
				if !awaitSplitterStart() {
					res.Driftf("behaviour %d step %d: every Deploy has returned but start() does not start the source splitter", bi, si)
					return
				}
				if !judgeSplitter(si) {
					return
				}
			}
		case "StartSplitter":
			if !awaitSplitterStart() {
				res.Driftf("behaviour %d step %d: start() does not start the source splitter", bi, si)
				return
			}
			if !judged && !judgeSplitter(si) {
				return
			}
			if int(startEv.Id) != s.Int("ck") {
				res.Count("splitter_ck_differs_from_model", 1)
			}
		case "Run":
			if startEv == nil {
				res.Errors = append(res.Errors, fmt.Sprintf("behaviour %d step %d: start() is not parked in SourceSplitter.Start", bi, si))
				return
			}
			startEv.gate <- nil
			out, got := e.outcome()
			if !got || out != "running" {
				res.Driftf("behaviour %d step %d: every Deploy succeeded but the job does not report Running (%q; C15's subject)", bi, si, out)
				return
			}
			inStart = false
		case "Tick":
			id, _, had := e.tick()
			if !had || id == 0 {
				res.Driftf("behaviour %d step %d: the checkpoint tick created no checkpoint (ticker=%v)", bi, si, had)
				return
			}
			e.idMap[s.Int("id")] = id
			ckStart[id] = starts
		case "Ack":
			ck, known := e.idMap[s.Int("id")]
			if !known {
				res.Driftf("behaviour %d step %d: no real id for model checkpoint %d", bi, si, s.Int("id"))
				return
			}
			id, ok := slotNode(e.ckOps[ck], e.ckSrs[ck], s.Int("s"))
			if !ok {
				res.Driftf("behaviour %d step %d: the assembly of checkpoint %d has no slot %d", bi, si, ck, s.Int("s"))
				return
			}
			var rerr error
			var pan string
			if s.Int("s") <= W {
				rerr, pan = e.opAck(id, ck)
			} else {
				rerr, pan = e.srAck(id, ck)
			}
			accepted := rerr == nil
			if accepted {
				if ackedReal[ck] == nil {
					ackedReal[ck] = map[string]bool{}
				}
				ackedReal[ck][id] = true
			}
			completes := accepted && len(ackedReal[ck]) == len(e.ckOps[ck])+len(e.ckSrs[ck])
			old := ckStart[ck] < began // a later start() has already discarded / read: the checkpoint's assembly is no longer the job's
			if old {
				res.Count("late_acks", 1)
			}
			switch {
			case completes && old:
				// model-free: the last acknowledgement of an OLD assembly's checkpoint was accepted. Look at what the job does with it.
				if !judgeLate {
					res.Driftf("behaviour %d step %d: a late acknowledgement completed checkpoint %d of a previous assembly (C12 / C13's subject)", bi, si, ck)
					return
				}
				if !e.expectWrite(ck) {
					res.Driftf("behaviour %d step %d: the job accepted the last acknowledgement of checkpoint %d of a previous assembly but writes no snapshot", bi, si, ck)
					return
				}
				from := e.ev.len()
				note := ""
				if msg := e.publish(ck); msg != "" {
					note = "; " + msg
				}
				deadline := time.Now().Add(2 * time.Second)
				for e.curNow() != ck && time.Now().Before(deadline) {
					time.Sleep(200 * time.Microsecond)
				}
				var retained []string
				e.ev.wait(from, 300*time.Millisecond, func(x ev) bool { return x.Kind == "retain" })
				for _, x := range e.ev.since(from) {
					if x.Kind == "retain" {
						retained = append(retained, fmt.Sprintf("%s<-%v", x.Node, x.Arg))
					}
				}
				where := "after it runs again"
				if inStart {
					where = "while start() is deploying it"
					if att == nil {
						where = "after start() has read its recovery checkpoint"
					}
				}
				dep := "nothing yet"
				if att != nil {
					dep = fmt.Sprintf("job checkpoint %d", depID)
				}
				viol(si, "start %d (assembly %v %v), %s: the acknowledgement of %s for checkpoint %d - a checkpoint of the PREVIOUS assembly (start %d: %v %v), pending when a member was lost - "+
					"is accepted and completes it: job-%d.snapshot is written, the store's current checkpoint is now %d, retention announcements %v; the new assembly was deployed from %s. "+
					"A checkpoint may only complete while the assembly that took it is the job's assembly%s",
					starts, e.asmOps, e.asmSrs, where, id, ck, ckStart[ck], e.ckOps[ck], e.ckSrs[ck], ck, e.curNow(), retained, dep, note)
				return
			case accepted && s.Bool("ok"):
				if s.Bool("complete") != completes {
					res.Driftf("behaviour %d step %d: acknowledgement of %s for checkpoint %d: model complete=%v, job has %d of %d", bi, si, id, ck, s.Bool("complete"), len(ackedReal[ck]), len(e.ckOps[ck])+len(e.ckSrs[ck]))
					return
				}
				if completes && !e.expectWrite(ck) {
					res.Driftf("behaviour %d step %d: every member acknowledged checkpoint %d but no snapshot write shows up (C12's subject)", bi, si, ck)
					return
				}
			case accepted: // the model (repaired design) refuses it: the checkpoint was discarded
				if !old || !judgeLate {
					res.Driftf("behaviour %d step %d: the job accepts the acknowledgement of %s for checkpoint %d, the model refuses it", bi, si, id, ck)
					return
				}
				res.Count("late_ack_accepted", 1) // not complete: nothing is published (yet); from here on the model is only a schedule
			case s.Bool("ok"): // refused although the model accepts
				if old {
					// a schedule of the deviating design (Dev_DiscardAtRunning): the real job refuses the late acknowledgement, as it must
					res.Count("late_ack_refused", 1)
					res.Executed++
					return
				}
				res.Driftf("behaviour %d step %d: the job refuses the acknowledgement of %s for checkpoint %d: %v %s (C12 / C15's subject)", bi, si, id, ck, rerr, pan)
				return
			default:
				if old {
					res.Count("late_ack_refused", 1)
				}
			}
		case "PublishDone":
			ck, known := e.idMap[s.Int("id")]
			if !known {
				res.Driftf("behaviour %d step %d: no real id for model checkpoint %d", bi, si, s.Int("id"))
				return
			}
			if msg := e.publish(ck); msg != "" {
				res.Driftf("behaviour %d step %d: %s", bi, si, msg)
				return
			}
			want := e.newestPub
			deadline := time.Now().Add(waitLong)
			for e.curNow() != want && time.Now().Before(deadline) {
				time.Sleep(200 * time.Microsecond)
			}
			if got := e.curNow(); got != want {
				res.Driftf("behaviour %d step %d: the write of checkpoint %d has returned but the store's current checkpoint is %d, not %d", bi, si, ck, got, want)
				return
			}
			if inStart {
				seen[want] = true
				switch {
				case e.startGate != nil:
					res.Count("publish_before_read", 1)
				case splitGate != nil:
					res.Count("publish_before_deploy", 1)
				case att != nil && len(e.deploys) > 0:
					res.Count("publish_during_deploy", 1)
				default:
					res.Count("publish_after_deploy", 1)
				}
			}
		default:
			res.Errors = append(res.Errors, "unknown action "+s.Str("a"))
			return
		}
	}
	res.Executed++
	res.Count("starts", starts)
	if len(res.Samples) < 2 {
		res.Samples = append(res.Samples, map[string]any{"kind": "Restart behaviour replayed on the real jobs.Job with fake nodes (start() stepped, publication gated)", "steps": beh})
	}
}
