// storejob replays RpcMode behaviours of spec/Store.tla on the REAL jobs.Job
// (property C13, the job -> operator boundary of the retention notifications).
//
// The whole cluster of verif/harness/cluster runs in this process: the real
// jobs.Job with its real snapshots.Store, real source runners and real
// operators with their real DKVs. Two adapter points are gated:
//
//	store.write  the job's snapshot Write       -> PublishWrite(n) releases it
//	op.retain    UpdateRetainedCheckpoints RPC  -> Forward(n) waits until the job
//	             has issued the request [n] to every operator, OpHandle(o, n)
//	             lets operator o handle it (HandleRemoveCheckpoints -> RetainOnly)
//
// A held op.retain call is a slow RPC. Requests in flight to the same operator
// at the same time are not ordered by any transport, so the model (with
// Pre_ForwardConcurrent) lets the operator handle them in any order; the real
// job must not have two of them in flight (it then never reaches such a
// schedule: "serialised"), or the order in which an operator is told what to
// retain is no longer the order in which the checkpoints completed.
//
// Create / OpAck / SrAck steps are the real checkpoint protocol (the job's
// ticker, barriers through the operators, real acknowledgements); the
// notification goroutines of the store and the job's receiver loop run freely.
//
// Verdict (RetainNamesNewest at the boundary): the retained-sets an operator
// handles never go back to an older checkpoint, and at rest the last one names
// the newest completed checkpoint.
package main

import (
	"fmt"
	"reflect"
	"sort"
	"time"

	"verif/harness/cluster"
	"verif/harness/gate"
	"verif/harness/mbt"
)

const (
	wait      = 5 * time.Second
	shortWait = 80 * time.Millisecond
)

type run struct {
	c       *cluster.Cluster
	ops     []string          // model operator names, sorted
	label   map[string]string // model name -> cluster label ("op<i>")
	writes  map[uint64]*gate.Arrival
	retains map[string][]*gate.Arrival // cluster label -> requests parked at the operator, arrival order
	told    map[string][][]uint64      // cluster label -> retained-sets handled, in order
	newest  uint64                     // newest checkpoint whose snapshot write was performed
}

type drift struct{ msg string }

func (d *drift) Error() string        { return d.msg }
func driftf(f string, a ...any) error { return &drift{fmt.Sprintf(f, a...)} }

type serialised struct{}

func (serialised) Error() string { return "serialised by the code" }

type violation struct {
	what     string
	expected any
	observed any
}

func (v *violation) Error() string { return v.what }

func maxU(x []uint64) uint64 {
	var m uint64
	for _, v := range x {
		m = max(m, v)
	}
	return m
}

// file sorts one gate arrival into the run's tables.
func (r *run) file(a *gate.Arrival) {
	call, _ := a.Args[0].(*cluster.Call)
	switch {
	case call == nil:
		a.Release()
	case a.Point == cluster.PStoreWrite && call.Ckpt != 0:
		r.writes[call.Ckpt] = a
	case a.Point == cluster.POpRetain:
		r.retains[call.To] = append(r.retains[call.To], a)
	default:
		a.Release()
	}
}

// collect files every arrival, waiting up to d until pred holds.
func (r *run) collect(pred func() bool, d time.Duration) bool {
	deadline := time.Now().Add(d)
	for {
		for {
			a, err := r.c.Sched().Await(func(*gate.Arrival) bool { return true }, 0)
			if err != nil {
				break
			}
			r.file(a)
		}
		if pred == nil || pred() {
			return true
		}
		rem := time.Until(deadline)
		if rem <= 0 {
			return false
		}
		if a, err := r.c.Sched().Await(func(*gate.Arrival) bool { return true }, rem); err == nil {
			r.file(a)
		}
	}
}

func ids(a *gate.Arrival) []uint64 { return a.Args[0].(*cluster.Call).Ids }

func (r *run) parkedAt(label string) [][]uint64 {
	out := [][]uint64{}
	for _, a := range r.retains[label] {
		out = append(out, ids(a))
	}
	return out
}

func (r *run) step(st mbt.Step) error {
	switch st.Str("a") {
	case "Create":
		if st.Str("ret") != "created" {
			return fmt.Errorf("storejob replays Burst behaviours only (Create must start a checkpoint)")
		}
		go r.c.TickCheckpoint()
	case "OpAck", "SrAck":
		pub := st.Map("pub")
		if pub == nil || pub["id"].(float64) == 0 {
			return nil
		}
		id := uint64(pub["id"].(float64))
		if !r.collect(func() bool { return r.writes[id] != nil }, wait) {
			return driftf("checkpoint %d: the job's snapshot write did not arrive (errors: %v)", id, r.c.Errors())
		}
	case "PublishWrite":
		id := uint64(st.Int("id"))
		a := r.writes[id]
		if a == nil {
			return driftf("PublishWrite(%d): no such write is waiting", id)
		}
		delete(r.writes, id)
		call := a.Args[0].(*cluster.Call)
		a.Release()
		select {
		case <-call.Done():
		case <-time.After(wait):
			return driftf("PublishWrite(%d): the write did not finish", id)
		}
		if call.Err != nil {
			return driftf("PublishWrite(%d): %v", id, call.Err)
		}
		r.newest = max(r.newest, id)
	case "NotifySend":
		// the store's notification goroutines and the job's receiver loop run freely
	case "Forward":
		id := uint64(st.Int("id"))
		busy := len(st.List("busy")) > 0
		d := wait
		if busy {
			d = shortWait
		}
		has := func() bool {
			for _, o := range r.ops {
				found := false
				for _, a := range r.retains[r.label[o]] {
					if reflect.DeepEqual(ids(a), []uint64{id}) {
						found = true
					}
				}
				if !found {
					return false
				}
			}
			return true
		}
		if !r.collect(has, d) {
			if busy {
				return serialised{} // the job does not issue the next request while one is in flight
			}
			return driftf("Forward(%d): the job did not issue UpdateRetainedCheckpoints([%d]) to every operator", id, id)
		}
	case "OpHandle":
		o, id := r.label[st.Str("op")], uint64(st.Int("id"))
		var a *gate.Arrival
		for i, x := range r.retains[o] {
			if reflect.DeepEqual(ids(x), []uint64{id}) {
				a = x
				r.retains[o] = append(r.retains[o][:i:i], r.retains[o][i+1:]...)
				break
			}
		}
		if a == nil {
			return driftf("OpHandle(%s, %d): no such request is in flight (in flight: %v)", o, id, r.parkedAt(o))
		}
		call := a.Args[0].(*cluster.Call)
		a.Release()
		select {
		case <-call.Done():
		case <-time.After(wait):
			return driftf("OpHandle(%s, %d): the operator did not answer", o, id)
		}
		if call.Err != nil {
			return &violation{what: fmt.Sprintf("RetainNamesNewest: operator %s: UpdateRetainedCheckpoints(%v) failed: %v", o, call.Ids, call.Err), observed: fmt.Sprint(call.Err)}
		}
		if prev := r.told[o]; len(prev) > 0 && maxU(call.Ids) < maxU(prev[len(prev)-1]) {
			return &violation{what: fmt.Sprintf("RetainNamesNewest: operator %s is told to retain only %v after it had been told to retain %v: the job issued the later request while the earlier one had not returned, so the slow request is handled last and the operator's last word names an older checkpoint than the newest completed one (%d)",
				o, call.Ids, prev[len(prev)-1], r.newest),
				expected: fmt.Sprintf("a set naming an id >= %d", maxU(prev[len(prev)-1])), observed: map[string]any{"told": append(append([][]uint64{}, prev...), call.Ids)}}
		}
		r.told[o] = append(r.told[o], call.Ids)
	default:
		return fmt.Errorf("unknown action %q", st.Str("a"))
	}
	return nil
}

// post: the requests in flight are the ones the model knows (drift otherwise);
// at rest every operator's last word names the newest completed checkpoint.
func (r *run) post(st mbt.Step) error {
	rpc := st.Map("rpc")
	want := func() bool {
		for _, o := range r.ops {
			if len(r.retains[r.label[o]]) < len(asList(rpc[o])) {
				return false
			}
		}
		return true
	}
	// requests the model does not know about may only show up later; they are judged when handled
	r.collect(want, 0)
	// a retention request names a checkpoint that is not completed (its snapshot write has not been performed):
	// the operators would drop the newest completed checkpoint for one that recovery cannot use
	for _, o := range r.ops {
		for _, a := range r.retains[r.label[o]] {
			if maxU(ids(a)) > r.newest {
				return &violation{what: fmt.Sprintf("RetainNamesNewest: the job tells operator %s to retain only %v although the snapshot of checkpoint %d is not written; the newest completed checkpoint is %d", r.label[o], ids(a), maxU(ids(a)), r.newest),
					expected: r.newest, observed: ids(a)}
			}
		}
	}
	quiet := len(st.List("w")) == 0 && len(st.List("nt")) == 0 && len(st.List("ch")) == 0 && len(r.writes) == 0
	for _, o := range r.ops {
		if len(asList(rpc[o])) > 0 || len(r.retains[r.label[o]]) > 0 {
			quiet = false
		}
	}
	if quiet {
		for _, o := range r.ops {
			t := r.told[r.label[o]]
			if len(t) > 0 && maxU(t[len(t)-1]) != r.newest {
				return &violation{what: fmt.Sprintf("RetainNamesNewest: at rest the last retained-set operator %s was told is %v but the newest completed checkpoint is %d", r.label[o], t[len(t)-1], r.newest),
					expected: r.newest, observed: t}
			}
		}
	}
	return nil
}

func asList(v any) []any { l, _ := v.([]any); return l }

func replay(bi int, beh []mbt.Step, in *mbt.Input, res *mbt.Result) {
	var ops []string
	for _, x := range asList(in.Config["Ops"]) {
		s, _ := x.(string)
		ops = append(ops, s)
	}
	sort.Strings(ops)
	if in.CfgInt("StartId", 0) != 0 || len(asList(in.Config["Srs"])) != len(ops) {
		res.Errors = append(res.Errors, "storejob needs StartId = 0 and as many runners as operators")
		return
	}
	w := len(ops)
	c, err := cluster.New(cluster.Options{Workers: w, KeyGroups: 4, Splits: cluster.MakeSplits(w, 1, func(s, i int) string { return cluster.KeyFor(4, w, s%w, 0) }),
		Gates: []string{cluster.PStoreWrite, cluster.POpRetain}})
	if err != nil {
		res.Errors = append(res.Errors, err.Error())
		return
	}
	defer c.Close()
	if _, err := c.Boot(); err != nil {
		res.Errors = append(res.Errors, fmt.Sprintf("b%d: boot: %v", bi, err))
		return
	}
	r := &run{c: c, ops: ops, label: map[string]string{}, writes: map[uint64]*gate.Arrival{}, retains: map[string][]*gate.Arrival{}, told: map[string][][]uint64{}}
	for i, o := range ops {
		r.label[o] = fmt.Sprintf("op%d", i)
	}
	for si, st := range beh {
		err := r.step(st)
		if err == nil {
			err = r.post(st)
		}
		if err == nil {
			res.Steps++
			res.Count("a:"+st.Str("a"), 1)
			continue
		}
		switch e := err.(type) {
		case *violation:
			res.Violations = append(res.Violations, mbt.Violation{Property: "C13", Behaviour: bi, Step: si, What: e.what, Expected: e.expected, Observed: e.observed})
		case *drift:
			res.Driftf("b%d s%d %s: %s", bi, si, st.Str("a"), e.msg)
		case serialised:
			res.Count("serialised", 1)
			res.Executed++
		default:
			res.Errors = append(res.Errors, fmt.Sprintf("b%d s%d: %v", bi, si, err))
		}
		return
	}
	for _, o := range c.Log(0) {
		if o.Kind == "panic" {
			res.Violations = append(res.Violations, mbt.Violation{Property: "C13", Behaviour: bi, Step: len(beh) - 1, What: "RetainNamesNewest: the code under test panicked at " + o.Node + ": " + o.Text})
			return
		}
	}
	res.Executed++
	if bi == 0 {
		res.Samples = append(res.Samples, map[string]any{"kind": "Store behaviour (RpcMode) replayed on the real jobs.Job", "told": r.told, "steps": beh})
	}
}

func main() { mbt.Main(replay) }
