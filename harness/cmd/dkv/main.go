// dkv replays behaviours of spec/Dkv.tla on the real dkv.DB.
//
// Foreground actions (Put/Delete/Get/Scan/Checkpoint/Retain/Reopen) are API
// calls; background actions (FlushStart/FlushSwap/CompactPick/CompactSwap,
// SaveWal/SaveDoc) release the corresponding real goroutine from its verif
// gate. The replay is adaptive: a background action for which no real
// goroutine is parked (the code rotated or compacted at a different moment
// than the model) is skipped — what the property demands of a read does not
// depend on the background schedule, so this can never cause a false alarm.
//
// Observables and oracles (all "demanded" values are computed by the spec):
//
//	C07: every Get / ScanPrefix result, incl. reads with background steps
//	     between their two captures, and a full read-back at the end;
//	C08: after every step, every returned and still retained checkpoint
//	     handle is opened on a copy of the durable state and must contain
//	     exactly snapAt[id]; the restored database must accept writes;
//	C09: every delete/overwrite in the file-system event log is checked
//	     against what the saved checkpoint document and the handles reference.
package main

import (
	"bytes"
	"encoding/json"
	"fmt"
	"reflect"
	"regexp"
	"runtime"
	"sort"
	"strconv"
	"strings"
	"sync"
	"sync/atomic"
	"time"
	"weak"

	"reduction.dev/reduction/dkv"
	"reduction.dev/reduction/dkv/kv"
	"reduction.dev/reduction/dkv/recovery"
	"reduction.dev/reduction/util/verifhook"
	"verif/harness/fsx"
	"verif/harness/gate"
	"verif/harness/mbt"
)

const wait = 5 * time.Second

var concKeys = [][]string{
	{"", "aa", "ab", "ba", "bb"},                 // equal lengths: the model's size accounting is exact
	{"", "a", "ab", "b", "b\x00"},                // a key that is a prefix of another, binary byte
	{"", "\xfe", "\xfe\xff", "\xff", "\xff\xff"}, // binary, non-UTF-8 keys (table ranges in the JSON document)
}
var concVals = [][]string{
	{"", "v1", "v2", "v3"},
	{"", "", "xyz", "q"}, // value 1 is the EMPTY value: must not be confused with a tombstone
	{"", "\x00", "\x00\x00", "z"},
}

type world struct {
	in    *mbt.Input
	conc  int
	store *fsx.Store
	view  *fsx.View
	db    *dkv.DB
	s     *gate.Sched
	mu    sync.Mutex
	gen   int

	flushState, compState string // "", "start"/"swap", "pick"/"swap"
	flushArr, compArr     *gate.Arrival
	pendingFlush          int
	pendingComp           int
	memCount              int

	rdCh      chan readRes
	rdArr     *gate.Arrival
	rdRes     *readRes
	passReads atomic.Bool // reads issued by the checker itself are not scheduled
	raced     [2]bool     // a flush / compaction swap was let go inside the last DB.Checkpoint call
	overlapHint bool      // the current CompactPick step asks for a flush to build its table during the compaction's
	overlaps    int
	// where the scheduled read of the behaviour is held (Dkv.tla GetHolds / ScanHolds); "between" is the default
	passBetween atomic.Bool  // this read passes the between-captures gate (it is held somewhere else)
	snapGid     atomic.Int64 // goroutine of a Get that is to be held inside memtable.List.Get (once)
	held        chan struct{} // a scan signals that it reached its hold ("returned" / "mid")
	cont        chan struct{} // closed to let a held scan continue
	ckWait    map[int]func() (recovery.CheckpointHandle, error)
	ckArr     map[int]*gate.Arrival
	handles   map[int]recovery.CheckpointHandle
	snap      map[int]map[int]int
	dropped   map[int]bool // checkpoints the caller gave up
	known     map[int]bool // checkpoints in this database instance's list
	fsViol    []string
	sstBy     map[string]string // table file -> view (database instance) that wrote it
	skipped   int
}

// databases whose background goroutines are not scheduled by the replay
// (restored copies, abandoned incarnations, previous behaviours); process-wide
// because dkv's flush and compaction queues are process-wide.
var (
	ignoredMu sync.Mutex
	ignored   []weak.Pointer[dkv.DB] // weak: an ignored database must stay collectable (C09)
)

func isIgnored(db *dkv.DB) bool {
	ignoredMu.Lock()
	defer ignoredMu.Unlock()
	keep := ignored[:0]
	found := false
	for _, wp := range ignored {
		v := wp.Value()
		if v == nil {
			continue
		}
		keep = append(keep, wp)
		if v == db {
			found = true
		}
	}
	ignored = keep
	return found
}

type readRes struct {
	vals  map[int]int // key id -> value id (0 absent)
	order []string
	err   error
	pan   any
}

func (w *world) key(k int) []byte { return []byte(concKeys[w.conc][k]) }
func (w *world) val(v int) []byte { return []byte(concVals[w.conc][v]) }
func (w *world) keyID(b []byte) int {
	for i := 1; i < len(concKeys[w.conc]); i++ {
		if string(b) == concKeys[w.conc][i] {
			return i
		}
	}
	return -1
}
func (w *world) valID(b []byte) int {
	for i := 1; i < len(concVals[w.conc]); i++ {
		if string(b) == concVals[w.conc][i] {
			return i
		}
	}
	return -1
}

func (w *world) opts(v *fsx.View) dkv.DBOptions {
	return dkv.DBOptions{
		FileSystem:                  v,
		MemTableSize:                uint64(w.in.CfgInt("MemCap", 45)),
		MaxWALSize:                  uint64(w.in.CfgInt("WalCap", 0)),
		TargetFileSize:              uint64(w.in.CfgInt("TargetFileSize", 0)),
		L0TableNumCompactionTrigger: w.in.CfgInt("L0Trigger", 2),
	}
}

// hook handler: arrivals of databases the replay does not schedule pass through
func (w *world) hook(point string, args ...any) {
	if point == "dkv.memlist.get" {
		// only the scheduled Get, once, after it took its snapshot of the memtable list
		if g := w.snapGid.Load(); g != 0 && g == gate.Goid() && w.snapGid.CompareAndSwap(g, 0) {
			w.s.At(point, args...)
		}
		return
	}
	if (w.passReads.Load() || w.passBetween.Load()) && (point == "dkv.get.between" || point == "dkv.scan.between") {
		return
	}
	if len(args) > 0 {
		if db, ok := args[0].(*dkv.DB); ok {
			if isIgnored(db) {
				return
			}
		}
	}
	w.s.At(point, args...)
}

func (w *world) ignore(db *dkv.DB) {
	ignoredMu.Lock()
	ignored = append(ignored, weak.Make(db))
	ignoredMu.Unlock()
	w.s.ReleaseWhere(func(a *gate.Arrival) bool { return len(a.Args) > 0 && a.Args[0] == any(db) })
}

func newWorld(in *mbt.Input) *world {
	w := &world{in: in, conc: in.CfgInt("Conc", 0), store: fsx.NewStore(),
		ckWait: map[int]func() (recovery.CheckpointHandle, error){}, ckArr: map[int]*gate.Arrival{},
		handles: map[int]recovery.CheckpointHandle{}, snap: map[int]map[int]int{}, known: map[int]bool{}, dropped: map[int]bool{}}
	w.s = gate.New("dkv.flush.start", "dkv.flush.swap", "dkv.compact.pick", "dkv.compact.swap",
		"dkv.get.between", "dkv.scan.between", "dkv.ckpt.saveWal", "dkv.ckpt.saveDoc", "dkv.memlist.get")
	verifhook.Install(w.hook, func(name string, def int64) int64 {
		if v, ok := in.Config["tune."+name].(float64); ok {
			return int64(v)
		}
		return def
	})
	w.store.OnEvent = w.onFsEvent
	w.view = w.store.View("g0", "/db")
	w.db = dkv.New(w.opts(w.view))
	if err := w.db.Start(nil); err != nil {
		panic(err)
	}
	w.memCount = 1
	return w
}

func (w *world) close() {
	w.s.FreeRun()
	w.ignore(w.db)
	done := make(chan struct{})
	go func() { w.db.WaitOnTasks(); close(done) }()
	select {
	case <-done:
	case <-time.After(wait):
	}
	verifhook.Install(nil, nil)
}

var memRe = regexp.MustCompile(`MemTables \(num: (\d+)\)`)

func (w *world) memTables() int {
	m := memRe.FindStringSubmatch(w.db.Diagnostics())
	if m == nil {
		return w.memCount
	}
	n, _ := strconv.Atoi(m[1])
	return n
}

func isMain(w *world, point string) func(*gate.Arrival) bool {
	return func(a *gate.Arrival) bool { return a.Point == point && len(a.Args) > 0 && a.Args[0] == any(w.db) }
}

// afterWrite notices rotations (each enqueues one flush task) and lets the
// first queued background task reach its gate.
func (w *world) afterWrite() error {
	n := w.memTables()
	if n > w.memCount {
		w.pendingFlush += n - w.memCount
	}
	w.memCount = n
	return w.sync()
}

func (w *world) sync() error {
	if w.flushState == "" && w.pendingFlush > 0 {
		a, err := w.s.Await(isMain(w, "dkv.flush.start"), wait)
		if err != nil {
			return fmt.Errorf("flush task did not start: %v", err)
		}
		w.flushArr, w.flushState = a, "start"
	}
	if w.compState == "" && w.pendingComp > 0 {
		a, err := w.s.Await(isMain(w, "dkv.compact.pick"), wait)
		if err != nil {
			return fmt.Errorf("compaction task did not start: %v", err)
		}
		w.compArr, w.compState = a, "pick"
	}
	return nil
}

func (w *world) bg(action string) error {
	switch action {
	case "FlushStart":
		if w.flushState != "start" {
			w.skipped++
			return nil
		}
		w.flushArr.Release()
		a, err := w.s.Await(isMain(w, "dkv.flush.swap"), wait)
		if err != nil {
			return err
		}
		w.flushArr, w.flushState = a, "swap"
	case "FlushSwap":
		if w.flushState != "swap" {
			w.skipped++
			return nil
		}
		w.flushArr.Release()
		if _, err := w.s.Await(isMain(w, "dkv.flush.swapped"), wait); err != nil {
			return err
		}
		w.flushState, w.flushArr = "", nil
		w.pendingFlush--
		w.pendingComp++
		w.memCount = w.memTables()
		return w.sync()
	case "CompactPick":
		if w.compState != "pick" {
			w.skipped++
			return nil
		}
		overlap := w.overlapHint && w.flushState == "start"
		var once sync.Once
		var ovArr *gate.Arrival
		var ovErr error
		if overlap {
			compGid, flushArr := w.compArr.Gid, w.flushArr
			w.view.Probe = func(op, path string) {
				if op != "new" || !strings.HasSuffix(path, ".sst") || gate.Goid() != compGid {
					return
				}
				once.Do(func() { // the compaction is creating its first output file: the waiting flush builds its table now
					flushArr.Release()
					ovArr, ovErr = w.s.Await(isMain(w, "dkv.flush.swap"), wait)
				})
			}
		}
		w.compArr.Release()
		a, err := w.s.Await(func(a *gate.Arrival) bool {
			return isMain(w, "dkv.compact.swap")(a) || isMain(w, "dkv.compact.done")(a)
		}, wait)
		if overlap {
			w.view.Probe = nil
			fired := true
			once.Do(func() { fired = false }) // the compaction created no table
			if fired {
				if ovErr != nil {
					return ovErr
				}
				w.flushArr, w.flushState = ovArr, "swap"
				w.overlaps++
			}
		}
		if err != nil {
			return err
		}
		if a.Point == "dkv.compact.done" {
			w.compState, w.compArr = "", nil
			w.pendingComp--
			return w.sync()
		}
		w.compArr, w.compState = a, "swap"
	case "CompactSwap":
		if w.compState != "swap" {
			w.skipped++
			return nil
		}
		w.compArr.Release()
		if _, err := w.s.Await(isMain(w, "dkv.compact.swapped"), wait); err != nil {
			return err
		}
		a, err := w.s.Await(isMain(w, "dkv.compact.pick"), wait)
		if err != nil {
			return err
		}
		w.compArr, w.compState = a, "pick"
	}
	return nil
}

// raceCheckpoint calls DB.Checkpoint and, at the first storage call made inside it by the calling goroutine, lets the
// flush / compaction that is parked before its swap go. If Checkpoint is one critical section the swap has to wait for
// it; if it is not, the swap lands in the middle. Either way the contents the checkpoint must restore to are those at
// the call. Afterwards the swap is awaited and accounted for like a FlushSwap / CompactSwap step (the model's own step
// for it is then skipped).
func (w *world) raceCheckpoint(id int) {
	me := gate.Goid()
	fl, cp := w.flushState == "swap", w.compState == "swap"
	var once sync.Once
	w.view.Probe = func(op, path string) {
		if gate.Goid() != me {
			return
		}
		once.Do(func() {
			if fl {
				w.flushArr.Release()
			}
			if cp {
				w.compArr.Release()
			}
			// long enough for an unserialised swap to land, short enough to cost nothing when it has to wait
			dl := time.Now().Add(20 * time.Millisecond)
			for time.Now().Before(dl) {
				if (!fl || w.s.Has(isMain(w, "dkv.flush.swapped"))) && (!cp || w.s.Has(isMain(w, "dkv.compact.swapped"))) {
					break // landed inside the call
				}
				time.Sleep(200 * time.Microsecond)
			}
		})
	}
	w.ckWait[id] = w.db.Checkpoint(uint64(id))
	w.view.Probe = nil
	once.Do(func() { // no storage call inside Checkpoint: release now
		if fl {
			w.flushArr.Release()
		}
		if cp {
			w.compArr.Release()
		}
	})
	w.raced = [2]bool{fl, cp}
}

// afterRace completes the bookkeeping of the swaps let go by raceCheckpoint.
func (w *world) afterRace() error {
	fl, cp := w.raced[0], w.raced[1]
	w.raced = [2]bool{}
	if fl {
		if _, err := w.s.Await(isMain(w, "dkv.flush.swapped"), wait); err != nil {
			return err
		}
		w.flushState, w.flushArr = "", nil
		w.pendingFlush--
		w.pendingComp++
		w.memCount = w.memTables()
	}
	if cp {
		if _, err := w.s.Await(isMain(w, "dkv.compact.swapped"), wait); err != nil {
			return err
		}
		a, err := w.s.Await(isMain(w, "dkv.compact.pick"), wait)
		if err != nil {
			return err
		}
		w.compArr, w.compState = a, "pick"
	}
	if fl || cp {
		return w.sync()
	}
	return nil
}

// read helpers ---------------------------------------------------------------

// awaitRead waits until the read goroutine is parked between its two captures
// or has already returned (a memtable hit never reaches the second capture).
func (w *world) awaitRead(point string) error {
	w.rdArr, w.rdRes = nil, nil
	deadline := time.Now().Add(wait)
	for time.Now().Before(deadline) {
		select {
		case r := <-w.rdCh:
			w.rdRes = &r
			return nil
		default:
		}
		if w.held != nil {
			select {
			case <-w.held:
				return nil
			default:
			}
		} else {
			match := isMain(w, point)
			if point == "dkv.memlist.get" {
				match = gate.Point(point)
			}
			if a, err := w.s.Await(match, 0); err == nil {
				w.rdArr = a
				return nil
			}
		}
		time.Sleep(50 * time.Microsecond)
	}
	return fmt.Errorf("read neither returned nor reached %s", point)
}

func (w *world) finishRead() readRes {
	defer func() { w.passBetween.Store(false); w.snapGid.Store(0); w.held, w.cont = nil, nil }()
	if w.rdRes != nil {
		return *w.rdRes
	}
	if w.cont != nil {
		close(w.cont)
	} else {
		w.rdArr.Release()
	}
	return <-w.rdCh
}

func (w *world) getAll(db *dkv.DB, keys []int) (res readRes) {
	defer func() {
		if p := recover(); p != nil {
			res.pan = p
		}
	}()
	res.vals = map[int]int{}
	for _, k := range keys {
		e, err := db.Get(w.key(k))
		switch {
		case err == kv.ErrNotFound:
			res.vals[k] = 0
		case err != nil:
			res.err = err
			return
		case e.IsDelete():
			res.vals[k] = 0
		default:
			res.vals[k] = w.valID(e.Value())
		}
	}
	return
}

func (w *world) scan(db *dkv.DB, prefix []byte) (res readRes) {
	return w.scanHeld(db, prefix, "", nil, nil)
}

// scanHeld: at = "returned" pauses after DB.ScanPrefix returned its iterator, "mid" after the first pulled entry
// (or at the end of an empty scan); the pause is signalled on held and ends when cont is closed
func (w *world) scanHeld(db *dkv.DB, prefix []byte, at string, held, cont chan struct{}) (res readRes) {
	paused := false
	pause := func() {
		if !paused && held != nil {
			paused = true
			held <- struct{}{}
			<-cont
		}
	}
	defer func() {
		if p := recover(); p != nil {
			res.pan = p
			if !paused && held != nil {
				paused = true
				held <- struct{}{} // never leave the replayer waiting for a hold that cannot come
			}
		}
	}()
	res.vals = map[int]int{}
	var serr error
	it := db.ScanPrefix(prefix, &serr)
	if at == "returned" {
		pause()
	}
	for e := range it {
		res.order = append(res.order, string(e.Key()))
		id := w.keyID(e.Key())
		switch _, dup := res.vals[id]; {
		case e.IsDelete():
			res.vals[id] = -2 // a tombstone must not be yielded
		case dup:
			res.vals[id] = -3 // yielded twice
		default:
			res.vals[id] = w.valID(e.Value())
		}
		if at == "mid" {
			pause() // after the first pulled entry
		}
	}
	if at == "mid" {
		pause() // nothing was yielded
	}
	res.err = serr
	return
}

// prefix bytes selecting exactly the key-id set P (from the model) under this concretisation
func (w *world) prefixFor(P []int) ([]byte, bool) {
	cands := [][]byte{nil}
	for i := 1; i < len(concKeys[w.conc]); i++ {
		k := concKeys[w.conc][i]
		for l := 1; l <= len(k); l++ {
			cands = append(cands, []byte(k[:l]))
		}
	}
	nkeys := w.in.CfgInt("NKeys", 3)
	for _, c := range cands {
		var sel []int
		for i := 1; i <= nkeys; i++ {
			if bytes.HasPrefix(w.key(i), c) {
				sel = append(sel, i)
			}
		}
		if reflect.DeepEqual(sel, P) {
			return c, true
		}
	}
	return nil, false
}

func demandedMap(st mbt.Step, field string) map[int]int {
	out := map[int]int{}
	switch d := st[field].(type) {
	case []any: // TLA+ function with domain 1..n serialises as an array
		for i, v := range d {
			out[i+1] = int(v.(float64))
		}
	case map[string]any:
		for k, v := range d {
			ki, _ := strconv.Atoi(k)
			out[ki] = int(v.(float64))
		}
	}
	return out
}

func sameContent(got, want map[int]int) bool {
	for k, v := range want {
		if got[k] != v {
			return false
		}
	}
	for k, v := range got {
		if want[k] != v {
			return false
		}
	}
	return true
}

func sortedAsc(keys []string) bool { return sort.StringsAreSorted(keys) }

// concurrentFirstReads: two goroutines read every key of the freshly opened
// database while the first file read is held; both must see the restored contents.
func (w *world) concurrentFirstReads(keys []int, want map[int]int) *mbt.Violation {
	var first atomic.Bool
	release := make(chan struct{})
	w.view.BeforeRead = func(string) {
		if first.CompareAndSwap(false, true) {
			<-release
		}
	}
	defer func() { w.view.BeforeRead = nil }()
	w.passReads.Store(true)
	defer w.passReads.Store(false)
	out := make(chan readRes, 2)
	db := w.db
	go func() { out <- w.getAll(db, keys) }()
	time.Sleep(300 * time.Microsecond)
	go func() { out <- w.getAll(db, keys) }()
	time.Sleep(700 * time.Microsecond)
	close(release)
	for i := 0; i < 2; i++ {
		r := <-out
		if r.pan != nil || r.err != nil {
			return &mbt.Violation{Property: "C08", What: fmt.Sprintf("concurrent first reads of the re-opened database fail: %v %v", r.pan, r.err)}
		}
		for _, k := range keys {
			if r.vals[k] != want[k] {
				return &mbt.Violation{Property: "C08", What: "concurrent first reads of the re-opened database return different contents", Expected: want, Observed: r.vals}
			}
		}
	}
	return nil
}

// C08 -------------------------------------------------------------------------

type docT struct {
	Checkpoints []struct {
		ID   uint64 `json:"id"`
		WALs []struct {
			URI string `json:"uri"`
		} `json:"wals"`
		Levels [][]struct{ URI string } `json:"levels"`
	} `json:"checkpoints"`
}

func (w *world) savedDoc(read func(string) ([]byte, bool)) *docT {
	b, ok := read("/db/checkpoints")
	if !ok {
		return nil
	}
	d := &docT{}
	if json.Unmarshal(b, d) != nil {
		return nil
	}
	return d
}

func (w *world) retainedIDs() map[int]bool {
	out := map[int]bool{}
	if d := w.savedDoc(w.store.Read); d != nil {
		for _, c := range d.Checkpoints {
			out[int(c.ID)] = true
		}
	}
	return out
}

// checkHandles opens every returned+retained handle on a copy of the durable
// state ("the process is abandoned now") and compares with snapAt.
func (w *world) checkHandles(res *mbt.Result, bi, si int) *mbt.Violation {
	ret := w.retainedIDs()
	ids := []int{}
	for id := range w.handles {
		if w.dropped[id] {
			continue
		}
		if !ret[id] {
			prop := "C08"
			if w.in.Property == "C09" {
				prop = "C09" // a retained checkpoint was removed from the document (its files follow at the next save)
			}
			return &mbt.Violation{Property: prop, Behaviour: bi, Step: si,
				What: fmt.Sprintf("the completed handle of checkpoint %d names a checkpoint that is not in the saved checkpoint document although the caller never dropped it (retained in document: %v)", id, ret), Expected: w.snap[id]}
		}
		ids = append(ids, id)
	}
	sort.Ints(ids)
	nkeys := w.in.CfgInt("NKeys", 3)
	keys := make([]int, nkeys)
	for i := range keys {
		keys[i] = i + 1
	}
	for _, id := range ids {
		clone := w.store.Clone()
		v := clone.View(fmt.Sprintf("restore%d", id), "/db")
		var db *dkv.DB
		var pan any
		func() {
			defer func() { pan = recover() }()
			// dkv's flush queue is process-wide and the scheduled database may hold it
			// at a gate: the copy gets a memtable large enough never to rotate
			o := w.opts(v)
			o.MemTableSize = 1 << 20
			o.MaxWALSize = 0
			db = dkv.New(o)
			w.ignore(db)
			if err := db.Start([]recovery.CheckpointHandle{w.handles[id]}); err != nil {
				pan = err
			}
		}()
		res.Count("restores", 1)
		if pan != nil {
			// a completed checkpoint that is still retained cannot be opened: its files or its entry in the checkpoints
			// document are gone. In a C09 run (retention, garbage collection, re-opening) that is C09's subject.
			prop := "C08"
			if w.in.Property == "C09" {
				prop = "C09"
			}
			return &mbt.Violation{Property: prop, Behaviour: bi, Step: si,
				What: fmt.Sprintf("opening checkpoint %d from its completed handle fails: %v", id, pan), Expected: w.snap[id]}
		}
		g := w.getAll(db, keys)
		sc := w.scan(db, nil)
		if g.pan != nil || g.err != nil || sc.pan != nil || sc.err != nil {
			return &mbt.Violation{Property: "C08", Behaviour: bi, Step: si,
				What: fmt.Sprintf("reading the database restored from checkpoint %d fails: %v %v %v %v", id, g.pan, g.err, sc.pan, sc.err)}
		}
		want := w.snap[id]
		wantLive := map[int]int{}
		for k, v := range want {
			if v != 0 {
				wantLive[k] = v
			}
		}
		if !sameContent(g.vals, want) {
			return &mbt.Violation{Property: "C08", Behaviour: bi, Step: si,
				What: fmt.Sprintf("checkpoint %d restores to different contents (Get)", id), Expected: want, Observed: g.vals}
		}
		if !sameContent(sc.vals, wantLive) || !sortedAsc(sc.order) {
			return &mbt.Violation{Property: "C08", Behaviour: bi, Step: si,
				What: fmt.Sprintf("checkpoint %d restores to different contents (ScanPrefix)", id), Expected: wantLive, Observed: sc.vals}
		}
		// the restored database accepts new writes normally
		for _, k := range keys {
			nv := want[k]%2 + 1
			db.Put(w.key(k), w.val(nv))
			g2 := w.getAll(db, []int{k})
			if g2.pan != nil || g2.err != nil || g2.vals[k] != nv {
				return &mbt.Violation{Property: "C08", Behaviour: bi, Step: si,
					What: fmt.Sprintf("database restored from checkpoint %d does not return a new write to key %d", id, k), Expected: nv, Observed: g2.vals}
			}
		}
		db.Delete(w.key(1))
		if g3 := w.getAll(db, []int{1}); g3.vals[1] != 0 {
			return &mbt.Violation{Property: "C08", Behaviour: bi, Step: si,
				What: fmt.Sprintf("database restored from checkpoint %d does not honour a delete", id), Observed: g3.vals}
		}
		v.Kill()
	}
	return nil
}

// C09: file-system events --------------------------------------------------------

// onFsEvent runs before a durable effect is applied: a delete or a content-
// changing overwrite of a file that the saved checkpoint document (restricted
// to checkpoints whose handle has been returned) references is a violation.
func (w *world) onFsEvent(e fsx.Event, s *fsx.Store) {
	// table files are written once: a database instance that writes the same table file twice has two tables (the
	// first one possibly live or part of a checkpoint being saved) sharing one file, and the first lost its content
	if strings.HasSuffix(e.Path, ".sst") {
		if w.sstBy == nil {
			w.sstBy = map[string]string{}
		}
		switch e.Op {
		case "create":
			w.sstBy[e.Path] = e.View
		case "overwrite":
			if w.sstBy[e.Path] == e.View {
				w.fsViol = append(w.fsViol, fmt.Sprintf("table file %s is written a second time by the same database instance (%s): the table that was written first lost its file", e.Path, e.View))
			}
			w.sstBy[e.Path] = e.View
		case "delete":
			delete(w.sstBy, e.Path)
		}
	}
	if e.Op != "delete" && e.Op != "overwrite" {
		return
	}
	if strings.HasSuffix(e.Path, "/checkpoints") {
		return
	}
	d := w.savedDoc(s.ReadLocked)
	if d == nil {
		return
	}
	for _, c := range d.Checkpoints {
		w.mu.Lock()
		_, returned := w.handles[int(c.ID)]
		gone := w.dropped[int(c.ID)]
		w.mu.Unlock()
		if !returned || gone {
			continue
		}
		refs := []string{}
		for _, wl := range c.WALs {
			refs = append(refs, wl.URI)
		}
		for _, l := range c.Levels {
			for _, t := range l {
				refs = append(refs, t.URI)
			}
		}
		for _, r := range refs {
			if strings.TrimPrefix(r, "memory://") == e.Path {
				w.fsViol = append(w.fsViol, fmt.Sprintf("%s of %s (by %s %s) while retained checkpoint %d references it", e.Op, e.Path, e.View, e.Via, c.ID))
			}
		}
	}
}

// gc forces collection of unreachable tables and lets their cleanups run.
func (w *world) gc() {
	for i := 0; i < 3; i++ {
		runtime.GC()
		time.Sleep(3 * time.Millisecond)
	}
}

// replay ---------------------------------------------------------------------

func replay(bi int, beh []mbt.Step, in *mbt.Input, res *mbt.Result) {
	w := newWorld(in)
	defer w.close()
	nkeys := in.CfgInt("NKeys", 3)
	allKeys := make([]int, nkeys)
	for i := range allKeys {
		allKeys[i] = i + 1
	}
	oracle := map[int]int{}
	fail := func(v *mbt.Violation) { res.Violations = append(res.Violations, *v) }
	machinery := func(si int, err error) {
		res.Errors = append(res.Errors, fmt.Sprintf("b%d s%d: %v", bi, si, err))
	}
	for si, st := range beh {
		a := st.Str("a")
		switch a {
		case "Put", "Delete":
			k, v := st.Int("k"), st.Int("v")
			if a == "Put" {
				w.db.Put(w.key(k), w.val(v))
			} else {
				w.db.Delete(w.key(k))
			}
			oracle[k] = v
			if err := w.afterWrite(); err != nil {
				machinery(si, err)
				return
			}
		case "FlushStart", "FlushSwap", "CompactPick", "CompactSwap":
			w.overlapHint = a == "CompactPick" && st.Bool("overlap")
			if err := w.bg(a); err != nil {
				machinery(si, err)
				return
			}
		case "GetBegin":
			k := st.Int("k")
			w.rdCh = make(chan readRes, 1)
			db := w.db
			point := "dkv.get.between"
			if st.Str("at") == "snap" {
				point = "dkv.memlist.get"
				w.passBetween.Store(true)
			}
			go func() {
				if point == "dkv.memlist.get" {
					w.snapGid.Store(gate.Goid())
				}
				w.rdCh <- w.getAll(db, []int{k})
			}()
			if err := w.awaitRead(point); err != nil {
				machinery(si, err)
				return
			}
			res.Count("get_hold_"+point, 1)
		case "GetEnd":
			r := w.finishRead()
			k := st.Int("k")
			want := st.Int("demanded")
			res.Count("gets", 1)
			if r.pan != nil || r.err != nil {
				fail(&mbt.Violation{Property: "C07", Behaviour: bi, Step: si, What: fmt.Sprintf("Get(%q) failed: %v %v", w.key(k), r.pan, r.err)})
				return
			}
			if r.vals[k] != want {
				fail(&mbt.Violation{Property: "C07", Behaviour: bi, Step: si,
					What: fmt.Sprintf("Get(%q) does not return the latest write", w.key(k)), Expected: want, Observed: r.vals[k]})
				return
			}
		case "ScanBegin":
			P := st.Ints("p")
			prefix, ok := w.prefixFor(P)
			if !ok {
				machinery(si, fmt.Errorf("no prefix selects %v", P))
				return
			}
			w.rdCh = make(chan readRes, 1)
			db := w.db
			if at := st.Str("at"); at == "returned" || at == "mid" {
				w.passBetween.Store(true)
				w.held, w.cont = make(chan struct{}, 1), make(chan struct{})
				held, cont := w.held, w.cont
				go func() { w.rdCh <- w.scanHeld(db, prefix, at, held, cont) }()
				res.Count("scan_hold_"+at, 1)
			} else {
				go func() { w.rdCh <- w.scan(db, prefix) }()
				res.Count("scan_hold_between", 1)
			}
			if err := w.awaitRead("dkv.scan.between"); err != nil {
				machinery(si, err)
				return
			}
		case "ScanEnd":
			r := w.finishRead()
			res.Count("scans", 1)
			want := map[int]int{}
			for k, v := range demandedMap(st, "demanded") {
				if v != 0 {
					want[k] = v
				}
			}
			if r.pan != nil || r.err != nil {
				fail(&mbt.Violation{Property: "C07", Behaviour: bi, Step: si, What: fmt.Sprintf("ScanPrefix failed: %v %v", r.pan, r.err)})
				return
			}
			if !sameContent(r.vals, want) || !sortedAsc(r.order) {
				fail(&mbt.Violation{Property: "C07", Behaviour: bi, Step: si,
					What:     "ScanPrefix does not return exactly the live keys with their latest values, ascending, once each",
					Expected: want, Observed: map[string]any{"vals": r.vals, "order": r.order}})
				return
			}
		case "Checkpoint":
			id := st.Int("id")
			w.snap[id] = demandedMap(st, "snap")
			w.known[id] = true
			if st.Bool("race") && (w.flushState == "swap" || w.compState == "swap") {
				w.raceCheckpoint(id)
				res.Count("checkpoints_raced_with_a_swap", 1)
			} else {
				w.ckWait[id] = w.db.Checkpoint(uint64(id))
			}
			// the save task parks before saving the WAL (or, should the code skip that, before saving the document)
			arr, err := w.s.Await(func(a *gate.Arrival) bool {
				return (isMain(w, "dkv.ckpt.saveWal")(a) || isMain(w, "dkv.ckpt.saveDoc")(a)) && a.Args[1] == any(uint64(id))
			}, wait)
			if err != nil {
				machinery(si, err)
				return
			}
			w.ckArr[id] = arr
			if err := w.afterRace(); err != nil {
				machinery(si, err)
				return
			}
		case "SaveWal":
			id := st.Int("id")
			if w.ckArr[id].Point == "dkv.ckpt.saveDoc" {
				w.skipped++ // the code has no separate WAL save step for this checkpoint
				break
			}
			w.ckArr[id].Release()
			arr, err := w.s.Await(func(a *gate.Arrival) bool {
				return isMain(w, "dkv.ckpt.saveDoc")(a) && a.Args[1] == any(uint64(id))
			}, wait)
			if err != nil {
				machinery(si, err)
				return
			}
			w.ckArr[id] = arr
		case "SaveDoc":
			id := st.Int("id")
			w.ckArr[id].Release()
			h, err := w.ckWait[id]()
			if err != nil {
				machinery(si, fmt.Errorf("checkpoint %d save: %v", id, err))
				return
			}
			w.mu.Lock()
			w.handles[id] = h
			w.mu.Unlock()
			res.Count("checkpoints", 1)
		case "GcRun":
			w.gc()
			res.Count("gcs", 1)
			w.passReads.Store(true)
			g := w.getAll(w.db, allKeys)
			sc := w.scan(w.db, nil)
			w.passReads.Store(false)
			want := demandedMap(st, "demanded")
			live := map[int]int{}
			for k, v := range want {
				if v != 0 {
					live[k] = v
				}
			}
			if g.pan != nil || g.err != nil || sc.pan != nil || sc.err != nil {
				fail(&mbt.Violation{Property: "C09", Behaviour: bi, Step: si,
					What: fmt.Sprintf("after garbage collection the live database cannot be read: %v %v %v %v", g.pan, g.err, sc.pan, sc.err)})
				return
			}
			if !sameContent(g.vals, want) || !sameContent(sc.vals, live) {
				fail(&mbt.Violation{Property: "C09", Behaviour: bi, Step: si,
					What: "after garbage collection the live database lost or changed entries", Expected: want, Observed: g.vals})
				return
			}
		case "RetainFail":
			ids := []uint64{}
			top := uint64(0)
			named := map[int]bool{}
			for _, i := range st.Ints("ids") {
				ids = append(ids, uint64(i))
				top = max(top, uint64(i))
				named[i] = true
			}
			for id := range w.known {
				if !named[id] && uint64(id) < top {
					w.dropped[id] = true
				}
			}
			failed := false
			w.view.FailSave = func(path string) error {
				if strings.HasSuffix(path, "/checkpoints") && !failed {
					failed = true
					return fmt.Errorf("injected storage fault saving %s", path)
				}
				return nil
			}
			err := w.db.UpdateRetainedCheckpoints(ids)
			w.view.FailSave = nil
			if err == nil && failed {
				fail(&mbt.Violation{Property: "C09", Behaviour: bi, Step: si, What: "UpdateRetainedCheckpoints reported success although saving the checkpoints document failed"})
				return
			}
			res.Count("failed_retention_saves", 1)
		case "Retain":
			ids := []uint64{}
			for _, i := range st.Ints("ids") {
				ids = append(ids, uint64(i))
			}
			top := uint64(0)
			named := map[int]bool{}
			for _, i := range ids {
				top = max(top, i)
				named[int(i)] = true
			}
			for id := range w.known {
				if !named[id] && uint64(id) < top {
					w.dropped[id] = true
				}
			}
			before := w.savedDoc(w.store.Read)
			if err := w.db.UpdateRetainedCheckpoints(ids); err != nil {
				machinery(si, err)
				return
			}
			// WALs referenced only by dropped checkpoints are removed once the update is saved
			after := w.savedDoc(w.store.Read)
			if before != nil && after != nil {
				kept := map[string]bool{}
				for _, c := range after.Checkpoints {
					for _, wl := range c.WALs {
						kept[wl.URI] = true
					}
				}
				for _, c := range before.Checkpoints {
					if !w.known[int(c.ID)] {
						continue // a checkpoint of an earlier incarnation that this database never loaded
					}
					for _, wl := range c.WALs {
						if !kept[wl.URI] && w.store.Exists(strings.TrimPrefix(wl.URI, "memory://")) {
							fail(&mbt.Violation{Property: "C09", Behaviour: bi, Step: si,
								What: fmt.Sprintf("WAL %s of dropped checkpoint %d still exists after the retention update was saved", wl.URI, c.ID)})
							return
						}
					}
				}
			}
		case "Reopen":
			id := st.Int("id")
			old := w.db
			crash := !st.Has("crash") || st.Bool("crash")
			if crash {
				w.view.Kill() // the process is abandoned: nothing of it reaches storage any more
				w.ignore(old)
			} else {
				// same process (operator redeploy): the replaced instance keeps running
				// until its queued background work is done, then becomes garbage
				w.ignore(old)
				w.s.ReleaseWhere(func(a *gate.Arrival) bool { return true })
				if err := old.WaitOnTasks(); err != nil {
					machinery(si, err)
					return
				}
			}
			old = nil
			w.flushArr, w.compArr, w.rdArr = nil, nil, nil
			for k := range w.known {
				if k != id {
					w.dropped[k] = true
				}
			}
			for k := range w.handles {
				if k != id {
					w.dropped[k] = true
				}
			}
			w.known = map[int]bool{id: true}
			w.gen++
			w.view = w.store.View(fmt.Sprintf("g%d", w.gen), "/db")
			var pan any
			func() {
				defer func() { pan = recover() }()
				w.db = dkv.New(w.opts(w.view))
				if err := w.db.Start([]recovery.CheckpointHandle{w.handles[id]}); err != nil {
					pan = err
				}
			}()
			if pan != nil {
				fail(&mbt.Violation{Property: "C08", Behaviour: bi, Step: si, What: fmt.Sprintf("re-opening from checkpoint %d fails: %v", id, pan)})
				return
			}
			w.flushState, w.compState, w.flushArr, w.compArr = "", "", nil, nil
			w.pendingFlush, w.pendingComp, w.memCount = 0, 0, 1
			w.ckWait, w.ckArr = map[int]func() (recovery.CheckpointHandle, error){}, map[int]*gate.Arrival{}
			oracle = map[int]int{}
			for k, v := range w.snap[id] {
				oracle[k] = v
			}
			if err := w.afterWrite(); err != nil {
				machinery(si, err)
				return
			}
			res.Count("reopens", 1)
			// the first reads of the re-opened tables may come from two goroutines at once (the event loop's Get
			// and a background compaction's scan): hold the first reader inside its first file read, start a second
			if v := w.concurrentFirstReads(allKeys, oracle); v != nil {
				v.Behaviour, v.Step = bi, si
				fail(v)
				return
			}
		default:
			machinery(si, fmt.Errorf("unknown action %q", a))
			return
		}
		res.Steps++
		if in.CfgBool("CheckRestore", true) && a != "GetBegin" && a != "ScanBegin" {
			if v := w.checkHandles(res, bi, si); v != nil {
				fail(v)
				return
			}
		}
		if len(w.fsViol) > 0 && in.CfgBool("CheckFs", true) {
			fail(&mbt.Violation{Property: "C09", Behaviour: bi, Step: si, What: w.fsViol[0]})
			return
		}
	}
	// end: let the background finish, then read everything back
	w.s.FreeRun()
	if err := w.db.WaitOnTasks(); err != nil {
		machinery(len(beh), err)
		return
	}
	g := w.getAll(w.db, allKeys)
	sc := w.scan(w.db, nil)
	live := map[int]int{}
	for _, k := range allKeys {
		if oracle[k] != 0 {
			live[k] = oracle[k]
		}
		if _, ok := oracle[k]; !ok {
			oracle[k] = 0
		}
	}
	if g.pan != nil || g.err != nil || !sameContent(g.vals, oracle) {
		fail(&mbt.Violation{Property: "C07", Behaviour: bi, Step: len(beh), What: "final Get of every key differs from the latest writes",
			Expected: oracle, Observed: fmt.Sprintf("%v %v %v", g.vals, g.err, g.pan)})
		return
	}
	if sc.pan != nil || sc.err != nil || !sameContent(sc.vals, live) || !sortedAsc(sc.order) {
		fail(&mbt.Violation{Property: "C07", Behaviour: bi, Step: len(beh), What: "final ScanPrefix(all) differs from the live keys",
			Expected: live, Observed: fmt.Sprintf("%v %v %v %v", sc.vals, sc.order, sc.err, sc.pan)})
		return
	}
	if in.CfgBool("CheckRestore", true) {
		if v := w.checkHandles(res, bi, len(beh)); v != nil {
			fail(v)
			return
		}
	}
	if len(w.fsViol) > 0 && in.CfgBool("CheckFs", true) {
		fail(&mbt.Violation{Property: "C09", Behaviour: bi, Step: len(beh), What: w.fsViol[0]})
		return
	}
	// storage read faults: a read of the final database whose n-th storage read fails may report the failure (error or
	// panic); it must not answer with anything but the latest writes (a failed read treated as "not found" shows an
	// older level's value or nothing)
	if in.CfgBool("ReadFaults", false) {
		errInjected := fmt.Errorf("injected storage fault: read failed (connection reset by peer)")
		try := func(n int, f func() readRes) (readRes, bool) {
			cnt, fired := 0, false
			var mu sync.Mutex
			w.view.FailRead = func(string) error { // the database is quiescent: every read belongs to f (scans pull through coroutines)
				mu.Lock()
				defer mu.Unlock()
				if cnt++; cnt == n {
					fired = true
					return errInjected
				}
				return nil
			}
			r := f()
			w.view.FailRead = nil
			return r, fired
		}
		w.passReads.Store(true)
		defer w.passReads.Store(false)
		for _, k := range allKeys {
			for n := 1; n <= 6; n++ {
				r, fired := try(n, func() readRes { return w.getAll(w.db, []int{k}) })
				if !fired {
					break
				}
				res.Count("gets_with_a_failing_read", 1)
				if r.pan != nil || r.err != nil {
					res.Count("failing_read_reported_by_get", 1)
					continue
				}
				if r.vals[k] != oracle[k] {
					fail(&mbt.Violation{Property: "C07", Behaviour: bi, Step: len(beh),
						What:     fmt.Sprintf("Get(%q) whose storage read #%d failed does not report the failure and does not return the latest write", w.key(k), n),
						Expected: oracle[k], Observed: r.vals[k]})
					return
				}
			}
		}
		for n := 1; n <= 10; n++ {
			r, fired := try(n, func() readRes { return w.scan(w.db, nil) })
			if !fired {
				break
			}
			res.Count("scans_with_a_failing_read", 1)
			if r.pan != nil || r.err != nil {
				res.Count("failing_read_reported_by_scan", 1)
				continue
			}
			if !sameContent(r.vals, live) || !sortedAsc(r.order) {
				fail(&mbt.Violation{Property: "C07", Behaviour: bi, Step: len(beh),
					What:     fmt.Sprintf("ScanPrefix(all) whose storage read #%d failed does not report the failure and does not return exactly the live keys", n),
					Expected: live, Observed: fmt.Sprintf("%v %v", r.vals, r.order)})
				return
			}
		}
	}
	res.Count("skipped_bg_steps", w.skipped)
	res.Count("flush_builds_during_compaction_builds", w.overlaps)
	res.Executed++
}

func main() { mbt.Main(replay) }
