// clusterdemo is the self-test of verif/harness/cluster: registration ->
// deploy -> events -> checkpoint -> kill -> restart -> more events -> final
// state check, all in one process on the real Job / SourceRunner / Operator.
// Exit 0 and "clusterdemo ok" when every check passes.
package main

import (
	"flag"
	"fmt"
	"os"
	"sort"
	"time"

	"verif/harness/cluster"
	"verif/harness/gate"
)

var dump = func() {}

func fail(f string, a ...any) {
	dump()
	fmt.Fprintf(os.Stderr, "clusterdemo FAILED: "+f+"\n", a...)
	os.Exit(1)
}

func main() {
	workers := flag.Int("workers", 2, "workers")
	recs := flag.Int("recs", 6, "records per split")
	verbose := flag.Bool("v", false, "print the observation log")
	opBatch := flag.Int("opbatch", 1, "operator batch size")
	reverse := flag.Bool("reverse-acks", false, "deliver the operator acks of checkpoint 1 in reverse key-range order (reproduces DESIGN 7 #20: AssignRanges assumes sorted input)")
	flag.Parse()
	t0 := time.Now()
	const kg = 4
	splits := cluster.MakeSplits(3, *recs, func(s, i int) string { return cluster.KeyFor(kg, *workers, (s+i)%*workers, i%2) })
	opt := cluster.Options{Workers: *workers, KeyGroups: kg, Splits: splits, OpBatch: *opBatch, Gates: []string{cluster.PJobOpAck}}
	if *verbose {
		opt.Log = os.Stderr
	}
	if *opBatch > 1 {
		opt.OpDelay = 2 * time.Millisecond
	}
	c, err := cluster.New(opt)
	if err != nil {
		fail("%v", err)
	}
	defer c.Close()
	if *verbose {
		dump = func() {
			for _, o := range c.Log(0) {
				fmt.Printf("%+v\n", o)
			}
		}
	}

	restored, err := c.Boot()
	if err != nil || restored != 0 {
		fail("boot: restored=%d err=%v", restored, err)
	}
	fmt.Printf("booted generation %d in %v\n", c.Gen(), time.Since(t0))

	// events: half of every split
	half := *recs / 2
	for s := range splits {
		c.PermitRead(c.SplitOwner(s), s, half)
	}
	want := half * len(splits)
	waitGivens(c, 0, want)

	// checkpoint 1: hold every operator ack, then deliver them in key-range order (or reversed)
	go c.TickCheckpoint()
	var acks []*gate.Arrival
	for i := 0; i < *workers; i++ {
		a, err := c.Sched().Await(gate.Point(cluster.PJobOpAck), 5*time.Second)
		if err != nil {
			fail("operator ack %d did not arrive: %v", i, err)
		}
		acks = append(acks, a)
	}
	sort.Slice(acks, func(i, j int) bool {
		a, b := acks[i].Args[0].(*cluster.Call).From, acks[j].Args[0].(*cluster.Call).From
		if *reverse {
			return a > b
		}
		return a < b
	})
	for i := range acks {
		call := acks[i].Args[0].(*cluster.Call)
		acks[i].Release()
		<-call.Done()
		if call.Err != nil {
			fail("ack of %s: %v", call.From, call.Err)
		}
	}
	if _, ok := c.WaitObs(0, 5*time.Second, func(o cluster.Obs) bool { return o.Kind == "published" && o.Ckpt == 1 }); !ok {
		fail("checkpoint 1 was not published")
	}
	pub := c.Published()[0]
	for s := range splits {
		if pub.Cursors[s] != half {
			fail("published cursor of split %d = %d, want %d", s, pub.Cursors[s], half)
		}
	}
	ck, err := c.LatestPublished()
	if err != nil || ck == nil {
		fail("latest published: %v", err)
	}
	st, err := c.ReadCheckpointState(ck)
	if err != nil {
		fail("reading checkpoint 1 back: %v", err)
	}
	if d := cluster.DiffStates(cluster.ExpectedAt(splits, st.Cursors), st.Keys); d != "" {
		fail("checkpoint 1 is not the failure-free state at its cursors: %s", d)
	}
	fmt.Printf("checkpoint 1 published: cursors=%v, %d keys read back\n", pub.Cursors, len(st.Keys))

	// one more record per split after the checkpoint, then kill worker 1
	for s := range splits {
		c.PermitRead(c.SplitOwner(s), s, 1)
	}
	waitGivens(c, 0, want+len(splits))
	c.Kill(fmt.Sprintf("w%d", *workers-1))
	mark := len(c.Log(0))
	restored, err = c.Restart()
	if err != nil {
		fail("restart: %v", err)
	}
	if restored != 1 {
		fail("restarted from checkpoint %d, want 1", restored)
	}
	fmt.Printf("killed w%d, restarted generation %d from checkpoint %d\n", *workers-1, c.Gen(), restored)

	// more events: the rest of every split, read automatically
	c.SetAutoRead(true)
	waitGivens(c, mark, (*recs-half)*len(splits))

	// every handler invocation must have been given the failure-free state
	for _, g := range c.Givens(0) {
		if g.SeenCnt != 0 || g.SeenLast != cluster.PrevSameKey(splits, g.Rec) {
			fail("handler of %s was given cnt=%d last=%d for record %s (failure-free: 0, %d)", g.Op, g.SeenCnt, g.SeenLast, g.Rec.ID(), cluster.PrevSameKey(splits, g.Rec))
		}
	}

	// final state: checkpoint 2 and read it back
	go c.TickCheckpoint()
	for i := 0; i < *workers; i++ {
		a, err := c.Sched().Await(gate.Point(cluster.PJobOpAck), 5*time.Second)
		if err != nil {
			fail("operator ack did not arrive: %v", err)
		}
		a.Release()
	}
	if _, ok := c.WaitObs(mark, 5*time.Second, func(o cluster.Obs) bool { return o.Kind == "published" && o.Ckpt == 2 }); !ok {
		fail("checkpoint 2 was not published")
	}
	ck, _ = c.LatestPublished()
	st, err = c.ReadCheckpointState(ck)
	if err != nil {
		fail("reading checkpoint 2 back: %v", err)
	}
	if d := cluster.DiffStates(cluster.Expected(splits), st.Keys); d != "" {
		fail("final state differs from the failure-free run: %s", d)
	}
	for k, where := range st.Where {
		if len(where) != 1 || cluster.OpIndexOfID(st.Ops[where[0]].Op) != cluster.OwnerOf(kg, *workers, k) {
			fail("key %s found in operator checkpoints %v", k, where)
		}
	}
	if *verbose {
		for _, o := range c.Log(0) {
			fmt.Printf("%+v\n", o)
		}
	}
	fmt.Printf("clusterdemo ok: %d givens, final state = failure-free state, %v\n", len(c.Givens(0)), time.Since(t0))
}

func waitGivens(c *cluster.Cluster, from, n int) {
	deadline := time.Now().Add(10 * time.Second)
	for len(c.Givens(from)) < n {
		if time.Now().After(deadline) {
			fail("only %d of %d handler invocations happened; log tail: %+v", len(c.Givens(from)), n, tail(c.Log(0), 8))
		}
		time.Sleep(time.Millisecond)
	}
}

func tail(l []cluster.Obs, n int) []cluster.Obs {
	if len(l) > n {
		return l[len(l)-n:]
	}
	return l
}
