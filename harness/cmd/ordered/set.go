package main

import (
	"fmt"

	"reduction.dev/reduction/util/ds"
	"verif/harness/mbt"
)

// spec/OrderedSet.tla -> util/ds.Set[string] (two registers)
type setReplayer struct {
	reg [3]*ds.Set[string]
}

func init() {
	replayers["set"] = func(e *env) replayer {
		return &setReplayer{reg: [3]*ds.Set[string]{nil, ds.NewSet[string](0), ds.NewSet[string](2)}}
	}
}

func (e *env) strs(v any) []string {
	ks := e.keys(v)
	out := make([]string, len(ks))
	for i, k := range ks {
		out[i] = string(k)
	}
	return out
}

func (r *setReplayer) step(e *env, st mbt.Step) {
	vs := e.strs(st["vs"])
	switch st.Str("a") {
	case "Add":
		r.reg[st.Int("r")].Add(vs...)
	case "SetOf":
		r.reg[st.Int("dst")] = ds.SetOf(vs...)
	case "Added":
		r.reg[st.Int("dst")] = r.reg[st.Int("src")].Added(vs...)
	case "Without":
		r.reg[st.Int("dst")] = r.reg[st.Int("src")].Without(vs...)
	case "Diff":
		r.reg[st.Int("dst")] = r.reg[st.Int("x")].Diff(r.reg[st.Int("y")])
	default:
		machinery("set: unknown action %q", st.Str("a"))
	}
	universe := e.strs(st["universe"])
	for i, name := range []string{"", "A", "B"} {
		if i == 0 || e.dead {
			continue
		}
		want := e.strs(st[name])
		s := r.reg[i]
		got := []string{}
		for v := range s.All() {
			got = append(got, v)
		}
		what := fmt.Sprintf("after %s: Set %s ", st.Str("a"), name)
		e.eq(what+"does not iterate exactly its members in insertion order (All)", want, got)
		e.eq(what+"Slice() differs from its members in insertion order", want, append([]string{}, s.Slice()...))
		e.eq(what+"Size() differs from the number of members", len(want), s.Size())
		// early break
		if len(want) > 0 && !e.dead {
			n := 0
			for v := range s.All() {
				n++
				if v != want[0] {
					e.violate(what+"All() does not start with the first member inserted", want[0], v)
				}
				break
			}
			e.eq(what+"All() yields nothing although the set has members", 1, n)
		}
		in := map[string]bool{}
		for _, v := range want {
			in[v] = true
		}
		for _, v := range universe {
			if s.Has(v) != in[v] {
				e.violate(fmt.Sprintf("%sHas(%q) disagrees with its members", what, v), in[v], s.Has(v))
			}
		}
	}
}

func (r *setReplayer) finish(e *env, last mbt.Step) {}
