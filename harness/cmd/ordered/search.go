package main

import (
	"bytes"
	"encoding/binary"

	"reduction.dev/reduction/util/sliceu"
	"verif/harness/mbt"
)

// spec/OrderedSearch.tla -> util/sliceu.SearchUnique / Without / Partition
type searchReplayer struct{}

func init() {
	replayers["search"] = func(e *env) replayer { return &searchReplayer{} }
}

// three order-preserving concretisations of the model's integers
func intKey(mode, v int) []byte {
	switch mode {
	case 1: // big-endian fixed width
		b := make([]byte, 4)
		binary.BigEndian.PutUint32(b, uint32(v))
		return b
	default: // unary: "", "\x00", "\x00\x00", ... (every element a prefix of the next)
		return bytes.Repeat([]byte{0}, v)
	}
}

// a "table" with a key range, as LevelList.AllTablesForKey uses SearchUnique
type rng struct{ lo, hi int }

func (r rng) cmp(t int) int {
	if t < r.lo {
		return 1
	}
	if t > r.hi {
		return -1
	}
	return 0
}

func (r *searchReplayer) step(e *env, st mbt.Step) {
	switch st.Str("a") {
	case "Search":
		xs, t := ints(st["xs"]), st.Int("t")
		wantFound, wantIdx := st.Bool("found"), st.Int("idx")
		check := func(kind string, i int, found bool) {
			if found != wantFound || (found && i != wantIdx) {
				e.violate("sliceu.SearchUnique ("+kind+") disagrees with the sorted-slice reference",
					map[string]any{"found": wantFound, "idx": wantIdx, "xs": xs, "t": t}, map[string]any{"found": found, "idx": i})
			}
		}
		i, found := sliceu.SearchUnique(xs, t, func(el, target int) int { return el - target })
		check("ints", i, found)
		for mode := 0; mode < 2; mode++ {
			bs := make([][]byte, len(xs))
			for j, x := range xs {
				bs[j] = intKey(mode, x)
			}
			i, found = sliceu.SearchUnique(bs, intKey(mode, t), bytes.Compare)
			check("byte strings", i, found)
		}
		// ranges [x, x] searched by point: exactly the shape of Table.RangeKeyCompare
		rs := make([]rng, len(xs))
		for j, x := range xs {
			rs[j] = rng{x, x}
		}
		i, found = sliceu.SearchUnique(rs, t, rng.cmp)
		check("key ranges", i, found)
	case "Without":
		ys := ints(st["ys"])
		got := sliceu.Without(append([]int{}, ys...), st.Int("v"))
		e.eq("sliceu.Without does not remove exactly the first occurrence", ints(st["res"]), append([]int{}, got...))
	case "Partition":
		ys := ints(st["ys"])
		groups := sliceu.Partition(append([]int{}, ys...), st.Int("n"))
		want := st.List("res")
		if len(groups) != len(want) {
			e.violate("sliceu.Partition returns the wrong number of groups", len(want), len(groups))
			return
		}
		for g := range groups {
			e.eq("sliceu.Partition does not deal the elements round-robin", ints(want[g]), append([]int{}, groups[g]...))
		}
	default:
		machinery("search: unknown action %q", st.Str("a"))
	}
}

func (r *searchReplayer) finish(e *env, last mbt.Step) {}
