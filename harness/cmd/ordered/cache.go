package main

import (
	"reduction.dev/reduction/util/ds"
	"verif/harness/mbt"
)

// spec/OrderedCache.tla -> util/ds.SortedCache
type cacheReplayer struct {
	c *ds.SortedCache
}

func init() {
	replayers["cache"] = func(e *env) replayer {
		return &cacheReplayer{c: ds.NewSortedCache(uint64(e.in.CfgInt("MaxBytes", 0)))}
	}
}

func clone(b []byte) []byte { return append([]byte{}, b...) }

func (r *cacheReplayer) step(e *env, st mbt.Step) {
	switch st.Str("a") {
	case "Push":
		r.c.Push(e.key(st["k"]))
	case "Delete":
		r.c.Delete(e.key(st["k"]))
	case "Pop":
		k, ok := r.c.Pop()
		e.optEq("SortedCache.Pop does not return the smallest key held", st["res"], k, ok)
	case "PopLast":
		k, ok := r.c.PopLast()
		e.optEq("SortedCache.PopLast does not return the largest key held", st["res"], k, ok)
	case "PushEvict":
		// the idiom of KeyGroupPriorityQueue.Push
		r.c.Push(e.key(st["k"]))
		evicted := [][]byte{}
		for r.c.IsFull() && !r.c.IsEmpty() {
			k, ok := r.c.PopLast()
			if !ok {
				e.violate("SortedCache.PopLast returns !ok on a non-empty cache", nil, nil)
				return
			}
			evicted = append(evicted, clone(k))
			if len(evicted) > 64 {
				e.violate("SortedCache eviction loop does not terminate", nil, nil)
				return
			}
		}
		e.eq("SortedCache eviction (Push; while IsFull && !IsEmpty: PopLast) does not evict exactly the largest keys the byte budget requires",
			e.keys(st["evicted"]), evicted)
	default:
		machinery("cache: unknown action %q", st.Str("a"))
	}
	if e.dead {
		return
	}
	e.eq("SortedCache.IsFull disagrees with the bytes held (size accounting)", st.Bool("full"), r.c.IsFull())
	e.eq("SortedCache.IsEmpty disagrees with the contents", st.Bool("empty"), r.c.IsEmpty())
	k, ok := r.c.Peek()
	e.optEq("SortedCache.Peek does not return the smallest key held", st["peek"], k, ok)
}

func (r *cacheReplayer) finish(e *env, last mbt.Step) {
	got := [][]byte{}
	for i := 0; i < 1000; i++ {
		k, ok := r.c.Pop()
		if !ok {
			break
		}
		got = append(got, clone(k))
	}
	e.eq("draining the SortedCache does not yield exactly the keys held, ascending", e.keys(last["content"]), got)
	if !e.dead {
		e.eq("drained SortedCache is not empty", true, r.c.IsEmpty())
		e.eq("drained SortedCache still accounts bytes (IsFull)", e.in.CfgInt("MaxBytes", 0) == 0, r.c.IsFull())
	}
}
