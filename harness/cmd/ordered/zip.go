package main

import (
	"bytes"
	"fmt"
	"reflect"

	"reduction.dev/reduction/dkv/ziptree"
	"reduction.dev/reduction/util/verifhook"
	"verif/harness/mbt"
)

// spec/OrderedZip.tla -> dkv/ziptree.ZipTree.  The rank TLC chose for an
// inserted node is injected through the hook "ziptree.rank".
type zipReplayer struct {
	t        *ziptree.ZipTree
	useRanks bool
	rank     int64
	asked    int
}

// order-preserving images of the model's small ranks in the uint32 range
var rankImage = []int64{0, 1, 0x7fffffff, 0x80000000, 0xfffffffe, 0xffffffff}

func init() {
	replayers["zip"] = func(e *env) replayer {
		r := &zipReplayer{t: ziptree.New(), useRanks: e.in.CfgBool("UseRanks", true)}
		if r.useRanks {
			if !verifhook.Enabled {
				machinery("zip: built without -tags verif, cannot inject ranks")
			}
			verifhook.Install(nil, func(name string, def int64) int64 {
				if name == "ziptree.rank" {
					r.asked++
					return r.rank
				}
				return def
			})
		} else {
			verifhook.Install(nil, nil)
		}
		return r
	}
}

func zval(v int) []byte { return []byte{'v', byte('0' + v)} }

func (r *zipReplayer) step(e *env, st mbt.Step) {
	if st.Str("a") != "Put" {
		machinery("zip: unknown action %q", st.Str("a"))
	}
	k, v := e.key(st["k"]), st.Int("v")
	maxRank := e.in.CfgInt("MaxRank", 2)
	if rk := st.Int("rank"); rk >= 0 {
		// spread the model's ranks 0..MaxRank over the images, keeping their order
		r.rank = rankImage[rk*(len(rankImage)-1)/max(maxRank, 1)]
	} else {
		r.rank = -12345
	}
	r.asked = 0
	replaced := r.t.Put(ziptree.NewNode(k, zval(v), v))
	want := st.Map("replaced")
	if wok, _ := want["ok"].(bool); wok != (replaced != nil) {
		e.violate("ZipTree.Put reports a replacement exactly when the key was not held (or the reverse)", wok, replaced != nil)
		return
	} else if wok && (!bytes.Equal(replaced.Key, k) || !bytes.Equal(replaced.Value, zval(num(want["v"])))) {
		e.violate("ZipTree.Put does not return the node it replaced", fmt.Sprintf("%q=%q", k, zval(num(want["v"]))), fmt.Sprintf("%q=%q", replaced.Key, replaced.Value))
		return
	}
	if r.useRanks && (r.asked == 1) != (st.Int("rank") >= 0) {
		e.drift("Put asked for %d ranks, model expected an %s", r.asked, map[bool]string{true: "insert", false: "in-place replacement"}[st.Int("rank") >= 0])
		return
	}

	// lookups: every key held finds the value put last, every other key finds nothing
	content := st.List("content")
	keys := make([][]byte, len(content))
	vals := make([]int, len(content))
	for i, c := range content {
		m := c.(map[string]any)
		keys[i], vals[i] = e.key(m["k"]), num(m["v"])
		n, ok := r.t.Get(keys[i])
		if !ok || n == nil || !bytes.Equal(n.Key, keys[i]) || !bytes.Equal(n.Value, zval(vals[i])) || n.Meta != vals[i] {
			e.violate(fmt.Sprintf("ZipTree.Get(%q) does not find what was put last", keys[i]), fmt.Sprintf("%q", zval(vals[i])), fmt.Sprint(n, ok))
			return
		}
	}
	for _, a := range e.keys(st["absent"]) {
		if n, ok := r.t.Get(a); ok || n != nil {
			e.violate(fmt.Sprintf("ZipTree.Get(%q) finds a key that was never put", a), nil, fmt.Sprint(n, ok))
			return
		}
	}
	// prefix scans
	for _, a := range st.List("asc") {
		m := a.(map[string]any)
		p, from, n := e.key(m["p"]), num(m["from"]), num(m["n"])
		var wantK [][]byte
		var wantV []int
		if n > 0 {
			wantK, wantV = keys[from-1:from-1+n], vals[from-1:from-1+n]
		}
		gotK := [][]byte{}
		i := 0
		for node := range r.t.AscendPrefix(p) {
			gotK = append(gotK, node.Key)
			if i < n && !bytes.Equal(node.Value, zval(wantV[i])) {
				e.violate(fmt.Sprintf("ZipTree.AscendPrefix(%q) yields a stale value for %q", p, node.Key), fmt.Sprintf("%q", zval(wantV[i])), fmt.Sprintf("%q", node.Value))
				return
			}
			i++
			if i > len(content)+2 {
				break
			}
		}
		if !e.eq(fmt.Sprintf("ZipTree.AscendPrefix(%q) does not yield exactly the held keys with that prefix, ascending", p), append([][]byte{}, wantK...), gotK) {
			return
		}
		if n > 1 { // consumer stops after the first entry
			cnt := 0
			for node := range r.t.AscendPrefix(p) {
				cnt++
				if !bytes.Equal(node.Key, wantK[0]) {
					e.violate(fmt.Sprintf("ZipTree.AscendPrefix(%q) does not start at the smallest key with the prefix", p), wantK[0], node.Key)
					return
				}
				break
			}
			if cnt != 1 {
				e.violate(fmt.Sprintf("ZipTree.AscendPrefix(%q) yields nothing", p), 1, cnt)
				return
			}
		}
	}
	// shape (internal; mismatch is drift, never a violation)
	if r.useRanks {
		if msg := r.compareShape(st, keys, maxRank); msg != "" {
			// internal: the abstract state is still in step, keep checking against what the property demands
			e.res.Count("zip.shape_differs", 1)
			e.layoutDiffers("tree shape differs from the model: %s", msg)
		} else {
			e.res.Count("zip.shape_matches", 1)
		}
	}
}

type nodeShape struct {
	rank        uint64
	left, right string
	has         [2]bool
}

func readShape(v reflect.Value, out map[string]nodeShape, depth int) (key string, ok bool) {
	if v.IsNil() || depth > 64 {
		return "", false
	}
	n := v.Elem()
	key = string(n.FieldByName("Key").Bytes())
	s := nodeShape{rank: n.FieldByName("rank").Uint()}
	s.left, s.has[0] = readShape(n.FieldByName("left"), out, depth+1)
	s.right, s.has[1] = readShape(n.FieldByName("right"), out, depth+1)
	out[key] = s
	return key, true
}

func (r *zipReplayer) compareShape(st mbt.Step, keys [][]byte, maxRank int) string {
	got := map[string]nodeShape{}
	rootKey, hasRoot := readShape(reflect.ValueOf(r.t).Elem().FieldByName("root"), got, 0)
	at := func(pos int) (string, bool) {
		if pos == 0 {
			return "", false
		}
		return string(keys[pos-1]), true
	}
	if k, ok := at(st.Int("rootpos")); ok != hasRoot || k != rootKey {
		return fmt.Sprintf("root is %q, model %q", rootKey, k)
	}
	shape := st.List("shape")
	if len(got) != len(shape) {
		return fmt.Sprintf("%d nodes reachable, model %d", len(got), len(shape))
	}
	for i, s := range shape {
		m := s.(map[string]any)
		g := got[string(keys[i])]
		l, lok := at(num(m["l"]))
		rr, rok := at(num(m["r"]))
		wantRank := uint64(rankImage[num(m["rk"])*(len(rankImage)-1)/max(maxRank, 1)])
		if g.rank != wantRank || g.has != [2]bool{lok, rok} || g.left != l || g.right != rr {
			return fmt.Sprintf("node %q", keys[i])
		}
	}
	return ""
}

func (r *zipReplayer) finish(e *env, last mbt.Step) {
	verifhook.Install(nil, nil)
}
