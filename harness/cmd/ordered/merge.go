package main

import (
	"fmt"
	"iter"
	"slices"
	"sort"
	"strings"

	"reduction.dev/reduction/dkv/mergesort"
	"reduction.dev/reduction/util/iteru"
	"verif/harness/mbt"
)

// spec/OrderedMerge.tla -> dkv/mergesort.Merge and util/iteru.MergeSorted
type mitem struct {
	k   string
	s   int
	src int
}

func (m mitem) String() string { return fmt.Sprintf("{%q s%d i%d}", m.k, m.s, m.src) }

type mergeReplayer struct{ n int }

var mergeCount int // across behaviours (one behaviour = one merge)

func init() {
	replayers["merge"] = func(e *env) replayer { return &mergeReplayer{} }
}

func (e *env) items(v any) []mitem {
	arr, _ := v.([]any)
	out := make([]mitem, 0, len(arr))
	for _, x := range arr {
		m := x.(map[string]any)
		out = append(out, mitem{string(e.key(m["k"])), num(m["s"]), num(m["src"])})
	}
	return out
}

func byKey(a, b mitem) int { return strings.Compare(a.k, b.k) }

func (r *mergeReplayer) step(e *env, st mbt.Step) {
	if st.Str("a") != "Merge" {
		machinery("merge: unknown action %q", st.Str("a"))
	}
	mergeCount++
	r.n = mergeCount
	var inputs [][]mitem
	for _, it := range st.List("iters") {
		inputs = append(inputs, e.items(it))
	}
	seqs := func() []iter.Seq[mitem] {
		out := make([]iter.Seq[mitem], len(inputs))
		for i, in := range inputs {
			out[i] = slices.Values(in)
		}
		return out
	}
	want := e.items(st["out"])

	// pick = newest (kv.keepNewest)
	newest := func(a, b mitem) mitem {
		if a.s > b.s {
			return a
		}
		return b
	}
	got := slices.Collect(mergesort.Merge(seqs(), byKey, newest))
	if !slices.Equal(got, want) {
		e.violate("mergesort.Merge (pick newest) does not yield one item per distinct key, in key order, the newest of its duplicates",
			fmt.Sprint(want), fmt.Sprint(got))
		return
	}
	// pick = always the first / always the second argument: any member of the class
	classes := st.List("classes")
	for name, pick := range map[string]func(a, b mitem) mitem{
		"first":  func(a, b mitem) mitem { return a },
		"second": func(a, b mitem) mitem { return b },
	} {
		got = slices.Collect(mergesort.Merge(seqs(), byKey, pick))
		ok := len(got) == len(classes)
		for i := 0; ok && i < len(got); i++ {
			ok = slices.Contains(e.items(classes[i]), got[i])
		}
		if !ok {
			e.violate("mergesort.Merge (pick "+name+" argument) does not yield exactly one of the duplicates per distinct key, in key order",
				fmt.Sprint(classes), fmt.Sprint(got))
			return
		}
	}
	// consumer stops early (sampled: Merge never stops the iter.Pull goroutines of unfinished inputs)
	if len(want) > 1 && r.n%4 == 0 {
		stopAt := 1 + r.n/4%(len(want)-1)
		got = got[:0]
		for x := range mergesort.Merge(seqs(), byKey, newest) {
			got = append(got, x)
			if len(got) == stopAt {
				break
			}
		}
		if !slices.Equal(got, want[:stopAt]) {
			e.violate("mergesort.Merge consumed partially does not yield a prefix of the merge", fmt.Sprint(want[:stopAt]), fmt.Sprint(got))
			return
		}
	}

	// plain merge
	sorted := e.items(st["sorted"])
	got = slices.Collect(iteru.MergeSorted(seqs(), byKey))
	if len(got) != len(sorted) {
		e.violate("iteru.MergeSorted omits or duplicates items", fmt.Sprint(sorted), fmt.Sprint(got))
		return
	}
	for i := range got {
		if got[i].k != sorted[i].k {
			e.violate("iteru.MergeSorted does not yield the items in key order", fmt.Sprint(sorted), fmt.Sprint(got))
			return
		}
	}
	canon := slices.Clone(got)
	sort.SliceStable(canon, func(i, j int) bool {
		return canon[i].k < canon[j].k || (canon[i].k == canon[j].k && canon[i].s < canon[j].s)
	})
	if !slices.Equal(canon, sorted) {
		e.violate("iteru.MergeSorted does not yield exactly the multiset of its inputs", fmt.Sprint(sorted), fmt.Sprint(got))
		return
	}
	if len(sorted) > 1 {
		stopAt := 1 + r.n%(len(sorted)-1)
		keys := []string{}
		for x := range iteru.MergeSorted(seqs(), byKey) {
			keys = append(keys, x.k)
			if len(keys) == stopAt {
				break
			}
		}
		wantKeys := []string{}
		for _, x := range sorted[:stopAt] {
			wantKeys = append(wantKeys, x.k)
		}
		e.eq("iteru.MergeSorted consumed partially does not yield a prefix of the merge", wantKeys, keys)
	}
}

func (r *mergeReplayer) finish(e *env, last mbt.Step) {}
