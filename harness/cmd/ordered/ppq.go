package main

import (
	"fmt"
	"slices"

	"reduction.dev/reduction/util/ds"
	"verif/harness/mbt"
)

// spec/OrderedPPQ.tla -> util/ds.PartitionedPriorityQueue over harness-owned
// partitions (ordered sets of items; the queue's comparator sees only t).
type pitem struct{ p, t, g int }

func (a pitem) less(b pitem) bool { return a.t < b.t || (a.t == b.t && a.g < b.g) }

// setPartition is an ordered set (what KeyGroupPriorityQueue is to the timer store).
type setPartition struct {
	items []pitem
	index int
}

func (s *setPartition) Peek() (pitem, bool) {
	if len(s.items) == 0 {
		return pitem{}, false
	}
	return s.items[0], true
}
func (s *setPartition) Pop() (pitem, bool) {
	if len(s.items) == 0 {
		return pitem{}, false
	}
	x := s.items[0]
	s.items = s.items[1:]
	return x, true
}
func (s *setPartition) Push(x pitem) {
	i, found := slices.BinarySearchFunc(s.items, x, func(a, b pitem) int {
		if a == b {
			return 0
		}
		if a.less(b) {
			return -1
		}
		return 1
	})
	if !found {
		s.items = slices.Insert(s.items, i, x)
	}
}
func (s *setPartition) IsEmpty() bool { return len(s.items) == 0 }
func (s *setPartition) Delete(x pitem) {
	if i := slices.Index(s.items, x); i >= 0 {
		s.items = slices.Delete(s.items, i, i+1)
	}
}
func (s *setPartition) AssignIndex(i int) { s.index = i }
func (s *setPartition) Index() int        { return s.index }

type ppqReplayer struct {
	q     *ds.PartitionedPriorityQueue[pitem]
	parts []*setPartition
}

func init() {
	replayers["ppq"] = func(e *env) replayer { return &ppqReplayer{} }
}

func toItem(v any) pitem {
	m, _ := v.(map[string]any)
	return pitem{num(m["p"]), num(m["t"]), num(m["g"])}
}

func (r *ppqReplayer) top(e *env, what string, want map[string]any, x pitem, ok bool) {
	wok, _ := want["ok"].(bool)
	if ok != wok {
		e.violate("PartitionedPriorityQueue."+what+" ok flag disagrees with the contents", wok, ok)
		return
	}
	if !ok {
		return
	}
	cands, _ := want["cands"].([]any)
	in := false
	for _, c := range cands {
		if toItem(c) == x {
			in = true
		}
	}
	if !in {
		e.violate("PartitionedPriorityQueue."+what+" does not return a minimum-priority item of the union of the partitions", cands, fmt.Sprintf("%+v", x))
		return
	}
	if pred := toItem(want["item"]); pred != x {
		e.drift("PartitionedPriorityQueue.%s broke a tie differently from the model: %+v, predicted %+v", what, x, pred)
	}
}

func (r *ppqReplayer) step(e *env, st mbt.Step) {
	switch st.Str("a") {
	case "New":
		n := st.Int("n")
		qp := make([]ds.QueuePartition[pitem], n)
		for i := 0; i < n; i++ {
			sp := &setPartition{index: -7}
			for _, it := range st.List("parts")[i].([]any) {
				m := it.(map[string]any)
				sp.Push(pitem{i + 1, num(m["t"]), num(m["g"])})
			}
			r.parts = append(r.parts, sp)
			qp[i] = sp
		}
		r.q = ds.NewPartitionedPriorityQueue(qp, func(a, b pitem) int { return a.t - b.t }, func(x pitem) int { return x.p - 1 })
	case "Push":
		r.q.Push(toItem(st["item"]))
	case "Delete":
		r.q.Delete(toItem(st["item"]))
	case "Pop":
		x, ok := r.q.Pop()
		r.top(e, "Pop", st.Map("res"), x, ok)
	default:
		machinery("ppq: unknown action %q", st.Str("a"))
	}
	if e.dead {
		return
	}
	if r.q == nil {
		machinery("ppq: behaviour does not start with New")
	}
	e.eq("PartitionedPriorityQueue.IsEmpty disagrees with the union of the partitions", st.Bool("empty"), r.q.IsEmpty())
	x, ok := r.q.Peek()
	r.top(e, "Peek", st.Map("peek"), x, ok)
	if e.dead {
		return
	}
	for pos, p := range st.Ints("layout") {
		if r.parts[p-1].index != pos {
			// internal: the abstract state is still in step, keep checking against what the property demands
			e.res.Count("ppq.layout_differs", 1)
			e.layoutDiffers("heap of partitions differs from the model at position %d", pos)
			return
		}
	}
}

func (r *ppqReplayer) finish(e *env, last mbt.Step) {
	want := last.Ints("sorted")
	got := []int{}
	for i := 0; i < 1000; i++ {
		x, ok := r.q.Pop()
		if !ok {
			break
		}
		got = append(got, x.t)
	}
	e.eq("draining the PartitionedPriorityQueue does not yield every held item in priority order", want, got)
	if !e.dead {
		e.eq("drained PartitionedPriorityQueue is not empty", true, r.q.IsEmpty())
	}
}
