package main

import (
	"fmt"
	"slices"

	"reduction.dev/reduction/util/ds"
	"verif/harness/mbt"
)

// spec/OrderedHeap.tla -> util/ds.Heap with SetIndexAssigner + Fix, and (when
// the model makes no external priority changes) a plain Heap[int] in lockstep.
type handle struct {
	id, prio, index int
}

type heapReplayer struct {
	h     *ds.Heap[*handle]
	plain *ds.Heap[int]
	live  map[int]*handle
}

func init() {
	replayers["heap"] = func(e *env) replayer {
		r := &heapReplayer{live: map[int]*handle{}}
		r.h = ds.NewHeap(func(a, b *handle) int { return a.prio - b.prio }, 0)
		r.h.SetIndexAssigner(func(x *handle, i int) { x.index = i })
		if !e.in.CfgBool("AllowChange", true) {
			r.plain = ds.NewHeap(func(a, b int) int { return a - b }, 2)
		}
		return r
	}
}

// top compares a Pop/Peek result with the model's [ok, id, prio, ids].
func (r *heapReplayer) top(e *env, what string, want map[string]any, x *handle, ok bool) {
	wok, _ := want["ok"].(bool)
	if ok != wok {
		e.violate("Heap."+what+" ok flag disagrees with the contents", wok, ok)
		return
	}
	if !ok {
		return
	}
	if x.prio != num(want["prio"]) {
		e.violate("Heap."+what+" does not return an element of minimum priority", want, fmt.Sprintf("id %d prio %d", x.id, x.prio))
		return
	}
	if !slices.Contains(ints(want["ids"]), x.id) {
		e.violate("Heap."+what+" returns an element that is not one of the held minimum-priority elements", want, fmt.Sprintf("id %d prio %d", x.id, x.prio))
		return
	}
	if x.id != num(want["id"]) {
		e.drift("Heap.%s broke a tie differently from the model: id %d, predicted %d", what, x.id, num(want["id"]))
	}
}

func (r *heapReplayer) step(e *env, st mbt.Step) {
	switch st.Str("a") {
	case "Push":
		x := &handle{id: st.Int("id"), prio: st.Int("prio"), index: -7}
		r.live[x.id] = x
		r.h.Push(x)
		if r.plain != nil {
			r.plain.Push(x.prio)
		}
	case "Pop":
		x, ok := r.h.Pop()
		r.top(e, "Pop", st.Map("res"), x, ok)
		if ok {
			delete(r.live, x.id)
			if x.index != -1 { // informational: the assigner is expected to tell a removed element -1
				e.res.Count("heap.popped_index_not_minus_one", 1)
			}
		}
		if r.plain != nil && !e.dead {
			p, pok := r.plain.Pop()
			if pok != ok || (ok && p != x.prio) {
				e.violate("plain Heap[int].Pop does not return the minimum", st.Map("res"), fmt.Sprintf("(%d, %v)", p, pok))
			}
		}
	case "Change":
		x := r.live[st.Int("id")]
		if x == nil {
			machinery("heap: Change of a handle that is not held")
		}
		x.prio = st.Int("prio")
		r.h.Fix(x.index)
	case "FixNone":
		r.h.Fix(-1)
	default:
		machinery("heap: unknown action %q", st.Str("a"))
	}
	if e.dead {
		return
	}
	e.eq("Heap.Size disagrees with the contents", st.Int("size"), r.h.Size())
	e.eq("Heap.IsEmpty disagrees with the contents", st.Int("size") == 0, r.h.IsEmpty())
	x, ok := r.h.Peek()
	r.top(e, "Peek", st.Map("peek"), x, ok)
	if r.plain != nil && !e.dead {
		e.eq("plain Heap[int].Size disagrees with the contents", st.Int("size"), r.plain.Size())
	}
	if e.dead {
		return
	}
	// index assigner: every held element must have been told a distinct index in 0..n-1
	seen := map[int]int{}
	for id, x := range r.live {
		if x.index < 0 || x.index >= len(r.live) {
			e.violate("Heap index assigner: a held element was told an index outside the heap", fmt.Sprintf("0..%d", len(r.live)-1), fmt.Sprintf("id %d index %d", id, x.index))
			return
		}
		if other, dup := seen[x.index]; dup {
			e.violate("Heap index assigner: two held elements were told the same index", nil, fmt.Sprintf("ids %d and %d index %d", other, id, x.index))
			return
		}
		seen[x.index] = id
	}
	for pos, id := range st.Ints("layout") {
		if x := r.live[id]; x == nil || x.index != pos {
			// internal: the abstract state is still in step, keep checking against what the property demands
			e.res.Count("heap.layout_differs", 1)
			e.layoutDiffers("heap array differs from the model at position %d", pos)
			return
		}
	}
}

func (r *heapReplayer) finish(e *env, last mbt.Step) {
	got := []int{}
	for i := 0; i < 1000; i++ {
		x, ok := r.h.Pop()
		if !ok {
			break
		}
		got = append(got, x.prio)
	}
	e.eq("draining the Heap does not yield the held priorities in ascending order", last.Ints("sorted"), got)
	if r.plain != nil && !e.dead {
		got = []int{}
		for i := 0; i < 1000; i++ {
			x, ok := r.plain.Pop()
			if !ok {
				break
			}
			got = append(got, x)
		}
		e.eq("draining the plain Heap[int] does not yield the held values in ascending order", last.Ints("sorted"), got)
	}
}
