package main

import (
	"fmt"

	"reduction.dev/reduction/util/ds"
	"verif/harness/mbt"
)

// spec/OrderedMap.tla -> util/ds.SortedMap[string, int]
type mapReplayer struct {
	m *ds.SortedMap[string, int]
}

func init() {
	replayers["map"] = func(e *env) replayer { return &mapReplayer{m: ds.NewSortedMap[string, int]()} }
}

func (r *mapReplayer) step(e *env, st mbt.Step) {
	k := string(e.key(st["k"]))
	switch st.Str("a") {
	case "Set":
		e.eq("SortedMap.Set reports the wrong `new` flag", st.Bool("new"), r.m.Set(k, st.Int("v")))
	case "Delete":
		e.eq("SortedMap.Delete reports the wrong `removed` flag", st.Bool("removed"), r.m.Delete(k))
	default:
		machinery("map: unknown action %q", st.Str("a"))
	}
	if e.dead {
		return
	}
	wantK, wantV := []string{}, []int{}
	for _, c := range st.List("content") {
		m := c.(map[string]any)
		wantK = append(wantK, string(e.key(m["k"])))
		wantV = append(wantV, num(m["v"]))
	}
	what := fmt.Sprintf("after %s(%q): SortedMap.", st.Str("a"), k)
	e.eq(what+"Size differs from the number of keys held", len(wantK), r.m.Size())
	if st.Bool("look") {
		// the ordered views sort the key list lazily (they change what a later Delete finds),
		// so they are only consulted where the model says so
		e.eq(what+"Keys is not exactly the keys held in ascending order", wantK, append([]string{}, r.m.Keys()...))
		e.eq(what+"Values is not the values in ascending key order", wantV, append([]int{}, r.m.Values()...))
		gk, gv := []string{}, []int{}
		for k, v := range r.m.All() {
			gk, gv = append(gk, k), append(gv, v)
		}
		e.eq(what+"All does not iterate the keys in ascending order", wantK, gk)
		e.eq(what+"All does not pair every key with the value set last", wantV, gv)
		if len(wantK) > 0 && !e.dead {
			for k, v := range r.m.All() {
				if k != wantK[0] || v != wantV[0] {
					e.violate(what+"All does not start at the smallest key", fmt.Sprint(wantK[0], wantV[0]), fmt.Sprint(k, v))
				}
				break
			}
		}
	}
	for i, k := range wantK {
		v, ok := r.m.Get(k)
		if !ok || v != wantV[i] || !r.m.Has(k) {
			e.violate(fmt.Sprintf("%sGet/Has(%q) does not find the value set last", what, k), wantV[i], fmt.Sprint(v, ok))
		}
	}
	for _, k := range e.strs(st["absent"]) {
		if v, ok := r.m.Get(k); ok || r.m.Has(k) {
			e.violate(fmt.Sprintf("%sGet/Has(%q) finds a key that is not held", what, k), nil, fmt.Sprint(v, ok))
		}
	}
}

func (r *mapReplayer) finish(e *env, last mbt.Step) {}
