// kreader replays behaviours of spec/KinesisReader.tla on the real Kinesis
// source reader and splitter of reduction (the "resumed from its checkpointed
// position" half of property C16 for Kinesis).
//
// Real objects: kinesis.SourceReader (one per runner, created through
// kinesis.SourceConfig.NewSourceReader), kinesis.SourceSplitter with its
// SplitTracker, the repo's kinesisfake (httptest server) and the real
// snapshots.Store (it decides when SourceSplitter.Checkpoint() is taken and
// publishes the snapshotpb.SourceCheckpoint a restarted splitter is started
// from). The harness plays the job and the source runners the way
// jobs/job.go and workers/sourcerunner/source_runner.go do:
//
//	AssignSplits hook   -> per runner FIFO of messages (task queue +
//	                       splitsWereAssigned), taken by the runner "loop" at a
//	                       Deliver step -> SourceReader.AssignSplits
//	Read                -> one SourceReader.ReadEvents call (the fake's
//	                       GetRecords limit is the page size TLC chose)
//	NotifySplitsFinished (called by the reader inside ReadEvents) -> forwarded
//	                       to SourceSplitter.NotifySplitsFinished
//	Barrier(r)          -> SourceReader.Checkpoint() of runner r, acknowledged
//	                       to the store
//	Complete            -> the last (operator) acknowledgement
//	Start(r)            -> everything volatile is dropped; new readers, new
//	                       splitter, Start(published checkpoint)
//
// Every record put into the stream carries its identity ("s<shard>:<index>") as
// payload. Ground truth is kept by the harness alone: em[s] = how many records
// of shard s have been emitted in the current timeline (a restore rewinds the
// timeline to the cut: em at the barrier of the runner that read the shard).
// Every record actually returned by ReadEvents is judged:
//
//	repeat  a record at or below em[s] is read again
//	gap     a record above em[s]+1 is read (records skipped) / out of shard order
//	early   a record of a child shard is read while a parent has unread records
//	two     a shard's records are read by two different readers in one incarnation
//	lost    after the final rounds (discovery, delivery, reading until nothing
//	        moves) records of the stream are still unread
//	crash   Start panics or fails
//
// A violation the model predicts for a named deviation (step field `bad`, or the
// taint sets whyS / whyC of the last Start step for the final rounds) is
// reported with Known = that deviation; any other one is a VIOLATION. Where
// the code's internals (assignment messages, serialised cursors, page
// boundaries) differ from the model without breaking the property the behaviour
// is counted as drift; it is still executed to its end, because the judgement
// never depends on the model.
package main

import (
	"context"
	"crypto/md5"
	"fmt"
	"math/big"
	"net/http"
	"net/http/httptest"
	"os"
	"sort"
	"strconv"
	"strings"
	"sync"
	"time"

	"github.com/aws/aws-sdk-go-v2/aws"
	awskinesis "github.com/aws/aws-sdk-go-v2/service/kinesis"
	kinesistypes "github.com/aws/aws-sdk-go-v2/service/kinesis/types"
	"google.golang.org/protobuf/proto"
	protocol "reduction.dev/reduction-protocol/kinesispb"
	"reduction.dev/reduction/connectors"
	"reduction.dev/reduction/connectors/kinesis"
	"reduction.dev/reduction/connectors/kinesis/kinesisfake"
	"reduction.dev/reduction/connectors/kinesis/kinesispb"
	"reduction.dev/reduction/proto/jobpb"
	"reduction.dev/reduction/proto/snapshotpb"
	"reduction.dev/reduction/proto/workerpb"
	"reduction.dev/reduction/storage/locations"
	"reduction.dev/reduction/storage/snapshots"
	"verif/harness/mbt"
)

const wait = 4 * time.Second

// ---------------------------------------------------------------- gate ----

// lsGate is the splitter's HTTP client: ListShards requests park until released.
type lsGate struct {
	inner    *http.Client
	arrivals chan *arrival
}

type arrival struct{ release chan struct{} }

func newGate() *lsGate {
	return &lsGate{inner: &http.Client{}, arrivals: make(chan *arrival, 8)}
}

func (g *lsGate) Do(req *http.Request) (*http.Response, error) {
	if strings.HasSuffix(req.Header.Get("X-Amz-Target"), ".ListShards") {
		a := &arrival{release: make(chan struct{})}
		select {
		case g.arrivals <- a:
		case <-req.Context().Done():
			return nil, req.Context().Err()
		}
		select {
		case <-a.release:
		case <-req.Context().Done():
			return nil, req.Context().Err()
		}
	}
	return g.inner.Do(req)
}

func (g *lsGate) await() (*arrival, error) {
	select {
	case a := <-g.arrivals:
		return a, nil
	case <-time.After(wait):
		return nil, fmt.Errorf("no ListShards request arrived at the gate")
	}
}

func localClient(url string, hc awskinesis.HTTPClient) *awskinesis.Client {
	o := awskinesis.Options{
		EndpointResolver: awskinesis.EndpointResolverFromURL(url),
		Region:           "us-east-2",
		Credentials:      aws.AnonymousCredentials{},
		Retryer:          aws.NopRetryer{},
	}
	if hc != nil {
		o.HTTPClient = hc
	}
	return awskinesis.New(o)
}

// --------------------------------------------------------------- world ----

type viol struct {
	kind  string
	shard int
	what  string
}

type rec struct{ shard, idx int }

// world is one behaviour's universe.
type world struct {
	srv     *httptest.Server
	fake    *kinesisfake.Fake
	admin   *awskinesis.Client
	stream  string
	arn     string
	ids     []string   // model shard i (1-based) -> ids[i-1]
	lo, hi  []*big.Int // hash key range (inclusive)
	parents [][]int
	closed  []bool
	nrec    []int    // records put per shard
	pkey    []string // a partition key hashing into the shard
	gate    *lsGate
	parked  *arrival
	errChan chan error

	cfg     connectors.SourceConfig
	rcfg    connectors.SourceConfig // readers: same stream, ungated client
	sp      connectors.SourceSplitter
	runners []string
	readers map[string]connectors.SourceReader
	inbox   map[string][][]*workerpb.SourceSplit
	store   *snapshots.Store
	dir     string
	ckptID  uint64

	mu        sync.Mutex
	calls     []map[string][]*workerpb.SourceSplit
	done      []int // shards reported finished by a reader during the current call
	notifyErr error

	// ground truth of the property
	em       map[int]int            // records emitted in the current timeline
	readerOf map[int]string         // who read records of the shard in this incarnation
	snap     map[string]map[int]int // em at each runner's barrier of the pending checkpoint
	kSrc     *snapshotpb.SourceCheckpoint
	kEm      map[int]int
	whyS     map[int]bool // model taint of the running timeline (from the last Start step)
	whyC     map[int]bool

	obs    []any
	closeF []func()
}

func newWorld(ninit int) (*world, error) {
	w := &world{em: map[int]int{}, kEm: map[int]int{}, whyS: map[int]bool{}, whyC: map[int]bool{}}
	srv, fake := kinesisfake.StartFake()
	w.srv, w.fake = srv, fake
	w.closeF = append(w.closeF, srv.Close)
	w.admin = localClient(srv.URL, nil)
	w.stream = "s"
	ctx := context.Background()
	n := int32(ninit)
	if _, err := w.admin.CreateStream(ctx, &awskinesis.CreateStreamInput{StreamName: &w.stream, ShardCount: &n}); err != nil {
		return nil, fmt.Errorf("CreateStream: %w", err)
	}
	d, err := w.admin.DescribeStream(ctx, &awskinesis.DescribeStreamInput{StreamName: &w.stream})
	if err != nil {
		return nil, fmt.Errorf("DescribeStream: %w", err)
	}
	w.arn = *d.StreamDescription.StreamARN
	w.rcfg = kinesis.SourceConfig{StreamARN: w.arn, Client: localClient(srv.URL, nil)}
	return w, w.refresh()
}

func (w *world) close() {
	w.stopSplitter()
	for _, f := range w.closeF {
		f()
	}
	if w.dir != "" {
		os.RemoveAll(w.dir)
	}
}

// refresh reads the stream's shard list through the admin client (lineage and hash ranges).
func (w *world) refresh() error {
	out, err := w.admin.ListShards(context.Background(), &awskinesis.ListShardsInput{StreamName: &w.stream})
	if err != nil {
		return fmt.Errorf("admin ListShards: %w", err)
	}
	w.ids, w.lo, w.hi, w.parents = nil, nil, nil, nil
	idx := map[string]int{}
	for i, s := range out.Shards {
		idx[*s.ShardId] = i + 1
	}
	for _, s := range out.Shards {
		w.ids = append(w.ids, *s.ShardId)
		lo, _ := new(big.Int).SetString(*s.HashKeyRange.StartingHashKey, 10)
		hi, _ := new(big.Int).SetString(*s.HashKeyRange.EndingHashKey, 10)
		w.lo, w.hi = append(w.lo, lo), append(w.hi, hi)
		var ps []int
		for _, p := range []*string{s.ParentShardId, s.AdjacentParentShardId} {
			if p != nil && *p != "" {
				ps = append(ps, idx[*p])
			}
		}
		w.parents = append(w.parents, ps)
	}
	for len(w.closed) < len(w.ids) {
		w.closed = append(w.closed, false)
		w.nrec = append(w.nrec, 0)
		w.pkey = append(w.pkey, "")
	}
	return nil
}

func (w *world) shardOf(id string) int {
	for i, s := range w.ids {
		if s == id {
			return i + 1
		}
	}
	return 0
}

func runnerName(i int) string { return "sr" + strconv.Itoa(i) }

// cursor encoding of the fake: sequence number = 0-based position; model cursor c = number of records emitted
func curStr(c int) string {
	if c <= 0 {
		return ""
	}
	return strconv.Itoa(c - 1)
}

func curOf(s string) int {
	if s == "" {
		return 0
	}
	n, err := strconv.Atoi(s)
	if err != nil {
		return -1
	}
	return n + 1
}

func (w *world) stopSplitter() {
	if w.sp == nil {
		return
	}
	func() {
		defer func() { recover() }()
		w.sp.Close()
	}()
	if w.parked != nil {
		close(w.parked.release)
		w.parked = nil
	}
	w.sp = nil
}

func (w *world) takeCalls() []map[string][]*workerpb.SourceSplit {
	w.mu.Lock()
	defer w.mu.Unlock()
	c := w.calls
	w.calls = nil
	return c
}

// enqueue puts the hook's messages on the runners' FIFOs, as the job's task
// queue and the runner's splitsWereAssigned channel do; returns the entries as
// text for the comparison with the model.
func (w *world) enqueue(calls []map[string][]*workerpb.SourceSplit) []string {
	var out []string
	for _, call := range calls {
		names := make([]string, 0, len(call))
		for n := range call {
			names = append(names, n)
		}
		sort.Strings(names)
		for _, rn := range names {
			if len(call[rn]) == 0 {
				continue
			}
			w.inbox[rn] = append(w.inbox[rn], call[rn])
			for _, sp := range call[rn] {
				out = append(out, fmt.Sprintf("%s<-%d@%d", rn, w.shardOf(sp.SplitId), curOf(string(sp.Cursor))))
			}
		}
	}
	sort.Strings(out)
	return out
}

// notify is the readers' NotifySplitsFinished hook: the job forwards it to the splitter.
func (w *world) notify(rn string, ids []string) {
	sp := w.sp
	for _, id := range ids {
		w.done = append(w.done, w.shardOf(id))
	}
	if sp == nil {
		return
	}
	// the send on splitsDidFinish inside may block while the discovery goroutine is parked; the removal happens first
	go func() {
		defer func() { recover() }()
		sp.NotifySplitsFinished(rn, ids)
	}()
	dl := time.Now().Add(wait)
	for {
		st := &kinesispb.SplitterState{}
		if err := proto.Unmarshal(sp.Checkpoint(), st); err != nil {
			return
		}
		found := false
		for _, a := range st.AssignedShards {
			for _, id := range ids {
				if a.ShardId == id {
					found = true
				}
			}
		}
		if !found {
			return
		}
		if time.Now().After(dl) {
			w.notifyErr = fmt.Errorf("NotifySplitsFinished(%v): the splitter still tracks the shard after %v", ids, wait)
			return
		}
		time.Sleep(100 * time.Microsecond)
	}
}

// ------------------------------------------------------------- actions ----

func (w *world) start(r int) (err error, crash string) {
	w.stopSplitter()
	w.runners = nil
	for i := 1; i <= r; i++ {
		w.runners = append(w.runners, runnerName(i))
	}
	// a restart loses everything volatile; the timeline is the restored cut
	w.em = map[int]int{}
	for s, c := range w.kEm {
		w.em[s] = c
	}
	w.readerOf = map[int]string{}
	w.snap = nil
	w.takeCalls()
	w.readers = map[string]connectors.SourceReader{}
	w.inbox = map[string][][]*workerpb.SourceSplit{}
	for _, rn := range w.runners {
		name := rn
		w.readers[rn] = w.rcfg.NewSourceReader(connectors.SourceReaderHooks{NotifySplitsFinished: func(ids []string) { w.notify(name, ids) }})
	}
	w.gate = newGate()
	w.errChan = make(chan error, 16)
	w.cfg = kinesis.SourceConfig{StreamARN: w.arn, Client: localClient(w.srv.URL, w.gate), ShardDiscoveryInterval: time.Millisecond}
	hooks := connectors.SourceSplitterHooks{AssignSplits: func(a map[string][]*workerpb.SourceSplit) {
		w.mu.Lock()
		w.calls = append(w.calls, a)
		w.mu.Unlock()
	}}
	w.sp = w.cfg.NewSourceSplitter(w.runners, hooks, w.errChan)

	if w.dir != "" {
		os.RemoveAll(w.dir)
	}
	w.dir, _ = os.MkdirTemp("", "kreader-store-")
	w.store = snapshots.NewStore(&snapshots.NewStoreParams{FileStore: locations.NewLocalDirectory(w.dir), CheckpointsPath: "checkpoints", SavepointsPath: "savepoints"})
	w.store.RegisterSourceSplitter(w.sp)

	done := make(chan string, 1)
	sp := w.sp
	go func() {
		defer func() {
			if p := recover(); p != nil {
				done <- fmt.Sprintf("Start panicked: %v", p)
			}
		}()
		if e := sp.Start(w.kSrc); e != nil {
			done <- fmt.Sprintf("Start failed: %v", e)
			return
		}
		done <- ""
	}()
	select {
	case a := <-w.gate.arrivals:
		close(a.release)
	case msg := <-done:
		if msg == "" {
			return fmt.Errorf("Start returned without listing shards"), ""
		}
		return nil, msg
	case <-time.After(wait):
		return fmt.Errorf("Start neither listed shards nor returned"), ""
	}
	select {
	case msg := <-done:
		if msg != "" {
			return nil, msg
		}
	case <-time.After(wait):
		return fmt.Errorf("Start did not return"), ""
	}
	a, e := w.gate.await()
	if e != nil {
		return fmt.Errorf("after Start: %w", e), ""
	}
	w.parked = a
	return nil, ""
}

func (w *world) tick() error {
	if w.parked == nil {
		return fmt.Errorf("Tick: discovery goroutine is not parked")
	}
	close(w.parked.release)
	w.parked = nil
	a, err := w.gate.await()
	if err != nil {
		select {
		case e := <-w.errChan:
			return fmt.Errorf("Tick: splitter reported %v", e)
		default:
		}
		return fmt.Errorf("Tick: %w", err)
	}
	w.parked = a
	return nil
}

func (w *world) split(s int) error {
	mid := new(big.Int).Add(w.lo[s-1], w.hi[s-1])
	mid.Add(mid, big.NewInt(1))
	mid.Div(mid, big.NewInt(2))
	ms := mid.String()
	if _, err := w.admin.SplitShard(context.Background(), &awskinesis.SplitShardInput{StreamName: &w.stream, ShardToSplit: &w.ids[s-1], NewStartingHashKey: &ms}); err != nil {
		return fmt.Errorf("SplitShard: %w", err)
	}
	w.closed[s-1] = true
	return w.refresh()
}

func (w *world) merge(s, t int) error {
	if _, err := w.admin.MergeShards(context.Background(), &awskinesis.MergeShardsInput{StreamARN: &w.arn, ShardToMerge: &w.ids[s-1], AdjacentShardToMerge: &w.ids[t-1]}); err != nil {
		return fmt.Errorf("MergeShards: %w", err)
	}
	w.closed[s-1], w.closed[t-1] = true, true
	return w.refresh()
}

// keyFor finds a partition key whose MD5 lies in the shard's hash range.
func (w *world) keyFor(s int) string {
	if w.pkey[s-1] != "" {
		return w.pkey[s-1]
	}
	for i := 0; i < 1_000_000; i++ {
		k := "k" + strconv.Itoa(i)
		h := md5.Sum([]byte(k))
		v := new(big.Int).SetBytes(h[:])
		if w.lo[s-1].Cmp(v) <= 0 && w.hi[s-1].Cmp(v) >= 0 {
			w.pkey[s-1] = k
			return k
		}
	}
	return ""
}

func payload(s, i int) []byte { return []byte(fmt.Sprintf("s%d:%d", s, i)) }

func (w *world) put(s int) error {
	k := w.keyFor(s)
	if k == "" {
		return fmt.Errorf("Put(%d): no partition key found for the shard's range", s)
	}
	w.nrec[s-1]++
	_, err := w.admin.PutRecords(context.Background(), &awskinesis.PutRecordsInput{StreamARN: &w.arn,
		Records: []kinesistypes.PutRecordsRequestEntry{{Data: payload(s, w.nrec[s-1]), PartitionKey: &k}}})
	if err != nil {
		return fmt.Errorf("PutRecords: %w", err)
	}
	return nil
}

func decode(ev []byte) (rec, error) {
	var r protocol.Record
	if err := proto.Unmarshal(ev, &r); err != nil {
		return rec{}, err
	}
	var s, i int
	if _, err := fmt.Sscanf(string(r.Data), "s%d:%d", &s, &i); err != nil {
		return rec{}, fmt.Errorf("payload %q: %w", r.Data, err)
	}
	return rec{s, i}, nil
}

// read: one ReadEvents of runner rn; every returned record is judged against the ground truth.
func (w *world) read(rn string, lim int) (recs []rec, done []int, vs []viol, err error) {
	rd := w.readers[rn]
	w.fake.SetGetRecordsLimit(lim)
	w.done = nil
	evs, e := rd.ReadEvents()
	if e != nil {
		return nil, nil, nil, fmt.Errorf("ReadEvents of %s: %w", rn, e)
	}
	if w.notifyErr != nil {
		return nil, nil, nil, w.notifyErr
	}
	done = w.done
	w.done = nil
	for _, ev := range evs {
		r, e := decode(ev)
		if e != nil {
			return nil, nil, nil, fmt.Errorf("ReadEvents of %s returned an undecodable event: %w", rn, e)
		}
		recs = append(recs, r)
		vs = append(vs, w.judge(rn, r)...)
	}
	return recs, done, vs, nil
}

func (w *world) judge(rn string, r rec) []viol {
	var vs []viol
	s := r.shard
	if s < 1 || s > len(w.ids) || r.idx < 1 || r.idx > w.nrec[s-1] {
		return []viol{{"gap", s, fmt.Sprintf("%s read record %d of shard %d which was never put", rn, r.idx, s)}}
	}
	if prev, ok := w.readerOf[s]; ok && prev != rn {
		vs = append(vs, viol{"two", s, fmt.Sprintf("record %d of shard %d (%s) is read by %s, %s read records of it in the same incarnation", r.idx, s, w.ids[s-1], rn, prev)})
	}
	w.readerOf[s] = rn
	switch {
	case r.idx <= w.em[s]:
		vs = append(vs, viol{"repeat", s, fmt.Sprintf("%s read record %d of shard %d (%s) again: %d records of it were emitted ahead of the cut / before in this timeline", rn, r.idx, s, w.ids[s-1], w.em[s])})
	case r.idx > w.em[s]+1:
		vs = append(vs, viol{"gap", s, fmt.Sprintf("%s read record %d of shard %d (%s) but only %d records of it were emitted: records %d..%d are skipped", rn, r.idx, s, w.ids[s-1], w.em[s], w.em[s]+1, r.idx-1)})
	}
	for _, p := range w.parents[s-1] {
		if w.em[p] < w.nrec[p-1] {
			vs = append(vs, viol{"early", s, fmt.Sprintf("%s read record %d of child shard %d (%s) while only %d of the %d records of its parent %d (%s) were read", rn, r.idx, s, w.ids[s-1], w.em[p], w.nrec[p-1], p, w.ids[p-1])})
			break
		}
	}
	if r.idx > w.em[s] {
		w.em[s] = r.idx
	}
	return vs
}

func (w *world) startCkpt() error {
	id, err := w.store.CreateCheckpoint([]string{"op"}, w.runners)
	if err != nil {
		return fmt.Errorf("CreateCheckpoint: %w", err)
	}
	w.ckptID = id
	w.snap = map[string]map[int]int{}
	return nil
}

// barrier: the runner loop reaches the barrier: SourceReader.Checkpoint() + ack
func (w *world) barrier(rn string) ([]string, error) {
	states := w.readers[rn].Checkpoint()
	sn := map[int]int{}
	for s, c := range w.em {
		sn[s] = c
	}
	w.snap[rn] = sn
	var text []string
	for _, b := range states {
		var sh kinesispb.Shard
		if err := proto.Unmarshal(b, &sh); err != nil {
			return nil, fmt.Errorf("split state of %s does not decode: %w", rn, err)
		}
		text = append(text, fmt.Sprintf("%d@%d", w.shardOf(sh.ShardId), curOf(sh.Cursor)))
	}
	err := w.store.AddSourceSnapshot(&jobpb.SourceRunnerCheckpointCompleteRequest{CheckpointId: w.ckptID, SourceRunnerId: rn, SplitStates: states})
	if err != nil {
		return nil, fmt.Errorf("AddSourceSnapshot: %w", err)
	}
	return text, nil
}

func (w *world) complete() (*snapshotpb.SourceCheckpoint, error) {
	if err := w.store.AddOperatorSnapshot(&snapshotpb.OperatorCheckpoint{CheckpointId: w.ckptID, OperatorId: "op"}); err != nil {
		return nil, fmt.Errorf("AddOperatorSnapshot: %w", err)
	}
	dl := time.Now().Add(wait)
	for {
		if cp := w.store.CurrentCheckpoint(); cp != nil && cp.Id == w.ckptID {
			if len(cp.SourceCheckpoints) != 1 {
				return nil, fmt.Errorf("published checkpoint has %d source checkpoints", len(cp.SourceCheckpoints))
			}
			w.kSrc = cp.SourceCheckpoints[0]
			break
		}
		if time.Now().After(dl) {
			return nil, fmt.Errorf("checkpoint %d was not published", w.ckptID)
		}
		time.Sleep(200 * time.Microsecond)
	}
	// the cut: a shard's position at the barrier of the runner that read it; a shard nobody read has not moved
	w.kEm = map[int]int{}
	for s, c := range w.em {
		if rn, ok := w.readerOf[s]; ok {
			w.kEm[s] = w.snap[rn][s]
		} else {
			w.kEm[s] = c
		}
	}
	w.snap = nil
	return w.kSrc, nil
}

// ------------------------------------------------------------- replay ----

func predictedBad(st mbt.Step) map[string]string {
	out := map[string]string{}
	for _, x := range st.List("bad") {
		m, _ := x.(map[string]any)
		e := mbt.Step(m)
		out[e.Str("k")+":"+strconv.Itoa(e.Int("s"))] = e.Str("dev")
	}
	return out
}

func intSet(xs []int) map[int]bool {
	m := map[int]bool{}
	for _, x := range xs {
		m[x] = true
	}
	return m
}

func replay(bi int, beh []mbt.Step, in *mbt.Input, res *mbt.Result) {
	w, err := newWorld(in.CfgInt("NInit", 1))
	if err != nil {
		res.Errors = append(res.Errors, fmt.Sprintf("behaviour %d: %v", bi, err))
		return
	}
	defer w.close()
	seenKnown := map[string]bool{}
	nviol := 0
	report := func(si int, v viol, known string) {
		if known != "" {
			res.Count("known:"+known, 1)
			if seenKnown[known+v.kind] {
				return
			}
			seenKnown[known+v.kind] = true
		} else {
			nviol++
		}
		res.Violations = append(res.Violations, mbt.Violation{Property: in.Property, Behaviour: bi, Step: si,
			What: "[" + v.kind + "] " + v.what, Known: known})
	}
	// predicted violations are known findings, others are violations; false = stop (an unexplained violation was reported)
	settle := func(si int, pb map[string]string, vs []viol) bool {
		ok := true
		seen := map[string]bool{}
		for _, v := range vs {
			key := v.kind + ":" + strconv.Itoa(v.shard)
			if seen[key] {
				continue // one report per kind and shard and step
			}
			seen[key] = true
			// Pre_* / Bug_* switches are not the code: what they predict must not show on the real code
			if dev, has := pb[key]; has && strings.HasPrefix(dev, "Dev_") {
				report(si, v, dev)
			} else {
				report(si, v, "")
				ok = false
			}
		}
		return ok
	}
	// Adversarial: the behaviour was generated with a Pre_* switch on (a schedule of the unrepaired code); its
	// predictions are not the code's, only the property is judged
	adversarial := in.CfgBool("Adversarial", false)
	drifted := false
	driftf := func(si int, f string, a ...any) {
		if adversarial {
			return
		}
		res.Count("mismatch", 1)
		if !drifted {
			drifted = true
			res.Driftf("behaviour %d step %d (%s): %s", bi, si, beh[si].Str("a"), fmt.Sprintf(f, a...))
		}
	}
	fail := func(si int, err error) {
		res.Errors = append(res.Errors, fmt.Sprintf("behaviour %d step %d (%s): %v", bi, si, beh[si].Str("a"), err))
	}
	predAssign := func(st mbt.Step) []string {
		var out []string
		for _, x := range st.List("assign") {
			m, _ := x.(map[string]any)
			e := mbt.Step(m)
			out = append(out, fmt.Sprintf("%s<-%d@%d", runnerName(e.Int("r")), e.Int("s"), e.Int("c")))
		}
		sort.Strings(out)
		return out
	}
	sampleOn := bi == 0
	doStep := func(si int, st mbt.Step) bool {
		res.Steps++
		a := st.Str("a")
		res.Count("step:"+a, 1)
		switch a {
		case "Start":
			err, crash := w.start(st.Int("r"))
			if err != nil {
				fail(si, err)
				return false
			}
			if crash != "" {
				report(si, viol{"crash", 0, fmt.Sprintf("kinesis splitter Start with %d runners: %s", st.Int("r"), crash)}, "")
				return false
			}
			w.whyS, w.whyC = intSet(st.Ints("whyS")), intSet(st.Ints("whyC"))
			got := w.enqueue(w.takeCalls())
			if sampleOn {
				w.obs = append(w.obs, map[string]any{"step": si, "a": "Start", "runners": len(w.runners), "restored": w.kSrc != nil, "AssignSplits": got})
			}
			if want := predAssign(st); fmt.Sprint(want) != fmt.Sprint(got) {
				driftf(si, "predicted assignment %v, observed %v", want, got)
			}
		case "Tick":
			if err := w.tick(); err != nil {
				fail(si, err)
				return false
			}
			got := w.enqueue(w.takeCalls())
			if sampleOn && len(got) > 0 {
				w.obs = append(w.obs, map[string]any{"step": si, "a": "Tick", "AssignSplits": got})
			}
			if want := predAssign(st); fmt.Sprint(want) != fmt.Sprint(got) {
				driftf(si, "predicted assignment %v, observed %v", want, got)
			}
		case "Deliver":
			rn := runnerName(st.Int("r"))
			// a discovery round of the real splitter may have produced two messages where the model has one
			// (ticker round + splitsDidFinish wake-up): the runner takes messages until the model's is covered
			want := len(st.List("msg"))
			got := 0
			for got < want && len(w.inbox[rn]) > 0 {
				m := w.inbox[rn][0]
				w.inbox[rn] = w.inbox[rn][1:]
				if err := w.readers[rn].AssignSplits(m); err != nil {
					fail(si, fmt.Errorf("SourceReader.AssignSplits: %w", err))
					return false
				}
				got += len(m)
			}
			if got != want {
				driftf(si, "model delivers %d splits to %s, the messages on their way hold %d", want, rn, got)
			}
		case "Read":
			rn := runnerName(st.Int("r"))
			recs, done, vs, err := w.read(rn, st.Int("lim"))
			if err != nil {
				fail(si, err)
				return false
			}
			res.Count("records", len(recs))
			if sampleOn && len(w.obs) < 40 {
				w.obs = append(w.obs, map[string]any{"step": si, "a": "Read", "runner": rn, "limit": st.Int("lim"), "records": fmt.Sprint(recs), "finished": done})
			}
			if !settle(si, predictedBad(st), vs) {
				return false
			}
			var want []rec
			for i := st.Int("from"); i <= st.Int("to"); i++ {
				want = append(want, rec{st.Int("s"), i})
			}
			wd := []int(nil)
			if st.Bool("done") {
				wd = []int{st.Int("s")}
			}
			if fmt.Sprint(want) != fmt.Sprint(recs) || fmt.Sprint(wd) != fmt.Sprint(done) {
				driftf(si, "model reads %v finished %v, the reader returned %v finished %v", want, wd, recs, done)
			}
			for k, dev := range predictedBad(st) {
				found := false
				for _, v := range vs {
					if v.kind+":"+strconv.Itoa(v.shard) == k {
						found = true
					}
				}
				if !found {
					driftf(si, "the model predicts %s (%s), the code does not show it", k, dev)
				}
			}
		case "Expire":
			w.fake.ExpireShardIterators()
		case "Put":
			if err := w.put(st.Int("s")); err != nil {
				fail(si, err)
				return false
			}
		case "Split":
			if err := w.split(st.Int("s")); err != nil {
				fail(si, err)
				return false
			}
		case "Merge":
			if err := w.merge(st.Int("s"), st.Int("t")); err != nil {
				fail(si, err)
				return false
			}
		case "StartCkpt":
			if err := w.startCkpt(); err != nil {
				fail(si, err)
				return false
			}
		case "Barrier":
			got, err := w.barrier(runnerName(st.Int("r")))
			if err != nil {
				fail(si, err)
				return false
			}
			var want []string
			for _, x := range st.List("states") {
				m, _ := x.(map[string]any)
				want = append(want, fmt.Sprintf("%d@%d", mbt.Step(m).Int("s"), mbt.Step(m).Int("c")))
			}
			if sampleOn {
				w.obs = append(w.obs, map[string]any{"step": si, "a": "Barrier", "runner": st.Int("r"), "splitStates": got})
			}
			if fmt.Sprint(want) != fmt.Sprint(got) {
				driftf(si, "model captures %v, SourceReader.Checkpoint() holds %v", want, got)
			}
		case "Complete":
			src, err := w.complete()
			if err != nil {
				fail(si, err)
				return false
			}
			stt := &kinesispb.SplitterState{}
			if err := proto.Unmarshal(src.SplitterState, stt); err != nil {
				fail(si, err)
				return false
			}
			var got []int
			for _, a := range stt.AssignedShards {
				got = append(got, w.shardOf(a.ShardId))
			}
			sort.Ints(got)
			if sampleOn {
				w.obs = append(w.obs, map[string]any{"step": si, "a": "Complete", "splitterState.shards": got, "last": stt.LastAssignedShardId, "splitStates": len(src.SplitStates)})
			}
			if want := st.Ints("known"); fmt.Sprint(got) != fmt.Sprint(want) || w.shardOf(stt.LastAssignedShardId) != st.Int("last") {
				driftf(si, "splitter checkpoint holds shards %v last %q, model %v last %d", got, stt.LastAssignedShardId, want, st.Int("last"))
			}
		default:
			res.Errors = append(res.Errors, fmt.Sprintf("unknown action %q", a))
			return false
		}
		if w.errChan != nil {
			select {
			case e := <-w.errChan:
				res.Errors = append(res.Errors, fmt.Sprintf("behaviour %d step %d: the splitter reported an error: %v", bi, si, e))
				return false
			default:
			}
		}
		return true
	}
	for si, st := range beh {
		if !doStep(si, st) {
			return
		}
	}
	// final rounds: discovery, delivery, reading until nothing moves for three rounds; then nothing may be unread
	if w.sp != nil && w.parked != nil {
		last := len(beh) - 1
		w.fake.SetGetRecordsLimit(10_000)
		taint := map[string]string{}
		for s := 1; s <= len(w.ids)+8; s++ {
			if w.whyC[s] {
				taint["repeat:"+strconv.Itoa(s)] = "Pre_CursorAtReaderOnly"
			}
		}
		quiet := 0
		for round := 0; quiet < 3 && round < 60; round++ {
			moved := false
			if err := w.tick(); err != nil {
				res.Errors = append(res.Errors, fmt.Sprintf("behaviour %d final rounds: %v", bi, err))
				return
			}
			if len(w.enqueue(w.takeCalls())) > 0 {
				moved = true
			}
			for _, rn := range w.runners {
				for len(w.inbox[rn]) > 0 {
					m := w.inbox[rn][0]
					w.inbox[rn] = w.inbox[rn][1:]
					if err := w.readers[rn].AssignSplits(m); err != nil {
						res.Errors = append(res.Errors, fmt.Sprintf("behaviour %d final rounds: AssignSplits: %v", bi, err))
						return
					}
					moved = true
				}
				for k := 0; k < len(w.ids)+1; k++ {
					// children of a shard dropped by Dev_StateAtCompletion are read although it has unread records
					for s := 1; s <= len(w.ids); s++ {
						for _, p := range w.parents[s-1] {
							if w.whyS[p] {
								taint["early:"+strconv.Itoa(s)] = "Dev_StateAtCompletion"
							}
						}
					}
					recs, done, vs, err := w.read(rn, 10_000)
					if err != nil {
						res.Errors = append(res.Errors, fmt.Sprintf("behaviour %d final rounds: %v", bi, err))
						return
					}
					res.Count("records", len(recs))
					if len(recs) > 0 || len(done) > 0 {
						moved = true
					}
					if !settle(last, taint, vs) {
						return
					}
				}
			}
			if moved {
				quiet = 0
			} else {
				quiet++
			}
		}
		if quiet < 3 {
			res.Errors = append(res.Errors, fmt.Sprintf("behaviour %d: the final rounds did not come to rest", bi))
			return
		}
		var vs []viol
		lostTaint := map[string]string{}
		for s := 1; s <= len(w.ids); s++ {
			if w.em[s] < w.nrec[s-1] {
				vs = append(vs, viol{"lost", s, fmt.Sprintf("records %d..%d of shard %d (%s) are never read: after the final discovery rounds no reader returns them", w.em[s]+1, w.nrec[s-1], s, w.ids[s-1])})
			}
			if w.whyS[s] {
				lostTaint["lost:"+strconv.Itoa(s)] = "Dev_StateAtCompletion"
			}
		}
		if !settle(last, lostTaint, vs) {
			return
		}
	}
	res.Executed++
	if nviol == 0 && sampleOn && len(res.Samples) < 2 {
		res.Samples = append(res.Samples, map[string]any{"kind": "observed on the real kinesis reader + splitter (behaviour 0)", "events": w.obs})
	}
}

func main() { mbt.Main(replay) }
