// "db" mode: the same critical schedule the model names (a flush's change set
// lands on db.sstables while a compaction is between its pick/build and its
// swap) forced onto the real dkv.DB. The harness owns the FileSystem: a Save
// issued from inside sst.Compactor parks the compaction goroutine, the harness
// then writes until a memtable has been flushed and swapped in, and only then
// lets the compaction swap. After every step the database content (real
// DB.ScanPrefix) must equal the writes so far: C18 "holds while flushes keep
// adding level-0 tables concurrently" (dkv/db.go rotateMemtable).
// Puts only, so the read-path defects of other properties cannot interfere.
package main

import (
	"fmt"
	"math/rand"
	"os"
	"regexp"
	"runtime"
	"sort"
	"strconv"
	"strings"
	"sync"
	"time"

	"reduction.dev/reduction/dkv"
	"reduction.dev/reduction/dkv/storage"
	"verif/harness/mbt"
)

type dbGate struct {
	mu     sync.Mutex
	hold   bool
	parked chan chan struct{}
}

func (g *dbGate) holding() bool  { g.mu.Lock(); defer g.mu.Unlock(); return g.hold }
func (g *dbGate) setHold(h bool) { g.mu.Lock(); g.hold = h; g.mu.Unlock() }

func fromCompactor() bool {
	pcs := make([]uintptr, 40)
	n := runtime.Callers(2, pcs)
	frames := runtime.CallersFrames(pcs[:n])
	for {
		f, more := frames.Next()
		if strings.Contains(f.Function, "sst.(*Compactor)") {
			return true
		}
		if !more {
			return false
		}
	}
}

type gateFS struct {
	storage.FileSystem
	g *dbGate
}

func (f *gateFS) New(path string) storage.File {
	return &gateFile{File: f.FileSystem.New(path), g: f.g}
}

type gateFile struct {
	storage.File
	g *dbGate
}

func (f *gateFile) Save() error {
	if f.g.holding() && fromCompactor() {
		ch := make(chan struct{})
		f.g.parked <- ch
		<-ch
	}
	return f.File.Save()
}

func (g *dbGate) waitPark(d time.Duration) chan struct{} {
	select {
	case ch := <-g.parked:
		return ch
	default:
	}
	if d == 0 {
		return nil
	}
	select {
	case ch := <-g.parked:
		return ch
	case <-time.After(d):
		return nil
	}
}

// settle waits until no flush or compaction goroutine of the DB is running
// outside the gate (every one is finished, parked in gateFile.Save, or queued
// behind the parked one), by inspecting all goroutine stacks. Returns false on
// time-out.
func settle(d time.Duration) bool {
	dl := time.Now().Add(d)
	buf := make([]byte, 1<<20)
	calm := 0
	for {
		n := runtime.Stack(buf, true)
		busy, parked, queued := false, 0, 0
		for _, gs := range strings.Split(string(buf[:n]), "\n\n") {
			if !strings.Contains(gs, "AsyncGroup).Enqueue") && !strings.Contains(gs, "rotateMemtable") && !strings.Contains(gs, "errgroup.(*Group).Go") {
				continue
			}
			if strings.Contains(gs, "main.runDB") || strings.Contains(gs, "errgroup.(*Group).Wait") {
				continue
			}
			switch {
			case strings.Contains(gs, "gateFile).Save"):
				parked++
			case strings.Contains(gs, "sync.(*Mutex).Lock"):
				queued++ // fine only behind a parked compaction
			default:
				busy = true
			}
		}
		if queued > 0 && parked == 0 {
			busy = true
		}
		if !busy {
			if calm++; calm >= 2 {
				return true
			}
		} else {
			calm = 0
		}
		if time.Now().After(dl) {
			if debugStacks {
				fmt.Println(string(buf[:n]))
			}
			return false
		}
		time.Sleep(100 * time.Microsecond)
	}
}

var debugStacks = os.Getenv("C18_DEBUG_STACKS") != ""

var memNumRe = regexp.MustCompile(`MemTables \(num: (\d+)\)`)
var levelRe = regexp.MustCompile(`level (\d+), tables (\d+), size (\d+)`)

func memTables(db *dkv.DB) int {
	m := memNumRe.FindStringSubmatch(db.Diagnostics())
	if m == nil {
		return -1
	}
	n, _ := strconv.Atoi(m[1])
	return n
}

func tableCounts(db *dkv.DB) []int {
	var out []int
	for _, m := range levelRe.FindAllStringSubmatch(db.Diagnostics(), -1) {
		n, _ := strconv.Atoi(m[2])
		out = append(out, n)
	}
	return out
}

func dbScan(db *dkv.DB) (m map[string]string, errText string) {
	defer func() {
		if r := recover(); r != nil {
			errText = fmt.Sprint("panic: ", r)
		}
	}()
	m = map[string]string{}
	var scanErr error
	for e := range db.ScanPrefix(nil, &scanErr) {
		if e.IsDelete() {
			continue
		}
		m[string(e.Key())] = string(e.Value())
	}
	if scanErr != nil {
		errText = scanErr.Error()
	}
	return m, errText
}

func dbGet(db *dkv.DB, k string) (v string, errText string) {
	defer func() {
		if r := recover(); r != nil {
			errText = fmt.Sprint("panic: ", r)
		}
	}()
	e, err := db.Get([]byte(k))
	if err != nil {
		return "", err.Error()
	}
	if e.IsDelete() {
		return "", "deleted"
	}
	return string(e.Value()), ""
}

func runDB(in *mbt.Input, res *mbt.Result) {
	runs, steps := in.CfgInt("Runs", 40), in.CfgInt("Steps", 30)
	var events []any
	for ri := 0; ri < runs; ri++ {
		if only := in.CfgInt("OnlyRun", -1); only >= 0 && ri != only {
			continue
		}
		rng := rand.New(rand.NewSource(in.Seed*7919 + int64(ri)))
		perMem := 1 + rng.Intn(3)
		l0 := 1 + rng.Intn(2)
		tgt := []uint64{40, 45, 100000}[rng.Intn(3)]
		g := &dbGate{hold: true, parked: make(chan chan struct{}, 64)}
		db := dkv.New(dkv.DBOptions{
			FileSystem:                  &gateFS{FileSystem: storage.NewMemoryFilesystem(), g: g},
			MemTableSize:                uint64(20*perMem - 1),
			TargetFileSize:              tgt,
			L0TableNumCompactionTrigger: l0,
		})
		if err := db.Start(nil); err != nil {
			res.Errors = append(res.Errors, fmt.Sprintf("db run %d: Start: %v", ri, err))
			return
		}
		oracle := map[string]string{}
		var log []string
		var pending chan struct{}
		dead := false
		check := func(si int, when string) {
			got, errText := dbScan(db)
			bad := errText
			if bad == "" {
				var ks []string
				for k := range oracle {
					ks = append(ks, k)
				}
				sort.Strings(ks)
				for _, k := range ks {
					if v, ok := got[k]; !ok {
						bad = fmt.Sprintf("key %q (last write %q) is not found", k, oracle[k])
						break
					} else if v != oracle[k] {
						bad = fmt.Sprintf("key %q reads %q, the last write is %q", k, v, oracle[k])
						break
					}
				}
				for k := range got {
					if _, ok := oracle[k]; !ok && bad == "" {
						bad = fmt.Sprintf("key %q was never written", k)
					}
				}
				// point lookups take another path through the levels than scans (first hit per level, no merge)
				for _, k := range ks {
					if bad != "" {
						break
					}
					e, err := dbGet(db, k)
					switch {
					case err != "":
						bad = fmt.Sprintf("Get(%q) fails: %s (last write %q)", k, err, oracle[k])
					case e != oracle[k]:
						bad = fmt.Sprintf("Get(%q) returns %q, the last write is %q (ScanPrefix shows the last write)", k, e, oracle[k])
					}
				}
			}
			if bad != "" && !dead {
				dead = true
				res.Violations = append(res.Violations, mbt.Violation{Property: prop, Behaviour: ri, Step: si,
					What:     fmt.Sprintf("real dkv.DB %s: the database no longer shows the writes so far: %s (tables per level %v)", when, bad, tableCounts(db)),
					Observed: map[string]any{"scan": got, "schedule": log}, Expected: oracle})
			}
		}
		n, behind := 0, 0
		active := map[string]bool{} // keys in the active memtable (every entry is 20 bytes)
		// the harness lost track of the background tasks (its "settled" test reads goroutine stacks and has a
		// deadline): the run is abandoned and counted as drift, it says nothing about the property
		stuck := func(si int, what string) {
			res.Driftf("db run %d step %d: %s; schedule %v", ri, si, what, log)
			res.Count("db_runs_abandoned", 1)
			dead = true
		}
		for si := 0; si < steps && !dead; si++ {
			if pending == nil {
				pending = g.waitPark(0)
			}
			// the compaction queue holds at most 5 waiting tasks: never let more than 3 flushes pile up behind a parked compaction
			if pending != nil && (rng.Intn(100) < 35 || behind >= 3) {
				close(pending)
				log = append(log, "release compaction")
				res.Count("db_compaction_saves_released", 1)
				if !settle(20 * time.Second) {
					stuck(si, "background work did not settle after releasing the compaction")
					break
				}
				if pending = g.waitPark(0); pending == nil {
					behind = 0
				}
				check(si, "after a compaction step")
				res.Steps++
				continue
			}
			k := string(rune('a' + rng.Intn(6)))
			n++
			v := fmt.Sprintf("%02d", n%100)
			db.Put([]byte(k), []byte(v))
			oracle[k] = v
			active[k] = true
			log = append(log, fmt.Sprintf("put %s=%s", k, v))
			if len(active) >= perMem { // size > MemTableSize: the memtable was rotated and a flush enqueued
				active = map[string]bool{}
				if !settle(20 * time.Second) {
					stuck(si, "flush did not settle")
					break
				}
				// the goroutine snapshot can be taken before the flush task was scheduled:
				// the swap itself (sealed memtables dequeued) is what "settled" means
				m := memTables(db)
				for dl := time.Now().Add(20 * time.Second); m != 1 && time.Now().Before(dl); m = memTables(db) {
					time.Sleep(200 * time.Microsecond)
				}
				if m != 1 {
					stuck(si, fmt.Sprintf("%d memtables after the flush settled", m))
					break
				}
				if !settle(20 * time.Second) {
					stuck(si, "flush did not settle")
					break
				}
				res.Count("db_flushes", 1)
				if pending != nil {
					log = append(log, "flush swapped in while a compaction is parked before its swap")
					res.Count("db_flush_swapped_while_compaction_parked", 1)
					behind++
				} else {
					pending = g.waitPark(0)
				}
			}
			check(si, "after a put/flush")
			res.Steps++
		}
		if len(res.Errors) > 0 {
			return
		}
		g.setHold(false)
		if pending != nil {
			close(pending)
		}
		done := make(chan error, 1)
		go func() { done <- db.WaitOnTasks() }()
	drain:
		for {
			select {
			case ch := <-g.parked:
				close(ch)
			case err := <-done:
				if err != nil {
					res.Errors = append(res.Errors, fmt.Sprintf("db run %d: background task failed: %v", ri, err))
					return
				}
				break drain
			case <-time.After(20 * time.Second):
				res.Errors = append(res.Errors, fmt.Sprintf("db run %d: background tasks did not finish", ri))
				return
			}
		}
		check(steps, "after all background work")
		if !dead {
			res.Executed++
		}
		if ri < 3 {
			events = append(events, map[string]any{"kind": "dkv.DB schedule", "perMemtable": perMem, "l0": l0, "target": tgt, "schedule": log, "tables": tableCounts(db)})
		}
	}
	res.Samples = events
}
