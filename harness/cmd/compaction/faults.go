// Read faults during a compaction step (C18: "any compaction step ... leaves every key's visible value unchanged").
// A step that hits a storage read error may report the error (dkv.DB then applies nothing); a step that reports
// success must preserve the contents whatever happened to its reads. faultFS fails exactly one ReadAt - the n-th
// after arming - of the files the real sst.Compactor reads; the change set of a step that "succeeded" although the
// fault fired is applied to a copy of the level list and judged like every other layout.
package main

import (
	"errors"
	"fmt"
	"sort"
	"strings"
	"sync"

	"reduction.dev/reduction/dkv/sst"
	"reduction.dev/reduction/dkv/storage"
	"verif/harness/mbt"
)

var errInjected = errors.New("injected read fault: connection reset by peer")

type faultFS struct {
	storage.FileSystem
	mu    sync.Mutex
	armed bool
	left  int // reads until the fault
	fired bool
	reads int
}

func (f *faultFS) New(path string) storage.File  { return &faultFile{File: f.FileSystem.New(path), fs: f} }
func (f *faultFS) Open(path string) storage.File { return &faultFile{File: f.FileSystem.Open(path), fs: f} }

func (f *faultFS) arm(n int) {
	f.mu.Lock()
	f.armed, f.left, f.fired, f.reads = true, n, false, 0
	f.mu.Unlock()
}

func (f *faultFS) disarm() (fired bool, reads int) {
	f.mu.Lock()
	defer f.mu.Unlock()
	f.armed = false
	return f.fired, f.reads
}

type faultFile struct {
	storage.File
	fs *faultFS
}

func (f *faultFile) ReadAt(p []byte, off int64) (int, error) {
	f.fs.mu.Lock()
	if f.fs.armed {
		f.fs.reads++
		if !f.fs.fired {
			if f.fs.left--; f.fs.left <= 0 {
				f.fs.fired = true
				f.fs.mu.Unlock()
				return 0, errInjected
			}
		}
	}
	f.fs.mu.Unlock()
	return f.File.ReadAt(p, off)
}

// faultedCompact: one Compact call with a read fault armed at read n. Returns done=true when the call is to be taken
// as the step's real Compact call (the fault did not fire: an ordinary step), with its results.
func (r *run) faultedCompact(si, n int) (done bool, cs *sst.ChangeSet, removed []int, added map[int][]int, err error) {
	r.ffs.arm(n)
	cs, removed, added, err = r.compact()
	fired, _ := r.ffs.disarm()
	if !fired {
		return true, cs, removed, added, err
	}
	r.res.Count("compactions_with_a_read_fault", 1)
	// whatever the failed step reports, the level list it was given stays in use
	r.observe(si, "Build", nil)
	if r.dead {
		return false, nil, nil, nil, nil
	}
	if err != nil {
		if strings.Contains(err.Error(), "panicked") {
			r.res.Count("read_fault_panics", 1) // the step did not report success; nothing is applied
		}
		r.res.Count("read_fault_reported_as_error", 1)
		return false, nil, nil, nil, nil
	}
	if cs == nil {
		r.res.Count("read_fault_no_change_set", 1)
		return false, nil, nil, nil, nil
	}
	// the step reports success although one of its reads failed: what it would do to the database
	r.res.Count("read_fault_step_succeeded", 1)
	var after *sst.LevelList
	func() {
		defer func() {
			if p := recover(); p != nil {
				err = fmt.Errorf("NewWithChangeSet panicked: %v", p)
			}
		}()
		after = r.cur.NewWithChangeSet(cs)
	}()
	if err != nil {
		return false, nil, nil, nil, nil
	}
	lo := project(after, r.nlevels)
	rs, rsErr := realScan(after)
	if fs := judge(lo, r.truth, r.vlen, rs, rsErr); len(fs) > 0 && !r.dead {
		r.dead = true
		kinds := map[string]bool{}
		var what []string
		for _, f := range fs {
			kinds[f.kind] = true
			if len(what) < 3 {
				what = append(what, f.what)
			}
		}
		var ks []string
		for k := range kinds {
			ks = append(ks, k)
		}
		sort.Strings(ks)
		r.res.Violations = append(r.res.Violations, mbt.Violation{Property: prop, Behaviour: r.bi, Step: si,
			What: fmt.Sprintf("a compaction step whose read #%d of its input tables failed (%v) reports success, and applying its change set breaks C18 [%s]: %s",
				n, errInjected, strings.Join(ks, ","), strings.Join(what, "; ")),
			Observed: lo, Expected: map[string]any{"truth": r.truthJSON()}})
	}
	// the change set is not applied: the database would have to be judged again after the next clean step anyway
	return false, nil, nil, nil, nil
}
