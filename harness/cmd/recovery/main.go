// recovery binds spec/Recovery.tla (property C01, exactly-once keyed state
// across worker failure and recovery) to the real code through
// verif/harness/cluster.
//
// mode "replay" (default): every TLC behaviour is executed as a script over the
// cluster kit's message-level gates (release barrier n of sr1 to op2, hold
// sr1's ack, deliver op acks in this order, kill these nodes now, restart)
// on the real jobs.Job / SourceRunner / Operator / dkv, and the observables
// are compared with what the property demands:
//   - the state the handler is GIVEN for every event (failure-free value:
//     cnt[e] absent, last[key,split] = idx of the previous record of that key),
//   - every published job checkpoint read back from the operators' DKV
//     checkpoints (the failure-free state at its own split cursors),
//   - the final state after the run is driven to completion (every record
//     applied exactly once, at the owner of its key).
//
// mode "trace": seeded free-running runs (random read pacing, ack orders, kill
// sets and kill moments) recorded as Deliver / Published / Kill / Restart /
// Final events for validation by spec/RecoveryTrace.tla.
package main

import (
	"encoding/json"
	"errors"
	"fmt"
	"io"
	"math/rand"
	"os"
	"runtime"
	"sort"
	"time"

	"verif/harness/cluster"
	"verif/harness/gate"
	"verif/harness/mbt"
)

const wait = 4 * time.Second

const knownAssign = "Dev_AssignUnsorted"

// knownLatePub: a surviving job publishes a complete checkpoint of the previous assembly after it has re-assembled
// from an older one. Nothing protects the files that checkpoint names any more (the new assembly's databases and
// NeedsTable rounds do not know it), yet the next recovery loads it. Once that has happened in a behaviour, what
// goes wrong afterwards is this finding (taint); everything before it, and every behaviour without it, is not.
const knownLatePub = "Dev_LatePublication"

// ------------------------------------------------------------ config ----

type conf struct {
	W, NSplits, NRecs, B, KeyGroups int
	G                               int     // > 0: keys are placed by key group (rescale at recovery), owners follow from partitioning.KeySpace
	keyOf                           [][]int // [s-1][i-1] -> model key (1-based)
	owner                           []int   // [k-1] -> operator (1-based) when there are W workers (G = 0)
	group                           []int   // [k-1] -> key group (1-based) (G > 0)
	keyName                         []string
	splits                          [][]cluster.Record
	counts                          []int      // trace mode: worker counts a generation may have (empty: always W)
	overlap                         bool       // trace mode: job snapshot writes are held and land in seeded order; checkpoints are started meanwhile
	mem                             []int      // dkv memtable sizes to run with, one per behaviour / generation in turn (0 = the repo's default); empty: no tuning
	lvl, amp                        int        // dkv.smallestLevelSize / dkv.maxSizeAmpPct under tuning (0 = default)
	latePub                         bool       // Dev_LatePublication
	survive                         bool       // Restart keeps the workers that were not killed (cluster.RestartSurvivors)
	swapDelayUs                     int        // every third tuned generation: flush / compaction swaps are delayed by up to this many microseconds
}

// nk is the number of model keys.
func (c *conf) nk() int {
	if c.G > 0 {
		return len(c.group)
	}
	return len(c.owner)
}

func digits(code, n int) []int {
	out := make([]int, n)
	for p := n - 1; p >= 0; p-- {
		out[p] = code % 10
		code /= 10
	}
	return out
}

func ndigits(x int) int {
	n := 1
	for x >= 10 {
		x /= 10
		n++
	}
	return n
}

func readConf(in *mbt.Input) (*conf, error) {
	c := &conf{W: in.CfgInt("W", 2), NSplits: in.CfgInt("NSplits", 2), NRecs: in.CfgInt("NRecs", 2), B: in.CfgInt("B", 1)}
	c.KeyGroups = in.CfgInt("KeyGroups", 2*c.W)
	c.G = in.CfgInt("G", 0)
	c.counts = in.Ints("Counts")
	c.overlap = in.CfgBool("Overlap", false)
	c.mem = in.Ints("MemSizes")
	c.lvl, c.amp = in.CfgInt("SmallestLevel", 0), in.CfgInt("MaxSizeAmpPct", 0)
	c.swapDelayUs = in.CfgInt("SwapDelayUs", 0)
	c.survive = in.CfgBool("Survive", false)
	c.latePub = in.CfgBool("Dev_LatePublication", false)
	if c.G > 0 {
		gd := in.CfgInt("GroupDigits", 0)
		c.group = digits(gd, ndigits(gd))
		c.KeyGroups = c.G
	} else {
		od := in.CfgInt("OwnerDigits", 12)
		c.owner = digits(od, ndigits(od))
	}
	kd := in.CfgInt("KeyDigits", 0)
	c.keyOf = make([][]int, c.NSplits)
	var flat []int
	if kd != 0 {
		flat = digits(kd, c.NSplits*c.NRecs)
	}
	for s := 0; s < c.NSplits; s++ {
		for i := 0; i < c.NRecs; i++ {
			if kd != 0 {
				c.keyOf[s] = append(c.keyOf[s], flat[s*c.NRecs+i])
			} else { // formula mode (must match Recovery.tla KeyOf)
				c.keyOf[s] = append(c.keyOf[s], ((s+1)*7+(i+1)*3)%c.nk()+1)
			}
		}
	}
	seen := map[int]int{}
	for _, g := range c.group {
		if g < 1 || g > c.G {
			return nil, fmt.Errorf("key group %d out of range", g)
		}
		c.keyName = append(c.keyName, cluster.KeyInGroup(c.G, g-1, seen[g]))
		seen[g]++
	}
	for _, o := range c.owner {
		if o < 1 || o > c.W {
			return nil, fmt.Errorf("owner %d out of range", o)
		}
		c.keyName = append(c.keyName, cluster.KeyFor(c.KeyGroups, c.W, o-1, seen[o]))
		seen[o]++
	}
	for s := 0; s < c.NSplits; s++ {
		var recs []cluster.Record
		for i := 0; i < c.NRecs; i++ {
			k := c.keyOf[s][i]
			if k < 1 || k > c.nk() {
				return nil, fmt.Errorf("key %d out of range", k)
			}
			recs = append(recs, cluster.Record{Split: s, Idx: i + 1, Key: c.keyName[k-1]})
		}
		c.splits = append(c.splits, recs)
	}
	return c, nil
}

func (c *conf) ownerOfKeyName(k string) int { // 0-based operator among W, -1 unknown
	for _, n := range c.keyName {
		if n == k {
			return cluster.OwnerOf(c.KeyGroups, c.W, k)
		}
	}
	return -1
}

// ------------------------------------------------- dkv under the operators ----

// tuneFor installs the DKV tuning for the generation that is booted next: turn-th entry of MemSizes.
// It returns the memtable size chosen (0 = the repo's default sizes).
func (c *conf) tuneFor(turn int) int {
	if len(c.mem) == 0 {
		return 0
	}
	m := c.mem[turn%len(c.mem)]
	t := cluster.DkvTune{MemTable: int64(m)}
	if m != 0 {
		t.SmallestLevel, t.MaxSizeAmpPct = int64(c.lvl), int64(c.amp)
		if c.amp == 0 && turn%3 == 1 {
			t.MaxSizeAmpPct = cluster.NeverMajor // only minor compactions (L0+L1 -> L1, cascading)
		}
		if turn%3 == 0 {
			t.SwapDelay = time.Duration(c.swapDelayUs) * time.Microsecond // slow background tasks: DKV checkpoints race with flushes in flight
		}
	}
	cluster.InstallDkvTune(t)
	return m
}

// untune: databases opened from now on (read-back copies of checkpoints) use the repo's defaults.
func (c *conf) untune() {
	if len(c.mem) != 0 {
		cluster.InstallDkvTune(cluster.DkvTune{})
	}
}

// countShapes accounts what the operators deployed since log index mark were restored from.
func countShapes(c *cluster.Cluster, mark int, res *mbt.Result) {
	for _, o := range c.Log(mark) {
		if o.Kind != "op.deployed" || len(o.OpCkpts) == 0 {
			continue
		}
		res.Count("restoredOps", 1)
		if len(o.OpCkpts) > 1 {
			res.Count("restoredFromSeveral", 1)
		}
		var sum cluster.CkptShape
		for _, oc := range o.OpCkpts {
			if sh, err := cluster.CheckpointShape(oc); err == nil {
				sum.L0Tables += sh.L0Tables
				sum.DeepTables += sh.DeepTables
				sum.WALBytes += sh.WALBytes
			}
		}
		if sum.L0Tables+sum.DeepTables > 0 {
			res.Count("restoredWithTables", 1)
		}
		if sum.DeepTables > 0 {
			res.Count("restoredWithCompactedTables", 1)
		}
		if sum.WALBytes > 0 {
			res.Count("restoredWithWal", 1)
		}
		if sum.WALBytes > 0 && sum.L0Tables+sum.DeepTables > 0 {
			res.Count("restoredWithTablesAndWal", 1)
		}
	}
}

// restoreFailure: the code under test failed (returned an error or panicked) while an operator of the
// generation booted since log index mark was deployed, i.e. while it restored its DKV from the checkpoints the
// job handed to it. The job then waits for ever (Boot times out); that is not a machinery problem but the
// restart from the newest completed checkpoint failing.
func restoreFailure(c *cluster.Cluster, mark int) string {
	for _, o := range c.Log(mark) {
		if o.Kind == "panic" && len(o.Node) > 2 && o.Node[:2] == "op" {
			return fmt.Sprintf("%s panicked while restoring: %s", o.Node, o.Text)
		}
		if o.Kind == "op.deployed" && o.Text != "" {
			return fmt.Sprintf("%s failed to restore: %s", o.Node, o.Text)
		}
	}
	return ""
}

func countDkv(res *mbt.Result, before cluster.DkvStats) {
	now := cluster.DkvCounters()
	res.Count("flushes", int(now.Flushed-before.Flushed))
	res.Count("compactions", int(now.Compactions-before.Compactions))
}

// ------------------------------------------------------------ replay ----

type drift struct{ msg string }

func (d *drift) Error() string        { return d.msg }
func driftf(f string, a ...any) error { return &drift{fmt.Sprintf(f, a...)} }

type run struct {
	cf       *conf
	c        *cluster.Cluster
	bi       int
	res      *mbt.Result
	slotArr  map[[2]int]*gate.Arrival
	startArr map[int]*gate.Arrival
	srAck    map[int]*gate.Arrival
	opAck    map[int]*gate.Arrival
	pubArr   map[int]*gate.Arrival   // checkpoint id -> its snapshot write, parked at the store gate
	inside   map[int][]*cluster.Call // operator -> calls blocked inside it
	w        int                     // worker count of the running generation
	genW     map[int]int             // generation -> worker count
	rng      *rand.Rand              // seeded per behaviour: when to let background flushes / compactions settle
	turn     int                     // generations booted (selects the DKV tuning)
	tainted    bool        // a checkpoint of a previous assembly was published after a survivors restart (knownLatePub)
	latePub    bool        // config Dev_LatePublication: the model keeps a surviving job's snapshot writes in flight across the restart
	nrestarts  int         // restarts executed so far
	restartsAt map[int]int // checkpoint id -> restarts executed when its snapshot write was handed to storage
	salt     int                     // a number that belongs to the behaviour itself (its length), not to its place in the input: what is chosen per behaviour (DKV tuning, id policy of replacements, settling coins) is the same when the behaviour is replayed alone
	lastPos  map[string]int          // survivors: operator label -> its position in the previous assembly
	late     map[[3]int]*gate.Arrival // survivors: calls of earlier assemblies still parked at an operator gate, by (epoch, r, o)
	givens   int                     // handler invocations (events) expected so far
	logFrom  int                     // log index from which arrivals/obs of the current step are searched
	havePrev bool                    // the running job has a completed checkpoint in memory
	lostOps  map[int]bool            // 0-based operators that lost their checkpoint through Dev_AssignUnsorted
	dead     map[int]bool            // model nodes dead (0 = job)
	violated bool
	step     int
}

// asm maps the model's positions (1-based, of the current assembly) to worker identities ("op<i>" / "sr<i>" /
// "w<i>" of the kit): position p is worker asm[p-1]. Fresh generations: the identity; after a survivors restart the
// living workers in the order of their operator ids (cluster.Assembly).
var asm []int

func ident(p int) int {
	if p >= 1 && p <= len(asm) {
		return asm[p-1]
	}
	return p - 1
}
func posOf(identity int) int {
	for p, i := range asm {
		if i == identity {
			return p + 1
		}
	}
	return identity + 1
}
func sr(r int) string { return fmt.Sprintf("sr%d", ident(r)) }
func op(o int) string { return fmt.Sprintf("op%d", ident(o)) }

func (r *run) reset() {
	r.slotArr = map[[2]int]*gate.Arrival{}
	r.startArr = map[int]*gate.Arrival{}
	r.srAck = map[int]*gate.Arrival{}
	r.opAck = map[int]*gate.Arrival{}
	r.pubArr = map[int]*gate.Arrival{}
	r.inside = map[int][]*cluster.Call{}
	r.dead = map[int]bool{}
}

func (r *run) violation(what string, expected, observed any, known string) {
	if known == "" && r.tainted {
		known = knownLatePub
	}
	r.violated = true
	r.res.Violations = append(r.res.Violations, mbt.Violation{Property: "C01", Behaviour: r.bi, Step: r.step, What: what, Expected: expected, Observed: observed, Known: known})
}

func call(a *gate.Arrival) *cluster.Call { return a.Args[0].(*cluster.Call) }

// waitEntered: the released call is inside the destination (or has failed).
func waitEntered(c *cluster.Call) error {
	select {
	case <-c.Entered():
		return nil
	case <-c.Done():
		return driftf("call %s failed instead of entering: %v", c, c.Err)
	case <-time.After(wait):
		return driftf("call %s did not enter its destination", c)
	}
}

func waitDone(c *cluster.Call, what string) error {
	select {
	case <-c.Done():
		return nil
	case <-time.After(wait):
		return driftf("%s: call %s did not return", what, c)
	}
}

// awaitArr waits for the new calls the model expects at the (runner, operator) gates.
func (r *run) awaitArr(st mbt.Step) error {
	for _, x := range st.List("arr") {
		a := mbt.Step(x.(map[string]any))
		rr, oo := a.Int("r"), a.Int("o")
		arr, err := r.c.Sched().Await(func(g *gate.Arrival) bool {
			if g.Point != cluster.POpEvent {
				return false
			}
			c := call(g)
			if c.From != sr(rr) || c.To != op(oo) {
				return false
			}
			if a.Str("k") == "ev" {
				return c.Kind == cluster.KEvent && c.Rec != nil && c.Rec.Split == a.Int("s")-1 && c.Rec.Idx == a.Int("i")
			}
			return c.Kind == cluster.KBarrier && int(c.Ckpt) == a.Int("n")
		}, wait)
		if err != nil {
			return driftf("message %v did not arrive at the gate: %v", x, err)
		}
		r.slotArr[[2]int{rr, oo}] = arr
	}
	return nil
}

// awaitGivens waits until n more events have been handed to the handler.
func (r *run) awaitGivens(n int) error {
	r.givens += n
	if n == 0 {
		return nil
	}
	deadline := time.Now().Add(wait)
	for len(r.c.Givens(0)) < r.givens {
		if time.Now().After(deadline) {
			return driftf("expected %d handler invocations so far, saw %d", r.givens, len(r.c.Givens(0)))
		}
		time.Sleep(100 * time.Microsecond)
	}
	return nil
}

func (r *run) awaitPub(n int) error {
	if r.restartsAt == nil {
		r.restartsAt = map[int]int{}
	}
	r.restartsAt[n] = r.nrestarts
	a, err := r.c.Sched().Await(func(g *gate.Arrival) bool { return g.Point == cluster.PStoreWrite && int(call(g).Ckpt) == n }, wait)
	if err != nil {
		return driftf("completed checkpoint %d was not handed to storage: %v", n, err)
	}
	r.pubArr[n] = a
	return nil
}

// boot starts the next generation with w workers under the DKV tuning whose turn it is.
func (r *run) boot(w int, restart bool) (uint64, error) {
	if err := r.c.SetWorkers(w); err != nil {
		return 0, err
	}
	if m := r.cf.tuneFor(r.salt + r.turn); m != 0 {
		r.res.Count("tunedGenerations", 1)
	}
	r.turn++
	mark := len(r.c.Log(0))
	var restored uint64
	var err error
	if restart && r.cf.survive {
		restored, err = r.c.RestartSurvivors(cluster.SurviveOptions{NewIDsFirst: r.salt%2 == 1})
	} else if restart {
		restored, err = r.c.Restart()
	} else {
		restored, err = r.c.Boot()
	}
	r.cf.untune()
	if err == nil {
		r.w = w
		r.genW[r.c.Gen()] = w
		asm = nil
		if r.cf.survive {
			asm = r.c.Assembly()
			r.accountSurvivors(mark)
			if restart {
				// the database instances the redeployed survivors dropped are garbage now: let the collector run
				// their table cleanups (dkv deletes a table file when the last Table object naming it is collected)
				// at this point instead of at some later one
				for i := 0; i < 2; i++ {
					runtime.GC()
					time.Sleep(200 * time.Microsecond)
				}
			}
		}
		countShapes(r.c, mark, r.res)
	} else if why := restoreFailure(r.c, mark); why != "" && restart {
		r.violation("restart from the newest completed checkpoint failed: "+why, nil, nil, "")
	}
	return restored, err
}

// accountSurvivors counts what the survivors restart since log index mark did: operators deployed again in place,
// at the same or at another position (another key-group range, another operator's checkpoint).
func (r *run) accountSurvivors(mark int) {
	for _, o := range r.c.Log(mark) {
		if o.Kind != "op.deployed" {
			continue
		}
		p, seen := r.lastPos[o.Node]
		now := posOf(opIdx(o.Node))
		if seen {
			r.res.Count("redeployedInPlace", 1)
			if p != now {
				r.res.Count("redeployedAtAnotherPosition", 1)
			}
		} else {
			r.res.Count("replacements", 1)
		}
	}
	r.lastPos = map[string]int{}
	for p, i := range asm {
		r.lastPos[fmt.Sprintf("op%d", i)] = p + 1
	}
}

// settle: with tuned memtables, let the flushes and compactions the writes so far started finish (seeded
// coin): the DKV checkpoint taken next then consists of tables (+ the active memtable's WAL) instead of
// racing with them.
func (r *run) settle() {
	if len(r.cf.mem) == 0 || r.rng.Intn(2) == 0 {
		return
	}
	if cluster.DkvQuiet(2 * time.Second) {
		r.res.Count("settled", 1)
	}
}

func (r *run) exec(st mbt.Step) error {
	switch st.Str("a") {
	case "Read":
		rr, s, i := st.Int("r"), st.Int("s"), st.Int("i")
		from := len(r.c.Log(0))
		if err := r.c.PermitRead(sr(rr), s-1, 1); err != nil {
			return err
		}
		if _, ok := r.c.WaitObs(from, wait, func(o cluster.Obs) bool {
			return o.Kind == "read" && o.Node == sr(rr) && len(o.Recs) == 1 && o.Recs[0].Split == s-1 && o.Recs[0].Idx == i
		}); !ok {
			return driftf("Read: %s did not read record %d of split %d", sr(rr), i, s)
		}
		return r.awaitArr(st)
	case "Tick":
		if len(st.List("inflight")) > 0 {
			r.res.Count("ticksWhilePublishing", 1) // the previous checkpoint's snapshot write is still parked at the store gate
		}
		go r.c.TickCheckpoint()
		for k := 0; k < r.w; k++ {
			a, err := r.c.Sched().Await(gate.Point(cluster.PSrStartCkpt), wait)
			if err != nil {
				return driftf("Tick: StartCheckpoint calls missing: %v", err)
			}
			c := call(a)
			if int(c.Ckpt) != st.Int("n") {
				return driftf("Tick: job created checkpoint %d, model %d", c.Ckpt, st.Int("n"))
			}
			var idx int
			fmt.Sscanf(c.To, "sr%d", &idx)
			r.startArr[posOf(idx)] = a
		}
	case "SrStart":
		rr := st.Int("r")
		a := r.startArr[rr]
		if a == nil {
			return driftf("SrStart: no StartCheckpoint parked for %s", sr(rr))
		}
		delete(r.startArr, rr)
		a.Release()
		ack, err := r.c.Sched().Await(func(g *gate.Arrival) bool { return g.Point == cluster.PJobSrAck && call(g).From == sr(rr) }, wait)
		if err != nil {
			return driftf("SrStart: %s did not send its checkpoint ack: %v", sr(rr), err)
		}
		r.srAck[rr] = ack
		r.res.Count("srAcks", 1)
	case "JobSrAck":
		rr := st.Int("r")
		a := r.srAck[rr]
		if a == nil {
			return driftf("JobSrAck: no ack of %s in flight", sr(rr))
		}
		delete(r.srAck, rr)
		a.Release()
		if err := waitDone(call(a), "JobSrAck"); err != nil {
			return err
		}
		if call(a).Err != nil {
			return driftf("JobSrAck: job rejected the ack of %s: %v", sr(rr), call(a).Err)
		}
		if err := r.awaitArr(st); err != nil {
			return err
		}
		if st.Bool("done") {
			return r.awaitPub(st.Int("n"))
		}
	case "Deliver":
		rr, oo := st.Int("r"), st.Int("o")
		a := r.slotArr[[2]int{rr, oo}]
		if a == nil {
			return driftf("Deliver: nothing at the gate %s->%s", sr(rr), op(oo))
		}
		delete(r.slotArr, [2]int{rr, oo})
		if st.Str("res") == "snapshot" {
			r.settle()
		}
		a.Release()
		switch st.Str("res") {
		case "parked":
			r.inside[oo] = append(r.inside[oo], call(a))
			r.res.Count("parked", 1)
			if err := waitEntered(call(a)); err != nil {
				return err
			}
		case "done", "registered":
			if err := waitDone(call(a), "Deliver"); err != nil {
				return err
			}
			if call(a).Err != nil {
				return driftf("Deliver %s->%s failed: %v", sr(rr), op(oo), call(a).Err)
			}
			if err := r.awaitGivens(len(st.List("giv"))); err != nil {
				return err
			}
			return r.awaitArr(st)
		case "snapshot":
			r.inside[oo] = append(r.inside[oo], call(a))
			if err := waitEntered(call(a)); err != nil {
				return err
			}
			if err := r.awaitGivens(len(st.List("giv"))); err != nil {
				return err
			}
			ack, err := r.c.Sched().Await(func(g *gate.Arrival) bool { return g.Point == cluster.PJobOpAck && call(g).From == op(oo) }, wait)
			if err != nil {
				return driftf("Deliver(last barrier): %s did not send its checkpoint ack: %v", op(oo), err)
			}
			if int(call(ack).Ckpt) != st.Int("n") {
				return driftf("operator ack for checkpoint %d, model %d", call(ack).Ckpt, st.Int("n"))
			}
			r.opAck[oo] = ack
		}
	case "TimerFire":
		if !r.c.FireOpTimer(op(st.Int("o"))) {
			return driftf("TimerFire: batching timer of %s is not armed", op(st.Int("o")))
		}
		return r.awaitGivens(len(st.List("giv")))
	case "JobOpAck":
		oo := st.Int("o")
		a := r.opAck[oo]
		if a == nil {
			return driftf("JobOpAck: no ack of %s in flight", op(oo))
		}
		delete(r.opAck, oo)
		a.Release()
		if err := waitDone(call(a), "JobOpAck"); err != nil {
			return err
		}
		if call(a).Err != nil {
			return driftf("JobOpAck: job rejected the ack of %s: %v", op(oo), call(a).Err)
		}
		if st.Bool("resumed") {
			for _, c := range r.inside[oo] {
				if err := waitDone(c, "JobOpAck(resume)"); err != nil {
					return err
				}
			}
			delete(r.inside, oo)
			if err := r.awaitGivens(len(st.List("giv"))); err != nil {
				return err
			}
			if err := r.awaitArr(st); err != nil {
				return err
			}
		}
		if st.Bool("done") {
			return r.awaitPub(st.Int("n"))
		}
	case "Publish":
		a := r.pubArr[st.Int("n")]
		if a == nil {
			return driftf("Publish: no snapshot write of checkpoint %d in flight", st.Int("n"))
		}
		delete(r.pubArr, st.Int("n"))
		from := len(r.c.Log(0))
		a.Release()
		if err := waitDone(call(a), "Publish"); err != nil {
			return err
		}
		if call(a).Err != nil {
			return driftf("Publish: write failed: %v", call(a).Err)
		}
		_ = from
		if r.restartsAt[st.Int("n")] != r.nrestarts {
			r.res.Count("publishedAfterRestart", 1) // the surviving job's write of a checkpoint of an earlier assembly lands now
			r.tainted = true
		}
		if st.Bool("sup") {
			// a write that lands after a newer one: the job removes the file again, nothing refers to it
			r.res.Count("supersededWrites", 1)
			break
		}
		r.c.WaitRetention(500 * time.Millisecond) // the retention round lands before the next step (its interleavings with DKV checkpoints are C09's)
		r.havePrev = true
		r.checkPublished(st)
	case "Kill":
		var nodes []string
		for _, n := range st.Ints("nodes") {
			r.dead[n] = true
			if n == 0 {
				nodes = append(nodes, "job")
			} else {
				nodes = append(nodes, fmt.Sprintf("w%d", ident(n)))
			}
		}
		if len(r.pubArr) > 0 {
			r.res.Count("killsWhilePublishing", 1)
		}
		r.c.Kill(nodes...)
		r.res.Count("kills", 1)
	case "Restart":
		if st.Int("w") != r.w {
			r.res.Count(fmt.Sprintf("rescale%dto%d", r.w, st.Int("w")), 1)
		}
		jobSurvives := r.cf.survive && !r.dead[0]
		if r.cf.survive {
			// calls of this assembly still parked at the gate of an operator that stays alive: late messages
			for _, x := range st.List("late") {
				m := mbt.Step(x.(map[string]any))
				key := [2]int{m.Int("r"), m.Int("o")}
				if a := r.slotArr[key]; a != nil {
					r.late[[3]int{m.Int("g"), m.Int("r"), m.Int("o")}] = a
				}
			}
		}
		oldWrites := r.pubArr
		restored, err := r.boot(st.Int("w"), true)
		if err != nil {
			if r.violated {
				return err
			}
			if errors.Is(err, cluster.ErrBootTimeout) {
				return err // machinery
			}
			r.violation("restart from the newest completed checkpoint failed: "+err.Error(), nil, nil, "")
			return err
		}
		r.reset()
		if jobSurvives {
			r.res.Count("jobSurvived", 1)
		}
		if jobSurvives && r.latePub {
			r.pubArr = oldWrites // the model (code as it is) lets them land later: Publish steps after this Restart
		} else if jobSurvives {
			// snapshot writes of the old assembly still parked at the store gate land now. By design the surviving
			// job gives them up (the file is removed again or never written); if it publishes one nevertheless, that
			// checkpoint is what the next recovery loads and is judged like every published checkpoint
			for n, a := range oldWrites {
				a.Release()
				waitDone(call(a), "late snapshot write")
				time.Sleep(2 * time.Millisecond)
				kept := false
				for _, o := range r.c.Published() {
					if int(o.Ckpt) == n && o.Gen == r.c.Gen() {
						if _, err := os.Stat(o.Text); err == nil {
							kept = true
						}
					}
				}
				if kept {
					r.res.Count("publishedAfterRestart", 1)
					r.tainted = true
					r.checkPublished(mbt.Step{"n": float64(n)})
				} else {
					r.res.Count("writesGivenUp", 1)
				}
			}
			r.c.ForgetRetention()
		}
		r.givens = len(r.c.Givens(0))
		r.havePrev = restored != 0
		r.res.Count("restarts", 1)
		r.nrestarts++
		if int(restored) != st.Int("n") {
			return driftf("Restart: job restored checkpoint %d, model %d", restored, st.Int("n"))
		}
		for _, o := range st.Ints("lost") {
			r.lostOps[o-1] = true
		}
	case "LateDeliver":
		key := [3]int{st.Int("g"), st.Int("r"), st.Int("o")}
		a := r.late[key]
		if a == nil {
			return driftf("LateDeliver: no such call parked")
		}
		delete(r.late, key)
		a.Release()
		select {
		case <-call(a).Done():
			if call(a).Err == nil {
				r.res.Count("lateAccepted", 1) // the callee answered "ok"; whether it changed state is judged by the property
			} else {
				r.res.Count("lateRejected", 1)
			}
		case <-time.After(100 * time.Millisecond):
			r.res.Count("lateParked", 1)
		}
		r.res.Count("lateDelivered", 1)
		r.givens = len(r.c.Givens(0))
	default:
		return fmt.Errorf("unknown action %q", st.Str("a"))
	}
	return nil
}

// checkPublished reads the job checkpoint that was just written back from
// the operators' DKV checkpoints: it must be the failure-free state at its
// own cursors (a kill right after this point restarts from it).
func (r *run) checkPublished(st mbt.Step) {
	var p *cluster.Obs
	for _, o := range r.c.Published() {
		if o.Gen == r.c.Gen() && (st == nil || int(o.Ckpt) == st.Int("n")) {
			o := o
			p = &o
		}
	}
	if p == nil {
		r.res.Errors = append(r.res.Errors, "Publish: no published observation")
		return
	}
	ck, err := cluster.ReadJobCheckpointFile(p.Text)
	if err != nil {
		r.res.Errors = append(r.res.Errors, "reading published checkpoint: "+err.Error())
		return
	}
	r.judgeCheckpoint(ck.Id, func() (*cluster.CheckpointState, error) { return r.c.ReadCheckpointState(ck) }, false)
	r.res.Count("published", 1)
	if st != nil { // predicted cursors (informational: a mismatch is judged through the state above)
		cur := st.Ints("cur")
		for s, v := range cur {
			if p.Cursors[s] != v {
				r.res.Count("cursorMismatch", 1)
			}
		}
	}
}

func (r *run) judgeCheckpoint(id uint64, read func() (*cluster.CheckpointState, error), final bool) {
	cs, err := read()
	if err != nil {
		r.violation(fmt.Sprintf("job checkpoint %d cannot be restored: %v", id, err), nil, nil, "")
		return
	}
	if len(cs.DupSplits) > 0 {
		r.violation(fmt.Sprintf("job checkpoint %d holds more than one cursor for splits %v", id, cs.DupSplits), nil, cs.Cursors, "")
		return
	}
	want := cluster.ExpectedAt(r.cf.splits, cs.Cursors)
	what := fmt.Sprintf("published job checkpoint %d is not the failure-free state at its split cursors %v (a restart from it loses or double-applies records)", id, cs.Cursors)
	if final {
		want = cluster.Expected(r.cf.splits)
		what = "final keyed state differs from the failure-free run"
	}
	if d := cluster.DiffStates(want, cs.Keys); d != "" {
		r.violation(what+": "+d, want, cs.Keys, r.knownFor(diffKeys(want, cs.Keys)))
		return
	}
	for k, where := range cs.Where {
		// len(cs.Ops) = the worker count of the generation that took the checkpoint
		kg := cluster.KeyGroupOf(r.cf.KeyGroups, k)
		if len(where) != 1 || kg < cs.Ops[where[0]].Start || kg >= cs.Ops[where[0]].End {
			r.violation(fmt.Sprintf("state of key %s is not held (only) by its owner in checkpoint %d", k, id), nil, where, "")
		}
	}
}

func diffKeys(want, got map[string]*cluster.KeyState) []string {
	var out []string
	all := map[string]bool{}
	for k := range want {
		all[k] = true
	}
	for k := range got {
		all[k] = true
	}
	for k := range all {
		w := map[string]*cluster.KeyState{k: want[k]}
		g := map[string]*cluster.KeyState{k: got[k]}
		if w[k] == nil {
			delete(w, k)
		}
		if g[k] == nil {
			delete(g, k)
		}
		if cluster.DiffStates(w, g) != "" {
			out = append(out, k)
		}
	}
	return out
}

// knownFor classifies an anomaly on the given keys: it is the known finding
// Dev_AssignUnsorted iff every key is owned by an operator that (according to
// the model of partitioning.AssignRanges) was restored without its checkpoint.
func (r *run) knownFor(keys []string) string {
	if len(r.lostOps) == 0 || len(keys) == 0 {
		return ""
	}
	for _, k := range keys {
		if !r.lostOps[r.cf.ownerOfKeyName(k)] {
			return ""
		}
	}
	return knownAssign
}

// finish drives the run to completion with everything free-running and judges
// the whole execution by the property.
func (r *run) finish() {
	anyDead := len(r.dead) > 0
	if anyDead {
		if _, err := r.boot(r.w, true); err != nil {
			if r.violated {
				return
			}
			if errors.Is(err, cluster.ErrBootTimeout) {
				r.res.Errors = append(r.res.Errors, err.Error())
				return
			}
			r.violation("restart from the newest completed checkpoint failed: "+err.Error(), nil, nil, "")
			return
		}
		r.reset()
	}
	r.c.Sched().FreeRun()
	r.c.SetAutoRead(true)
	deadline := time.Now().Add(wait)
	for {
		cur := r.c.ReaderCursors()
		ok := true
		for s := 0; s < r.cf.NSplits; s++ {
			if cur[s] < r.cf.NRecs {
				ok = false
			}
		}
		if ok {
			break
		}
		if time.Now().After(deadline) {
			r.judgeGivens()
			r.res.Errors = append(r.res.Errors, fmt.Sprintf("b%d: completion: readers did not drain: %v%s", r.bi, cur, r.exits()))
			return
		}
		time.Sleep(200 * time.Microsecond)
	}
	// final checkpoint(s): the first one whose cursors are all at the end holds the final state
	misses := 0
	for try := 0; try < 6 && misses < 2; try++ {
		from := len(r.c.Log(0))
		gen := r.c.Gen()
		if !r.c.TickCheckpointTimeout(wait) {
			break
		}
		idx, ok := r.c.WaitObs(from, wait/2, func(o cluster.Obs) bool { return o.Kind == "published" && o.Gen == gen })
		if !ok {
			misses++
			continue
		}
		p := r.c.Log(idx - 1)[0]
		full := true
		for s := 0; s < r.cf.NSplits; s++ {
			if p.Cursors[s] != r.cf.NRecs {
				full = false
			}
		}
		r.c.WaitRetention(wait) // before the next tick (DESIGN 7 #28)
		if !full {
			continue
		}
		ck, err := cluster.ReadJobCheckpointFile(p.Text)
		if err != nil {
			r.res.Errors = append(r.res.Errors, "reading final checkpoint: "+err.Error())
			return
		}
		r.judgeCheckpoint(ck.Id, func() (*cluster.CheckpointState, error) { return r.c.ReadCheckpointState(ck) }, true)
		r.judgeGivens()
		return
	}
	r.judgeGivens() // judge what was observed even though the run could not be completed
	r.res.Errors = append(r.res.Errors, fmt.Sprintf("b%d: completion: no final checkpoint with drained cursors was published", r.bi))
}

// exits describes the nodes that ended by themselves or panicked (diagnostics for machinery errors).
func (r *run) exits() string {
	out := ""
	for _, o := range r.c.Log(0) {
		if (o.Kind == "exit" && o.Text != "") || o.Kind == "panic" {
			out += fmt.Sprintf(" {%d %s %s: %s}", o.Seq, o.Kind, o.Node, o.Text)
		}
	}
	if out != "" {
		out = "; nodes that ended by themselves:" + out + fmt.Sprintf(" (assembly %v)", r.c.Assembly())
	}
	return out
}

// judgeGivens: every handler invocation of the whole execution (all
// generations) must have been given the failure-free state of its key.
func (r *run) judgeGivens() {
	for _, o := range r.c.Log(0) {
		if o.Kind != "given" {
			continue
		}
		r.judgeGiven(o.Givens, r.genW[o.Gen])
		if r.violated {
			return
		}
	}
}

func (r *run) judgeGiven(givens []cluster.Given, w int) {
	for _, g := range givens {
		want := cluster.PrevSameKey(r.cf.splits, g.Rec)
		if g.SeenCnt != 0 || g.SeenLast != want {
			r.violation(fmt.Sprintf("handler of %s was given cnt=%d last=%d for record %s of key %s (failure-free run: cnt absent, last=%d)",
				g.Op, g.SeenCnt, g.SeenLast, g.Rec.ID(), g.Rec.Key, want),
				map[string]int{"cnt": 0, "last": want}, map[string]int{"cnt": g.SeenCnt, "last": g.SeenLast}, r.knownFor([]string{g.Rec.Key}))
			return
		}
		if r.cf.survive {
			if cluster.OwnerOf(r.cf.KeyGroups, g.Of, g.Rec.Key) != g.Pos {
				r.violation(fmt.Sprintf("record %s of key %s was processed by %s at position %d of %d, not by the key's owner", g.Rec.ID(), g.Rec.Key, g.Op, g.Pos, g.Of), nil, nil, "")
				return
			}
		} else if cluster.OwnerOf(r.cf.KeyGroups, w, g.Rec.Key) != opIdx(g.Op) {
			r.violation(fmt.Sprintf("record %s of key %s was processed by %s, not by the key's owner among %d workers", g.Rec.ID(), g.Rec.Key, g.Op, w), nil, nil, "")
			return
		}
	}
}

func opIdx(label string) int {
	var i int
	fmt.Sscanf(label, "op%d", &i)
	return i
}

// logTo: RECOVERY_LOG=1 sends the slog output of the code under test to stderr (debugging).
func logTo() io.Writer {
	if os.Getenv("RECOVERY_LOG") != "" {
		return os.Stderr
	}
	return nil
}

func replay(bi int, beh []mbt.Step, cf *conf, res *mbt.Result, seed int64) {
	w0 := cf.W
	if len(beh) > 0 && beh[0].Has("w") && beh[0].Str("a") != "Restart" {
		w0 = beh[0].Int("w") // the first generation's worker count (rescale configs start with any allowed count)
	}
	dkv0 := cluster.DkvCounters()
	defer func() { countDkv(res, dkv0) }()
	c, err := cluster.New(cluster.Options{
		Workers: w0, KeyGroups: cf.KeyGroups, Splits: cf.splits, OpBatch: cf.B,
		Gates:    []string{cluster.POpEvent, cluster.PSrStartCkpt, cluster.PJobSrAck, cluster.PJobOpAck, cluster.PStoreWrite},
		LogCalls: os.Getenv("RECOVERY_DUMP_DIR") != "", WorkerProcesses: cf.survive, Log: logTo(),
	})
	if err != nil {
		res.Errors = append(res.Errors, err.Error())
		return
	}
	asm = nil
	defer c.Close()
	if d := os.Getenv("RECOVERY_DUMP_DIR"); d != "" {
		defer func() {
			b, _ := json.Marshal(c.Log(0))
			os.WriteFile(fmt.Sprintf("%s/beh-%03d.json", d, bi), b, 0o644)
		}()
	}
	r := &run{cf: cf, c: c, bi: bi, res: res, lostOps: map[int]bool{}, genW: map[int]int{}, late: map[[3]int]*gate.Arrival{}, lastPos: map[string]int{}, salt: len(beh), latePub: cf.latePub, rng: rand.New(rand.NewSource(seed*7919 + int64(len(beh))))}
	r.reset()
	if _, err := r.boot(w0, false); err != nil {
		res.Errors = append(res.Errors, fmt.Sprintf("b%d: boot: %v", bi, err))
		return
	}
	drifted := false
	for si, st := range beh {
		r.step = si
		if err := r.exec(st); err != nil {
			if r.violated {
				return
			}
			if d, ok := err.(*drift); ok {
				// decide by the property, then account the behaviour as not replayable
				drifted = true
				r.finish()
				if !r.violated {
					res.Driftf("b%d s%d %s: %s", bi, si, st.Str("a"), d.msg)
				}
				return
			}
			res.Errors = append(res.Errors, fmt.Sprintf("b%d s%d: %v", bi, si, err))
			return
		}
		if r.violated {
			return
		}
		res.Steps++
	}
	r.step = len(beh)
	r.finish()
	if !r.violated && !drifted {
		res.Executed++
	}
	for _, p := range c.Log(0) {
		if p.Kind == "panic" {
			res.Count("panics", 1)
		}
	}
}

// ------------------------------------------------------------- trace ----

var traceSeq int

// traceRun executes one seeded free-running run and returns its events.
func traceRun(cf *conf, rng *rand.Rand, in *mbt.Input, res *mbt.Result) []any {
	srBatch := 1 + rng.Intn(3)
	curW := cf.W // worker count of the running generation
	if len(cf.counts) > 0 {
		curW = cf.counts[rng.Intn(len(cf.counts))]
	}
	turn := rng.Intn(1 << 16) // selects the DKV tuning of every generation in turn
	dkv0 := cluster.DkvCounters()
	defer func() { countDkv(res, dkv0) }()
	opt := cluster.Options{
		Workers: curW, KeyGroups: cf.KeyGroups, Splits: cf.splits,
		OpBatch: 1 + rng.Intn(3), OpDelay: time.Duration(200+rng.Intn(800)) * time.Microsecond,
		SrBatch: srBatch, SrDelay: time.Duration(200+rng.Intn(800)) * time.Microsecond,
		AutoRead: false, ReadBatch: 1 + rng.Intn(2), ReadDelay: time.Duration(rng.Intn(500)) * time.Microsecond, Watermarks: "pass", LogCalls: os.Getenv("RECOVERY_DUMP_DIR") != "",
		Gates: []string{cluster.PJobOpAck, cluster.PJobSrAck},
	}
	if cf.overlap {
		opt.Gates = append(opt.Gates, cluster.PStoreWrite) // snapshot writes are held and land in seeded order
	}
	if len(cf.mem) > 0 {
		// a slower source: checkpoints, kills and restarts fall between the records (and their flushes) instead of before / after all of them
		opt.ReadDelay = time.Duration(300+rng.Intn(1500)) * time.Microsecond
	}
	c, err := cluster.New(opt)
	if err != nil {
		res.Errors = append(res.Errors, err.Error())
		return nil
	}
	defer c.Close()
	if d := os.Getenv("RECOVERY_DUMP_DIR"); d != "" {
		defer func() {
			traceSeq++
			b, _ := json.Marshal(c.Log(0))
			os.WriteFile(fmt.Sprintf("%s/run-%03d.json", d, traceSeq), b, 0o644)
		}()
	}
	if os.Getenv("RECOVERY_DEBUG") != "" {
		defer func() {
			for _, o := range c.Log(0) {
				if o.Kind != "read" && o.Kind != "reader.checkpoint" {
					fmt.Fprintf(os.Stderr, "%d g%d %s %s ck=%d cur=%v %s givens=%v nodes=%v opck=%d\n", o.Seq, o.Gen, o.Kind, o.Node, o.Ckpt, o.Cursors, o.Text, o.Givens, o.Nodes, len(o.OpCkpts))
				}
			}
			fmt.Fprintln(os.Stderr, "=== end of run")
		}()
	}
	var events []any
	emitted := 0
	lostSeen := map[int]bool{}
	// convert new observations into trace events (log order = the order the harness observed them)
	curGen := 0
	flush := func() {
		batch := c.Log(emitted)
		emitted += len(batch)
		for _, o := range batch {
			switch o.Kind {
			case "boot":
				curGen = o.Gen
			case "given":
				if o.Gen != curGen {
					continue // a goroutine of a retired generation
				}
				for _, g := range o.Givens {
					events = append(events, map[string]any{"op": "Deliver", "o": opIdx(g.Op) + 1, "s": g.Rec.Split + 1, "i": g.Rec.Idx, "cnt": g.SeenCnt, "last": g.SeenLast})
				}
			case "kill":
				var nodes []int
				seen := map[int]bool{}
				for _, n := range o.Nodes {
					id := 0
					if n != "job" {
						fmt.Sscanf(n[2:], "%d", &id)
						id++
					}
					if !seen[id] {
						seen[id] = true
						nodes = append(nodes, id)
					}
				}
				sort.Ints(nodes)
				events = append(events, map[string]any{"op": "Kill", "nodes": nodes})
			}
		}
	}
	_ = flush
	snapEvent := func(kind string, ck uint64, cs *cluster.CheckpointState) map[string]any {
		cur := make([]int, cf.NSplits)
		for s := range cur {
			cur[s] = cs.Cursors[s]
		}
		var cnt [][]int
		for _, ks := range cs.Keys {
			for id, n := range ks.Cnt {
				var s, i int
				fmt.Sscanf(id, "%d:%d", &s, &i)
				cnt = append(cnt, []int{s + 1, i, n})
			}
		}
		sort.Slice(cnt, func(a, b int) bool {
			if cnt[a][0] != cnt[b][0] {
				return cnt[a][0] < cnt[b][0]
			}
			return cnt[a][1] < cnt[b][1]
		})
		var last [][]int
		for k, ks := range cs.Keys {
			mk := 0
			for i, n := range cf.keyName {
				if n == k {
					mk = i + 1
				}
			}
			for s, v := range ks.Last {
				last = append(last, []int{mk, s + 1, v})
			}
		}
		sort.Slice(last, func(a, b int) bool {
			if last[a][0] != last[b][0] {
				return last[a][0] < last[b][0]
			}
			return last[a][1] < last[b][1]
		})
		misplaced := 0
		for k, where := range cs.Where {
			if len(where) != 1 || cluster.OpIndexOfID(cs.Ops[where[0]].Op) != cluster.OwnerOf(cf.KeyGroups, len(cs.Ops), k) {
				misplaced++
			}
		}
		if cnt == nil {
			cnt = [][]int{}
		}
		if last == nil {
			last = [][]int{}
		}
		return map[string]any{"op": kind, "n": int(ck), "cur": cur, "cnt": cnt, "last": last, "dups": len(cs.DupSplits), "misplaced": misplaced}
	}
	fail := func(f string, a ...any) []any {
		res.Errors = append(res.Errors, fmt.Sprintf(f, a...))
		flush()
		return events // what was recorded so far is still validated
	}

	// boot (restart) the next generation with w workers under the DKV tuning whose turn it is
	boot := func(w int, restart bool) (uint64, error) {
		if err := c.SetWorkers(w); err != nil {
			return 0, err
		}
		if cf.tuneFor(turn) != 0 {
			res.Count("tunedGenerations", 1)
		}
		turn++
		mark := len(c.Log(0))
		var restored uint64
		var err error
		if restart {
			restored, err = c.Restart()
		} else {
			restored, err = c.Boot()
		}
		cf.untune()
		if err == nil {
			if w != curW {
				res.Count("rescales", 1)
				res.Count(fmt.Sprintf("rescale%dto%d", curW, w), 1)
			}
			curW = w
			countShapes(c, mark, res)
		}
		return restored, err
	}
	nextW := func() int {
		if len(cf.counts) == 0 {
			return curW
		}
		return cf.counts[rng.Intn(len(cf.counts))]
	}
	restored, err := boot(curW, false)
	if err != nil {
		return fail("trace boot: %v", err)
	}
	_ = restored
	if len(cf.counts) > 0 {
		events = append(events, map[string]any{"op": "Start", "w": curW})
	}
	c.SetAutoRead(true)
	// overlap mode: snapshot writes parked at the store gate, landed by the driver in seeded order
	var writes []*gate.Arrival
	jobDead := false
	npub := 0 // publications of this run that landed (overlap mode)
	pollWrites := func() (arrived bool) {
		if !cf.overlap {
			return false
		}
		for {
			a, err := c.Sched().Await(gate.Point(cluster.PStoreWrite), 0)
			if err != nil {
				return arrived
			}
			writes = append(writes, a)
			arrived = true
		}
	}
	readBack := func(p cluster.Obs) {
		if ck, err := cluster.ReadJobCheckpointFile(p.Text); err == nil {
			cs, err := c.ReadCheckpointState(ck)
			if err != nil {
				events = append(events, map[string]any{"op": "Unrestorable", "n": int(ck.Id), "err": err.Error()})
			} else {
				events = append(events, snapEvent("Published", ck.Id, cs))
			}
		}
	}
	landWrite := func(i int) {
		a := writes[i]
		writes = append(writes[:i:i], writes[i+1:]...)
		if jobDead {
			call(a).Fail = errors.New("the job was killed before the write")
			a.Release()
			return
		}
		mark := len(c.Log(0))
		a.Release()
		select {
		case <-call(a).Done():
		case <-time.After(wait):
		}
		if call(a).Err != nil {
			return
		}
		c.WaitRetention(wait)
		flush()
		for _, o := range c.Log(mark) {
			if o.Kind == "published" && o.Ckpt == call(a).Ckpt {
				if o.Superseded {
					res.Count("supersededWrites", 1) // landed after a newer one: the job removes the file again
				} else {
					npub++
					readBack(o) // right away: the next write that lands makes this one obsolete
				}
			}
		}
	}
	// acks are held at their gates and released in seeded random order by the driver
	var held []*gate.Arrival
	releaseAcks := func(s *gate.Sched, max int) {
		for {
			a, err := s.Await(func(g *gate.Arrival) bool { return g.Point == cluster.PJobOpAck || g.Point == cluster.PJobSrAck }, 200*time.Microsecond)
			if err != nil {
				break
			}
			held = append(held, a)
		}
		rng.Shuffle(len(held), func(i, j int) { held[i], held[j] = held[j], held[i] })
		n := max
		if n > len(held) {
			n = len(held)
		}
		for _, a := range held[:n] {
			a.Release()
			select {
			case <-call(a).Done():
			case <-time.After(wait):
			}
		}
		held = append([]*gate.Arrival(nil), held[n:]...)
	}
	kills := in.CfgInt("Kills", 2)
	ckpts := in.CfgInt("Ckpts", 4)
	total := cf.NSplits * cf.NRecs
	deadline := time.Now().Add(20 * time.Second)
	ckptOpen := false // a checkpoint was started and neither published nor abandoned by a restart
	var openFrom int
	anyDead := false
	for time.Now().Before(deadline) {
		flush()
		if pollWrites() {
			ckptOpen = false // every ack is in: the store accepts the next checkpoint while this one is being written
		}
		if len(writes) > 0 && rng.Intn(10) == 0 {
			landWrite(rng.Intn(len(writes)))
			continue
		}
		// progress of the current generation
		cur := c.ReaderCursors()
		read := 0
		for s := 0; s < cf.NSplits; s++ {
			read += cur[s]
		}
		if ckptOpen && !cf.overlap {
			if _, ok := c.WaitObs(openFrom, 0, func(o cluster.Obs) bool { return o.Kind == "published" && o.Gen == c.Gen() }); ok {
				c.WaitRetention(wait) // before the next tick (DESIGN 7 #28)
				ckptOpen = false
				// read the checkpoint back right away
				pubs := c.Published()
				p := pubs[len(pubs)-1]
				flush()
				if ck, err := cluster.ReadJobCheckpointFile(p.Text); err == nil {
					cs, err := c.ReadCheckpointState(ck)
					if err != nil {
						events = append(events, map[string]any{"op": "Unrestorable", "n": int(ck.Id), "err": err.Error()})
					} else {
						events = append(events, snapEvent("Published", ck.Id, cs))
					}
				}
			}
		}
		switch x := rng.Intn(100); {
		case x < 30 && !ckptOpen && !anyDead && ckpts > 0 && (len(cf.mem) == 0 || read >= 2):
			// (tuned dkv: no checkpoint of the still empty job; and, seeded coin, let the background tasks of the
			// writes so far finish first, so that the DKV checkpoints consist of tables as often as of sealed memtables)
			if len(cf.mem) > 0 && rng.Intn(2) == 0 && cluster.DkvQuiet(20*time.Millisecond) {
				res.Count("settled", 1)
			}
			ckpts--
			ckptOpen = true
			if len(writes) > 0 {
				res.Count("ticksWhilePublishing", 1)
			}
			openFrom = len(c.Log(0))
			go c.TickCheckpoint()
		case x < 60:
			releaseAcks(c.Sched(), 1+rng.Intn(4))
		case x < 64 && kills > 0 && !anyDead && read > 0 && (len(cf.mem) == 0 || npub > 0 || rng.Intn(3) == 0):
			// (tuned dkv: two kills out of three wait for a publication, so that restarts restore from something)
			kills--
			var nodes []string
			for len(nodes) == 0 {
				if rng.Intn(4) == 0 {
					nodes = append(nodes, "job")
				}
				for w := 0; w < curW; w++ {
					if rng.Intn(2) == 0 {
						nodes = append(nodes, fmt.Sprintf("w%d", w))
					}
				}
			}
			if len(writes) > 0 || ckptOpen {
				res.Count("killsWhileCheckpointing", 1)
			}
			c.Kill(nodes...)
			anyDead = true
			if nodes[0] == "job" {
				jobDead = true
				for len(writes) > 0 {
					landWrite(0) // a dead job writes nothing
				}
			}
		case x < 80 && anyDead:
			// survivors may go on for a while; then restart
			releaseAcks(c.Sched(), 4)
			time.Sleep(time.Duration(rng.Intn(1500)) * time.Microsecond)
			flush()
			pollWrites()
			for len(writes) > 0 && rng.Intn(2) == 0 { // a living job may still write what the survivors completed
				landWrite(rng.Intn(len(writes)))
			}
			if ckptOpen && !cf.overlap { // a checkpoint may have been completed by the survivors: record it before the restart
				if _, ok := c.WaitObs(openFrom, 0, func(o cluster.Obs) bool { return o.Kind == "published" && o.Gen == c.Gen() }); ok {
					pubs := c.Published()
					p := pubs[len(pubs)-1]
					if ck, err := cluster.ReadJobCheckpointFile(p.Text); err == nil {
						if cs, err := c.ReadCheckpointState(ck); err == nil {
							events = append(events, snapEvent("Published", ck.Id, cs))
						} else {
							events = append(events, map[string]any{"op": "Unrestorable", "n": int(ck.Id), "err": err.Error()})
						}
					}
				}
			}
			mark := len(c.Log(0))
			restored, err := boot(nextW(), true)
			flush()
			if err != nil {
				if why := restoreFailure(c, mark); why != "" {
					events = append(events, map[string]any{"op": "Unrestorable", "n": int(restored), "err": why})
					return events
				}
				if errors.Is(err, cluster.ErrBootTimeout) {
					return fail("trace: %v", err)
				}
				events = append(events, map[string]any{"op": "Unrestorable", "n": int(restored), "err": err.Error()})
				return events
			}
			var lost []int
			for _, o := range c.Log(mark) {
				if o.Kind == "op.deployed" && restored != 0 && len(o.OpCkpts) == 0 {
					lost = append(lost, opIdx(o.Node)+1)
					lostSeen[opIdx(o.Node)+1] = true
				}
			}
			sort.Ints(lost)
			if lost == nil {
				lost = []int{}
			}
			events = append(events, restartEvent(cf, restored, lost, curW))
			c.SetAutoRead(true)
			held, writes = nil, nil
			anyDead, ckptOpen, jobDead = false, false, false
		default:
			time.Sleep(time.Duration(rng.Intn(400)) * time.Microsecond)
		}
		if !anyDead && !ckptOpen && read == total && kills == 0 {
			break
		}
		if !anyDead && !ckptOpen && read == total && rng.Intn(3) == 0 {
			break
		}
	}
	// completion: restart if needed, drain, final checkpoint
	flush()
	pollWrites()
	for len(writes) > 0 && !anyDead {
		landWrite(rng.Intn(len(writes)))
	}
	if anyDead {
		mark := len(c.Log(0))
		restored, err := boot(nextW(), true)
		flush()
		if err != nil {
			if why := restoreFailure(c, mark); why != "" {
				events = append(events, map[string]any{"op": "Unrestorable", "n": int(restored), "err": why})
				return events
			}
			if errors.Is(err, cluster.ErrBootTimeout) {
				return fail("trace: %v", err)
			}
			events = append(events, map[string]any{"op": "Unrestorable", "n": int(restored), "err": err.Error()})
			return events
		}
		var lost []int
		for _, o := range c.Log(mark) {
			if o.Kind == "op.deployed" && restored != 0 && len(o.OpCkpts) == 0 {
				lost = append(lost, opIdx(o.Node)+1)
			}
		}
		sort.Ints(lost)
		if lost == nil {
			lost = []int{}
		}
		events = append(events, restartEvent(cf, restored, lost, curW))
		c.SetAutoRead(true)
	}
	c.Sched().FreeRun()
	dl := time.Now().Add(wait)
	for {
		cur := c.ReaderCursors()
		done := true
		for s := 0; s < cf.NSplits; s++ {
			if cur[s] < cf.NRecs {
				done = false
			}
		}
		if done {
			break
		}
		if time.Now().After(dl) {
			return fail("trace: readers did not drain: %v", cur)
		}
		time.Sleep(200 * time.Microsecond)
	}
	misses := 0
	for try := 0; try < 8 && misses < 2; try++ {
		from := len(c.Log(0))
		gen := c.Gen()
		if !c.TickCheckpointTimeout(wait) {
			break
		}
		idx, ok := c.WaitObs(from, wait/2, func(o cluster.Obs) bool { return o.Kind == "published" && o.Gen == gen })
		if !ok {
			misses++
			continue
		}
		c.WaitRetention(wait)
		p := c.Log(idx - 1)[0]
		full := true
		for s := 0; s < cf.NSplits; s++ {
			if p.Cursors[s] != cf.NRecs {
				full = false
			}
		}
		flush()
		ck, err := cluster.ReadJobCheckpointFile(p.Text)
		if err != nil {
			return fail("trace: reading checkpoint: %v", err)
		}
		cs, err := c.ReadCheckpointState(ck)
		if err != nil {
			events = append(events, map[string]any{"op": "Unrestorable", "n": int(ck.Id), "err": err.Error()})
			return events
		}
		if !full {
			events = append(events, snapEvent("Published", ck.Id, cs))
			continue
		}
		events = append(events, snapEvent("Final", ck.Id, cs))
		res.Executed++
		res.Steps += len(events)
		return events
	}
	return fail("trace: no final checkpoint")
}

// restartEvent: the new generation's worker count is part of the event when the job may be rescaled.
func restartEvent(cf *conf, restored uint64, lost []int, w int) map[string]any {
	ev := map[string]any{"op": "Restart", "n": int(restored), "lost": lost}
	if len(cf.counts) > 0 {
		ev["w"] = w
	}
	return ev
}

func main() {
	in, err := mbt.ReadInput(os.Args[1])
	if err != nil {
		fmt.Fprintln(os.Stderr, err)
		os.Exit(2)
	}
	cf, err := readConf(in)
	if err != nil {
		fmt.Fprintln(os.Stderr, err)
		os.Exit(2)
	}
	if in.CfgStr("Mode", "replay") != "trace" && cf.survive {
		// survivors arm: supervised replay (chunks of behaviours in child processes), because what the code under
		// test does wrong after an in-place redeploy may be a panic on one of its own goroutines - that is then
		// attributed to the behaviour that provoked it instead of taking the whole stage down
		mbt.Main(func(bi int, beh []mbt.Step, in *mbt.Input, res *mbt.Result) {
			replay(bi, beh, cf, res, in.Seed)
		})
		return
	}
	res := &mbt.Result{}
	// time budget: on a healthy tree a stage takes seconds; a broken tree makes many steps run into
	// their time-outs. Once the budget is used (or a few violations are in) the rest is skipped.
	start := time.Now()
	budget := time.Duration(in.CfgInt("BudgetSec", 120)) * time.Second
	if in.CfgStr("Mode", "replay") == "trace" {
		rng := rand.New(rand.NewSource(in.Seed))
		var events []any
		for i := 0; i < in.CfgInt("Runs", 20); i++ {
			if time.Since(start) > budget {
				res.Count("skipped", 1)
				continue
			}
			ev := traceRun(cf, rand.New(rand.NewSource(rng.Int63())), in, res)
			if ev == nil {
				continue
			}
			if len(events) > 0 {
				events = append(events, map[string]any{"op": "Reset"})
			}
			events = append(events, ev...)
		}
		res.Samples = events
	} else {
		for bi, beh := range in.Behaviours {
			if time.Since(start) > budget || len(res.Violations) >= 5 {
				res.Count("skipped", 1)
				continue
			}
			replay(bi, beh, cf, res, in.Seed)
		}
	}
	if err := mbt.WriteResult(os.Args[2], res); err != nil {
		fmt.Fprintln(os.Stderr, err)
		os.Exit(2)
	}
}
