// fetcher replays behaviours of spec/Fetcher.tla on the real
// batching.ReorderFetcher: every model action is mapped to "start this call" or
// "release that goroutine from its gate", and after every action the output
// observed so far is compared with what the property demands (C20: one result
// per input, in input order).
package main

import (
	"context"
	"fmt"
	"os"
	"reflect"
	"sync"
	"sync/atomic"
	"time"

	"reduction.dev/reduction/batching"
	"reduction.dev/reduction/util/verifhook"
	"verif/harness/gate"
	"verif/harness/mbt"
)

const wait = 3 * time.Second

// timer is a harness-owned clocks.Timer: expiry is an explicit model action.
type timer struct {
	mu sync.Mutex
	do func()
}

func (t *timer) Set(_ time.Duration, do func()) { t.mu.Lock(); t.do = do; t.mu.Unlock() }
func (t *timer) Stop()                          { t.mu.Lock(); t.do = nil; t.mu.Unlock() }
func (t *timer) take() func()                   { t.mu.Lock(); defer t.mu.Unlock(); d := t.do; t.do = nil; return d }

type run struct {
	s           *gate.Sched
	rf          *batching.ReorderFetcher[int, int]
	tm          *timer
	ctx         context.Context
	cancel      context.CancelFunc
	outMu       sync.Mutex
	out         []int
	callerG     int64
	adversarial bool
	parked      map[string]*gate.Arrival // "c"/"t" -> arrival parked at flush.enter or flush.between
	fetchG      map[int]*gate.Arrival    // seq -> parked fetch (at fetch.call or fetch.beforeDrain)
	fetchN      int
	skipped, races, racesEntered int
	callerD     chan struct{}
	holdGid     atomic.Int64   // the goroutine to park at the end of its drain
	early       map[int]string // seq -> "done" (already parked before its drain) | "exited" (its goroutine has finished)
}

func newRun(maxSize, bufSize int, useTimer bool) *run {
	r := &run{parked: map[string]*gate.Arrival{}, fetchG: map[int]*gate.Arrival{}, early: map[int]string{}}
	r.s = gate.New("batching.flush.enter", "batching.flush.between", "batching.fetch.beforeDrain", "fetch.call", "batching.drain.end")
	verifhook.Install(func(point string, args ...any) {
		if point == "batching.drain.end" && gate.Goid() != r.holdGid.Load() {
			return // only the drain the replayer asked for is held
		}
		r.s.At(point, args...)
	}, nil)
	r.ctx, r.cancel = context.WithCancel(context.Background())
	r.tm = &timer{}
	delay := time.Duration(0)
	if useTimer {
		delay = time.Hour
	}
	b := batching.NewEventBatcher[int](r.ctx, batching.EventBatcherParams{MaxDelay: delay, MaxSize: maxSize, Timer: r.tm})
	r.rf = batching.NewReorderFetcher(r.ctx, batching.NewReorderFetcherParams[int, int]{
		Batcher: b, BufferSize: bufSize, ErrChan: make(chan error, 16),
		FetchBatch: func(ctx context.Context, events []int) ([]int, error) {
			r.s.At("fetch.call", append([]int(nil), events...))
			return events, nil
		},
	})
	go func() {
		for {
			select {
			case v := <-r.rf.Output:
				r.outMu.Lock()
				r.out = append(r.out, v)
				r.outMu.Unlock()
			case <-r.ctx.Done():
				return
			}
		}
	}()
	return r
}

func (r *run) close() {
	r.s.FreeRun()
	r.cancel()
	verifhook.Install(nil, nil)
}

func (r *run) outNow() []int {
	r.outMu.Lock()
	defer r.outMu.Unlock()
	return append([]int{}, r.out...)
}

// waitOut waits until at least n outputs have been observed (or timeout).
func (r *run) waitOut(n int) []int {
	dl := time.Now().Add(wait)
	for {
		o := r.outNow()
		if len(o) >= n || time.Now().After(dl) {
			return o
		}
		time.Sleep(200 * time.Microsecond)
	}
}

func who(r *run, a *gate.Arrival) string {
	if a.Gid == r.callerG {
		return "c"
	}
	return "t"
}

// startCaller runs f on a fresh "caller" goroutine.
func (r *run) startCaller(f func()) {
	r.callerD = make(chan struct{})
	ready := make(chan struct{})
	go func() {
		r.callerG = gate.Goid()
		close(ready)
		f()
		close(r.callerD)
	}()
	<-ready
}

func (r *run) callerReturned() error {
	select {
	case <-r.callerD:
		return nil
	case <-time.After(wait):
		return fmt.Errorf("caller did not return")
	}
}

// awaitFlusher waits for goroutine g to arrive at point p.
func (r *run) awaitFlusher(g, p string) (*gate.Arrival, error) {
	return r.s.Await(func(a *gate.Arrival) bool { return a.Point == p && who(r, a) == g }, wait)
}

var errSerialised = fmt.Errorf("flushers serialised by the code")

type drift struct{ msg string }

func (d *drift) Error() string { return d.msg }

func driftf(f string, a ...any) error { return &drift{fmt.Sprintf(f, a...)} }

// step executes one model action.
func (r *run) step(st mbt.Step) error {
	switch st.Str("a") {
	case "CallerAdd":
		item := st.Int("item")
		r.startCaller(func() { r.rf.Add(r.ctx, item) })
		if st.Bool("full") {
			a, err := r.awaitFlusher("c", "batching.flush.enter")
			if err != nil {
				return driftf("CallerAdd(full): %v", err)
			}
			r.parked["c"] = a
		} else if err := r.callerReturned(); err != nil {
			return driftf("CallerAdd: %v", err)
		}
	case "CallerFlush":
		r.startCaller(func() { r.rf.Flush(r.ctx) })
		a, err := r.awaitFlusher("c", "batching.flush.enter")
		if err != nil {
			return driftf("CallerFlush: %v", err)
		}
		r.parked["c"] = a
	case "TimerFire":
		do := r.tm.take()
		if do == nil {
			return driftf("TimerFire: timer not armed")
		}
		go do() // blocks on BatchTimedOut until the time-out goroutine receives
		if st.Bool("recv") {
			a, err := r.awaitFlusher("t", "batching.flush.enter")
			if err != nil {
				return driftf("TimerFire(recv): %v", err)
			}
			r.parked["t"] = a
		}
	case "FlushTake":
		g := st.Str("g")
		a := r.parked[g]
		if a == nil {
			return driftf("FlushTake(%s): not parked", g)
		}
		delete(r.parked, g)
		a.Release()
		other := map[string]string{"c": "t", "t": "c"}[g]
		if o := r.parked[other]; r.adversarial && o != nil && o.Point == "batching.flush.between" {
			// the model (Atomic = FALSE) lets g take a batch while the other
			// flusher sits between Flush and Reserve; correct code blocks g here
			if b, err := r.s.Await(func(a *gate.Arrival) bool {
				return (a.Point == "batching.flush.between" || a.Point == "batching.flush.exit") && who(r, a) == g
			}, 60*time.Millisecond); err != nil {
				return errSerialised
			} else if b.Point == "batching.flush.between" {
				r.parked[g] = b
				return nil
			} else {
				return r.afterFlusherIdle(g)
			}
		}
		if len(st.Ints("took")) == 0 {
			if _, err := r.awaitFlusher(g, "batching.flush.exit"); err != nil {
				return driftf("FlushTake(%s, empty): %v", g, err)
			}
			return r.afterFlusherIdle(g)
		}
		b, err := r.awaitFlusher(g, "batching.flush.between")
		if err != nil {
			return driftf("FlushTake(%s): %v", g, err)
		}
		r.parked[g] = b
	case "Reserve":
		g := st.Str("g")
		a := r.parked[g]
		if a == nil {
			return driftf("Reserve(%s): not parked", g)
		}
		delete(r.parked, g)
		a.Release()
		want := st.Ints("events")
		f, err := r.s.Await(func(a *gate.Arrival) bool {
			return a.Point == "fetch.call" && reflect.DeepEqual(a.Args[0], want)
		}, wait)
		if err != nil {
			return driftf("Reserve(%s): fetch of %v not started: %v", g, want, err)
		}
		r.fetchG[st.Int("seq")] = f
		if _, err := r.awaitFlusher(g, "batching.flush.exit"); err != nil {
			return driftf("Reserve(%s): %v", g, err)
		}
		return r.afterFlusherIdle(g)
	case "FetchDone":
		seq := st.Int("seq")
		if r.early[seq] != "" {
			r.skipped++ // its fetch was let go during another goroutine's drain
			break
		}
		a := r.fetchG[seq]
		if a == nil {
			return driftf("FetchDone(%d): no such fetch", seq)
		}
		a.Release()
		// the code's own sequence number may differ from the model's when the
		// code misnumbers; identify the goroutine, not the number
		b, err := r.s.Await(func(x *gate.Arrival) bool { return x.Point == "batching.fetch.beforeDrain" && x.Gid == a.Gid }, wait)
		if err != nil {
			return driftf("FetchDone(%d): %v", seq, err)
		}
		r.fetchG[seq] = b
	case "Drain":
		seq := st.Int("seq")
		if r.early[seq] == "exited" {
			r.skipped++
			break
		}
		a := r.fetchG[seq]
		if a == nil {
			return driftf("Drain(%d): no such fetch", seq)
		}
		delete(r.fetchG, seq)
		at := func(p string, gid int64) func(*gate.Arrival) bool {
			return func(x *gate.Arrival) bool { return x.Point == p && x.Gid == gid }
		}
		race := -1
		if st.Has("race") {
			race = st.Int("race")
		}
		if b := r.fetchG[race]; race >= 0 && b != nil && b.Point == "fetch.call" {
			// hold this goroutine at the end of its drain, let the other fetch return meanwhile
			r.races++
			r.holdGid.Store(a.Gid)
			a.Release()
			e, err := r.s.Await(at("batching.drain.end", a.Gid), wait)
			r.holdGid.Store(0)
			if err != nil {
				return driftf("Drain(%d): end of drain not reached: %v", seq, err)
			}
			b.Release()
			const window = 20 * time.Millisecond
			x, errx := r.s.Await(at("batching.fetch.beforeDrain", b.Gid), window)
			if errx == nil { // its Add did not have to wait for the drain in progress: let it drain as well
				r.racesEntered++
				x.Release()
				if _, err := r.s.Await(at("batching.fetch.exit", b.Gid), window); err == nil {
					r.early[race] = "exited"
				} else {
					r.early[race] = "draining"
				}
			}
			e.Release()
			if _, err := r.s.Await(at("batching.fetch.exit", a.Gid), wait); err != nil {
				return driftf("Drain(%d): %v", seq, err)
			}
			switch r.early[race] {
			case "":
				x, err := r.s.Await(at("batching.fetch.beforeDrain", b.Gid), wait)
				if err != nil {
					return driftf("Drain(%d): fetch %d let go during the drain did not add its result: %v", seq, race, err)
				}
				r.fetchG[race], r.early[race] = x, "done"
			case "draining":
				if _, err := r.s.Await(at("batching.fetch.exit", b.Gid), wait); err != nil {
					return driftf("Drain(%d): fetch %d: %v", seq, race, err)
				}
				r.early[race] = "exited"
				delete(r.fetchG, race)
			default:
				delete(r.fetchG, race)
			}
			break
		}
		a.Release()
		if _, err := r.s.Await(at("batching.fetch.exit", a.Gid), wait); err != nil {
			return driftf("Drain(%d): %v", seq, err)
		}
	default:
		return fmt.Errorf("unknown action %q", st.Str("a"))
	}
	return nil
}

// afterFlusherIdle: when the time-out goroutine returns to its select and an
// expiry is pending it receives it at once and arrives at flush.enter again;
// the caller goroutine simply returns.
func (r *run) afterFlusherIdle(g string) error {
	if g == "c" {
		if err := r.callerReturned(); err != nil {
			return driftf("%v", err)
		}
	}
	return nil
}

func isPrefixIdent(o []int) bool {
	for i, v := range o {
		if v != i+1 {
			return false
		}
	}
	return true
}

func replay(bi int, beh []mbt.Step, in *mbt.Input, res *mbt.Result) {
	r := newRun(in.CfgInt("MaxSize", 2), in.CfgInt("BufSize", 2), in.CfgBool("UseTimer", true))
	defer r.close()
	defer func() {
		res.Count("drains_held_while_another_fetch_returns", r.races)
		res.Count("fetch_added_its_result_during_a_held_drain", r.racesEntered)
		res.Count("skipped_steps", r.skipped)
	}()
	r.adversarial = in.CfgBool("Adversarial", false)
	added := 0
	for si, st := range beh {
		if st.Str("a") == "CallerAdd" {
			added = st.Int("item")
		}
		// the time-out goroutine may have re-entered flush after an urgent receive
		if st.Str("a") == "FlushTake" && st.Str("g") == "t" && r.parked["t"] == nil {
			a, err := r.awaitFlusher("t", "batching.flush.enter")
			if err != nil {
				res.Driftf("b%d s%d: time-out goroutine not at flush.enter: %v", bi, si, err)
				return
			}
			r.parked["t"] = a
		}
		if err := r.step(st); err != nil {
			if err == errSerialised {
				res.Count("serialised", 1)
				break
			}
			if _, ok := err.(*drift); ok {
				// a goroutine that does not arrive where the model says may itself
				// be the symptom of a lost/duplicated item: decide by the property
				r.s.FreeRun()
				o := r.waitOut(0)
				if !isPrefixIdent(o) {
					res.Violations = append(res.Violations, mbt.Violation{Property: "C20", Behaviour: bi, Step: si,
						What: "fetcher output is not the input sequence (after schedule divergence: " + err.Error() + ")", Observed: o})
					return
				}
				res.Driftf("b%d s%d %s: %v", bi, si, st.Str("a"), err)
				return
			}
			res.Errors = append(res.Errors, err.Error())
			return
		}
		res.Steps++
		want := st.Ints("out")
		got := r.waitOut(len(want))
		if !isPrefixIdent(got) {
			res.Violations = append(res.Violations, mbt.Violation{Property: "C20", Behaviour: bi, Step: si,
				What: "fetcher emitted results out of input order / duplicated / lost", Expected: want, Observed: got})
			return
		}
		if !reflect.DeepEqual(got, want) {
			// in order, but not what the model predicted at this step
			if len(got) < len(want) {
				res.Violations = append(res.Violations, mbt.Violation{Property: "C20", Behaviour: bi, Step: si,
					What: "result drained by the model was not emitted", Expected: want, Observed: got})
				return
			}
			res.Driftf("b%d s%d: out=%v predicted %v", bi, si, got, want)
			return
		}
	}
	// end of behaviour: let everything run, flush the rest explicitly, demand NoLoss
	r.s.FreeRun()
	r.rf.Flush(r.ctx)
	got := r.waitOut(added)
	time.Sleep(2 * time.Millisecond)
	got = r.outNow()
	want := make([]int, added)
	for i := range want {
		want[i] = i + 1
	}
	if !reflect.DeepEqual(got, want) {
		res.Violations = append(res.Violations, mbt.Violation{Property: "C20", Behaviour: bi, Step: len(beh),
			What: "at quiescence the emitted results are not exactly the added items in order", Expected: want, Observed: got})
		return
	}
	res.Executed++
}

func main() {
	in, err := mbt.ReadInput(os.Args[1])
	if err != nil {
		fmt.Fprintln(os.Stderr, err)
		os.Exit(2)
	}
	res := &mbt.Result{}
	for bi, beh := range in.Behaviours {
		replay(bi, beh, in, res)
	}
	if err := mbt.WriteResult(os.Args[2], res); err != nil {
		fmt.Fprintln(os.Stderr, err)
		os.Exit(2)
	}
}
