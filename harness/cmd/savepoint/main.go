// savepoint replays behaviours of spec/Savepoint.tla end-to-end on the REAL
// code (property C14): an in-process cluster (verif/harness/cluster: real
// jobs.Job + snapshots.Store on a real locations.LocalDirectory, real
// SourceRunners, real Operators with real dkv.DBs on the local file system)
// under a temp dir.
//
// Model action -> real code
//
//	Ev            Burst records are read (PermitRead) and applied by the reference handler
//	Tick          the job's checkpoint ticker fires (Store.CreateCheckpoint / ErrCheckpointInProgress)
//	Sp, SpAgain   jobs.Job.HandleCreateSavepoint
//	Ack(0)        the runners' acknowledgements, held at the job.srAck gate, are delivered; the
//	              barriers then flow and every operator takes its DKV checkpoint
//	Ack(o)        operator o's acknowledgement, held at the job.opAck gate, is delivered
//	PubWrite      the job snapshot write, held at the store.write gate, is performed - in the model's
//	              order: the write of a savepoint's checkpoint may be held while the NEXT checkpoint is
//	              started, acknowledged and published (sup = the write is superseded on arrival)
//	Retain(o)     the UpdateRetainedCheckpoints call to operator o, held at op.retain, is delivered
//	SpCopyOp(o)   CreateSavepointArtifact's read of operator o's checkpoints document, held at
//	              store.read, is performed; the copies that follow run freely
//	Wipe          rm -rf of the working storage and of the job checkpoint files (only the
//	              savepoints directory survives)
//	Restore(N)    a second cluster with jobs.NewParams.SavepointURI and N workers; when it is not the
//	              behaviour's last (savepoint chains) that cluster is gated like the first and the
//	              behaviour goes on in it: more records, checkpoints, a savepoint of its own, wipe,
//	              a third cluster started from THAT savepoint
//	Flush/Compact advisory (the data layout is chosen by the configuration: memtable size,
//	              burst length, compactor tuning; the layout actually reached is counted)
//
// Verdicts (only what C14 states; the model supplies ids, cuts and `must`):
//   - CreateSavepoint returns the pending checkpoint's id and starts nothing when one is pending;
//     otherwise it starts exactly one checkpoint with the next id;
//   - when no later retention / publication stands in its way (`must`) the savepoint is produced - also
//     when its checkpoint's publication is overtaken by the next checkpoint's;
//   - a produced savepoint directory holds, per operator, the checkpoints document with an entry for
//     the savepoint's id and every WAL / table file THAT entry references;
//   - after rm -rf of the working storage a job started from the savepoint URI (same or different
//     worker count) resumes at the source positions of checkpoint n and its handlers are given
//     exactly the state of checkpoint n (every key is read back through the reference handler;
//     with N >= W also through a checkpoint of the restored job); this holds for every savepoint, also
//     one taken by a job that was itself started from a savepoint. Checkpoint ids of a job started from
//     a savepoint are taken from the real store (the model's ids are mapped onto them): C14 says
//     nothing about their values, only that requests fold into the checkpoint in progress;
//   - the running job is undisturbed: every handler invocation is given the failure-free state,
//     the published checkpoints have the model's ids / cuts / contents, the newest one stays
//     restorable, and a complete savepoint directory is never changed afterwards.
package main

import (
	"context"
	"encoding/base64"
	"encoding/binary"
	"encoding/json"
	"fmt"
	"math"
	"os"
	"path"
	"path/filepath"
	"runtime"
	"sort"
	"strings"
	"sync/atomic"
	"time"

	"reduction.dev/reduction/util/verifhook"
	"verif/harness/cluster"
	"verif/harness/gate"
	"verif/harness/mbt"
)

const prop = "C14"

var wait = 15 * time.Second

type world struct {
	in  *mbt.Input
	res *mbt.Result
	bi  int
	si  int
	beh []mbt.Step

	W, KG, burst, nSplits, nKeys, tail int
	splits                             [][]cluster.Record
	total                              int // records in all splits
	dir                                string
	c                                  *cluster.Cluster
	fed                                int // records permitted so far (global sequence)
	givenIdx                           int // log index up to which givens were checked
	pendingID                          uint64
	srAcks                             []*gate.Arrival
	opAcks                             map[int]*gate.Arrival
	writes                             map[uint64]*gate.Arrival
	retains                            []*gate.Arrival
	read                               *gate.Arrival
	started                            int // checkpoints the model says were started
	startSeen                          int // StartCheckpoint calls observed / W
	published                          []uint64
	spID                               uint64
	spURI                              string
	spListing                          map[string]int64
	spFailed                           bool
	lastErr                            string
	restoring                          bool
	gen                                int            // savepoint generation (1 = the first job, 2 = the job started from the first savepoint, ...)
	fedBase                            int            // records delivered before the running cluster was booted (the cut it started from)
	rid                                map[int]uint64 // model checkpoint id -> id handed out by the real store
	spSup                              bool           // the savepoint's publication was superseded (overtaken by the next checkpoint's)
	diverged                           bool           // a job started from a savepoint numbers its checkpoints differently from the model
	stop                               bool // behaviour ended early (expected failure of the artifact, drift)
	failed                             bool // a violation was reported
}

var tuneOn atomic.Bool

const rootEnv = "VERIF_SAVEPOINT_TMP"

// tmpRoot: $VERIF_SAVEPOINT_TMP (set by the parent process), else a fresh directory below /dev/shm or $VERIF_BUILD/tmp.
func tmpRoot() string {
	if r := os.Getenv(rootEnv); r != "" {
		return r
	}
	base := ""
	if st, err := os.Stat("/dev/shm"); err == nil && st.IsDir() {
		base = "/dev/shm"
	} else if b := os.Getenv("VERIF_BUILD"); b != "" {
		base = filepath.Join(b, "tmp")
		os.MkdirAll(base, 0o755)
	}
	if b := os.Getenv("VERIF_SHM"); b != "" {
		base = b
	}
	r, err := os.MkdirTemp(base, "verif-sp-")
	if err != nil {
		r = os.TempDir()
	}
	os.Setenv(rootEnv, r)
	return r
}

func main() {
	if os.Getenv("MBT_CHILD") == "" && os.Getenv(rootEnv) == "" {
		root := tmpRoot() // created here (children inherit the environment), removed here; a root given by the caller is the caller's
		defer os.RemoveAll(root)
	}
	mbt.Main(replay)
}

func (w *world) violate(what string, exp, obs any) {
	if w.failed {
		return
	}
	w.failed = true
	w.res.Violations = append(w.res.Violations, mbt.Violation{Property: prop, Behaviour: w.bi, Step: w.si, What: what, Expected: exp, Observed: obs})
}

// real returns the real store's id of model checkpoint id (identity unless learned otherwise).
func (w *world) real(id int) uint64 {
	if r, ok := w.rid[id]; ok {
		return r
	}
	return uint64(id)
}

// learn records the id the real store handed out for model checkpoint id.
func (w *world) learn(id int, got uint64) {
	w.rid[id] = got
	if got != uint64(id) && !w.diverged {
		w.diverged = true
		w.res.Count("restored_job_ids_differ_from_model", 1)
	}
}

func (w *world) errorf(f string, a ...any) {
	w.res.Errors = append(w.res.Errors, fmt.Sprintf("behaviour %d step %d: ", w.bi, w.si)+fmt.Sprintf(f, a...))
	w.stop = true
}

// record g (0-based global sequence) is record idx g/nSplits+1 of split g%nSplits; model event e
// (1-based) is the burst of records (e-1)*burst .. e*burst-1, all owned by operator (e-1)%W.
func (w *world) makeSplits() {
	w.total = w.in.CfgInt("MaxEv", 3)*w.burst + w.tail
	per := (w.total + w.nSplits - 1) / w.nSplits
	w.total = per * w.nSplits
	body := w.in.CfgInt("MaxEv", 3) * w.burst
	w.splits = cluster.MakeSplits(w.nSplits, per, func(s, idx int) string {
		g := (idx-1)*w.nSplits + s
		if g >= body { // the tail touches every key of every operator (read-back through the handler)
			t := g - body
			return cluster.KeyFor(w.KG, w.W, t%w.W, (t/w.W)%w.nKeys)
		}
		owner := (g / w.burst) % w.W
		return cluster.KeyFor(w.KG, w.W, owner, g%w.nKeys)
	})
}

func (w *world) rec(g int) cluster.Record { return w.splits[g%w.nSplits][g/w.nSplits] }

// cursors after the first n records of the global sequence
func (w *world) cursorsAt(n int) map[int]int {
	out := map[int]int{}
	for s := 0; s < w.nSplits; s++ {
		out[s] = 0
	}
	for g := 0; g < n; g++ {
		out[g%w.nSplits]++
	}
	return out
}

func sameCursors(a, b map[int]int) bool {
	for k, v := range a {
		if b[k] != v {
			return false
		}
	}
	for k, v := range b {
		if a[k] != v {
			return false
		}
	}
	return true
}

func replay(bi int, beh []mbt.Step, in *mbt.Input, res *mbt.Result) {
	w := &world{in: in, res: res, bi: bi, opAcks: map[int]*gate.Arrival{}, writes: map[uint64]*gate.Arrival{}, gen: 1, rid: map[int]uint64{}, beh: beh}
	w.W = in.CfgInt("NOps", 2)
	w.KG = in.CfgInt("KeyGroups", 8)
	w.burst = in.CfgInt("Burst", 1)
	w.nSplits = in.CfgInt("Splits", 2)
	w.nKeys = in.CfgInt("Keys", 3)
	w.tail = max(in.CfgInt("Tail", 8), w.W*w.nKeys)
	if s := in.CfgInt("WaitS", 0); s > 0 {
		wait = time.Duration(s) * time.Second
	}
	w.makeSplits()

	mem, small, amp := int64(in.CfgInt("MemTable", 0)), int64(in.CfgInt("SmallestLevel", 0)), int64(in.CfgInt("MaxSizeAmpPct", 0))
	verifhook.Install(nil, func(name string, def int64) int64 {
		if !tuneOn.Load() { // only the operators' databases (opened during Boot) are tuned, not read-back copies
			return def
		}
		switch {
		case name == "dkv.memTableSize" && mem > 0:
			return mem
		case name == "dkv.smallestLevelSize" && small > 0:
			return small
		case name == "dkv.maxSizeAmpPct" && amp > 0:
			return amp
		}
		return def
	})
	defer verifhook.Install(nil, nil)

	// every behaviour gets its own directory under the root the parent process created; it is removed by
	// the parent when all children have exited (background flushes / compactions of retired databases may
	// still be writing when a behaviour ends, and would panic on a vanished directory)
	dir, err := os.MkdirTemp(tmpRoot(), "b-")
	if err != nil {
		w.errorf("temp dir: %v", err)
		return
	}
	w.dir = dir

	defer func() {
		if w.c != nil {
			w.c.Retire()
		}
	}()
	if c, err := w.boot(w.W, "", 0, true); err != nil {
		if c == nil {
			w.errorf("cluster: %v", err)
		} else {
			w.errorf("boot: %v", err)
		}
		return
	}

	for si, st := range beh {
		w.si = si
		switch st.Str("a") {
		case "Ev":
			w.stepEv(st)
		case "Tick":
			w.stepTick(st)
		case "Sp":
			w.stepSp(st)
		case "SpAgain":
			w.stepSpAgain(st)
		case "Ack":
			w.stepAck(st)
		case "PubWrite":
			w.stepPubWrite(st)
		case "Retain":
			w.stepRetain(st)
		case "SpCopyOp":
			w.stepCopy(st)
		case "Wipe":
			w.stepWipe(st)
		case "Restore":
			w.stepRestore(st)
		case "Flush", "Compact":
			res.Count("advisory_layout_steps", 1)
			continue
		default:
			w.errorf("unknown action %q", st.Str("a"))
		}
		if w.failed || w.stop {
			break
		}
		res.Steps++
		w.checkStrays()
		if w.failed || w.stop {
			break
		}
	}
	if !w.failed && !w.stop && w.spURI != "" && w.c != nil && !w.restoring {
		// behaviour ended before Wipe: the directory must still be closed and unchanged
		w.checkClosed()
		w.checkSavepointUnchanged()
	}
	if dump := in.CfgStr("DumpLog", ""); dump != "" && (w.failed || dump == "always") {
		for _, o := range w.logAll() {
			b, _ := json.Marshal(o)
			fmt.Fprintln(os.Stderr, string(b))
		}
	}
	if len(res.Samples) < 2 && !w.failed && !w.stop {
		res.Samples = append(res.Samples, map[string]any{"kind": "Savepoint behaviour replayed on the real cluster", "config": in.Config, "steps": beh})
	}
	if !w.stop || w.spFailed {
		res.Executed++
	}
}

var gatePoints = []string{cluster.PJobOpAck, cluster.PJobSrAck, cluster.PStoreWrite, cluster.POpRetain, cluster.PStoreRead}

// boot starts a cluster of n workers over the behaviour's directory (from savepointURI when given) and makes
// it the current one. firstGen: the kit's generation-number base (fresh operator ids / DKV directories).
func (w *world) boot(n int, savepointURI string, firstGen int, gated bool) (*cluster.Cluster, error) {
	opt := cluster.Options{Workers: n, KeyGroups: w.KG, Splits: w.splits, Dir: w.dir, FullGiven: true, SavepointURI: savepointURI}
	if gated {
		opt.Gates = gatePoints
	}
	if w.in.CfgBool("Verbose", false) {
		opt.Log = os.Stderr
	}
	c, err := cluster.New(opt)
	if err != nil {
		return nil, err
	}
	if firstGen > 0 {
		c.SetFirstGeneration(firstGen)
	}
	w.c = c
	tuneOn.Store(true)
	_, err = c.Boot()
	tuneOn.Store(false)
	return c, err
}

func (w *world) logAll() []cluster.Obs {
	if w.c == nil {
		return nil
	}
	return w.c.Log(0)
}

// ------------------------------------------------------------------ steps ----

func (w *world) stepEv(st mbt.Step) {
	e := st.Int("e")
	for g := (e - 1) * w.burst; g < e*w.burst; g++ {
		if g != w.fed {
			w.errorf("event %d out of sequence (fed %d)", e, w.fed)
			return
		}
		// one record at a time: records of different splits are read by different runners, and the state a
		// handler must be given is only determined when their order is
		r := w.rec(g)
		w.c.PermitRead(w.c.SplitOwner(r.Split), r.Split, 1)
		w.fed++
		if !w.waitGivens(w.c, w.fed-w.fedBase, 0) || w.failed {
			return
		}
	}
}

// waitGivens waits until `n` handler invocations have happened in cluster c (from log index `from`) and
// checks that every one was given the failure-free state.
func (w *world) waitGivens(c *cluster.Cluster, n, from int) bool {
	deadline := time.Now().Add(wait)
	for {
		gs := c.Givens(from)
		if len(gs) >= n {
			w.checkGivens(gs[n-1:])
			return true
		}
		if time.Now().After(deadline) {
			w.errorf("only %d of %d handler invocations happened (log tail: %s)", len(gs), n, tailOf(c))
			return false
		}
		time.Sleep(300 * time.Microsecond)
	}
}

func tailOf(c *cluster.Cluster) string {
	l := c.Log(0)
	if len(l) > 10 {
		l = l[len(l)-10:]
	}
	var sb strings.Builder
	for _, o := range l {
		fmt.Fprintf(&sb, "{%s %s %d %s} ", o.Kind, o.Node, o.Ckpt, o.Text)
	}
	return sb.String()
}

// every handler invocation is given the failure-free state of its key (full state: FullGiven)
func (w *world) checkGivens(gs []cluster.Given) {
	for _, g := range gs {
		want := w.keyStateBefore(g.Rec)
		if g.Full == nil {
			w.errorf("no full state recorded")
			return
		}
		if d := cluster.DiffStates(map[string]*cluster.KeyState{g.Rec.Key: want}, map[string]*cluster.KeyState{g.Rec.Key: g.Full}); d != "" {
			w.violate(fmt.Sprintf("handler of %s was given a state for record %s that is not the state of the exactly-once run: %s", g.Op, g.Rec.ID(), d), want, g.Full)
			return
		}
	}
}

// the state of r's key after every record before r in the global sequence
func (w *world) keyStateBefore(r cluster.Record) *cluster.KeyState {
	ks := &cluster.KeyState{Cnt: map[string]int{}, Last: map[int]int{}}
	gr := (r.Idx-1)*w.nSplits + r.Split
	for g := 0; g < gr; g++ {
		x := w.rec(g)
		if x.Key == r.Key {
			ks.Cnt[x.ID()] = 1
			if x.Idx > ks.Last[x.Split] {
				ks.Last[x.Split] = x.Idx
			}
		}
	}
	return ks
}

// countStarts consumes the StartCheckpoint notifications that arrived and returns how many there were.
func (w *world) countStarts() (n int, ids []uint64) {
	for {
		a, err := w.c.Sched().Await(gate.Point(cluster.PSrStartCkpt), 0)
		if err != nil {
			return n, ids
		}
		n++
		ids = append(ids, a.Args[0].(*cluster.Call).Ckpt)
	}
}

// expectStarted: model checkpoint `id` was started: W StartCheckpoint calls, then W runner acks park.
// want = the id the real store must have handed out; 0 = take it from the first StartCheckpoint call (a job
// started from a savepoint: its numbering is the store's business, the model's ids are mapped onto it).
func (w *world) expectStarted(id int, want uint64) {
	deadline := time.Now().Add(wait)
	n := 0
	for n < w.W {
		a, err := w.c.Sched().Await(gate.Point(cluster.PSrStartCkpt), time.Until(deadline))
		if err != nil {
			w.errorf("StartCheckpoint(%d) reached only %d of %d runners", id, n, w.W)
			return
		}
		got := a.Args[0].(*cluster.Call).Ckpt
		if want == 0 {
			want = got
		}
		if got != want {
			w.violate(fmt.Sprintf("a checkpoint with id %d was started; the store's next id is %d", got, want), want, got)
			return
		}
		n++
	}
	w.learn(id, want)
	for len(w.srAcks) < w.W {
		a, err := w.c.Sched().Await(gate.Point(cluster.PJobSrAck), time.Until(deadline))
		if err != nil {
			w.errorf("runner acks of checkpoint %d: only %d of %d arrived", want, len(w.srAcks), w.W)
			return
		}
		if got := a.Args[0].(*cluster.Call).Ckpt; got != want {
			w.violate(fmt.Sprintf("a runner acknowledged checkpoint %d while checkpoint %d is the one in progress", got, want), want, got)
			return
		}
		w.srAcks = append(w.srAcks, a)
	}
	w.pendingID = want
	w.started++
}

// nextReal: the id the real store must hand out for model checkpoint id (0 = unknown: learn it).
func (w *world) nextReal(id int) uint64 {
	if w.gen == 1 {
		return uint64(id)
	}
	return 0
}

func (w *world) stepTick(st mbt.Step) {
	done := make(chan struct{})
	go func() { w.c.TickCheckpoint(); close(done) }()
	select {
	case <-done:
	case <-time.After(wait):
		w.errorf("the ticker function did not return")
		return
	}
	if st.Str("res") == "busy" {
		if n, ids := w.countStarts(); n != 0 {
			w.violate("the checkpoint ticker started a checkpoint while one is in progress", "nothing started", ids)
		}
		w.res.Count("tick_busy", 1)
		return
	}
	w.expectStarted(st.Int("id"), w.nextReal(st.Int("id")))
}

type spResult struct {
	id  uint64
	err error
}

func (w *world) callSp() (spResult, bool) {
	ch := make(chan spResult, 1)
	go func() {
		id, err := w.c.CreateSavepoint(context.Background())
		ch <- spResult{id, err}
	}()
	select {
	case r := <-ch:
		return r, true
	case <-time.After(wait):
		w.errorf("HandleCreateSavepoint did not return")
		return spResult{}, false
	}
}

func (w *world) stepSp(st mbt.Step) {
	mid := st.Int("id")
	r, ok := w.callSp()
	if !ok {
		return
	}
	if r.err != nil {
		w.violate("HandleCreateSavepoint failed: "+r.err.Error(), mid, r.err.Error())
		return
	}
	if !st.Bool("created") {
		// fold: the pending checkpoint's id, nothing started
		id := w.real(mid)
		w.spID = id
		n, ids := w.countStarts()
		if r.id != id || n != 0 {
			w.violate(fmt.Sprintf("a savepoint requested while checkpoint %d is in progress must return that id and start nothing: returned %d, %d StartCheckpoint calls %v", id, r.id, n, ids),
				map[string]any{"id": id, "started": 0}, map[string]any{"id": r.id, "started": n})
		}
		w.res.Count("sp_folded", 1)
		if mid > 1 {
			w.res.Count("sp_folded_into_later_checkpoint", 1)
		}
		return
	}
	if want := w.nextReal(mid); want != 0 && r.id != want {
		w.violate(fmt.Sprintf("the savepoint request returned checkpoint id %d, the store's next id is %d", r.id, want), want, r.id)
		return
	}
	w.spID = r.id
	w.res.Count("sp_created", 1)
	w.expectStarted(mid, r.id)
}

func (w *world) stepSpAgain(st mbt.Step) {
	id := w.real(st.Int("id"))
	r, ok := w.callSp()
	if !ok {
		return
	}
	n, ids := w.countStarts()
	if n != 0 || (r.err == nil && r.id != id) {
		w.violate(fmt.Sprintf("a second savepoint request while savepoint %d is in progress must not start another checkpoint: returned (%d, %v), %d StartCheckpoint calls %v", id, r.id, r.err, n, ids), id, r.id)
	}
	w.res.Count("sp_again", 1)
}

func opIndexOfLabel(l string) int {
	var i int
	fmt.Sscanf(l, "op%d", &i)
	return i
}

func (w *world) stepAck(st mbt.Step) {
	who, id := st.Int("who"), w.real(st.Int("id"))
	if who == 0 {
		for _, a := range w.srAcks {
			call := a.Args[0].(*cluster.Call)
			a.Release()
			if !w.waitCall(call, "runner ack") {
				return
			}
			if call.Err != nil {
				w.violate(fmt.Sprintf("the runner acknowledgement of checkpoint %d was rejected: %v", id, call.Err), nil, call.Err.Error())
				return
			}
		}
		w.srAcks = nil
		// the barriers flow; every operator checkpoints and its acknowledgement parks
		deadline := time.Now().Add(wait)
		for len(w.opAcks) < w.W {
			a, err := w.c.Sched().Await(gate.Point(cluster.PJobOpAck), time.Until(deadline))
			if err != nil {
				w.errorf("operator acks of checkpoint %d: only %d of %d arrived (%s)", id, len(w.opAcks), w.W, tailOf(w.c))
				return
			}
			call := a.Args[0].(*cluster.Call)
			if call.Ckpt != id {
				w.violate(fmt.Sprintf("an operator acknowledged checkpoint %d while checkpoint %d is the one in progress", call.Ckpt, id), id, call.Ckpt)
				return
			}
			w.opAcks[opIndexOfLabel(call.From)+1] = a
		}
	} else {
		a := w.opAcks[who]
		if a == nil {
			w.errorf("no parked ack of operator %d", who)
			return
		}
		delete(w.opAcks, who)
		call := a.Args[0].(*cluster.Call)
		a.Release()
		if !w.waitCall(call, "operator ack") {
			return
		}
		if call.Err != nil {
			w.violate(fmt.Sprintf("the acknowledgement of operator %d for checkpoint %d was rejected: %v", who, id, call.Err), nil, call.Err.Error())
			return
		}
	}
	if st.Bool("full") {
		w.pendingID = 0
		a, err := w.c.Sched().Await(gate.Point(cluster.PStoreWrite), wait)
		if err != nil {
			w.errorf("checkpoint %d complete but no snapshot write arrived (%s)", id, tailOf(w.c))
			return
		}
		call := a.Args[0].(*cluster.Call)
		if call.Ckpt != id {
			w.violate(fmt.Sprintf("the store publishes checkpoint %d, the completed one is %d", call.Ckpt, id), id, call.Ckpt)
			return
		}
		w.writes[id] = a
	}
}

func (w *world) waitCall(call *cluster.Call, what string) bool {
	select {
	case <-call.Done():
		return true
	case <-time.After(wait):
		w.errorf("%s %s did not return", what, call)
		return false
	}
}

func (w *world) stepPubWrite(st mbt.Step) {
	id, sup := w.real(st.Int("id")), st.Bool("sup")
	a := w.writes[id]
	if a == nil {
		w.errorf("no parked write of checkpoint %d", id)
		return
	}
	delete(w.writes, id)
	call := a.Args[0].(*cluster.Call)
	want := w.cursorsAt(st.Int("cut") * w.burst)
	if !sameCursors(call.Cursors, want) {
		w.violate(fmt.Sprintf("job checkpoint %d records source positions %v; the cut of the checkpoint is %v", id, call.Cursors, want), want, call.Cursors)
		return
	}
	a.Release()
	if !w.waitCall(call, "snapshot write") {
		return
	}
	if call.Err != nil {
		w.errorf("snapshot write of %d failed: %v", id, call.Err)
		return
	}
	w.published = append(w.published, id)
	if sup {
		// the write of checkpoint id finished after a newer checkpoint was published: it is obsolete on arrival
		// (its file goes again, the operators may already have dropped it): nothing to read back. A savepoint
		// among them still gets its artifact: the SpCopyOp steps that follow demand it.
		w.res.Count("publication_overtaken", 1)
		if st.Bool("sp") {
			w.spSup = true
			w.res.Count("sp_publication_overtaken", 1)
		}
		return
	}
	if w.diverged {
		// a job started from a savepoint that numbers its checkpoints in its own way: what its working-storage
		// checkpoints are worth under that numbering is C12/C13's subject; C14 is decided by the savepoints
		w.res.Count("published_not_read_back_after_id_divergence", 1)
		return
	}
	// the published checkpoint is the state at its cut
	w.checkPublished(id, want)
}

// checkPublished reads checkpoint id back from the operators' DKV files (as long as the file is there).
func (w *world) checkPublished(id uint64, cursors map[int]int) {
	for _, p := range w.c.JobSnapshotFiles() {
		ck, err := cluster.ReadJobCheckpointFile(p)
		if err != nil || ck.Id != id {
			continue
		}
		if len(ck.OperatorCheckpoints) != w.W {
			w.violate(fmt.Sprintf("job checkpoint %d has %d operator checkpoints for %d operators", id, len(ck.OperatorCheckpoints), w.W), w.W, len(ck.OperatorCheckpoints))
			return
		}
		for _, oc := range ck.OperatorCheckpoints {
			if oc.CheckpointId != id {
				w.violate(fmt.Sprintf("job checkpoint %d lists an operator checkpoint with id %d", id, oc.CheckpointId), id, oc.CheckpointId)
				return
			}
		}
		stt, err := w.c.ReadCheckpointState(ck)
		if err != nil {
			w.violate(fmt.Sprintf("published checkpoint %d of the running job cannot be restored from working storage: %v", id, err), nil, err.Error())
			return
		}
		if d := cluster.DiffStates(cluster.ExpectedAt(w.splits, cursors), stt.Keys); d != "" {
			w.violate(fmt.Sprintf("published checkpoint %d of the running job is not the state at its cut: %s", id, d), nil, d)
		}
		return
	}
}

func (w *world) stepRetain(st mbt.Step) {
	o, id := st.Int("o"), w.real(st.Int("id"))
	find := func() *gate.Arrival {
		for i, a := range w.retains {
			call := a.Args[0].(*cluster.Call)
			if opIndexOfLabel(call.To)+1 == o && (w.diverged || (len(call.Ids) == 1 && call.Ids[0] == id)) {
				w.retains = append(w.retains[:i], w.retains[i+1:]...)
				return a
			}
		}
		return nil
	}
	deadline := time.Now().Add(wait)
	if w.diverged {
		// the restored job numbers its checkpoints in another way than the model: which publications the store
		// regards as superseded (no retention round) is not predictable from the model
		deadline = time.Now().Add(300 * time.Millisecond)
	}
	a := find()
	for a == nil {
		lim := time.Until(deadline)
		if len(w.retains) > 0 { // another notification is being delivered: the store's notification goroutines are unordered
			lim = 300 * time.Millisecond
		}
		x, err := w.c.Sched().Await(gate.Point(cluster.POpRetain), lim)
		if err != nil {
			if len(w.retains) > 0 {
				w.res.Driftf("behaviour %d: retention notifications arrive in another order than the model's queue (%s first)", w.bi, w.retains[0].Args[0].(*cluster.Call))
				w.stop = true
				return
			}
			if w.diverged {
				w.res.Count("retention_round_absent_after_id_divergence", 1)
				return
			}
			w.errorf("no retention call [%d] for operator %d arrived (%s)", id, o, tailOf(w.c))
			return
		}
		w.retains = append(w.retains, x)
		a = find()
	}
	call := a.Args[0].(*cluster.Call)
	a.Release()
	if !w.waitCall(call, "retention") {
		return
	}
	if call.Err != nil {
		w.errorf("retention [%d] on operator %d failed: %v (not this property: DESIGN 7 #28)", id, o, call.Err)
		return
	}
	runtime.GC() // table files nothing references any more are deleted by cleanups
	runtime.GC()
	time.Sleep(2 * time.Millisecond)
}

// snapshotFile is the name of job checkpoint id's snapshot file (storage/snapshots pathSegment).
func snapshotFile(id uint64) string {
	buf := make([]byte, 8)
	binary.BigEndian.PutUint64(buf, math.MaxUint64-id)
	return "job-" + base64.RawURLEncoding.EncodeToString(buf) + ".snapshot"
}

// the parked read of operator o's checkpoints document by CreateSavepointArtifact. The wait ends early when
// the store is seen to have finished with the savepoint's checkpoint in another way: it removed the job
// snapshot file the artifact would have to be built from (the last thing finishSnapshotAsync does with a
// superseded checkpoint).
func (w *world) awaitRead(o int) *gate.Arrival {
	// the snapshot write has returned: the artifact code's first read is a few instructions away
	deadline := time.Now().Add(min(wait, 5*time.Second))
	for w.read == nil {
		a, err := w.c.Sched().Await(gate.Point(cluster.PStoreRead), 20*time.Millisecond)
		if err == nil {
			w.read = a
			break
		}
		for {
			r, err := w.c.Sched().Await(gate.Point(cluster.PStoreRemove), 0)
			if err != nil {
				break
			}
			// (only a superseded checkpoint's file is removed by its own publication alone; the file of a checkpoint
			// that was the newest one is also removed by the next publication, artifact or not)
			if w.spSup && strings.Contains(r.Args[0].(*cluster.Call).Path, snapshotFile(w.spID)) {
				w.lastErr = "the store removed the savepoint's job snapshot file without building the artifact"
				return nil
			}
		}
		if time.Now().After(deadline) {
			return nil
		}
	}
	return w.read
}

func (w *world) stepCopy(st mbt.Step) {
	o, id, last, must := st.Int("o"), w.real(st.Int("id")), st.Bool("last"), st.Bool("must")
	a := w.awaitRead(o)
	if a == nil {
		if w.drainErrors("before the artifact read of operator %d", o) {
			return
		}
		if !w.modelProduces(st.Int("id")) {
			// the model's own outcome is "no savepoint" (retention / a newer publication got in the way, or the
			// behaviour ends before the copy does): the same outcome by another route is not a verdict
			w.res.Count("artifact_not_started_where_model_produces_none", 1)
			w.spFailed, w.stop = true, true
			return
		}
		w.violate(fmt.Sprintf("savepoint %d was handed out, every participant acknowledged it and its checkpoint was published, but the artifact for it is not being built (no read of operator %d's checkpoints document) %s", id, o, w.lastErr), "store.read", w.lastErr)
		return
	}
	w.read = nil
	call := a.Args[0].(*cluster.Call)
	wantDir := fmt.Sprintf("-op%d/", o-1)
	if !strings.Contains(call.Path, wantDir) {
		w.res.Driftf("behaviour %d: artifact reads %s where the model copies operator %d", w.bi, call.Path, o)
		w.stop = true
		return
	}
	w.observeLayout(call.Path, id)
	a.Release()
	if !w.waitCall(call, "document read") {
		return
	}
	// the copies run freely: the next thing is the read for the next operator, the URI, or an error
	if !last {
		limit := wait
		if !must {
			limit = 400 * time.Millisecond // see below: a failed artifact is silent
		}
		deadline := time.Now().Add(limit)
		for w.read == nil {
			if a, err := w.c.Sched().Await(gate.Point(cluster.PStoreRead), 20*time.Millisecond); err == nil {
				w.read = a
				return
			}
			failed := w.drainErrors("")
			if !failed && time.Now().After(deadline) {
				failed = true
				w.lastErr = "the artifact code neither went on to the next operator nor reported an error within " + limit.String()
			}
			if failed {
				if must {
					w.violate(fmt.Sprintf("building savepoint %d failed at operator %d although its checkpoint %d is retained and complete in working storage: %s", id, o, id, w.lastErr), "copied", w.lastErr)
					return
				}
				w.spFailed, w.stop = true, true
				w.res.Count("sp_failed_as_modelled", 1)
				return
			}
		}
		return
	}
	// Store.errChan is never set (NewStore ignores params.ErrChan): a failed artifact is silent. Where the
	// model says the copy cannot succeed (must = FALSE) a short quiet period decides "no savepoint" - that
	// outcome is never a verdict.
	limit := wait
	if !must {
		limit = 400 * time.Millisecond
	}
	deadline := time.Now().Add(limit)
	for {
		uri, err := w.c.SavepointURI(context.Background(), id)
		if err == nil {
			w.spURI = uri
			break
		}
		failed := w.drainErrors("")
		if !failed && time.Now().After(deadline) {
			failed = true
			w.lastErr = "no savepoint URI and no error within " + limit.String() + " (" + err.Error() + ")"
		}
		if failed {
			if must {
				w.violate(fmt.Sprintf("savepoint %d was not produced although checkpoint %d is retained and complete in working storage and its job snapshot exists: %s", id, id, w.lastErr), "savepoint URI", w.lastErr)
				return
			}
			w.spFailed, w.stop = true, true
			w.res.Count("sp_failed_as_modelled", 1)
			return
		}
		time.Sleep(time.Millisecond)
	}
	if !must {
		w.res.Count("sp_produced_where_model_fails", 1)
	}
	w.res.Count("sp_produced", 1)
	if w.spSup {
		w.res.Count("sp_produced_after_overtaken_publication", 1)
	}
	w.checkClosed()
	w.spListing = listing(filepath.Dir(w.spURI))
}

// modelProduces: in the model the artifact of savepoint id (model id) is completed later in this behaviour.
func (w *world) modelProduces(id int) bool {
	for _, st := range w.beh[w.si:] {
		if st.Str("a") != "SpCopyOp" || st.Int("id") != id {
			continue
		}
		if !st.Bool("ok") {
			return false
		}
		if st.Bool("last") {
			return true
		}
	}
	return false
}

// drainErrors reports whether the job reported an error (artifact creation failure).
func (w *world) drainErrors(f string, a ...any) bool {
	es := w.c.Errors()
	if len(es) == 0 {
		return false
	}
	w.lastErr = es[len(es)-1].Error()
	return true
}

// ---------------------------------------------------------- closedness ----

type docJSON struct {
	Checkpoints []struct {
		ID   uint64 `json:"id"`
		WALs []struct {
			URI string `json:"uri"`
		} `json:"wals"`
		Levels [][]struct {
			URI string
		} `json:"levels"`
	} `json:"checkpoints"`
}

func readDoc(p string) (*docJSON, error) {
	b, err := os.ReadFile(p)
	if err != nil {
		return nil, err
	}
	d := &docJSON{}
	if err := json.Unmarshal(b, d); err != nil {
		return nil, err
	}
	return d, nil
}

// observeLayout counts where the state of checkpoint id of this operator lives (coverage evidence).
func (w *world) observeLayout(docPath string, id uint64) {
	d, err := readDoc(docPath)
	if err != nil {
		return
	}
	w.res.Count(fmt.Sprintf("doc_entries_at_copy_%d", len(d.Checkpoints)), 1)
	if len(d.Checkpoints) > 0 && d.Checkpoints[len(d.Checkpoints)-1].ID != id {
		w.res.Count("doc_latest_is_not_savepoint_id", 1)
	}
	for _, c := range d.Checkpoints {
		if c.ID != id {
			continue
		}
		l0, deeper := 0, 0
		for i, lv := range c.Levels {
			if i == 0 {
				l0 += len(lv)
			} else {
				deeper += len(lv)
			}
		}
		walBytes := int64(0)
		for _, wl := range c.WALs {
			if fi, err := os.Stat(wl.URI); err == nil {
				walBytes += fi.Size()
			}
		}
		if walBytes > 0 {
			w.res.Count("layout_state_in_wal", 1)
		}
		if l0 > 0 {
			w.res.Count("layout_state_in_L0", 1)
		}
		if deeper > 0 {
			w.res.Count("layout_state_in_deeper_levels", 1)
		}
	}
}

// savepoint copy of a working-storage URI (CreateSavepointArtifact's layout: <dir>/dkv/<op prefix>/<base>)
func spCopyPath(spDir, uri string) string {
	d, b := path.Split(uri)
	return filepath.Join(spDir, "dkv", d, b)
}

// checkClosed: files(savepoint n) contains, per operator, the checkpoints document with an entry for n
// and every file THAT entry references.
func (w *world) checkClosed() {
	if w.in.CfgBool("NoClosedCheck", false) { // self-test knob: the restore alone must then catch an open savepoint
		return
	}
	spDir := filepath.Dir(w.spURI)
	// HandleGetSavepointURI succeeds as soon as `cp` has created job.savepoint (LocalDirectory.Copy is not atomic):
	// give the copy a moment to finish before judging the file's content
	ck, err := cluster.ReadJobCheckpointFile(w.spURI)
	for i := 0; i < 200 && (err != nil || ck.Id != w.spID); i++ {
		time.Sleep(5 * time.Millisecond)
		ck, err = cluster.ReadJobCheckpointFile(w.spURI)
	}
	if err != nil {
		w.violate("the savepoint's job file cannot be read: "+err.Error(), nil, nil)
		return
	}
	if ck.Id != w.spID {
		w.violate(fmt.Sprintf("the savepoint for checkpoint %d holds job checkpoint %d", w.spID, ck.Id), w.spID, ck.Id)
		return
	}
	if len(ck.OperatorCheckpoints) != w.W {
		w.violate(fmt.Sprintf("the savepoint's job file lists %d operator checkpoints for %d operators", len(ck.OperatorCheckpoints), w.W), w.W, len(ck.OperatorCheckpoints))
		return
	}
	for _, oc := range ck.OperatorCheckpoints {
		dp := spCopyPath(spDir, oc.DkvFileUri)
		d, err := readDoc(dp)
		if err != nil {
			w.violate(fmt.Sprintf("savepoint %d does not contain the checkpoints document of operator %s (%s): %v", w.spID, oc.OperatorId, dp, err), dp, nil)
			return
		}
		found := false
		for _, c := range d.Checkpoints {
			if c.ID != oc.CheckpointId {
				continue
			}
			found = true
			var need []string
			for _, wl := range c.WALs {
				need = append(need, wl.URI)
			}
			for _, lv := range c.Levels {
				for _, t := range lv {
					need = append(need, t.URI)
				}
			}
			var missing []string
			for _, u := range need {
				cp := spCopyPath(spDir, u)
				fi, err := os.Stat(cp)
				if err != nil {
					missing = append(missing, u)
					continue
				}
				if wi, err := os.Stat(u); err == nil && wi.Size() != fi.Size() {
					missing = append(missing, u+" (size differs)")
				}
			}
			if len(missing) > 0 {
				var ids []uint64
				for _, c2 := range d.Checkpoints {
					ids = append(ids, c2.ID)
				}
				w.violate(fmt.Sprintf("savepoint %d is not self-contained: operator %s's checkpoint %d references %v, which the savepoint directory does not hold (document lists checkpoints %v)", w.spID, oc.OperatorId, oc.CheckpointId, missing, ids),
					need, missing)
				return
			}
		}
		if !found {
			var ids []uint64
			for _, c2 := range d.Checkpoints {
				ids = append(ids, c2.ID)
			}
			w.violate(fmt.Sprintf("savepoint %d: the copied checkpoints document of operator %s has no entry for checkpoint %d (entries %v)", w.spID, oc.OperatorId, oc.CheckpointId, ids), oc.CheckpointId, ids)
			return
		}
	}
}

func listing(dir string) map[string]int64 {
	out := map[string]int64{}
	filepath.Walk(dir, func(p string, fi os.FileInfo, err error) error {
		if err == nil && !fi.IsDir() {
			out[p] = fi.Size()
		}
		return nil
	})
	return out
}

func (w *world) checkSavepointUnchanged() {
	if w.spListing == nil {
		return
	}
	now := listing(filepath.Dir(w.spURI))
	var diffs []string
	for p, sz := range w.spListing {
		if s2, ok := now[p]; !ok {
			diffs = append(diffs, "removed "+p)
		} else if s2 != sz {
			diffs = append(diffs, "changed "+p)
		}
	}
	for p := range now {
		if _, ok := w.spListing[p]; !ok {
			diffs = append(diffs, "added "+p)
		}
	}
	sort.Strings(diffs)
	if len(diffs) > 0 {
		w.violate(fmt.Sprintf("the complete savepoint directory was changed by the running job afterwards: %v", diffs), nil, diffs)
	}
}

// ------------------------------------------------------ wipe & restore ----

func (w *world) stepWipe(st mbt.Step) {
	if w.spURI == "" {
		w.errorf("Wipe without a savepoint URI")
		return
	}
	// the running job is undisturbed: its newest published checkpoint is still restorable and is the state at its cut
	if ck, err := w.c.LatestPublished(); err == nil && ck != nil {
		stt, err := w.c.ReadCheckpointState(ck)
		if err != nil {
			w.violate(fmt.Sprintf("after the savepoint was taken the running job's newest checkpoint %d cannot be restored: %v", ck.Id, err), nil, err.Error())
			return
		}
		if d := cluster.DiffStates(cluster.ExpectedAt(w.splits, stt.Cursors), stt.Keys); d != "" {
			w.violate(fmt.Sprintf("after the savepoint was taken the running job's newest checkpoint %d is not the state at its cut: %s", ck.Id, d), nil, d)
			return
		}
	}
	w.checkSavepointUnchanged()
	if w.failed {
		return
	}
	w.c.Retire()
	// the old job is dead when its storage is deleted: let background flushes / compactions of the retired
	// operators' databases finish (they would panic on a vanished directory - in the harness process)
	w.quiesce(w.c.WorkDir())
	// the deleted storage is first overwritten in place (same files, new bytes) - what a reused name does on the local
	// location (LocalDirectory.Write truncates in place) and what deleting means on storage that recycles blocks: a
	// savepoint that still shares anything with the working storage (links instead of copies) does not survive it
	shred := func(root string, skip string) {
		filepath.WalkDir(root, func(p string, d os.DirEntry, err error) error {
			if err != nil {
				return nil
			}
			if d.IsDir() {
				if skip != "" && p == skip {
					return filepath.SkipDir
				}
				return nil
			}
			if f, err := os.OpenFile(p, os.O_WRONLY|os.O_TRUNC, 0); err == nil {
				f.WriteString("deleted")
				f.Close()
				w.res.Count("files_overwritten_in_place_before_deletion", 1)
			}
			return nil
		})
	}
	shred(w.c.WorkDir(), "")
	shred(w.c.JobDir(), filepath.Join(w.c.JobDir(), "savepoints"))
	// rm -rf of everything but the savepoints directory
	var err error
	for i := 0; i < 5; i++ {
		if err = os.RemoveAll(w.c.WorkDir()); err == nil {
			break
		}
		time.Sleep(20 * time.Millisecond)
	}
	if err != nil {
		w.errorf("wipe: %v", err)
		return
	}
	ents, _ := os.ReadDir(w.c.JobDir())
	for _, e := range ents {
		if e.Name() != "savepoints" {
			os.RemoveAll(filepath.Join(w.c.JobDir(), e.Name()))
		}
	}
	w.c = nil
	runtime.GC()
	// table cleanups of the retired operators may run now; they must find nothing to harm
	time.Sleep(2 * time.Millisecond)
	os.RemoveAll(filepath.Join(w.dir, "work"))
}

// quiesce waits until the directory tree has not changed for a while and holds no temporary files.
func (w *world) quiesce(dir string) {
	sig := func() string {
		var sb strings.Builder
		l := listing(dir)
		names := make([]string, 0, len(l))
		for p := range l {
			names = append(names, p)
		}
		sort.Strings(names)
		for _, p := range names {
			fmt.Fprintf(&sb, "%s:%d;", p, l[p])
		}
		return sb.String()
	}
	deadline := time.Now().Add(5 * time.Second)
	last, stable := sig(), 0
	for stable < 4 && time.Now().Before(deadline) {
		time.Sleep(15 * time.Millisecond)
		runtime.GC()
		cur := sig()
		if cur == last {
			stable++
		} else {
			stable, last = 0, cur
		}
	}
}

func (w *world) stepRestore(st mbt.Step) {
	N, id := st.Int("N"), w.real(st.Int("id"))
	last := !st.Has("last") || st.Bool("last") // FALSE: a savepoint chain - the behaviour goes on in the restored job
	cutRecs := st.Int("cut") * w.burst
	wantCur := w.cursorsAt(cutRecs)
	w.restoring = true
	c2, err := w.boot(N, w.spURI, 10*w.gen, !last)
	if c2 == nil {
		w.errorf("second cluster: %v", err)
		return
	}
	if err != nil {
		if strings.Contains(err.Error(), cluster.ErrBootTimeout.Error()) && !logHas(c2, "panic") && !deployFailed(c2) {
			w.errorf("restore: %v", err)
			return
		}
		w.violate(fmt.Sprintf("a job started from savepoint %d with the working storage deleted does not come up (N=%d): %v %s", id, N, err, panicsOf(c2)), "running job", err.Error())
		return
	}
	w.res.Count(fmt.Sprintf("restore_%d_to_%d", w.W, N), 1)
	// source positions and operator checkpoints of checkpoint n
	var start *cluster.Obs
	for _, o := range c2.Log(0) {
		o := o
		switch o.Kind {
		case "splitter.start":
			start = &o
		case "op.deployed":
			if o.Text != "" {
				w.violate(fmt.Sprintf("operator %s of the job started from savepoint %d failed to deploy: %s", o.Node, id, o.Text), nil, o.Text)
				return
			}
			if len(o.OpCkpts) == 0 {
				w.violate(fmt.Sprintf("operator %s of the job started from savepoint %d was deployed without any checkpoint", o.Node, id), nil, nil)
				return
			}
			for _, oc := range o.OpCkpts {
				if oc.Ckpt != id {
					w.violate(fmt.Sprintf("operator %s of the job started from savepoint %d was deployed from checkpoint %d", o.Node, id, oc.Ckpt), id, oc.Ckpt)
					return
				}
			}
		}
	}
	if start == nil || start.Ckpt != id || !sameCursors(start.Cursors, wantCur) {
		var got any
		if start != nil {
			got = map[string]any{"ckpt": start.Ckpt, "cursors": start.Cursors}
		}
		w.violate(fmt.Sprintf("the job started from savepoint %d resumes the source at %v; checkpoint %d was cut at %v", id, got, id, wantCur), wantCur, got)
		return
	}
	if !last {
		// savepoint chain: the job started from the savepoint is the running job from here on. What it was
		// given is checked by every handler invocation that follows (the failure-free state of the key) and,
		// in full, when the job started from ITS savepoint is read back.
		w.gen++
		w.fed, w.fedBase = cutRecs, cutRecs
		w.pendingID, w.srAcks, w.opAcks, w.writes = 0, nil, map[int]*gate.Arrival{}, map[uint64]*gate.Arrival{}
		w.retains, w.read, w.published = nil, nil, nil
		w.spID, w.spURI, w.spListing, w.lastErr, w.spSup = 0, "", nil, "", false
		w.restoring = false
		w.res.Count("chain_restored_job_goes_on", 1)
		return
	}
	if w.gen > 1 {
		w.res.Count("chain_second_savepoint_restored", 1)
	}
	// N = W: every new operator opens exactly its predecessor's checkpoint: the restored state is also read
	// back through a checkpoint of the new job, at once and at the end. With another worker count a
	// checkpoint of the new job runs into rescaling issues that are not this property (C06/C09: a checkpoint
	// opened from several handles, a WAL shared by two new operators deleted twice by the first retention
	// round): there the state is read back through the reference handler only (CkptAfterRescale = true
	// checkpoints all the same).
	ckptOK := N == w.W || w.in.CfgBool("CkptAfterRescale", false)
	if ckptOK {
		if !w.tickAndCheck(c2, id+1, wantCur, "right after the restore") {
			return
		}
	}
	// every key is read back through the reference handler: the remaining records one by one
	for g := cutRecs; g < w.total; g++ {
		r := w.rec(g)
		c2.PermitRead(c2.SplitOwner(r.Split), r.Split, 1)
		if !w.waitGivens(c2, g-cutRecs+1, 0) || w.failed {
			if w.failed {
				w.res.Violations[len(w.res.Violations)-1].What = fmt.Sprintf("after starting from savepoint %d (cut %v, N=%d): ", id, wantCur, N) + w.res.Violations[len(w.res.Violations)-1].What
			}
			return
		}
	}
	seen := map[string]bool{}
	for _, gv := range c2.Givens(0) {
		seen[gv.Rec.Key] = true
	}
	for k := range cluster.ExpectedAt(w.splits, wantCur) {
		if !seen[k] {
			w.errorf("key %s was never read back after the restore (tail too short)", k)
			return
		}
	}
	if ckptOK {
		w.tickAndCheck(c2, id+2, w.cursorsAt(w.total), "at the end of the restored run")
	}
}

func logHas(c *cluster.Cluster, kind string) bool {
	for _, o := range c.Log(0) {
		if o.Kind == kind {
			return true
		}
	}
	return false
}

func deployFailed(c *cluster.Cluster) bool {
	for _, o := range c.Log(0) {
		if o.Kind == "op.deployed" && o.Text != "" {
			return true
		}
	}
	return false
}

func panicsOf(c *cluster.Cluster) string {
	var out []string
	for _, o := range c.Log(0) {
		if o.Kind == "panic" || (o.Kind == "op.deployed" && o.Text != "") {
			out = append(out, o.Node+": "+o.Text)
		}
	}
	return strings.Join(out, "; ")
}

// tickAndCheck takes a checkpoint in the (free-running) restored cluster and compares its content.
func (w *world) tickAndCheck(c *cluster.Cluster, id uint64, cursors map[int]int, when string) bool {
	mark := len(c.Log(0))
	if !c.TickCheckpointTimeout(wait) {
		w.errorf("restored cluster: tick did not return")
		return false
	}
	next, ok := c.WaitObs(mark, wait, func(o cluster.Obs) bool { return o.Kind == "published" })
	if !ok {
		if logHas(c, "panic") {
			w.violate("the job started from the savepoint cannot checkpoint "+when+": "+panicsOf(c), nil, panicsOf(c))
			return false
		}
		w.errorf("restored cluster: no checkpoint published %s (%s)", when, tailOf(c))
		return false
	}
	// the checkpoint is judged by what was WRITTEN (the observation of the write: id, cursors, operator
	// checkpoints), not by the snapshot file: whether the store keeps that file is not this property
	pub := c.Log(next - 1)[0]
	if !sameCursors(pub.Cursors, cursors) {
		w.violate(fmt.Sprintf("the restored job's source positions %s are %v, want %v", when, pub.Cursors, cursors), cursors, pub.Cursors)
		return false
	}
	keys, err := ownedState(pub.OpCkpts, c.Options().KeyGroups, c.Options().Workers)
	if err != nil {
		w.violate(fmt.Sprintf("the checkpoint the restored job takes %s cannot be read back: %v", when, err), nil, err.Error())
		return false
	}
	if d := cluster.DiffStates(cluster.ExpectedAt(w.splits, cursors), keys); d != "" {
		w.violate(fmt.Sprintf("the state of the job started from savepoint %d %s is not the state of checkpoint %d (+ the records since): %s", w.spID, when, w.spID, d), nil, d)
		return false
	}
	if pub.Ckpt <= w.spID {
		// the restored job does not number its checkpoints above the savepoint's id: whether the store announces
		// this publication to the operators at all is its own business (C12/C13), nothing to wait for
		w.res.Count("restored_job_ids_do_not_continue", 1)
		time.Sleep(50 * time.Millisecond)
		return true
	}
	// let the retention round retained=[id] reach every operator before anything else happens: a notification
	// that arrives after the next DKV checkpoint was taken drops that checkpoint (DESIGN 7 #28, not this
	// property). The kit's WaitRetention does not expect a round after the first publication of a job started
	// from a savepoint, so the round is awaited here by its observations.
	want := fmt.Sprint([]uint64{pub.Ckpt})
	n := 0
	deadline := time.Now().Add(wait)
	for n < c.Options().Workers {
		n = 0
		for _, o := range c.Log(mark) {
			if o.Kind == "op.retained" && o.Text == want {
				n++
			}
		}
		if time.Now().After(deadline) {
			w.errorf("restored cluster: retention round %s reached %d of %d operators", want, n, c.Options().Workers)
			return false
		}
		time.Sleep(300 * time.Microsecond)
	}
	return true
}

// ownedState reads a job checkpoint back from the operators' DKV checkpoints, keeping of every operator
// checkpoint only the keys that operator owns (after a rescale an operator's database still physically holds
// entries of key groups it no longer owns; they are filtered by ownership when read).
func ownedState(ocs []cluster.OpCheckpoint, keyGroups, workers int) (map[string]*cluster.KeyState, error) {
	out := map[string]*cluster.KeyState{}
	for _, o := range ocs {
		keys, err := cluster.ReadOperatorCheckpoint(o, keyGroups)
		if err != nil {
			return nil, err
		}
		idx := cluster.OpIndexOfID(o.Op)
		for k, ks := range keys {
			if cluster.OwnerOf(keyGroups, workers, k) != idx {
				continue
			}
			if _, dup := out[k]; dup {
				return nil, fmt.Errorf("key %s owned twice", k)
			}
			out[k] = ks
		}
	}
	return out, nil
}

// checkStrays: acknowledgements / StartCheckpoint calls of a checkpoint the model does not know.
func (w *world) checkStrays() {
	if w.c == nil || w.c.Sched() == nil || w.restoring {
		return
	}
	if n, ids := w.countStarts(); n > 0 {
		w.violate(fmt.Sprintf("a checkpoint was started that the job should not have started: StartCheckpoint %v", ids), "none", ids)
	}
}
