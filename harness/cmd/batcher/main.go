// batcher records API-level traces of the real batching.EventBatcher under
// seeded random call strings (Add / IsFull / Flush(token) / timer expiry) for
// validation against spec/BatcherTrace.tla. Output: result JSON whose
// "samples" field carries the ndjson events (one object per call).
package main

import (
	"context"
	"fmt"
	"math/rand"
	"os"
	"time"

	"reduction.dev/reduction/batching"
	"verif/harness/mbt"
)

type timer struct{ do func() }

func (t *timer) Set(_ time.Duration, do func()) { t.do = do }
func (t *timer) Stop()                          { t.do = nil }

func main() {
	in, err := mbt.ReadInput(os.Args[1])
	if err != nil {
		fmt.Fprintln(os.Stderr, err)
		os.Exit(2)
	}
	rng := rand.New(rand.NewSource(in.Seed))
	runs, ops := in.CfgInt("Runs", 50), in.CfgInt("Ops", 30)
	maxSize, useTimer := in.CfgInt("MaxSize", 2), in.CfgBool("UseTimer", true)
	res := &mbt.Result{}
	var events []any
	for r := 0; r < runs; r++ {
		if r > 0 {
			events = append(events, map[string]any{"op": "Reset"})
		}
		ctx, cancel := context.WithCancel(context.Background())
		tm := &timer{}
		delay := time.Duration(0)
		if useTimer {
			delay = time.Hour
		}
		b := batching.NewEventBatcher[int](ctx, batching.EventBatcherParams{MaxDelay: delay, MaxSize: maxSize, Timer: tm})
		next, lastTok := 1, 0
		var inflight []func()
		for i := 0; i < ops; i++ {
			switch k := rng.Intn(11); {
			case k < 4:
				b.Add(next)
				events = append(events, map[string]any{"op": "Add", "item": next})
				next++
			case k < 5:
				events = append(events, map[string]any{"op": "IsFull", "res": b.IsFull()})
			case k < 8:
				tok := rng.Intn(lastTok+3) - 1 // -1 (CurrentBatch) .. lastTok+1
				got := b.Flush(batching.BatchToken(tok))
				if got == nil {
					got = []int{}
				}
				if len(got) > 0 {
					lastTok++
				}
				events = append(events, map[string]any{"op": "Flush", "tok": tok, "res": got})
			case k < 9:
				// the timer goes off: its callback is dispatched now and runs later
				if tm.do == nil {
					events = append(events, map[string]any{"op": "NoExpire"})
					break
				}
				inflight = append(inflight, tm.do)
				tm.do = nil
				events = append(events, map[string]any{"op": "Expire"})
			default:
				if len(inflight) == 0 {
					break
				}
				do := inflight[0]
				inflight = inflight[1:]
				go do()
				select {
				case tok := <-b.BatchTimedOut:
					events = append(events, map[string]any{"op": "Fire", "tok": int(tok)})
				case <-time.After(3 * time.Second):
					res.Errors = append(res.Errors, "timer callback did not deliver a token")
				}
			}
			res.Steps++
		}
		cancel()
		res.Executed++
	}
	res.Samples = events
	mbt.WriteResult(os.Args[2], res)
}
