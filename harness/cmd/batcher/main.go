// batcher records API-level traces of the real batching.EventBatcher under
// seeded random call strings (Add / IsFull / Flush(token) / timer expiry) for
// validation against spec/BatcherTrace.tla. Output: result JSON whose
// "samples" field carries the ndjson events (one object per call).
package main

import (
	"context"
	"fmt"
	"math/rand"
	"os"
	"sync"
	"time"

	"reduction.dev/reduction/batching"
	"verif/harness/mbt"
)

// timer is a harness-owned clocks.Timer. onStop, when set, is called at the start of Stop: it lets the
// harness hold a flush inside timer.Stop() and issue a concurrent Add (the batcher must keep the two atomic).
type timer struct {
	mu     sync.Mutex
	do     func()
	onStop func()
}

func (t *timer) Set(_ time.Duration, do func()) { t.mu.Lock(); t.do = do; t.mu.Unlock() }
func (t *timer) Stop() {
	if h := t.onStop; h != nil {
		h()
	}
	t.mu.Lock()
	t.do = nil
	t.mu.Unlock()
}
func (t *timer) get() func()  { t.mu.Lock(); defer t.mu.Unlock(); return t.do }
func (t *timer) take() func() { t.mu.Lock(); defer t.mu.Unlock(); d := t.do; t.do = nil; return d }

func main() {
	in, err := mbt.ReadInput(os.Args[1])
	if err != nil {
		fmt.Fprintln(os.Stderr, err)
		os.Exit(2)
	}
	rng := rand.New(rand.NewSource(in.Seed))
	runs, ops := in.CfgInt("Runs", 50), in.CfgInt("Ops", 30)
	maxSize, useTimer := in.CfgInt("MaxSize", 2), in.CfgBool("UseTimer", true)
	res := &mbt.Result{}
	var events []any
	for r := 0; r < runs; r++ {
		if r > 0 {
			events = append(events, map[string]any{"op": "Reset"})
		}
		ctx, cancel := context.WithCancel(context.Background())
		tm := &timer{}
		delay := time.Duration(0)
		if useTimer {
			delay = time.Hour
		}
		b := batching.NewEventBatcher[int](ctx, batching.EventBatcherParams{MaxDelay: delay, MaxSize: maxSize, Timer: tm})
		next, lastTok := 1, 0
		var inflight []func()
		for i := 0; i < ops; i++ {
			switch k := rng.Intn(12); {
			case k < 4:
				b.Add(next)
				events = append(events, map[string]any{"op": "Add", "item": next})
				next++
			case k < 5:
				events = append(events, map[string]any{"op": "IsFull", "res": b.IsFull()})
			case k < 8:
				tok := rng.Intn(lastTok+3) - 1 // -1 (CurrentBatch) .. lastTok+1
				got := b.Flush(batching.BatchToken(tok))
				if got == nil {
					got = []int{}
				}
				if len(got) > 0 {
					lastTok++
				}
				events = append(events, map[string]any{"op": "Flush", "tok": tok, "res": got})
			case k < 9:
				// the timer goes off: its callback is dispatched now and runs later
				do := tm.take()
				if do == nil {
					events = append(events, map[string]any{"op": "NoExpire"})
					break
				}
				inflight = append(inflight, do)
				events = append(events, map[string]any{"op": "Expire"})
			case k < 10:
				// a flush held inside timer.Stop() while another goroutine adds an item: Flush and Add are each
				// one atomic step of the batcher, so the Add waits for the flush (events: Flush, then Add)
				entered, release := make(chan struct{}), make(chan struct{})
				var once sync.Once
				tm.onStop = func() { once.Do(func() { close(entered); <-release }) }
				var got []int
				fdone, adone := make(chan struct{}), make(chan struct{})
				go func() { got = b.Flush(batching.CurrentBatch); close(fdone) }()
				select {
				case <-entered:
				case <-fdone: // nothing to flush: Stop is not reached
				}
				item := next
				next++
				go func() { b.Add(item); close(adone) }()
				select {
				case <-adone:
				case <-time.After(2 * time.Millisecond):
				}
				close(release)
				<-fdone
				<-adone
				tm.onStop = nil
				if got == nil {
					got = []int{}
				}
				if len(got) > 0 {
					lastTok++
				}
				events = append(events, map[string]any{"op": "Flush", "tok": -1, "res": got})
				events = append(events, map[string]any{"op": "Add", "item": item})
			default:
				if len(inflight) == 0 {
					break
				}
				do := inflight[0]
				inflight = inflight[1:]
				go do()
				select {
				case tok := <-b.BatchTimedOut:
					events = append(events, map[string]any{"op": "Fire", "tok": int(tok)})
				case <-time.After(3 * time.Second):
					res.Errors = append(res.Errors, "timer callback did not deliver a token")
				}
			}
			res.Steps++
		}
		cancel()
		res.Executed++
	}
	res.Samples = events
	mbt.WriteResult(os.Args[2], res)
}
