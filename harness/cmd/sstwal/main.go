// sstwal replays behaviours of spec/SstWal.tla (tables) and spec/SstWalLog.tla
// (write-ahead log) on the real dkv/sst and dkv/wal packages over the in-memory
// storage.FileSystem (property C17).
//
// The model speaks about abstract keys (sequences over a small alphabet,
// referred to by rank) and abstract operations (sequence numbers); this
// command concretises them adversarially and *seeded*: every symbol becomes a
// block of BlockLen bytes chosen order-preservingly (0x00.. and 0xff..
// included), so the empty key, binary keys and keys that are prefixes of one
// another all occur; values are empty / 0x00.. / 0xff.. / random / shaped like
// an encoded entry; sequence numbers include 0 and MaxUint64.  Keys of maximal
// length carry a free tail that is brute-forced so that the model's `fp` key
// is a false positive of the real bloom filter (the only way to drive the
// code behind the filter with an absent key).
//
// Verdicts use only what the property demands (entries in = entries out,
// present key found in exactly one table incl. tombstones, absent key not
// found, prefix scan = exactly the matching entries in order, split tables'
// ranges disjoint and ordered, ReadAll(after) = the operations after the
// marker).  The model's predicted chunk boundaries are internal: a mismatch is
// counted as drift and the behaviour goes on (its expectations are abstract).
package main

import (
	"bytes"
	"encoding/binary"
	"encoding/json"
	"errors"
	"fmt"
	"hash/fnv"
	"iter"
	"math"
	"math/rand"
	"os"
	"reflect"
	"runtime"
	"slices"
	"sort"

	"reduction.dev/reduction/dkv/bloom"
	"reduction.dev/reduction/dkv/kv"
	"reduction.dev/reduction/dkv/sst"
	"reduction.dev/reduction/dkv/storage"
	"reduction.dev/reduction/dkv/wal"
	"reduction.dev/reduction/util/murmur"
	"verif/harness/mbt"
)

const prop = "C17"

// The real tables' bloom filter parameters (sst.NewTable: 32K bits, 5 hashes), read back from the footer of a
// scratch table at start-up.  Used only to *force* and to *measure* a false positive (coverage / vacuity
// counters), never for a verdict.
var (
	bloomBits   uint32 = 32 * 1024
	bloomHashes        = 5
)

// tableFilter decodes the bloom filter a real table carries in its footer:
// [entries][filter: size u32, hashes u32, bits][index][entriesSize u64, version u32].
func tableFilter(fs storage.FileSystem, t *sst.Table) (f *bloom.Filter, size, hashes uint32, ok bool) {
	defer func() {
		if recover() != nil {
			ok = false
		}
	}()
	doc := t.Document()
	file := fs.Open(doc.URI)
	var hdr [8]byte
	if _, err := file.ReadAt(hdr[:], int64(doc.EntriesSize)); err != nil {
		return nil, 0, 0, false
	}
	cur := &storage.Cursor{File: file}
	cur.Move(int64(doc.EntriesSize))
	f = bloom.Decode(cur)
	return f, binary.LittleEndian.Uint32(hdr[0:4]), binary.LittleEndian.Uint32(hdr[4:8]), true
}

func learnBloomParams(res *mbt.Result) {
	fs := storage.NewMemoryFilesystem()
	t, err := sst.NewTableWriter(fs, 0).Write(slices.Values([]kv.Entry{&entry{key: []byte("k"), val: []byte("v"), seq: 1}}))
	if err != nil {
		return
	}
	if f, size, hashes, ok := tableFilter(fs, t); ok && f.MightHave([]byte("k")) && size > 0 && hashes > 0 && hashes < 64 {
		bloomBits, bloomHashes = size, int(hashes)
		res.Count("bloom_params_from_footer", 1)
	}
	runtime.KeepAlive(t)
}

type entry struct {
	key, val []byte
	seq      uint64
	del      bool
}

func (e *entry) Key() []byte    { return e.key }
func (e *entry) Value() []byte  { return e.val }
func (e *entry) IsDelete() bool { return e.del }
func (e *entry) SeqNum() uint64 { return e.seq }

type noOwner struct{}

func (noOwner) OwnsKey([]byte) bool { return true }
func (noOwner) ExclusivelyOwnsTable(string, []byte, []byte) (bool, error) {
	return false, nil
}

type replayer struct {
	in  *mbt.Input
	res *mbt.Result
	bi  int // behaviour index
	si  int // step index
}

func (r *replayer) violate(known string, expected, observed any, format string, a ...any) {
	r.res.Violations = append(r.res.Violations, mbt.Violation{Property: prop, Behaviour: r.bi, Step: r.si,
		What: fmt.Sprintf(format, a...), Expected: expected, Observed: observed, Known: known})
}

// guard runs f and converts a panic of the real code into a description.
func guard(f func()) (panicked string) {
	defer func() {
		if p := recover(); p != nil {
			panicked = fmt.Sprint(p)
		}
	}()
	f()
	return ""
}

func main() {
	in, err := mbt.ReadInput(os.Args[1])
	if err != nil {
		fmt.Fprintln(os.Stderr, err)
		os.Exit(2)
	}
	res := &mbt.Result{}
	r := &replayer{in: in, res: res}
	mode := in.CfgStr("mode", "sst")
	if mode == "sst" {
		learnBloomParams(res)
	}
	for bi, beh := range in.Behaviours {
		r.bi = bi
		nv := len(res.Violations)
		var drift bool
		switch mode {
		case "sst":
			drift = r.sstBehaviour(beh)
		case "wal":
			r.walBehaviour(beh)
		default:
			res.Errors = append(res.Errors, "unknown mode "+mode)
		}
		if !drift {
			res.Executed++
		}
		if len(res.Violations) > nv && len(res.Samples) < 2 {
			res.Samples = append(res.Samples, map[string]any{"kind": "violating behaviour (head)", "steps": head(beh, 1)})
		}
	}
	if err := mbt.WriteResult(os.Args[2], res); err != nil {
		fmt.Fprintln(os.Stderr, err)
		os.Exit(2)
	}
}

// behSeed derives the concretisation seed from VERIF_SEED and the behaviour's content (not its position), so that
// a single behaviour cut out of a batch (--replay) is concretised exactly as it was in the batch.
func behSeed(seed int64, beh []mbt.Step) int64 {
	b, _ := json.Marshal(beh)
	h := fnv.New64a()
	h.Write(b)
	return seed*1000003 + int64(h.Sum64()&0x7fffffffffff)
}

func head(b []mbt.Step, n int) []mbt.Step {
	if len(b) > n {
		return b[:n]
	}
	return b
}

// ------------------------------------------------------------------ SST ----

type sstCase struct {
	keys    [][]byte // rank-1 -> concrete key
	leaf    []bool
	run     []*entry
	runRank []int
	tables  []*sst.Table
	alive   []*sst.Table
	content [][]int // table -> run indices (0-based) it really holds
	fs      *storage.MemoryFilesystem
	fp      int // rank, 0 = none
	fpHit   []bool
	expect  mbt.Step // the Expect step: keys, run, gets, scans
}

func ints(v any) []int {
	arr, _ := v.([]any)
	out := make([]int, 0, len(arr))
	for _, x := range arr {
		f, _ := x.(float64)
		out = append(out, int(f))
	}
	return out
}

// blocks picks A strictly increasing blocks of n bytes.
func blocks(rng *rand.Rand, a, n int) [][]byte {
	space := 1
	for i := 0; i < n; i++ {
		space *= 256
	}
	set := map[int]bool{}
	var forced []int
	if rng.Intn(3) > 0 {
		forced = append(forced, 0) // 0x00..
	}
	if rng.Intn(3) > 0 {
		forced = append(forced, space-1) // 0xff..
	}
	if n > 1 && rng.Intn(2) == 0 {
		forced = append(forced, 255) // 0x00 0xff
	}
	for _, v := range forced {
		if len(set) < a {
			set[v] = true
		}
	}
	for len(set) < a {
		switch rng.Intn(3) {
		case 0:
			set[rng.Intn(space)] = true
		case 1:
			set[rng.Intn(4)] = true // 0,1,2,3: look like tombstone flags / small lengths
		default:
			set[space-1-rng.Intn(4)] = true
		}
	}
	vals := make([]int, 0, a)
	for k := range set {
		vals = append(vals, k)
	}
	sort.Ints(vals)
	out := make([][]byte, a)
	for i, v := range vals {
		b := make([]byte, n)
		for j := n - 1; j >= 0; j-- {
			b[j] = byte(v)
			v >>= 8
		}
		out[i] = b
	}
	return out
}

func value(rng *rand.Rand, n int, keys [][]byte) []byte {
	if n == 0 {
		if rng.Intn(2) == 0 {
			return nil
		}
		return []byte{}
	}
	b := make([]byte, n)
	switch rng.Intn(5) {
	case 0: // zeros
	case 1:
		for i := range b {
			b[i] = 0xff
		}
	case 2: // looks like the start of an encoded entry: key length + key + seq + tombstone
		k := keys[rng.Intn(len(keys))]
		enc := binary.LittleEndian.AppendUint32(nil, uint32(len(k)))
		enc = append(enc, k...)
		enc = binary.LittleEndian.AppendUint64(enc, uint64(rng.Intn(3)))
		enc = append(enc, 1)
		copy(b, enc)
	default:
		rng.Read(b)
	}
	return b
}

func seqNum(rng *rand.Rand) uint64 {
	switch rng.Intn(6) {
	case 0:
		return 0
	case 1:
		return math.MaxUint64
	case 2:
		return uint64(rng.Intn(5))
	default:
		return rng.Uint64()
	}
}

func bloomBitsOf(k []byte) []uint32 {
	out := make([]uint32, bloomHashes)
	for i := range out {
		out[i] = murmur.Hash(k, i) % bloomBits
	}
	return out
}

// forceTail finds a tail for key prefix p such that one of the key's bloom bits is `bit`.
func forceTail(rng *rand.Rand, p []byte, tailLen int, bit uint32) ([]byte, bool) {
	k := make([]byte, len(p)+tailLen)
	copy(k, p)
	for try := 0; try < 400000; try++ {
		rng.Read(k[len(p):])
		for i := 0; i < bloomHashes; i++ {
			if murmur.Hash(k, i)%bloomBits == bit {
				return slices.Clone(k[len(p):]), true
			}
		}
	}
	return nil, false
}

func (r *replayer) sstBehaviour(beh []mbt.Step) (drift bool) {
	rng := rand.New(rand.NewSource(behSeed(r.in.Seed, beh)))
	c := &sstCase{}
	defer func() { runtime.KeepAlive(c.alive) }()
	for si, st := range beh {
		r.si = si
		r.res.Steps++
		switch st.Str("a") {
		case "Expect":
			c.expect = st
		case "Fp":
			c.fp = st.Int("fp")
		case "Write":
			if c.expect == nil {
				r.res.Errors = append(r.res.Errors, "Write before Expect")
				return drift
			}
			if !r.sstWrite(rng, c, st, &drift) {
				return drift
			}
		case "Probe":
			r.sstProbe(rng, c, st)
		case "Reopen":
			if p := guard(func() {
				next := make([]*sst.Table, len(c.tables))
				for i, t := range c.tables {
					doc := t.Document()
					// the descriptor travels through the JSON checkpoint document (dkv/recovery):
					// re-open from what comes back, binary range keys must survive it
					var back sst.TableDocument
					if b, err := json.Marshal(doc); err == nil && json.Unmarshal(b, &back) == nil {
						if !reflect.DeepEqual(back, doc) {
							r.res.Count("info_doc_json_roundtrip_changes_keys", 1)
						}
						doc = back
					}
					next[i] = sst.NewTableFromDocument(c.fs, noOwner{}, doc)
				}
				c.alive = append(c.alive, next...)
				c.tables = next
			}); p != "" {
				r.violate("", "tables re-open from their documents", p, "re-opening tables from Document() panicked: %s", p)
				return drift
			}
		}
	}
	return drift
}

func (r *replayer) sstWrite(rng *rand.Rand, c *sstCase, st mbt.Step, drift *bool) bool {
	A, L := r.in.CfgInt("A", 2), r.in.CfgInt("L", 2)
	blockLen, tailLen := r.in.CfgInt("BlockLen", 1), r.in.CfgInt("TailLen", 3)
	blk := blocks(rng, A, blockLen)
	keyT := c.expect.List("keys")
	c.keys = make([][]byte, len(keyT))
	c.leaf = make([]bool, len(keyT))
	for i, kt := range keyT {
		syms := ints(kt)
		k := []byte{}
		for _, s := range syms {
			k = append(k, blk[s]...)
		}
		if len(syms) == L {
			c.leaf[i] = true
			tail := make([]byte, tailLen)
			switch rng.Intn(4) {
			case 0: // zeros
			case 1:
				for j := range tail {
					tail[j] = 0xff
				}
			default:
				rng.Read(tail)
			}
			k = append(k, tail...)
		}
		c.keys[i] = k
	}
	runJ := c.expect.List("run")
	chunks := st.List("chunks")
	// force the false positive: in every predicted chunk, five leaf keys each cover one bloom bit of keys[fp]
	if c.fp > 0 {
		target := bloomBitsOf(c.keys[c.fp-1])
		for _, ch := range chunks {
			lohi := ints(ch)
			bit := 0
			for i := lohi[0]; i <= lohi[1] && bit < len(target); i++ {
				rk := int(runJ[i-1].(map[string]any)["r"].(float64))
				if !c.leaf[rk-1] {
					continue
				}
				p := c.keys[rk-1][:len(c.keys[rk-1])-tailLen]
				if tail, ok := forceTail(rng, p, tailLen, target[bit]); ok {
					c.keys[rk-1] = append(slices.Clone(p), tail...)
					bit++
				}
			}
		}
	}
	for i := 1; i < len(c.keys); i++ {
		if bytes.Compare(c.keys[i-1], c.keys[i]) >= 0 {
			r.res.Errors = append(r.res.Errors, fmt.Sprintf("concretisation is not order preserving at rank %d", i))
			return false
		}
	}
	c.run, c.runRank = nil, nil
	for _, ej := range runJ {
		m := ej.(map[string]any)
		rk := int(m["r"].(float64))
		e := &entry{key: c.keys[rk-1], seq: seqNum(rng), del: m["t"].(bool)}
		if !e.del {
			e.val = value(rng, int(m["vl"].(float64)), c.keys)
		}
		c.run = append(c.run, e)
		c.runRank = append(c.runRank, rk)
	}
	c.fs = storage.NewMemoryFilesystem()
	tw := sst.NewTableWriter(c.fs, int64(rng.Intn(3)))
	src := func(yield func(kv.Entry) bool) {
		for _, e := range c.run {
			if !yield(e) {
				return
			}
		}
	}
	var tables []*sst.Table
	var err error
	mode := st.Str("mode")
	if p := guard(func() {
		if mode == "one" {
			var t *sst.Table
			t, err = tw.Write(iter.Seq[kv.Entry](src))
			tables = []*sst.Table{t}
		} else {
			tables, err = tw.WriteRun(iter.Seq[kv.Entry](src), uint64(st.Int("target")))
		}
	}); p != "" {
		r.violate("", "run is written", p, "writing a run of %d entries (mode %s, target %d) panicked: %s", len(c.run), mode, st.Int("target"), p)
		return false
	}
	if err != nil {
		r.violate("", "run is written", err.Error(), "writing a run of %d entries (mode %s, target %d) failed: %v", len(c.run), mode, st.Int("target"), err)
		return false
	}
	c.tables = tables
	c.alive = append(c.alive, tables...)
	r.res.Count("tables", len(tables))
	if len(tables) > 1 {
		r.res.Count("split_runs", 1)
	}

	// entries in = entries out: a full scan of every table, concatenated, is the run entry for entry
	c.content = make([][]int, len(tables))
	next := 0
	ok := true
	for ti, t := range tables {
		got, serr, p := scan(t, nil)
		if p != "" || serr != nil {
			r.violate("", "full scan succeeds", fmt.Sprint(p, serr), "full scan of table %d of %d (%s) written from a run of %d entries failed: %s%v",
				ti+1, len(tables), t.Name(), len(c.run), p, serr)
			ok = false
			continue
		}
		for _, g := range got {
			if next >= len(c.run) || !same(g, c.run[next]) {
				r.violate("", descr(at(c.run, next)), descr(g), "table %d of %d yields entry %d of the run differently (or in excess): wrote %s, read %s",
					ti+1, len(tables), next+1, descr(at(c.run, next)), descr(g))
				ok = false
				break
			}
			c.content[ti] = append(c.content[ti], next)
			next++
		}
	}
	if ok && next != len(c.run) {
		r.violate("", len(c.run), next, "the tables hold %d entries, the run had %d (entries lost)", next, len(c.run))
		ok = false
	}
	if !ok {
		return false
	}
	// internal: predicted chunk boundaries
	pred := [][2]int{}
	for _, ch := range chunks {
		lohi := ints(ch)
		pred = append(pred, [2]int{lohi[0], lohi[1]})
	}
	obs := [][2]int{}
	for _, idx := range c.content {
		if len(idx) == 0 {
			obs = append(obs, [2]int{0, -1})
		} else {
			obs = append(obs, [2]int{idx[0] + 1, idx[len(idx)-1] + 1})
		}
	}
	if !(len(c.run) == 0 && len(obs) <= 1) && fmt.Sprint(pred) != fmt.Sprint(obs) {
		*drift = true
		r.res.Driftf("chunking differs from the model (internal): predicted %v observed %v (target %d)", pred, obs, st.Int("target"))
	}

	// split tables' key ranges are disjoint and ordered, and each range is the range of its entries
	docs := make([]sst.TableDocument, len(tables))
	for i, t := range tables {
		docs[i] = t.Document()
	}
	for i := range tables {
		if len(c.content[i]) == 0 {
			if len(tables) > 1 {
				r.violate("", "every split table holds entries", "empty table", "table %d of %d (%s) of a split run is empty: its key range [%q, %q] cannot be ordered with its neighbours",
					i+1, len(tables), tables[i].Name(), string(docs[i].StartKey), string(docs[i].EndKey))
			}
			continue
		}
		first, last := c.run[c.content[i][0]], c.run[c.content[i][len(c.content[i])-1]]
		if string(docs[i].StartKey) > string(first.key) || string(docs[i].EndKey) < string(last.key) {
			r.violate("", fmt.Sprintf("covers [%x, %x]", first.key, last.key), fmt.Sprintf("[%x, %x]", string(docs[i].StartKey), string(docs[i].EndKey)),
				"table %d of %d: the key range in its document does not cover its entries", i+1, len(tables))
		} else if string(docs[i].StartKey) != string(first.key) || string(docs[i].EndKey) != string(last.key) {
			r.res.Count("info_range_wider_than_entries", 1)
		}
		if i > 0 && len(c.content[i-1]) > 0 && string(docs[i-1].EndKey) >= string(docs[i].StartKey) {
			r.violate("", "EndKey(prev) < StartKey(next)", fmt.Sprintf("%x >= %x", string(docs[i-1].EndKey), string(docs[i].StartKey)),
				"key ranges of tables %d and %d overlap or are out of order", i, i+1)
		}
	}
	for ti, t := range tables {
		holds := map[int]bool{}
		for _, idx := range c.content[ti] {
			holds[idx] = true
		}
		for idx, e := range c.run {
			if got := t.RangeContainsKey(e.key); got != holds[idx] && !(len(c.content[ti]) == 0) {
				r.violate("", holds[idx], got, "RangeContainsKey(%x) of table %d of %d is %v although the key is %s that table (ranges not disjoint / not covering)",
					e.key, ti+1, len(tables), got, map[bool]string{true: "in", false: "not in"}[holds[idx]])
				break
			}
		}
	}
	// vacuity counter: was the false positive achieved in the real tables' key sets?
	c.fpHit = make([]bool, len(tables))
	if c.fp > 0 {
		r.res.Count("fp_requested_tables", len(tables))
		for ti := range tables {
			f, _, _, ok := tableFilter(c.fs, tables[ti])
			if !ok { // fall back to a replica built from the table's keys
				f = bloom.NewFilter(bloomBits, bloomHashes)
				for _, idx := range c.content[ti] {
					f.Add(c.run[idx].key)
				}
			}
			if f.MightHave(c.keys[c.fp-1]) {
				c.fpHit[ti] = true
				r.res.Count("fp_achieved_tables", 1)
			}
		}
	}
	// information for the Dkv family (DESIGN 7 #6): EndSeqNum is the last key's, not the largest
	for ti := range tables {
		var mx uint64
		for _, idx := range c.content[ti] {
			mx = max(mx, c.run[idx].seq)
		}
		if len(c.content[ti]) > 0 && docs[ti].EndSeqNum != mx {
			r.res.Count("info_doc_endseqnum_not_max", 1)
		}
	}
	return true
}

func at(run []*entry, i int) kv.Entry {
	if i < len(run) {
		return run[i]
	}
	return nil
}

func scan(t *sst.Table, prefix []byte) (out []kv.Entry, err error, panicked string) {
	panicked = guard(func() {
		for e := range t.ScanPrefix(prefix, &err) {
			out = append(out, e)
		}
	})
	return
}

func same(a kv.Entry, b *entry) bool {
	if a == nil || b == nil {
		return false
	}
	return bytes.Equal(a.Key(), b.key) && a.IsDelete() == b.del && a.SeqNum() == b.seq && bytes.Equal(a.Value(), b.val)
}

func descr(e kv.Entry) string {
	if e == nil {
		return "nothing"
	}
	if e.IsDelete() {
		return fmt.Sprintf("del(%x)@%d", e.Key(), e.SeqNum())
	}
	v := e.Value()
	if len(v) > 12 {
		return fmt.Sprintf("put(%x=%x..[%d])@%d", e.Key(), v[:12], len(v), e.SeqNum())
	}
	return fmt.Sprintf("put(%x=%x)@%d", e.Key(), v, e.SeqNum())
}

func (r *replayer) sstProbe(rng *rand.Rand, c *sstCase, st mbt.Step) {
	re := ""
	if st.Bool("reopened") {
		re = " after re-opening from the documents"
	}
	gets := c.expect.Ints("gets")
	for rk1, want := range gets { // rk1 = rank-1; want = run index (1-based) or 0
		key := c.keys[rk1]
		r.getEverywhere(c, key, want-1, fmt.Sprintf("rank %d", rk1+1), re)
	}
	// byte-level neighbours of present keys that are not in the run: absent => never found
	present := map[string]int{}
	for i, e := range c.run {
		present[string(e.key)] = i
	}
	for i := 0; i < 8 && len(c.run) > 0; i++ {
		e := c.run[rng.Intn(len(c.run))]
		var k []byte
		switch rng.Intn(3) {
		case 0:
			k = append(slices.Clone(e.key), 0)
		case 1:
			if len(e.key) == 0 {
				continue
			}
			k = e.key[:len(e.key)-1]
		default:
			k = append(slices.Clone(e.key), e.key...)
		}
		want := -1
		if idx, ok := present[string(k)]; ok {
			want = idx
		}
		r.getEverywhere(c, k, want, "byte neighbour", re)
	}
	for pk1, wantAny := range c.expect.List("scans") {
		want := ints(wantAny)
		prefix := c.keys[pk1]
		if c.leaf[pk1] && rng.Intn(2) == 0 {
			// a maximal-length key carries a free tail; only that key itself extends its tail-less
			// form, so the tail-less prefix selects the same entries
			prefix = prefix[:len(prefix)-r.in.CfgInt("TailLen", 3)]
		}
		var got []kv.Entry
		failed := false
		for ti, t := range c.tables {
			g, err, p := scan(t, prefix)
			if p != "" || err != nil {
				r.violate("", "scan succeeds", fmt.Sprint(p, err), "ScanPrefix(%x) on table %d of %d%s failed: %s%v", prefix, ti+1, len(c.tables), re, p, err)
				failed = true
				break
			}
			got = append(got, g...)
		}
		r.res.Count("scans", 1)
		if failed {
			return
		}
		bad := len(got) != len(want)
		for i := 0; !bad && i < len(want); i++ {
			bad = !same(got[i], c.run[want[i]-1])
		}
		if bad {
			r.violate("", fmt.Sprintf("run entries %v", want), descrAll(got), "ScanPrefix(%x)%s over %d table(s) returns %d entries %s; the run holds exactly entries %v with that prefix",
				prefix, re, len(c.tables), len(got), descrAll(got), want)
			return
		}
	}
}

func descrAll(es []kv.Entry) string {
	s := "["
	for i, e := range es {
		if i > 0 {
			s += " "
		}
		if i >= 6 {
			s += "..."
			break
		}
		s += descr(e)
	}
	return s + "]"
}

// getEverywhere looks key up in every table; want = 0-based run index or -1.
func (r *replayer) getEverywhere(c *sstCase, key []byte, want int, what, re string) {
	found := 0
	for ti, t := range c.tables {
		var e kv.Entry
		var err error
		p := guard(func() { e, err = t.Get(key) })
		r.res.Count("gets", 1)
		holds := false
		for _, idx := range c.content[ti] {
			if idx == want {
				holds = true
			}
		}
		switch {
		case p != "":
			r.violate("", "entry or NotFound", p, "Get(%x) [%s, %s] on table %d of %d%s panicked: %s", key, what, presence(want), ti+1, len(c.tables), re, p)
			return
		case errors.Is(err, kv.ErrNotFound):
			if holds {
				r.violate("", descr(c.run[want]), "NotFound", "Get(%x) [%s] on table %d of %d%s: NotFound, but the table holds %s (entry %d of %d in the table)",
					key, what, ti+1, len(c.tables), re, descr(c.run[want]), want-c.content[ti][0]+1, len(c.content[ti]))
				return
			}
			if want < 0 && len(c.fpHit) > ti && c.fpHit[ti] && c.fp > 0 && bytes.Equal(key, c.keys[c.fp-1]) {
				r.res.Count("fp_gets_behind_filter", 1)
				if n := len(c.content[ti]); n > 0 {
					switch {
					case bytes.Compare(key, c.run[c.content[ti][0]].key) < 0:
						r.res.Count("fp_get_before_first", 1)
					case bytes.Compare(key, c.run[c.content[ti][n-1]].key) > 0:
						r.res.Count("fp_get_after_last", 1)
					default:
						r.res.Count("fp_get_between", 1)
					}
				}
			}
		case err != nil:
			r.violate("", "entry or NotFound", err.Error(), "Get(%x) [%s, %s] on table %d of %d%s failed: %v", key, what, presence(want), ti+1, len(c.tables), re, err)
			return
		default:
			found++
			if !holds || !same(e, c.run[want]) {
				exp := "NotFound"
				if holds {
					exp = descr(c.run[want])
				}
				r.violate("", exp, descr(e), "Get(%x) [%s] on table %d of %d%s returns %s, demanded %s", key, what, ti+1, len(c.tables), re, descr(e), exp)
				return
			}
		}
	}
	_ = found
}

func presence(want int) string {
	if want < 0 {
		return "absent"
	}
	return "present"
}

// ------------------------------------------------------------------ WAL ----

type walOp struct {
	del      bool
	key, val []byte
}

func (r *replayer) walBehaviour(beh []mbt.Step) {
	rng := rand.New(rand.NewSource(behSeed(r.in.Seed, beh)))
	fs := storage.NewMemoryFilesystem()
	var base uint64
	switch rng.Intn(4) {
	case 0:
		base = 1 << 32
	case 1:
		base = 1 << 62
	}
	firstID := rng.Intn(3)
	writers := []*wal.Writer{wal.NewWriter(fs, firstID, uint64(8+rng.Intn(200)))}
	ops := map[int]walOp{} // abstract seq -> op
	keyOf := func() []byte {
		switch rng.Intn(5) {
		case 0:
			return []byte{}
		case 1:
			return []byte{0}
		case 2:
			return bytes.Repeat([]byte{0xff}, 1+rng.Intn(9))
		default:
			b := make([]byte, rng.Intn(12))
			rng.Read(b)
			return b
		}
	}
	for si, st := range beh {
		r.si = si
		r.res.Steps++
		w := writers[len(writers)-1]
		var p string
		switch st.Str("a") {
		case "put":
			op := walOp{key: keyOf(), val: value(rng, []int{0, 1, 9, 40}[rng.Intn(4)], [][]byte{{1, 0, 0, 0}, {}})}
			if op.val == nil {
				op.val = []byte{}
			}
			ops[st.Int("seq")] = op
			p = guard(func() { w.Put(op.key, op.val, base+uint64(st.Int("seq"))) })
		case "del":
			op := walOp{del: true, key: keyOf()}
			ops[st.Int("seq")] = op
			p = guard(func() { w.Delete(op.key, base+uint64(st.Int("seq"))) })
		case "cut":
			p = guard(w.Cut)
		case "truncate":
			p = guard(func() { w.Truncate(base + uint64(st.Int("s"))) })
		case "rotate":
			p = guard(func() { writers = append(writers, w.Rotate(fs)) })
		case "saveread":
			wi := writers[st.Int("w")]
			var err error
			p = guard(func() { err = wi.Save() })
			if p == "" && err != nil {
				p = "error: " + err.Error()
			}
			if p == "" {
				r.walReads(fs, wi, st, ops, base)
			}
		}
		if p != "" {
			r.violate("", "call succeeds", p, "wal.Writer %s panicked/failed: %s", st.Str("a"), p)
			return
		}
	}
}

func (r *replayer) walReads(fs storage.FileSystem, w *wal.Writer, st mbt.Step, ops map[int]walOp, base uint64) {
	for _, rd := range st.List("reads") {
		m := rd.(map[string]any)
		after := int(m["after"].(float64))
		demanded := ints(m["demanded"])
		predM := m["predicted"].(map[string]any)
		pred := predM["r"].(string) + fmt.Sprint(ints(predM["ops"]))
		var got []wal.Entry
		var rerr error
		p := guard(func() {
			doc := w.Handle(base + uint64(after)).Document()
			rdr := wal.NewReader(fs, wal.NewHandle(fs, doc))
			for e, err := range rdr.All() {
				if err != nil {
					rerr = err
					return
				}
				got = append(got, e)
			}
		})
		r.res.Count("wal_reads", 1)
		// what was observed, in the model's terms
		obsKind, obsOps := "ok", []int{}
		switch {
		case p != "":
			obsKind = "panic"
		case rerr != nil:
			obsKind = "err"
		}
		good := obsKind == "ok" && len(got) == len(demanded)
		for i := 0; good && i < len(demanded); i++ {
			op := ops[demanded[i]]
			good = got[i].IsDelete() == op.del && bytes.Equal(got[i].Key(), op.key) && (op.del || bytes.Equal(got[i].Value(), op.val))
		}
		if good {
			continue
		}
		// identify the operations replayed (by position in the file) to compare with the model's prediction
		if obsKind == "ok" {
			file := ints(st["file"])
			start := len(file) - len(got)
			for i := range got {
				if start+i >= 0 && start+i < len(file) {
					op := ops[file[start+i]]
					if got[i].IsDelete() == op.del && bytes.Equal(got[i].Key(), op.key) && (op.del || bytes.Equal(got[i].Value(), op.val)) {
						obsOps = append(obsOps, file[start+i])
						continue
					}
				}
				obsOps = append(obsOps, -1)
			}
		}
		obs := obsKind + fmt.Sprint(obsOps)
		known := ""
		if obs == pred && pred != "ok"+fmt.Sprint(demanded) {
			known = "Dev_WalCarriedSegmentsLoseSeqNum"
		}
		detail := p
		if rerr != nil {
			detail = rerr.Error()
		}
		r.violate(known, fmt.Sprintf("operations %v", demanded), obs+" "+detail,
			"WAL %d saved after %v: Reader.All(after=%d) = %s %s; the operations appended after the marker are %v",
			st.Int("w"), actions(r.in.Behaviours[r.bi][:r.si]), after, obs, detail, demanded)
		if known == "" {
			return
		}
	}
}

func actions(steps []mbt.Step) []string {
	var out []string
	for _, s := range steps {
		switch s.Str("a") {
		case "put", "del":
			out = append(out, fmt.Sprintf("%s#%d", s.Str("a"), s.Int("seq")))
		case "truncate":
			out = append(out, fmt.Sprintf("truncate(%d)", s.Int("s")))
		case "saveread":
			out = append(out, fmt.Sprintf("save(%d)", s.Int("w")))
		default:
			out = append(out, s.Str("a"))
		}
	}
	return out
}
