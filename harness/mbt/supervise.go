package mbt

import (
	"bytes"
	"fmt"
	"os"
	"os/exec"
	"strings"
	"syscall"
	"time"
)

// Main is the entry point of a replayer command: `cmd in.json out.json`.
// Behaviours are replayed in child processes (chunks), so that a crash of the
// code under test (a panic on a background goroutine cannot be recovered)
// is attributed to the behaviour that caused it and reported as a violation of
// the property being checked instead of killing the whole run.
func Main(replay func(bi int, beh []Step, in *Input, res *Result)) {
	if len(os.Args) < 3 {
		fmt.Fprintln(os.Stderr, "usage: cmd in.json out.json")
		os.Exit(2)
	}
	in, err := ReadInput(os.Args[1])
	if err != nil {
		fmt.Fprintln(os.Stderr, err)
		os.Exit(2)
	}
	if r := os.Getenv("MBT_CHILD"); r != "" {
		var lo, hi int
		fmt.Sscanf(r, "%d:%d", &lo, &hi)
		res := &Result{}
		for bi := lo; bi < hi && bi < len(in.Behaviours); bi++ {
			replay(bi, in.Behaviours[bi], in, res)
			if len(res.Errors) > 5 {
				break
			}
		}
		if err := WriteResult(os.Args[2], res); err != nil {
			fmt.Fprintln(os.Stderr, err)
			os.Exit(2)
		}
		return
	}
	total := &Result{}
	chunk := in.CfgInt("Chunk", 25)
	n := len(in.Behaviours)
	// optional bounds (config): after StopAfterViolations violations, or after BudgetS seconds, the remaining chunks are
	// not run; how many behaviours were skipped is reported in the counters (the driver decides what that means)
	stopAfter := in.CfgInt("StopAfterViolations", 0)
	budget := time.Duration(in.CfgInt("BudgetS", 0)) * time.Second
	began := time.Now()
	for lo := 0; lo < n; lo += chunk {
		hi := min(lo+chunk, n)
		if stopAfter > 0 && len(total.Violations) >= stopAfter {
			total.Count("skipped_after_violations", n-lo)
			break
		}
		if budget > 0 && time.Since(began) > budget {
			total.Count("skipped_budget", n-lo)
			break
		}
		if r, _ := child(lo, hi, in); r != nil {
			merge(total, r)
			continue
		}
		// the chunk crashed: isolate
		for bi := lo; bi < hi; bi++ {
			if (stopAfter > 0 && len(total.Violations) >= stopAfter) || (budget > 0 && time.Since(began) > budget) {
				break // (the skipped behaviours are counted by the chunk loop's own check: it runs next and stops the run)
			}
			r, out := child(bi, bi+1, in)
			if r != nil {
				merge(total, r)
				continue
			}
			total.Violations = append(total.Violations, Violation{Property: in.Property, Behaviour: bi, Step: -1,
				What: "the code under test crashed the process while replaying this behaviour: " + crashLine(out)})
		}
		if len(total.Errors) > 5 {
			break
		}
	}
	if err := WriteResult(os.Args[2], total); err != nil {
		fmt.Fprintln(os.Stderr, err)
		os.Exit(2)
	}
}

func crashLine(out string) string {
	if strings.HasPrefix(out, "fatal error: child timed out") {
		return out
	}
	for _, l := range strings.Split(out, "\n") {
		if strings.HasPrefix(l, "panic:") || strings.HasPrefix(l, "fatal error:") {
			return l
		}
	}
	if len(out) > 300 {
		out = out[len(out)-300:]
	}
	return out
}

func child(lo, hi int, in *Input) (*Result, string) {
	tmp := fmt.Sprintf("%s.%d-%d", os.Args[2], lo, hi)
	defer os.Remove(tmp)
	cmd := exec.Command(os.Args[0], os.Args[1], tmp)
	cmd.Env = append(os.Environ(), fmt.Sprintf("MBT_CHILD=%d:%d", lo, hi))
	var buf bytes.Buffer
	cmd.Stdout, cmd.Stderr = &buf, &buf
	if err := cmd.Start(); err != nil {
		return nil, err.Error()
	}
	done := make(chan error, 1)
	go func() { done <- cmd.Wait() }()
	limit := time.Duration(in.CfgInt("ChildTimeoutS", 240)) * time.Second
	if v := os.Getenv("MBT_CHILD_TIMEOUT_S"); v != "" {
		var n int
		if _, err := fmt.Sscanf(v, "%d", &n); err == nil && n > 0 {
			limit = time.Duration(n) * time.Second
		}
	}
	select {
	case err := <-done:
		if err != nil {
			return nil, buf.String()
		}
	case <-time.After(limit):
		cmd.Process.Signal(syscall.SIGQUIT) // goroutine dump into buf
		select {
		case <-done:
		case <-time.After(3 * time.Second):
			cmd.Process.Kill()
			<-done
		}
		out := buf.String()
		if i := strings.Index(out, "goroutine 1 ["); i >= 0 {
			out = out[i:min(len(out), i+2500)]
		} else {
			out = tail(out)
		}
		return nil, "fatal error: child timed out (hang)\n" + out
	}
	b, err := os.ReadFile(tmp)
	if err != nil {
		return nil, buf.String()
	}
	in2 := &Result{}
	if err := jsonUnmarshal(b, in2); err != nil {
		return nil, err.Error()
	}
	return in2, ""
}

func tail(s string) string {
	if len(s) > 2000 {
		return s[len(s)-2000:]
	}
	return s
}

func merge(t, r *Result) {
	t.Executed += r.Executed
	t.Steps += r.Steps
	t.Drift += r.Drift
	for _, n := range r.DriftNotes {
		if len(t.DriftNotes) < 20 {
			t.DriftNotes = append(t.DriftNotes, n)
		}
	}
	t.Violations = append(t.Violations, r.Violations...)
	for k, v := range r.Counters {
		t.Count(k, v)
	}
	for _, s := range r.Samples {
		if len(t.Samples) < 10 {
			t.Samples = append(t.Samples, s)
		}
	}
	t.Traces = append(t.Traces, r.Traces...)
	t.Errors = append(t.Errors, r.Errors...)
}
