// Package mbt holds the file formats shared by the TLC side (python driver)
// and the Go replayers: behaviours in, results out.
package mbt

import (
	"encoding/json"
	"fmt"
	"os"
)

// Step is one model action with its logged fields.
type Step map[string]any

func (s Step) Str(k string) string {
	v, _ := s[k].(string)
	return v
}
func (s Step) Int(k string) int {
	switch v := s[k].(type) {
	case float64:
		return int(v)
	case int:
		return v
	}
	return 0
}
func (s Step) Bool(k string) bool { v, _ := s[k].(bool); return v }
func (s Step) Has(k string) bool  { _, ok := s[k]; return ok }
func (s Step) Ints(k string) []int {
	arr, _ := s[k].([]any)
	out := make([]int, 0, len(arr))
	for _, x := range arr {
		f, _ := x.(float64)
		out = append(out, int(f))
	}
	return out
}
func (s Step) List(k string) []any { arr, _ := s[k].([]any); return arr }
func (s Step) Map(k string) map[string]any {
	m, _ := s[k].(map[string]any)
	return m
}

// Input is what the driver hands to a replayer.
type Input struct {
	Property   string         `json:"property"`
	Seed       int64          `json:"seed"`
	Config     map[string]any `json:"config"`
	Behaviours [][]Step       `json:"behaviours"`
}

// Violation is an observation of the real code outside what the property demands.
type Violation struct {
	Property  string `json:"property"`
	Behaviour int    `json:"behaviour"`
	Step      int    `json:"step"`
	What      string `json:"what"`
	Expected  any    `json:"expected,omitempty"`
	Observed  any    `json:"observed,omitempty"`
	Known     string `json:"known,omitempty"` // id of a known finding it matches
}

// Result is what a replayer reports.
type Result struct {
	Executed   int            `json:"executed"` // behaviours run to the end
	Steps      int            `json:"steps"`    // model steps executed on real code
	Drift      int            `json:"drift"`    // behaviours abandoned (model/code schedule mismatch, not a property issue)
	DriftNotes []string       `json:"drift_notes,omitempty"`
	Violations []Violation    `json:"violations"`
	Counters   map[string]int `json:"counters,omitempty"`
	Samples    []any          `json:"samples,omitempty"`
	Traces     []any          `json:"traces,omitempty"` // recorded runs (trace-recording commands), one entry per run
	Errors     []string       `json:"errors,omitempty"` // machinery errors
}

func (r *Result) Count(k string, n int) {
	if r.Counters == nil {
		r.Counters = map[string]int{}
	}
	r.Counters[k] += n
}

func (r *Result) Driftf(format string, a ...any) {
	r.Drift++
	if len(r.DriftNotes) < 20 {
		r.DriftNotes = append(r.DriftNotes, fmt.Sprintf(format, a...))
	}
}

func ReadInput(path string) (*Input, error) {
	b, err := os.ReadFile(path)
	if err != nil {
		return nil, err
	}
	in := &Input{}
	if err := json.Unmarshal(b, in); err != nil {
		return nil, err
	}
	return in, nil
}

func jsonUnmarshal(b []byte, v any) error { return json.Unmarshal(b, v) }

func WriteResult(path string, r *Result) error {
	if r.Violations == nil {
		r.Violations = []Violation{}
	}
	b, _ := json.MarshalIndent(r, "", " ")
	return os.WriteFile(path, b, 0o644)
}

// CfgInt reads an integer config value with a default.
func (in *Input) CfgInt(k string, def int) int {
	if v, ok := in.Config[k].(float64); ok {
		return int(v)
	}
	return def
}
func (in *Input) CfgBool(k string, def bool) bool {
	if v, ok := in.Config[k].(bool); ok {
		return v
	}
	return def
}
func (in *Input) CfgStr(k string, def string) string {
	if v, ok := in.Config[k].(string); ok {
		return v
	}
	return def
}

// Ints reads a list-of-integers config value.
func (in *Input) Ints(k string) []int {
	arr, _ := in.Config[k].([]any)
	out := make([]int, 0, len(arr))
	for _, x := range arr {
		if f, ok := x.(float64); ok {
			out = append(out, int(f))
		}
	}
	return out
}
