// Package gate is the goroutine scheduler used for model-driven replay: code
// under test calls verifhook.At(point, args...) (or a harness-owned interface
// implementation calls Sched.At directly); the scheduler records the arrival
// and, for gate points, parks the calling goroutine until the replayer
// releases it. Between two gates a goroutine runs freely, so one model action
// corresponds to "release goroutine G, wait until it arrives at its next
// point".
package gate

import (
	"bytes"
	"fmt"
	"runtime"
	"strconv"
	"sync"
	"time"
)

// Goid returns the current goroutine's id (parsed from the stack header).
func Goid() int64 {
	var buf [64]byte
	n := runtime.Stack(buf[:], false)
	f := bytes.Fields(buf[:n])
	id, _ := strconv.ParseInt(string(f[1]), 10, 64)
	return id
}

// Arrival is one hook call.
type Arrival struct {
	Point   string
	Gid     int64
	Args    []any
	release chan struct{}
	gated   bool
	s       *Sched
}

// Release lets a parked goroutine continue (no-op for notifications).
func (a *Arrival) Release() {
	a.s.mu.Lock()
	defer a.s.mu.Unlock()
	a.releaseLocked()
}

func (a *Arrival) releaseLocked() {
	if a.gated {
		a.gated = false
		delete(a.s.held, a)
		close(a.release)
	}
}

func (a *Arrival) String() string { return fmt.Sprintf("%s@g%d%v", a.Point, a.Gid, a.Args) }

// Sched collects arrivals.
type Sched struct {
	mu      sync.Mutex
	cond    *sync.Cond
	pending []*Arrival
	gates   map[string]bool
	free    bool // free-running: gates do not park
	held    map[*Arrival]bool
}

// New returns a scheduler; gatePoints are the points that park their caller,
// every other point is a notification only.
func New(gatePoints ...string) *Sched {
	s := &Sched{gates: map[string]bool{}, held: map[*Arrival]bool{}}
	s.cond = sync.NewCond(&s.mu)
	for _, p := range gatePoints {
		s.gates[p] = true
	}
	return s
}

// At is the hook handler.
func (s *Sched) At(point string, args ...any) {
	s.mu.Lock()
	a := &Arrival{Point: point, Gid: Goid(), Args: args, s: s}
	if s.gates[point] && !s.free {
		a.gated = true
		a.release = make(chan struct{})
		s.held[a] = true
	}
	ch := a.release
	gated := a.gated
	s.pending = append(s.pending, a)
	s.cond.Broadcast()
	s.mu.Unlock()
	if gated {
		<-ch
	}
}

// FreeRun releases every parked goroutine and disables parking from now on.
func (s *Sched) FreeRun() {
	s.mu.Lock()
	s.free = true
	for a := range s.held {
		a.releaseLocked()
	}
	s.pending = nil
	s.cond.Broadcast()
	s.mu.Unlock()
}

// ReleaseWhere releases every parked goroutine whose arrival matches, whether
// or not the arrival has been consumed by Await, and drops matching pending
// arrivals.
func (s *Sched) ReleaseWhere(match func(*Arrival) bool) {
	s.mu.Lock()
	defer s.mu.Unlock()
	for a := range s.held {
		if match(a) {
			a.releaseLocked()
		}
	}
	keep := s.pending[:0]
	for _, a := range s.pending {
		if !match(a) {
			keep = append(keep, a)
		}
	}
	s.pending = keep
}

// ErrTimeout is returned by Await when nothing matching arrived in time.
type ErrTimeout struct{ Pending []string }

func (e *ErrTimeout) Error() string { return fmt.Sprintf("gate: timeout; pending=%v", e.Pending) }

// Await removes and returns the first pending arrival accepted by match,
// waiting up to d for one to arrive.
func (s *Sched) Await(match func(*Arrival) bool, d time.Duration) (*Arrival, error) {
	deadline := time.Now().Add(d)
	timer := time.AfterFunc(d, func() { s.mu.Lock(); s.cond.Broadcast(); s.mu.Unlock() })
	defer timer.Stop()
	s.mu.Lock()
	defer s.mu.Unlock()
	for {
		for i, a := range s.pending {
			if match(a) {
				s.pending = append(s.pending[:i:i], s.pending[i+1:]...)
				return a, nil
			}
		}
		if !time.Now().Before(deadline) {
			var p []string
			for _, a := range s.pending {
				p = append(p, a.String())
			}
			return nil, &ErrTimeout{Pending: p}
		}
		s.cond.Wait()
	}
}

// Point matches arrivals at the named point.
func Point(p string) func(*Arrival) bool { return func(a *Arrival) bool { return a.Point == p } }

// Has reports whether an unconsumed arrival matches (it is not consumed).
func (s *Sched) Has(match func(*Arrival) bool) bool {
	s.mu.Lock()
	defer s.mu.Unlock()
	for _, a := range s.pending {
		if match(a) {
			return true
		}
	}
	return false
}

// PendingCount returns the number of unconsumed arrivals.
func (s *Sched) PendingCount() int {
	s.mu.Lock()
	defer s.mu.Unlock()
	return len(s.pending)
}

// Quiet waits for d and reports whether no new arrival showed up meanwhile.
func (s *Sched) Quiet(d time.Duration) bool {
	n := s.PendingCount()
	time.Sleep(d)
	return s.PendingCount() == n
}
