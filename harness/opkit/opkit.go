// Package opkit holds minimal harness-owned adapters for driving a real
// workers/operator.Operator in-process: a reference handler (proto.Handler)
// whose state makes every applied event / fired timer readable from a DKV
// checkpoint, a recording job (proto.Job), a manually fired batch timer
// (clocks.Timer), helpers to start / stop / deploy an operator on a local
// directory and to read back the content of a reported operator checkpoint
// by deploying a fresh operator from it and probing it through the handler.
package opkit

import (
	"context"
	"fmt"
	"os"
	"sort"
	"strconv"
	"strings"
	"sync"
	"time"

	"google.golang.org/protobuf/types/known/timestamppb"
	"reduction.dev/reduction-protocol/handlerpb"
	"reduction.dev/reduction/batching"
	"reduction.dev/reduction/clocks"
	"reduction.dev/reduction/partitioning"
	"reduction.dev/reduction/proto"
	"reduction.dev/reduction/proto/jobpb"
	"reduction.dev/reduction/proto/snapshotpb"
	"reduction.dev/reduction/proto/workerpb"
	"reduction.dev/reduction/workers/operator"
)

const KeyGroupCount = 256

// ---------------------------------------------------------------- keys ----

// Unit is one thing handed to the handler: a keyed event ("e") identified by
// (sender, script index), or the expiry ("t") of the timer that event set.
type Unit struct {
	T   string `json:"t"`
	Sr  int    `json:"sr"`
	Idx int    `json:"idx"`
	Tm  int    `json:"T"` // timer time (abstract seconds); 0 for events
}

var (
	keyMu    sync.Mutex
	keyCache = map[[2]int][]byte{}
	keySpace = partitioning.NewKeySpace(KeyGroupCount, 1)
	keyGroup = keySpace.KeyGroup([]byte("align"))
)

// Key returns the subject key of event (sr, idx). All keys fall into one key
// group (so that the order in which equal-time timers fire is the byte order
// of the keys, i.e. (sr, idx)), and are distinct per event.
func Key(sr, idx int) []byte {
	keyMu.Lock()
	defer keyMu.Unlock()
	if k, ok := keyCache[[2]int{sr, idx}]; ok {
		return k
	}
	for nonce := 0; ; nonce++ {
		k := []byte(fmt.Sprintf("s%02di%02d#%d", sr, idx, nonce))
		if keySpace.KeyGroup(k) == keyGroup {
			keyCache[[2]int{sr, idx}] = k
			return k
		}
	}
}

// ParseKey is the inverse of Key.
func ParseKey(k []byte) (sr, idx int, ok bool) {
	s := string(k)
	if len(s) < 8 || s[0] != 's' || s[3] != 'i' || s[6] != '#' {
		return 0, 0, false
	}
	sr, e1 := strconv.Atoi(s[1:3])
	idx, e2 := strconv.Atoi(s[4:6])
	return sr, idx, e1 == nil && e2 == nil
}

// Secs maps a protobuf timestamp to abstract seconds (anything at or before
// the epoch, including the zero time.Time, is 0).
func Secs(ts *timestamppb.Timestamp) int {
	if ts == nil || ts.Seconds <= 0 {
		return 0
	}
	return int(ts.Seconds)
}

// ------------------------------------------------------------- handler ----

// Call is one ProcessEventBatch request as seen by the reference handler.
type Call struct {
	Items  []Unit              `json:"items"`
	W      int                 `json:"w"`
	States map[string][]string `json:"states,omitempty"` // subject key -> "ns/entry=value" it was given
	Fail   bool                `json:"fail,omitempty"`   // the handler returned an error for this request (Decide)
}

// RefHandler is the reference handler. In normal mode a keyed event writes
// state entry ev/seen and registers a timer for its key at (request watermark
// + 1 s); a timer expiry writes ev/fired=<time>. In ReadOnly mode it only
// records what it is given.
type RefHandler struct {
	ReadOnly bool
	// OnCall runs synchronously inside ProcessEventBatch (on the operator's
	// event loop) before the response is returned.
	OnCall func(c *Call)
	// Decide (optional) runs first, with the context of the request: a non-nil
	// error is what ProcessEventBatch returns (the request is recorded with
	// Fail = true, OnCall still runs, nothing is applied).
	Decide func(ctx context.Context, c *Call) error

	mu    sync.Mutex
	calls []*Call
}

func (h *RefHandler) KeyEventBatch(ctx context.Context, events [][]byte) ([][]*handlerpb.KeyedEvent, error) {
	panic("unused by operators")
}

func (h *RefHandler) ProcessEventBatch(ctx context.Context, req *handlerpb.ProcessEventBatchRequest) (*handlerpb.ProcessEventBatchResponse, error) {
	c := &Call{W: Secs(req.Watermark), States: map[string][]string{}}
	for _, ks := range req.KeyStates {
		ents := []string{}
		for _, ns := range ks.StateEntryNamespaces {
			for _, e := range ns.Entries {
				ents = append(ents, ns.Namespace+"/"+string(e.Key)+"="+string(e.Value))
			}
		}
		sort.Strings(ents)
		c.States[string(ks.Key)] = ents
	}
	resp := &handlerpb.ProcessEventBatchResponse{}
	for _, ev := range req.Events {
		switch e := ev.Event.(type) {
		case *handlerpb.Event_KeyedEvent:
			sr, idx, ok := ParseKey(e.KeyedEvent.Key)
			if !ok {
				return nil, fmt.Errorf("opkit: foreign key %q", e.KeyedEvent.Key)
			}
			c.Items = append(c.Items, Unit{T: "e", Sr: sr, Idx: idx})
			if !h.ReadOnly {
				resp.KeyResults = append(resp.KeyResults, &handlerpb.KeyResult{
					Key:       e.KeyedEvent.Key,
					NewTimers: []*timestamppb.Timestamp{{Seconds: int64(c.W + 1)}},
					StateMutationNamespaces: []*handlerpb.StateMutationNamespace{{Namespace: "ev", Mutations: []*handlerpb.StateMutation{{
						Mutation: &handlerpb.StateMutation_Put{Put: &handlerpb.PutMutation{Key: []byte("seen"), Value: []byte("1")}}}}}},
				})
			}
		case *handlerpb.Event_TimerExpired:
			sr, idx, ok := ParseKey(e.TimerExpired.Key)
			if !ok {
				return nil, fmt.Errorf("opkit: foreign timer key %q", e.TimerExpired.Key)
			}
			t := Secs(e.TimerExpired.Timestamp)
			c.Items = append(c.Items, Unit{T: "t", Sr: sr, Idx: idx, Tm: t})
			if !h.ReadOnly {
				resp.KeyResults = append(resp.KeyResults, &handlerpb.KeyResult{
					Key: e.TimerExpired.Key,
					StateMutationNamespaces: []*handlerpb.StateMutationNamespace{{Namespace: "ev", Mutations: []*handlerpb.StateMutation{{
						Mutation: &handlerpb.StateMutation_Put{Put: &handlerpb.PutMutation{Key: []byte("fired"), Value: []byte(strconv.Itoa(t))}}}}}},
				})
			}
		}
	}
	var failure error
	if h.Decide != nil {
		if failure = h.Decide(ctx, c); failure != nil {
			c.Fail = true
		}
	}
	h.mu.Lock()
	h.calls = append(h.calls, c)
	h.mu.Unlock()
	if h.OnCall != nil {
		h.OnCall(c)
	}
	if failure != nil {
		return nil, failure
	}
	return resp, nil
}

// Calls returns the calls recorded so far.
func (h *RefHandler) Calls() []*Call {
	h.mu.Lock()
	defer h.mu.Unlock()
	return append([]*Call(nil), h.calls...)
}

var _ proto.Handler = (*RefHandler)(nil)

// ----------------------------------------------------------------- job ----

// JobRec is a proto.Job that records OperatorCheckpointComplete.
type JobRec struct {
	proto.NoopJob
	// OnAck runs synchronously inside OperatorCheckpointComplete.
	OnAck func(ck *snapshotpb.OperatorCheckpoint)
	// Check (optional) runs first, with the context of the report: a non-nil
	// error is returned to the operator and the report is NOT recorded (the job
	// never received it, as with a connect client whose ctx is done).
	Check func(ctx context.Context, ck *snapshotpb.OperatorCheckpoint) error

	mu   sync.Mutex
	acks []*snapshotpb.OperatorCheckpoint
}

func (j *JobRec) OperatorCheckpointComplete(ctx context.Context, req *snapshotpb.OperatorCheckpoint) error {
	if j.Check != nil {
		if err := j.Check(ctx, req); err != nil {
			return err
		}
	}
	j.mu.Lock()
	j.acks = append(j.acks, req)
	j.mu.Unlock()
	if j.OnAck != nil {
		j.OnAck(req)
	}
	return nil
}

func (j *JobRec) Acks() []*snapshotpb.OperatorCheckpoint {
	j.mu.Lock()
	defer j.mu.Unlock()
	return append([]*snapshotpb.OperatorCheckpoint(nil), j.acks...)
}

var _ proto.Job = (*JobRec)(nil)

// --------------------------------------------------------------- timer ----

// Timer is a clocks.Timer whose expiry is decided by the harness.
type Timer struct {
	mu sync.Mutex
	do func()
}

func (t *Timer) Set(_ time.Duration, do func()) { t.mu.Lock(); t.do = do; t.mu.Unlock() }
func (t *Timer) Stop()                          { t.mu.Lock(); t.do = nil; t.mu.Unlock() }

// Take disarms the timer and returns its callback (nil if not armed).
func (t *Timer) Take() func() { t.mu.Lock(); defer t.mu.Unlock(); d := t.do; t.do = nil; return d }

var _ clocks.Timer = (*Timer)(nil)

// ------------------------------------------------------------ operator ----

type Params struct {
	ID          string
	Dir         string // local storage directory (shared by operators that restore from each other)
	SrIDs       []string
	MaxSize     int
	UseTimer    bool
	Checkpoints []*snapshotpb.OperatorCheckpoint
	Handler     *RefHandler
	Job         *JobRec
}

// Op is a running, deployed operator.
type Op struct {
	Op     *operator.Operator
	H      *RefHandler
	J      *JobRec
	Tm     *Timer
	cancel context.CancelFunc
	done   chan error
}

// StartOp creates, starts and deploys a single-operator assembly.
func StartOp(p Params) (*Op, error) {
	if p.Handler == nil {
		p.Handler = &RefHandler{}
	}
	if p.Job == nil {
		p.Job = &JobRec{}
	}
	o := &Op{H: p.Handler, J: p.Job, Tm: &Timer{}, done: make(chan error, 1)}
	delay := time.Duration(0)
	if p.UseTimer {
		delay = time.Hour
	}
	o.Op = operator.NewOperator(operator.NewOperatorParams{
		ID: p.ID, Host: p.ID + "-host", Job: p.Job, UserHandler: p.Handler,
		Clock:         clocks.NewFrozenClock(),
		EventBatching: batching.EventBatcherParams{MaxDelay: delay, MaxSize: p.MaxSize, Timer: o.Tm},
		NeighborOperatorFactory: func(senderID string, node *jobpb.NodeIdentity) proto.Operator {
			return &proto.UnimplementedOperator{}
		},
	})
	ctx, cancel := context.WithCancel(context.Background())
	o.cancel = cancel
	if err := o.Op.HandleDeploy(ctx, &workerpb.DeployOperatorRequest{
		Operators:       []*jobpb.NodeIdentity{{Id: p.ID, Host: p.ID + "-host"}},
		SourceRunnerIds: p.SrIDs,
		KeyGroupCount:   KeyGroupCount,
		StorageLocation: p.Dir,
		Checkpoints:     p.Checkpoints,
	}, nil); err != nil {
		cancel()
		return nil, err
	}
	go func() { o.done <- o.Op.Start(ctx) }()
	return o, nil
}

// Stop halts the operator (no deregistration) and waits for Start to return.
func (o *Op) Stop() {
	o.Op.Halt()
	o.cancel()
	select {
	case err := <-o.done:
		o.done <- err // Stop may be called again
	case <-time.After(2 * time.Second):
	}
}

// WaitStopped reports whether Start has returned (the operator shut itself
// down, e.g. because its event loop failed), waiting up to d for it.
func (o *Op) WaitStopped(d time.Duration) bool {
	select {
	case err := <-o.done:
		o.done <- err // keep it for Stop
		return true
	case <-time.After(d):
		return false
	}
}

// Send delivers one event as sender sr, retrying while the operator's event
// loop is not running yet.
func (o *Op) Send(ctx context.Context, sr string, ev *workerpb.Event) error {
	return o.Op.HandleEvent(ctx, sr, ev)
}

func KeyedEvent(sr, idx int) *workerpb.Event {
	return &workerpb.Event{Event: &workerpb.Event_KeyedEvent{KeyedEvent: &handlerpb.KeyedEvent{Key: Key(sr, idx), Value: []byte("v")}}}
}
func Watermark(secs int64) *workerpb.Event {
	return &workerpb.Event{Event: &workerpb.Event_Watermark{Watermark: &workerpb.Watermark{Timestamp: &timestamppb.Timestamp{Seconds: secs}}}}
}
func Barrier(n uint64) *workerpb.Event {
	return &workerpb.Event{Event: &workerpb.Event_CheckpointBarrier{CheckpointBarrier: &workerpb.CheckpointBarrier{CheckpointId: n}}}
}

// --------------------------------------------------------------- probe ----

// Content is what a DKV checkpoint holds, in terms of the reference handler.
type Content struct {
	Seen   []Unit `json:"seen"`   // events whose ev/seen entry is present
	Fired  []Unit `json:"fired"`  // events whose ev/fired entry is present (Tm = recorded time)
	Timers []Unit `json:"timers"` // pending timers (Tm = time)
}

func sortUnits(u []Unit) {
	sort.Slice(u, func(i, j int) bool {
		if u[i].Sr != u[j].Sr {
			return u[i].Sr < u[j].Sr
		}
		if u[i].Idx != u[j].Idx {
			return u[i].Idx < u[j].Idx
		}
		return u[i].Tm < u[j].Tm
	})
}

// Probe deploys a fresh operator (its own id, hence its own DKV directory)
// from the reported checkpoint and reads, through a read-only handler, the
// keyed state of every candidate event key and every pending timer.
func Probe(dir, id string, ck *snapshotpb.OperatorCheckpoint, candidates [][2]int) (Content, error) {
	var out Content
	h := &RefHandler{ReadOnly: true}
	op, err := StartOp(Params{ID: id, Dir: dir, SrIDs: []string{"p"}, MaxSize: 1, Checkpoints: []*snapshotpb.OperatorCheckpoint{ck}, Handler: h})
	if err != nil {
		return out, err
	}
	defer op.Stop()
	ctx, cancel := context.WithTimeout(context.Background(), 10*time.Second)
	defer cancel()
	errc := make(chan error, 1)
	go func() {
		for _, c := range candidates {
			if err := op.Send(ctx, "p", KeyedEvent(c[0], c[1])); err != nil {
				errc <- err
				return
			}
		}
		// fire every pending timer
		errc <- op.Send(ctx, "p", Watermark(1<<40))
	}()
	select {
	case err := <-errc:
		if err != nil {
			return out, err
		}
	case <-ctx.Done():
		return out, fmt.Errorf("probe of checkpoint %d timed out", ck.CheckpointId)
	}
	for _, c := range h.Calls() {
		for _, u := range c.Items {
			switch u.T {
			case "e":
				for _, e := range c.States[string(Key(u.Sr, u.Idx))] {
					if e == "ev/seen=1" {
						out.Seen = append(out.Seen, Unit{T: "e", Sr: u.Sr, Idx: u.Idx})
					} else if strings.HasPrefix(e, "ev/fired=") {
						t, _ := strconv.Atoi(strings.TrimPrefix(e, "ev/fired="))
						out.Fired = append(out.Fired, Unit{T: "t", Sr: u.Sr, Idx: u.Idx, Tm: t})
					} else {
						return out, fmt.Errorf("probe: unexpected state entry %q", e)
					}
				}
			case "t":
				out.Timers = append(out.Timers, Unit{T: "t", Sr: u.Sr, Idx: u.Idx, Tm: u.Tm})
			}
		}
	}
	sortUnits(out.Seen)
	sortUnits(out.Fired)
	sortUnits(out.Timers)
	return out, nil
}

// TempDir returns a fresh directory, preferably on tmpfs.
func TempDir(prefix string) (string, error) {
	base := "/dev/shm"
	if b := os.Getenv("VERIF_SHM"); b != "" { // a scratch root the caller of the harness removes afterwards
		base = b
	}
	if st, err := os.Stat(base); err != nil || !st.IsDir() {
		base = ""
	}
	return os.MkdirTemp(base, prefix)
}
