module verif/harness

go 1.24

require (
	google.golang.org/protobuf v1.36.3
	pgregory.net/rapid v1.3.0
	reduction.dev/reduction v0.0.0
	reduction.dev/reduction-protocol v0.0.5-0.20250502133230-e5852cf15cdc
)

require connectrpc.com/connect v1.18.1 // indirect

replace reduction.dev/reduction => /repo
