// Package dkvsched drives the background goroutines (memtable flush, compaction)
// of ONE real dkv.DB - the "main" database - through the dkv verif gates, the
// way harness/cmd/dkv does: a model step "advance lane L" releases the
// goroutine parked at the lane's gate and waits until it parks at its next
// gate. The scheduling is adaptive: a step for a lane on which nothing is
// parked is skipped (reported to the caller), because what a read must return
// never depends on the background schedule.
//
// Every other database of the process (restored copies, abandoned
// incarnations, the previous behaviour's database) passes through all gates.
// dkv's flush and compaction queues are process-wide (bg.NewQueue(5)): while a
// flush of the main database is parked, no other database can flush, and a
// seventh rotation blocks the writer. Relieve() keeps the number of queued
// tasks below that limit by advancing the lanes on its own.
package dkvsched

import (
	"fmt"
	"regexp"
	"strconv"
	"sync"
	"sync/atomic"
	"time"

	"reduction.dev/reduction/dkv"
	"reduction.dev/reduction/util/verifhook"
	"verif/harness/gate"
)

const (
	PtFlushStart   = "dkv.flush.start"
	PtFlushSwap    = "dkv.flush.swap"
	PtFlushSwapped = "dkv.flush.swapped"
	PtCompactPick  = "dkv.compact.pick"
	PtCompactSwap  = "dkv.compact.swap"
	PtCompactDone  = "dkv.compact.done"
	PtCompactSwpd  = "dkv.compact.swapped"
	PtScanBetween  = "dkv.scan.between"
	PtGetBetween   = "dkv.get.between"
)

// Wait is how long a goroutine that must arrive is waited for.
var Wait = 5 * time.Second

type Sched struct {
	G *gate.Sched

	mu        sync.Mutex
	main      *dkv.DB
	scanArmed atomic.Bool

	flushState, compState string // "", "start"/"swap", "pick"/"swap"
	flushArr, compArr     *gate.Arrival
	pendingFlush          int
	pendingComp           int
	memCount              int

	Skipped int // lane steps for which nothing was parked
	Steps   int // lane steps executed on the real goroutines
	Forced  int // lane steps taken by Relieve
}

// New installs the verif hook handler. tune may be nil.
func New(tune func(name string, def int64) int64) *Sched {
	s := &Sched{}
	s.G = gate.New(PtFlushStart, PtFlushSwap, PtCompactPick, PtCompactSwap, PtScanBetween)
	verifhook.Install(s.hook, tune)
	return s
}

func (s *Sched) hook(point string, args ...any) {
	if len(args) == 0 {
		return
	}
	db, ok := args[0].(*dkv.DB)
	if !ok {
		return
	}
	s.mu.Lock()
	isMain := db == s.main
	s.mu.Unlock()
	if !isMain {
		return
	}
	switch point {
	case PtGetBetween:
		return
	case PtScanBetween:
		if !s.scanArmed.Load() {
			return
		}
	}
	s.G.At(point, args...)
}

// SetMain makes db the scheduled database (nil: none). Goroutines of the
// previous main database are released and run freely from now on.
func (s *Sched) SetMain(db *dkv.DB) {
	s.mu.Lock()
	old := s.main
	s.main = db
	s.mu.Unlock()
	if old != nil && old != db {
		s.G.ReleaseWhere(func(a *gate.Arrival) bool { return len(a.Args) > 0 && a.Args[0] == any(old) })
	}
	s.flushState, s.compState, s.flushArr, s.compArr = "", "", nil, nil
	s.pendingFlush, s.pendingComp, s.memCount = 0, 0, 1
}

func (s *Sched) Main() *dkv.DB {
	s.mu.Lock()
	defer s.mu.Unlock()
	return s.main
}

// Close releases everything and removes the hook handler.
func (s *Sched) Close() {
	s.scanArmed.Store(false)
	s.G.FreeRun()
	s.SetMain(nil)
	verifhook.Install(nil, nil)
}

var memRe = regexp.MustCompile(`MemTables \(num: (\d+)\)`)

func (s *Sched) memTables() int {
	db := s.Main()
	if db == nil {
		return s.memCount
	}
	m := memRe.FindStringSubmatch(db.Diagnostics())
	if m == nil {
		return s.memCount
	}
	n, _ := strconv.Atoi(m[1])
	return n
}

func (s *Sched) isMain(point string) func(*gate.Arrival) bool {
	return func(a *gate.Arrival) bool {
		return a.Point == point && len(a.Args) > 0 && a.Args[0] == any(s.Main())
	}
}

// AfterWrite must be called (from the goroutine that writes) after foreground
// writes of the main database: every rotation it notices has queued one flush
// task. It lets the first queued task reach its gate.
func (s *Sched) AfterWrite() error {
	if s.Main() == nil {
		return nil
	}
	n := s.memTables()
	if n > s.memCount {
		s.pendingFlush += n - s.memCount
	}
	s.memCount = n
	if err := s.sync(); err != nil {
		return err
	}
	return s.Relieve(3)
}

func (s *Sched) sync() error {
	if s.flushState == "" && s.pendingFlush > 0 {
		a, err := s.G.Await(s.isMain(PtFlushStart), Wait)
		if err != nil {
			return fmt.Errorf("flush task did not start (%s): %v", s.state(), err)
		}
		s.flushArr, s.flushState = a, "start"
	}
	if s.compState == "" && s.pendingComp > 0 {
		a, err := s.G.Await(s.isMain(PtCompactPick), Wait)
		if err != nil {
			return fmt.Errorf("compaction task did not start (%s): %v", s.state(), err)
		}
		s.compArr, s.compState = a, "pick"
	}
	return nil
}

// Pending reports the queued flush and compaction tasks (incl. the running ones).
func (s *Sched) Pending() (flush, comp int) { return s.pendingFlush, s.pendingComp }

// Relieve advances the lanes until at most max flush tasks and at most max
// compaction tasks are queued.
func (s *Sched) Relieve(max int) error {
	for guard := 0; s.pendingComp > max || s.pendingFlush > max; guard++ {
		if guard > 400 {
			return fmt.Errorf("dkvsched: background work does not drain (%s)", s.state())
		}
		if err := s.relieveComp(max); err != nil {
			return err
		}
		if s.pendingFlush > max {
			if err := s.forced("flush"); err != nil {
				return err
			}
		}
	}
	return nil
}

// relieveComp advances only the compaction lane (it never touches the flush lane,
// so the flush lane may call it in the middle of one of its own steps).
func (s *Sched) relieveComp(max int) error {
	for guard := 0; s.pendingComp > max; guard++ {
		if guard > 400 {
			return fmt.Errorf("dkvsched: compactions do not drain (%s)", s.state())
		}
		if err := s.forced("compact"); err != nil {
			return err
		}
	}
	return nil
}

func (s *Sched) forced(lane string) error {
	did, err := s.Step(lane)
	if err != nil {
		return err
	}
	if !did {
		return fmt.Errorf("dkvsched: nothing parked on lane %s (%s)", lane, s.state())
	}
	s.Forced++
	s.Steps--
	return nil
}

func (s *Sched) state() string {
	return fmt.Sprintf("flush=%q pending %d, compact=%q pending %d, memtables %d", s.flushState, s.pendingFlush, s.compState, s.pendingComp, s.memCount)
}

// Drain runs both lanes until nothing is queued.
func (s *Sched) Drain() error { return s.Relieve(0) }

// Step advances the named lane ("flush" | "compact") by one gate. did is false
// if no goroutine of the main database is parked on that lane.
func (s *Sched) Step(lane string) (did bool, err error) {
	if s.Main() == nil {
		s.Skipped++
		return false, nil
	}
	switch lane {
	case "flush":
		switch s.flushState {
		case "start":
			s.flushArr.Release()
			a, err := s.G.Await(s.isMain(PtFlushSwap), Wait)
			if err != nil {
				return false, err
			}
			s.flushArr, s.flushState = a, "swap"
		case "swap":
			// the swap queues a compaction task; make room first
			if err := s.relieveComp(3); err != nil {
				return false, err
			}
			s.flushArr.Release()
			if _, err := s.G.Await(s.isMain(PtFlushSwapped), Wait); err != nil {
				return false, err
			}
			s.flushState, s.flushArr = "", nil
			s.pendingFlush--
			s.pendingComp++
			s.memCount = s.memTables()
			if err := s.sync(); err != nil {
				return false, err
			}
		default:
			s.Skipped++
			return false, nil
		}
	case "compact":
		switch s.compState {
		case "pick":
			s.compArr.Release()
			a, err := s.G.Await(func(a *gate.Arrival) bool {
				return s.isMain(PtCompactSwap)(a) || s.isMain(PtCompactDone)(a)
			}, Wait)
			if err != nil {
				return false, err
			}
			if a.Point == PtCompactDone {
				s.compState, s.compArr = "", nil
				s.pendingComp--
				if err := s.sync(); err != nil {
					return false, err
				}
			} else {
				s.compArr, s.compState = a, "swap"
			}
		case "swap":
			s.compArr.Release()
			if _, err := s.G.Await(s.isMain(PtCompactSwpd), Wait); err != nil {
				return false, err
			}
			a, err := s.G.Await(s.isMain(PtCompactPick), Wait)
			if err != nil {
				return false, err
			}
			s.compArr, s.compState = a, "pick"
		default:
			s.Skipped++
			return false, nil
		}
	default:
		return false, fmt.Errorf("dkvsched: unknown lane %q", lane)
	}
	s.Steps++
	return true, nil
}

// ArmScan: while armed, a ScanPrefix of the main database parks between its two
// captures (memtables, then level list).
func (s *Sched) ArmScan(on bool) { s.scanArmed.Store(on) }

// TryScan returns the parked ScanPrefix of the main database, if there is one.
func (s *Sched) TryScan() *gate.Arrival {
	if a, err := s.G.Await(s.isMain(PtScanBetween), 0); err == nil {
		return a
	}
	return nil
}

// AwaitScan waits until a ScanPrefix of the main database is parked between its
// captures, or until done is closed/receives (the scan's caller returned).
// It returns nil, nil in the second case.
func (s *Sched) AwaitScan(done <-chan struct{}) (*gate.Arrival, error) {
	deadline := time.Now().Add(Wait)
	for time.Now().Before(deadline) {
		if a, err := s.G.Await(s.isMain(PtScanBetween), 0); err == nil {
			return a, nil
		}
		select {
		case <-done:
			// the arrival may have been recorded just before the caller finished
			if a, err := s.G.Await(s.isMain(PtScanBetween), 0); err == nil {
				return a, nil
			}
			return nil, nil
		default:
		}
		time.Sleep(20 * time.Microsecond)
	}
	return nil, fmt.Errorf("dkvsched: scan neither returned nor reached %s", PtScanBetween)
}
