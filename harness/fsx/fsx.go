// Package fsx is a harness-owned storage.FileSystem: an in-memory store shared
// by "views" (one per database incarnation). It records every durable effect
// (create / overwrite / delete, with content) in an event log, can be cloned
// (to open a restored database on a copy without disturbing the original), and
// a view can be fenced: after Kill() its writes and deletes have no effect,
// which is what abandoning a process means for durable state.
package fsx

import (
	"bytes"
	"crypto/sha1"
	"encoding/hex"
	"fmt"
	"path/filepath"
	"sort"
	"strings"
	"sync"

	"reduction.dev/reduction/dkv/storage"
)

const proto = "memory://"

// Event is one durable effect.
type Event struct {
	Seq  int    `json:"seq"`
	Op   string `json:"op"` // create | overwrite | delete | delete-missing
	Path string `json:"path"`
	Hash string `json:"hash,omitempty"`
	View string `json:"view"`
	Via  string `json:"via,omitempty"` // "cleanup" when through CreateDeleteFunc
}

// Store is the shared durable state.
type Store struct {
	mu     sync.Mutex
	files  map[string][]byte
	events []Event
	// OnEvent, if set, is called (under the lock) for every durable effect
	// before it is applied; used by checkers that need the state "just before".
	OnEvent func(e Event, s *Store)
}

func NewStore() *Store { return &Store{files: map[string][]byte{}} }

// Clone copies the durable state (no events, no hooks).
func (s *Store) Clone() *Store {
	s.mu.Lock()
	defer s.mu.Unlock()
	c := NewStore()
	for k, v := range s.files {
		c.files[k] = v
	}
	return c
}

func (s *Store) Events() []Event {
	s.mu.Lock()
	defer s.mu.Unlock()
	return append([]Event(nil), s.events...)
}

// List returns all paths, sorted.
func (s *Store) List() []string {
	s.mu.Lock()
	defer s.mu.Unlock()
	return s.listLocked()
}

func (s *Store) listLocked() []string {
	out := make([]string, 0, len(s.files))
	for k := range s.files {
		out = append(out, k)
	}
	sort.Strings(out)
	return out
}

// ListLocked is for use inside OnEvent.
func (s *Store) ListLocked() []string { return s.listLocked() }

// ReadLocked is for use inside OnEvent.
func (s *Store) ReadLocked(path string) ([]byte, bool) {
	b, ok := s.files[norm("/", path)]
	return b, ok
}

func (s *Store) Read(path string) ([]byte, bool) {
	s.mu.Lock()
	defer s.mu.Unlock()
	b, ok := s.files[norm("/", path)]
	return b, ok
}

func (s *Store) Exists(path string) bool { _, ok := s.Read(path); return ok }

func hash(b []byte) string { h := sha1.Sum(b); return hex.EncodeToString(h[:6]) }

func (s *Store) put(view, path string, data []byte) {
	s.mu.Lock()
	defer s.mu.Unlock()
	op := "create"
	if old, ok := s.files[path]; ok {
		op = "overwrite"
		if bytes.Equal(old, data) {
			op = "rewrite-same"
		}
	}
	e := Event{Seq: len(s.events) + 1, Op: op, Path: path, Hash: hash(data), View: view}
	if s.OnEvent != nil {
		s.OnEvent(e, s)
	}
	s.events = append(s.events, e)
	s.files[path] = data
}

func (s *Store) del(view, path, via string) {
	s.mu.Lock()
	defer s.mu.Unlock()
	op := "delete"
	if _, ok := s.files[path]; !ok {
		op = "delete-missing"
	}
	e := Event{Seq: len(s.events) + 1, Op: op, Path: path, View: view, Via: via}
	if s.OnEvent != nil {
		s.OnEvent(e, s)
	}
	s.events = append(s.events, e)
	delete(s.files, path)
}

func norm(wd, path string) string {
	path = strings.TrimPrefix(path, proto)
	if !filepath.IsAbs(path) {
		path = filepath.Join(wd, path)
	}
	return filepath.Clean(path)
}

// View is a storage.FileSystem over a Store with a working directory.
type View struct {
	S    *Store
	Name string
	wd   string
	mu   sync.Mutex
	dead bool
	// BeforeSave, if set, is called before a file becomes durable (a gate).
	BeforeSave func(path string)
	// BeforeRead, if set, is called before every ReadAt through this view (a gate).
	BeforeRead func(path string)
	// FailSave, if set, may return an error for a save: the file does not become durable (injected storage fault).
	FailSave func(path string) error
	// FailRead, if set, may return an error for a ReadAt: nothing is read (injected storage fault).
	FailRead func(path string) error
	// Probe, if set, is called at every New / Open / File.URI through this view: a yield point inside code that
	// touches storage objects without reading or writing (e.g. under a lock).
	Probe func(op, path string)
}

func (s *Store) View(name, workingDir string) *View {
	if workingDir == "" {
		workingDir = "/"
	}
	return &View{S: s, Name: name, wd: norm("/", workingDir)}
}

// Kill fences the view: later writes and deletes through it are dropped.
func (v *View) Kill() { v.mu.Lock(); v.dead = true; v.mu.Unlock() }
func (v *View) isDead() bool {
	v.mu.Lock()
	defer v.mu.Unlock()
	return v.dead
}

func (v *View) probe(op, path string) {
	if p := v.Probe; p != nil {
		p(op, path)
	}
}

func (v *View) New(path string) storage.File {
	v.probe("new", path)
	return &file{v: v, path: norm(v.wd, path), w: &bytes.Buffer{}, write: true}
}
func (v *View) Open(path string) storage.File {
	v.probe("open", path)
	return &file{v: v, path: norm(v.wd, path)}
}
func (v *View) Copy(src, dst string) error {
	b, ok := v.S.Read(norm(v.wd, src))
	if !ok {
		return fmt.Errorf("missing source file %s", src)
	}
	if v.isDead() {
		return nil
	}
	v.S.put(v.Name, norm(v.wd, dst), b)
	return nil
}

var _ storage.FileSystem = (*View)(nil)

type file struct {
	v     *View
	path  string
	mu    sync.Mutex
	w     *bytes.Buffer
	write bool
	size  int64
	buf   []byte
	load  bool
}

func (f *file) ReadAt(p []byte, off int64) (int, error) {
	if br := f.v.BeforeRead; br != nil {
		br(f.path)
	}
	if fr := f.v.FailRead; fr != nil {
		if err := fr(f.path); err != nil {
			return 0, err
		}
	}
	f.mu.Lock()
	defer f.mu.Unlock()
	if f.write {
		panic("fsx: read from a file being written")
	}
	if !f.load {
		b, ok := f.v.S.Read(f.path)
		if !ok {
			return 0, fmt.Errorf("no file named %s: %w", f.path, storage.ErrNotFound)
		}
		f.buf, f.load = b, true
	}
	return bytes.NewReader(f.buf).ReadAt(p, off)
}

func (f *file) Write(p []byte) (int, error) {
	f.mu.Lock()
	defer f.mu.Unlock()
	if !f.write {
		panic("fsx: write to a read-only file")
	}
	n, err := f.w.Write(p)
	f.size += int64(n)
	return n, err
}

func (f *file) Save() error {
	if f.v.BeforeSave != nil {
		f.v.BeforeSave(f.path)
	}
	if f.v.FailSave != nil {
		if err := f.v.FailSave(f.path); err != nil {
			return err
		}
	}
	f.mu.Lock()
	defer f.mu.Unlock()
	if !f.write {
		panic("fsx: save of a read-only file")
	}
	f.write = false
	f.buf = append([]byte(nil), f.w.Bytes()...)
	f.load = true
	if !f.v.isDead() {
		f.v.S.put(f.v.Name, f.path, f.buf)
	}
	return nil
}

func (f *file) Name() string { return filepath.Base(f.path) }
func (f *file) URI() string  { f.v.probe("uri", f.path); return proto + f.path }
func (f *file) Size() int64  { return f.size }
func (f *file) Delete() error {
	if !f.v.isDead() {
		f.v.S.del(f.v.Name, f.path, "")
	}
	return nil
}
func (f *file) CreateDeleteFunc() func() error {
	v, path := f.v, f.path
	return func() error {
		if !v.isDead() {
			v.S.del(v.Name, path, "cleanup")
		}
		return nil
	}
}

var _ storage.File = (*file)(nil)
