package cluster

import (
	"fmt"
	"sort"
	"time"

	"reduction.dev/reduction/partitioning"
	"reduction.dev/reduction/proto/jobpb"
	"verif/harness/gate"
)

// Survivors restart: the recovery the real system performs. After Kill only the
// killed workers are replaced; the SURVIVING workers keep their Operator and
// SourceRunner objects (ids, DKV directories, goroutines, clocks) and are
// deployed again IN PLACE by the job when it re-assembles:
//
//   - the job survived: its heartbeat deadline expires for the killed nodes
//     (clock advanced in two halves with a heartbeat of every living node in
//     between, like cmd/membership), it pauses, and the next registration makes
//     it assemble the first N registered operators / runners in id order and
//     call start(): DiscardPendingCheckpoint, Deploy, splitter, ticker;
//   - the job was killed: calls addressed to it fail, a new jobs.Job is created
//     over the same storage inside the same generation and every living worker
//     registers with it at its next "register" tick.
//
// Operator ids of replacements sort AFTER every existing id (like ksuids, which
// are ordered by age) or, with NewIDsFirst, BEFORE them; either way a survivor's
// position among the sorted ids - hence its key-group range - can change, and
// it then restores the checkpoint another operator took.
//
// What is still parked at a gate when the restart happens stays parked, except:
// checkpoint acknowledgements of the old assembly (they are released once the
// job has discarded the pending checkpoint, so it rejects them - a survivor's
// event loop is blocked inside that call and HandleDeploy waits for it) and
// StartCheckpoint calls of the old assembly (they fail). HandleEventBatch
// calls of the old assembly stay at their gate: the controller may deliver them
// to a redeployed survivor later (late messages).
type SurviveOptions struct {
	NewIDsFirst bool // replacement operator ids sort before the survivors' ids
}

// RestartSurvivors replaces the killed nodes of the running generation and
// waits until the job runs the new assembly. It returns the id of the job
// checkpoint the operators were deployed with (0 = none).
func (c *Cluster) RestartSurvivors(o SurviveOptions) (restored uint64, err error) {
	g := c.cur()
	g.mu.Lock()
	if g.retired {
		g.mu.Unlock()
		return 0, errRetired
	}
	jobDead := g.dead["job"]
	g.booting = true
	g.deployFailed = false
	g.reasm++
	g.stamp++
	defer g.bumpStamp()
	k := g.reasm
	deploys0 := g.deploysSeen
	if g.replaced == nil {
		g.replaced = map[string]bool{}
	}
	g.mu.Unlock()
	mark := len(c.Log(0))
	tick0 := 0
	if jobDead {
		// whatever is addressed to (or was sent by) the dead job fails: the job's incarnation number changes first,
		// so that a released call finds its job gone
		g.mu.Lock()
		g.jobEpoch++
		g.mu.Unlock()
		g.sched.ReleaseWhere(func(a *gate.Arrival) bool {
			cl, ok := a.Args[0].(*Call)
			return ok && (cl.To == "job" || cl.From == "job")
		})
		wgDone := make(chan struct{})
		go func() { g.storeWG.Wait(); close(wgDone) }()
		select {
		case <-wgDone:
		case <-time.After(2 * time.Second):
		}
		g.mu.Lock()
		g.pubs, g.maxPub, g.expectRetain, g.gotRetain = 0, 0, 0, 0
		g.mu.Unlock()
		if err := g.newJob(); err != nil {
			return 0, err
		}
		g.mu.Lock()
		delete(g.dead, "job")
		g.mu.Unlock()
	} else {
		tick0 = g.clockOfJob().LabelCount("checkpointing")
	}
	c.observe(Obs{Kind: "reassemble", Gen: g.n, Text: fmt.Sprintf("jobDead=%v", jobDead)})

	jobTickers := func() int { return g.clockOfJob().LabelCount("checkpointing") }
	starts := func() (n int, last []string) {
		for _, ob := range c.Log(mark) {
			if ob.Kind == "splitter.start" && ob.Gen == g.n {
				n++
				last = ob.Nodes
			}
		}
		return n, last
	}
	released := false
	dl := time.Now().Add(c.opt.Timeout)
	first := true
	for round := 0; ; round++ {
		// replace what is dead or gone (a worker whose runner died of a failed call stops as a whole, like the
		// process it is; it has deregistered itself) - the replacements register as soon as they start
		g.mu.Lock()
		var deadOps, deadSrs int
		var stoppedOps []*opNode // ended by themselves (gracefully: they deregistered), not killed
		var stoppedSrs []*srNode
		for _, n := range g.ops {
			if (g.dead[n.label] || g.gone[n.label]) && !g.replaced[n.label] {
				if !g.dead[n.label] {
					stoppedOps = append(stoppedOps, n)
				}
				g.dead[n.label] = true
				g.replaced[n.label] = true
				deadOps++
			}
		}
		for _, n := range g.srs {
			if (g.dead[n.label] || g.gone[n.label]) && !g.replaced[n.label] {
				if !g.dead[n.label] {
					stoppedSrs = append(stoppedSrs, n)
				}
				g.dead[n.label] = true
				g.replaced[n.label] = true
				deadSrs++
			}
		}
		g.mu.Unlock()
		// a node that stopped has deregistered itself; a heartbeat of this restart may have slipped in between its
		// deregistration and the moment the kit learnt that it is gone (the kit ticks tickers the node has stopped):
		// its deregistration is repeated, so that the job does not assemble with a node that no longer exists
		for _, n := range stoppedOps {
			g.theJob().HandleDeregisterOperator(&jobpb.NodeIdentity{Id: n.id, Host: n.label})
		}
		for _, n := range stoppedSrs {
			g.theJob().HandleDeregisterSourceRunner(&jobpb.NodeIdentity{Id: n.id, Host: n.label})
		}
		var newOps []*opNode
		var newSrs []*srNode
		for j := 0; j < deadOps; j++ {
			i := len(g.ops)
			id := fmt.Sprintf("g%02d-r%02d-%02d-op%d", g.n, k, round, i) // 'r' > 'o': after every "g<n>-op<i>" and every earlier replacement
			if o.NewIDsFirst {
				id = fmt.Sprintf("g%02d-a%02d-%02d-op%d", g.n, 99-k, 99-round, i) // 'a' < 'o': before them, and before earlier "first" replacements
			}
			newOps = append(newOps, g.addOperator(id))
		}
		for j := 0; j < deadSrs; j++ {
			newSrs = append(newSrs, g.addRunner())
		}
		for _, n := range newOps {
			g.startOperator(n)
		}
		for _, n := range newSrs {
			g.startRunner(n)
		}
		for _, n := range newOps {
			n.clock.WaitLabel("register", time.Until(dl))
		}
		for _, n := range newSrs {
			n.clock.WaitLabel("register", time.Until(dl))
		}
		liveOps, liveSrs := g.live()
		isGone := func(label string) bool {
			g.mu.Lock()
			defer g.mu.Unlock()
			return g.gone[label]
		}
		heartbeat := func() { // (a node that has stopped has stopped its register ticker: it must not register again)
			for _, n := range liveOps {
				if !isGone(n.label) {
					n.clock.Tick("register")
				}
			}
			for _, n := range liveSrs {
				if !isGone(n.label) {
					n.clock.Tick("register")
				}
			}
		}
		if first && !jobDead {
			jc := g.clockOfJob()
			jc.Advance(3 * time.Second)
			heartbeat()
			jc.Advance(3 * time.Second) // the killed nodes' last heartbeat is now 6 s old (deadline 5 s), the living ones' 3 s
		}
		first = false
		heartbeat() // (job alive) the first registration purges and pauses, the next one assembles; (new job) everybody registers
		heartbeat()
		// wait for: the job has started the assembly of exactly the living runners and registered its ticker; or somebody went away
		want := make([]string, 0, len(liveSrs))
		for _, n := range liveSrs {
			want = append(want, n.label)
		}
		sort.Strings(want)
		again := false
		for !again {
			g.mu.Lock()
			seen := g.deploysSeen > deploys0
			failed := g.deployFailed
			for _, n := range liveOps {
				again = again || g.gone[n.label]
			}
			for _, n := range liveSrs {
				again = again || g.gone[n.label]
			}
			g.mu.Unlock()
			if failed {
				return 0, fmt.Errorf("%w: generation %d: an operator failed to deploy (log: %s)", ErrBootTimeout, g.n, c.tail(12))
			}
			if seen && !released {
				// the job's start() has discarded the pending checkpoint before it deploys: what the old assembly still
				// has in flight towards the job is let through now (the job rejects it; a survivor's event loop is blocked in
				// that call and its HandleDeploy waits for it), StartCheckpoint calls of the old assembly fail
				released = true
				g.sched.ReleaseWhere(func(a *gate.Arrival) bool {
					cl, ok := a.Args[0].(*Call)
					if !ok {
						return false
					}
					switch cl.Point {
					case PJobOpAck, PJobSrAck:
						return true
					case PSrStartCkpt:
						cl.Fail = fmt.Errorf("cluster: StartCheckpoint of the previous assembly")
						return true
					}
					return false
				})
			}
			if again {
				break
			}
			ns, last := starts()
			ready := ns > 0 && fmt.Sprint(last) == fmt.Sprint(want) && jobTickers()-tick0 >= ns
			for _, n := range liveSrs {
				select {
				case <-n.cur().ready:
				default:
					ready = false
				}
			}
			if ready {
				// settled? a survivor may still die of what the restart did to its old calls
				time.Sleep(time.Millisecond)
				g.mu.Lock()
				for _, n := range liveOps {
					again = again || g.gone[n.label]
				}
				for _, n := range liveSrs {
					again = again || g.gone[n.label]
				}
				g.mu.Unlock()
				if again {
					break
				}
				g.mu.Lock()
				g.booting = false
				g.mu.Unlock()
				for _, ob := range c.Log(mark) {
					if ob.Kind == "op.deployed" {
						restored = 0
						if len(ob.OpCkpts) > 0 {
							restored = ob.OpCkpts[0].Ckpt
						}
					}
				}
				return restored, nil
			}
			if time.Now().After(dl) {
				return 0, fmt.Errorf("%w: generation %d: survivors restart did not reach a running assembly of %v (log: %s)", ErrBootTimeout, g.n, want, c.tail(14))
			}
			time.Sleep(200 * time.Microsecond)
			if round > 0 || time.Since(dl.Add(-c.opt.Timeout)) > 20*time.Millisecond {
				heartbeat() // registrations are what makes a paused job look at its registry again
			}
		}
	}
}

// live returns the nodes of the generation that have not been killed.
func (g *generation) live() (ops []*opNode, srs []*srNode) {
	g.mu.Lock()
	defer g.mu.Unlock()
	for _, n := range g.ops {
		if !g.dead[n.label] {
			ops = append(ops, n)
		}
	}
	for _, n := range g.srs {
		if !g.dead[n.label] {
			srs = append(srs, n)
		}
	}
	return ops, srs
}

// Assembly returns the identity indices i ("op<i>" / "sr<i>" / "w<i>") of the living workers in the order of
// their operators' positions in the newest deploy (position p owns key-group range p).
func (c *Cluster) Assembly() []int {
	ops, _ := c.cur().live()
	sort.Slice(ops, func(a, b int) bool { return ops[a].pos.Load() < ops[b].pos.Load() })
	var out []int
	for _, n := range ops {
		var i int
		fmt.Sscanf(n.label, "op%d", &i)
		out = append(out, i)
	}
	return out
}

// posOfWorker: the position of operator "op<i>" in its newest deploy (-1 unknown).
func (g *generation) posOfWorker(i int) int {
	g.mu.Lock()
	defer g.mu.Unlock()
	if i < 0 || i >= len(g.ops) {
		return -1
	}
	return int(g.ops[i].pos.Load())
}

// KeyGroupOf returns the key group (of keyGroups) of key.
func KeyGroupOf(keyGroups int, key string) int {
	return int(partitioning.NewKeySpace(keyGroups, 1).KeyGroup([]byte(key)))
}

// ForgetRetention: no retention round is outstanding as far as WaitRetention is concerned (a snapshot write that
// the job gave up after it had been handed to the storage adapter is followed by none).
func (c *Cluster) ForgetRetention() {
	g := c.cur()
	g.mu.Lock()
	g.expectRetain = g.gotRetain
	g.mu.Unlock()
}
