package cluster

import (
	"encoding/json"
	"fmt"
	"sort"
	"sync"
	"time"

	"google.golang.org/protobuf/types/known/timestamppb"
	"reduction.dev/reduction-protocol/handlerpb"
	"reduction.dev/reduction-protocol/jobconfigpb"
	"reduction.dev/reduction/connectors"
	"reduction.dev/reduction/partitioning"
	"reduction.dev/reduction/proto/snapshotpb"
	"reduction.dev/reduction/proto/workerpb"
)

// Record is one deterministic source record. Idx is 1-based within its split.
type Record struct {
	Split int    `json:"split"`
	Idx   int    `json:"idx"`
	Key   string `json:"key"`
}

// ID is the identity of the record's effect on state ("<split>:<idx>").
func (r Record) ID() string { return fmt.Sprintf("%d:%d", r.Split, r.Idx) }

func (r Record) bytes() []byte {
	b, _ := json.Marshal(r)
	return b
}

// DecodeRecord parses the raw source bytes of a record.
func DecodeRecord(b []byte) (Record, error) {
	var r Record
	err := json.Unmarshal(b, &r)
	return r, err
}

// KeyFor returns the n-th (0-based) key of the form "k<i>" that the repo's key
// space routes to operator index op when there are `workers` operators and
// `keyGroups` key groups.
func KeyFor(keyGroups, workers, op, n int) string {
	ks := partitioning.NewKeySpace(keyGroups, workers)
	for i := 0; ; i++ {
		k := fmt.Sprintf("k%d", i)
		if ks.RangeIndex([]byte(k)) == op {
			if n == 0 {
				return k
			}
			n--
		}
	}
}

// OwnerOf returns the operator index the repo routes key to.
func OwnerOf(keyGroups, workers int, key string) int {
	return partitioning.NewKeySpace(keyGroups, workers).RangeIndex([]byte(key))
}

// MakeSplits builds nSplits splits of nRecs records each; key(split, idx)
// (0-based split, 1-based idx) chooses the key.
func MakeSplits(nSplits, nRecs int, key func(split, idx int) string) [][]Record {
	out := make([][]Record, nSplits)
	for s := range out {
		for i := 1; i <= nRecs; i++ {
			out[s] = append(out[s], Record{Split: s, Idx: i, Key: key(s, i)})
		}
	}
	return out
}

// splitState is the marshalled per-split checkpoint state (and the split cursor
// handed to readers): Cursor = number of records of the split already read.
type splitState struct {
	Split  int `json:"split"`
	Cursor int `json:"cursor"`
}

// DecodeSplitStates decodes the opaque split states of a source checkpoint
// into split -> cursor. A split that appears twice keeps the LAST entry and is
// reported in dups.
func DecodeSplitStates(states [][]byte) (cursors map[int]int, dups []int, err error) {
	cursors = map[int]int{}
	for _, b := range states {
		var st splitState
		if err = json.Unmarshal(b, &st); err != nil {
			return nil, nil, err
		}
		if _, ok := cursors[st.Split]; ok {
			dups = append(dups, st.Split)
		}
		cursors[st.Split] = st.Cursor
	}
	return cursors, dups, nil
}

// ---------------------------------------------------------------- config ----

// source is the harness connectors.SourceConfig of one generation.
type source struct{ g *generation }

func (s *source) Validate() error { return nil }

func (s *source) ProtoMessage() *jobconfigpb.Source { return &jobconfigpb.Source{} }

func (s *source) NewSourceSplitter(sourceRunnerIDs []string, hooks connectors.SourceSplitterHooks, errChan chan<- error) connectors.SourceSplitter {
	return &splitter{g: s.g, srIDs: append([]string(nil), sourceRunnerIDs...), hooks: hooks}
}

// NewSourceReader is not used: every runner gets its reader from the
// SourceReaderFactory the kit passes to sourcerunner.New.
func (s *source) NewSourceReader(hooks connectors.SourceReaderHooks) connectors.SourceReader {
	panic("cluster: readers are created through SourceReaderFactory")
}

var _ connectors.SourceConfig = (*source)(nil)

// -------------------------------------------------------------- splitter ----

type splitter struct {
	connectors.UnimplementedSourceSplitter
	g     *generation
	srIDs []string
	hooks connectors.SourceSplitterHooks
}

func (s *splitter) IsSourceSplitter() {}

// Start assigns split i to the runner with harness index i mod W (in the order
// of the harness labels, not of the random ksuid ids) with the cursor found in
// the checkpoint (0 when absent).
func (s *splitter) Start(ckpt *snapshotpb.SourceCheckpoint) error {
	cursors := map[int]int{}
	if ckpt != nil {
		var dups []int
		var err error
		cursors, dups, err = DecodeSplitStates(ckpt.SplitStates)
		if err != nil {
			return err
		}
		s.g.c.observe(Obs{Kind: "splitter.start", Gen: s.g.n, Ckpt: ckpt.CheckpointId, Cursors: cursors, Dups: dups, Nodes: s.labels()})
	} else {
		s.g.c.observe(Obs{Kind: "splitter.start", Gen: s.g.n, Nodes: s.labels()})
	}
	ids := append([]string(nil), s.srIDs...)
	// runner order = the order of their workers' operators in the assembly (worker i = "op<i>" + "sr<i>"), so that
	// position p of an assembly is one worker for both halves; before any operator was deployed: the identity order
	rank := func(id string) int {
		i := s.g.srIndex(id)
		if p := s.g.posOfWorker(i); p >= 0 {
			return p
		}
		return i
	}
	sort.SliceStable(ids, func(i, j int) bool { return rank(ids[i]) < rank(ids[j]) })
	assign := map[string][]*workerpb.SourceSplit{}
	for _, id := range ids {
		assign[id] = nil
	}
	for i := range s.g.c.opt.Splits {
		id := ids[i%len(ids)]
		cur, _ := json.Marshal(splitState{Split: i, Cursor: cursors[i]})
		assign[id] = append(assign[id], &workerpb.SourceSplit{SplitId: fmt.Sprint(i), SourceId: "harness", Cursor: cur})
	}
	s.hooks.AssignSplits(assign)
	return nil
}

// labels of the assembly's runners, sorted
func (s *splitter) labels() []string {
	var out []string
	for _, id := range s.srIDs {
		out = append(out, s.g.label(id))
	}
	sort.Strings(out)
	return out
}

func (s *splitter) Close() error                                          { return nil }
func (s *splitter) NotifySplitsFinished(srID string, splitIDs []string)   {}
func (s *splitter) Checkpoint() []byte                                    { return []byte("harness-splitter") }

var _ connectors.SourceSplitter = (*splitter)(nil)

// ---------------------------------------------------------------- reader ----

// reader is the connectors.SourceReader of one runner.
type reader struct {
	g       *generation
	label   string
	mu      sync.Mutex
	splits  []int       // assigned splits, in assignment order
	cursor  map[int]int // split -> records already read
	permits []permit    // manual mode: reads the controller allowed
	auto    bool
	rr      int
	ready   chan struct{} // closed on first AssignSplits
	once    sync.Once
}

type permit struct{ split, n int }

func newReader(g *generation, label string) *reader {
	return &reader{g: g, label: label, cursor: map[int]int{}, auto: g.c.opt.AutoRead, ready: make(chan struct{})}
}

func (r *reader) AssignSplits(splits []*workerpb.SourceSplit) error {
	r.mu.Lock()
	var got []splitState
	for _, sp := range splits {
		var st splitState
		if err := json.Unmarshal(sp.Cursor, &st); err != nil {
			r.mu.Unlock()
			return err
		}
		r.splits = append(r.splits, st.Split)
		r.cursor[st.Split] = st.Cursor
		got = append(got, st)
	}
	r.mu.Unlock()
	cur := map[int]int{}
	for _, st := range got {
		cur[st.Split] = st.Cursor
	}
	r.g.c.observe(Obs{Kind: "reader.assigned", Gen: r.g.n, Node: r.label, Cursors: cur})
	r.once.Do(func() { close(r.ready) })
	return nil
}

// ReadEvents never blocks for long (the runner calls it from its event loop)
// and never reports end of input: a drained reader returns nothing.
func (r *reader) ReadEvents() ([][]byte, error) {
	if r.g.isDead(r.label) || r.g.isRetired() {
		time.Sleep(time.Millisecond)
		return nil, nil
	}
	r.mu.Lock()
	var recs []Record
	if len(r.permits) > 0 {
		p := r.permits[0]
		r.permits = r.permits[1:]
		recs = r.take(p.split, p.n)
	} else if r.auto && len(r.splits) > 0 {
		if d := r.g.c.opt.ReadDelay; d > 0 {
			r.mu.Unlock()
			time.Sleep(d)
			r.mu.Lock()
		}
		max := r.g.c.opt.ReadBatch
		for tries := 0; tries < len(r.splits) && len(recs) == 0; tries++ {
			s := r.splits[r.rr%len(r.splits)]
			r.rr++
			recs = r.take(s, max)
		}
	}
	r.mu.Unlock()
	if len(recs) == 0 {
		time.Sleep(300 * time.Microsecond)
		return nil, nil
	}
	out := make([][]byte, len(recs))
	for i, rec := range recs {
		out[i] = rec.bytes()
	}
	r.g.c.observe(Obs{Kind: "read", Gen: r.g.n, Node: r.label, Recs: recs})
	r.g.sched.At("src.read", &Call{Point: "src.read", Gen: r.g.n, From: r.label, To: r.label, Recs: recs})
	return out, nil
}

// take returns up to n unread records of split s and advances the cursor (mu held).
func (r *reader) take(s, n int) []Record {
	all := r.g.c.opt.Splits[s]
	cur := r.cursor[s]
	if n <= 0 {
		n = 1
	}
	if cur+n > len(all) {
		n = len(all) - cur
	}
	if n <= 0 {
		return nil
	}
	r.cursor[s] = cur + n
	return append([]Record(nil), all[cur:cur+n]...)
}

// Checkpoint returns one marshalled state per assigned split.
func (r *reader) Checkpoint() [][]byte {
	r.mu.Lock()
	cur := map[int]int{}
	var out [][]byte
	for _, s := range r.splits {
		b, _ := json.Marshal(splitState{Split: s, Cursor: r.cursor[s]})
		out = append(out, b)
		cur[s] = r.cursor[s]
	}
	r.mu.Unlock()
	r.g.c.observe(Obs{Kind: "reader.checkpoint", Gen: r.g.n, Node: r.label, Cursors: cur})
	return out
}

func (r *reader) permit(split, n int) {
	r.mu.Lock()
	r.permits = append(r.permits, permit{split, n})
	r.mu.Unlock()
}

func (r *reader) setAuto(on bool) {
	r.mu.Lock()
	r.auto = on
	r.mu.Unlock()
}

func (r *reader) cursors() map[int]int {
	r.mu.Lock()
	defer r.mu.Unlock()
	out := map[int]int{}
	for _, s := range r.splits {
		out[s] = r.cursor[s]
	}
	return out
}

var _ connectors.SourceReader = (*reader)(nil)

// keyEvents is the KeyEventBatch half of the reference handler: one keyed
// event per record, key = record key, value = raw record, timestamp = idx ms.
func keyEvents(raw [][]byte) ([][]*handlerpb.KeyedEvent, error) {
	out := make([][]*handlerpb.KeyedEvent, len(raw))
	for i, b := range raw {
		rec, err := DecodeRecord(b)
		if err != nil {
			return nil, err
		}
		out[i] = []*handlerpb.KeyedEvent{{
			Key:       []byte(rec.Key),
			Timestamp: timestamppb.New(time.UnixMilli(int64(rec.Idx))),
			Value:     b,
		}}
	}
	return out, nil
}
