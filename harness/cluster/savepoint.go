package cluster

// Additions for the savepoint family (C14): access to the running job's
// savepoint API, a generation-number base (so that a second cluster over the
// same directory gets fresh operator ids / DKV directories, like fresh ksuids
// in production) and retiring a cluster without removing its directory.
// Purely additive: nothing here changes the behaviour of existing users.

import (
	"context"
	"path/filepath"
)

// CreateSavepoint calls the running job's HandleCreateSavepoint. When the
// store creates a new checkpoint for it the call returns after every
// StartCheckpoint call has returned (use `go` when PSrStartCkpt is gated).
func (c *Cluster) CreateSavepoint(ctx context.Context) (uint64, error) {
	return c.cur().job.HandleCreateSavepoint(ctx)
}

// SavepointURI calls the running job's HandleGetSavepointURI.
func (c *Cluster) SavepointURI(ctx context.Context, id uint64) (string, error) {
	return c.cur().job.HandleGetSavepointURI(ctx, id)
}

// SetFirstGeneration makes the next Boot start generation n+1 (operator ids
// "g<n+1>-op<i>"). Call before the first Boot.
func (c *Cluster) SetFirstGeneration(n int) {
	c.mu.Lock()
	c.gens = n
	c.mu.Unlock()
}

// Retire stops the running generation (like the first half of Restart) and
// leaves the directory alone.
func (c *Cluster) Retire() {
	c.mu.Lock()
	g := c.gen
	c.mu.Unlock()
	if g != nil {
		g.retire()
	}
}

// JobDir / WorkDir are the job storage (snapshots in JobDir/checkpoints,
// savepoints in JobDir/savepoints) and the operators' working storage.
func (c *Cluster) JobDir() string  { return filepath.Join(c.opt.Dir, "job") }
func (c *Cluster) WorkDir() string { return filepath.Join(c.opt.Dir, "work") }
