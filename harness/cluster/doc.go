// Package cluster wires a whole reduction cluster in ONE process with NO
// network: the real jobs.Job (with its real snapshots.Store on a local
// directory), N real sourcerunner.SourceRunner and N real operator.Operator
// (each with its real dkv.DB on a local directory), connected through
// harness-owned implementations of the repo's own interfaces (proto.Job,
// proto.Operator, proto.SourceRunner, proto.Handler, connectors.SourceConfig /
// SourceSplitter / SourceReader, connectors.SinkWriter,
// locations.StorageLocation, clocks.Clock, clocks.Timer). No hook in /repo is
// needed. Every adapter call is an OBSERVATION (Cluster.Log, a totally ordered
// list of Obs) and a GATE (verif/harness/gate): a call at a point listed in
// Options.Gates parks its goroutine until the controller releases it, so calls
// can be held, reordered, failed (Call.Fail), lost (Call.Drop) or duplicated
// (Call.Dup). With no Gates the cluster is free-running.
//
// Usage
//
//	c, _ := cluster.New(cluster.Options{
//	    Workers: 2, KeyGroups: 4,
//	    Splits:  cluster.MakeSplits(2, 5, func(s, i int) string { return cluster.KeyFor(4, 2, (s+i)%2, 0) }),
//	    AutoRead: true,                                   // or PermitRead(sr, split, n) per read
//	    Gates:   []string{cluster.PJobOpAck},             // points that park (default: none)
//	})
//	defer c.Close()
//	restored, _ := c.Boot()            // Job + workers: registration, assembly, deploy, split assignment
//	go c.TickCheckpoint()              // job creates checkpoint n, StartCheckpoint to every runner
//	a, _ := c.Sched().Await(gate.Point(cluster.PJobOpAck), time.Second)
//	call := a.Args[0].(*cluster.Call)  // call.From == "op1", call.Ckpt == n ; call.Fail/Drop/Dup = verdict
//	a.Release(); <-call.Done()         // deliver the ack (call.Entered(): released and past the adapter, i.e. inside the callee)
//	c.WaitRetention(time.Second)       // after a publication: let retained=[n] reach the operators before the next tick (#28)
//	c.Kill("w1")                       // Halt runner+operator 1 abruptly and isolate them ("job", "sr0", "op1" also work)
//	restored, _ = c.Restart()          // retire the rest; new Job over the same storage + fresh workers
//	ck, _ := c.LatestPublished()       // newest job snapshot file
//	st, _ := c.ReadCheckpointState(ck) // cursors + keyed state read back from the operators' DKV checkpoints
//	cluster.DiffStates(cluster.Expected(c.Options().Splits), st.Keys)
//
// Nodes are named "job", "sr<i>", "op<i>" (worker i = "w<i>" = sr<i> + op<i>);
// split s is always read by sr<s mod Workers>. Operator ids are
// "g<generation>-op<i>" (so the registry order = index order and every
// generation gets fresh DKV directories, like fresh ksuids in production);
// runner ids are the repo's own ksuids, mapped to labels by the kit.
//
// The source (Options.Splits) consists of deterministic Records
// (Split, Idx, Key) with integer cursors; its splitter honours the positions of
// the checkpoint the job restored from; readers never report end of input.
// The reference handler applies event e of key k as cnt[e] += 1 and
// last[split(e)] = idx(e) in k's state (namespaces "cnt" / "last") and records,
// for every invocation, the state it was GIVEN (Given.SeenCnt, Given.SeenLast):
// loss, duplication and per-split reordering of records are all visible in
// state. Watermark events are dropped before the operators by default
// (Options.Watermarks = "drop"): the runner's 200 ms watermark ticker is a real
// time.Ticker and would otherwise occupy runner->operator channels at
// uncontrolled moments; "pass" delivers them ungated, "gate" through POpEvent.
// Until Boot returns watermarks are always dropped: a runner is deployed in
// parallel with the operators and its first watermark can reach an operator
// that is still loading its DKV ("operator not ready ... Loading"), which the
// runner treats as fatal (observed under CPU load; registration / deploy
// ordering is C15's subject, not the kit's).
//
// Message granularity: with SrBatch = 1 (default) every event / barrier a
// runner sends to an operator is its own POpEvent call; the runner's dispatcher
// blocks while the previous call to the same operator has not returned (real
// back-pressure: at most one call per (runner, operator) is at the gate, and a
// runner whose next message is for a busy channel sends nothing else).
// With OpBatch > 1 operators batch events; the batching timer is harness-owned
// (FireOpTimer) unless OpDelay > 0.
//
// Facts worth knowing (from the design-phase probe, still true): every
// Operator / SourceRunner gets its OWN Clock (both register a ticker under the
// label "register"); the job's checkpoint ticker is fired with TickCheckpoint;
// dkv's flush / compaction queues are process-global; operators open their DKV
// with the repo's default (large) memtable sizes unless InstallDkvTune (deep.go:
// process-wide verifhook.Tune handler + flush / compaction counters) says
// otherwise; goroutines of killed / retired nodes are leaked but isolated
// (their calls are dropped; Close waits for their background DKV tasks).
//
// Rescale at recovery: SetWorkers(n) before Restart boots the next generation
// with n workers (KeyInGroup picks keys by key group, so their owner under any
// worker count follows from partitioning.KeySpace). A job checkpoint read back
// with ReadCheckpointState takes from every operator checkpoint only its own
// key-group range (inherited tables still hold stale entries of other ranges).
// A snapshot write that lands after a newer one (overlapping publications,
// PStoreWrite gated) is observed as "published" with Superseded set.
//
// A panic of the code under test that unwinds through an adapter (deploy,
// restore, ack handling) is converted into an error and a "panic" observation;
// a panic on a goroutine the repo spawned itself terminates the process.
package cluster
