package cluster

import (
	"bytes"
	"context"
	"fmt"
	"io"
	"io/fs"
	"iter"
	"path/filepath"
	"strings"
	"sync"

	gproto "google.golang.org/protobuf/proto"
	"reduction.dev/reduction/proto"
	"reduction.dev/reduction/proto/jobpb"
	"reduction.dev/reduction/proto/snapshotpb"
	"reduction.dev/reduction/proto/workerpb"
	"reduction.dev/reduction/storage/locations"
)

// ------------------------------------------------------------- proto.Job ----

// jobClient is the proto.Job a worker node talks to.
type jobClient struct {
	g    *generation
	from string
}

func (j *jobClient) RegisterSourceRunner(ctx context.Context, id *jobpb.NodeIdentity) error {
	return j.g.call(&Call{Point: PJobRegisterSR, From: j.from, To: "job", Msg: id}, func() error {
		j.g.theJob().HandleRegisterSourceRunner(id)
		return nil
	})
}

func (j *jobClient) DeregisterSourceRunner(ctx context.Context, id *jobpb.NodeIdentity) error {
	return j.g.call(&Call{Point: PJobDeregister, From: j.from, To: "job", Msg: id}, func() error {
		j.g.theJob().HandleDeregisterSourceRunner(id)
		return nil
	})
}

func (j *jobClient) RegisterOperator(ctx context.Context, id *jobpb.NodeIdentity) error {
	return j.g.call(&Call{Point: PJobRegisterOp, From: j.from, To: "job", Msg: id}, func() error {
		j.g.theJob().HandleRegisterOperator(id)
		return nil
	})
}

func (j *jobClient) DeregisterOperator(ctx context.Context, id *jobpb.NodeIdentity) error {
	return j.g.call(&Call{Point: PJobDeregister, From: j.from, To: "job", Msg: id}, func() error {
		j.g.theJob().HandleDeregisterOperator(id)
		return nil
	})
}

func (j *jobClient) OperatorCheckpointComplete(ctx context.Context, req *snapshotpb.OperatorCheckpoint) error {
	return j.g.call(&Call{Point: PJobOpAck, From: j.from, To: "job", Ckpt: req.CheckpointId, Msg: req}, func() error {
		return j.g.theJob().HandleOperatorCheckpointComplete(ctx, req)
	})
}

func (j *jobClient) OnSourceRunnerCheckpointComplete(ctx context.Context, req *jobpb.SourceRunnerCheckpointCompleteRequest) error {
	cur, _, _ := DecodeSplitStates(req.SplitStates)
	return j.g.call(&Call{Point: PJobSrAck, From: j.from, To: "job", Ckpt: req.CheckpointId, Cursors: cur, Msg: req}, func() error {
		return j.g.theJob().HandleSourceRunnerCheckpointComplete(ctx, req)
	})
}

func (j *jobClient) NotifySplitsFinished(ctx context.Context, sourceRunnerID string, splitIDs []string) error {
	return j.g.call(&Call{Point: PJobSplitsDone, From: j.from, To: "job"}, func() error {
		return j.g.theJob().HandleNotifySplitsFinished(sourceRunnerID, splitIDs)
	})
}

var _ proto.Job = (*jobClient)(nil)

// -------------------------------------------------------- proto.Operator ----

// opClient is the proto.Operator through which `from` (the job, a runner or a
// neighbour operator) reaches one operator.
type opClient struct {
	g        *generation
	from     string
	senderID string
	node     *jobpb.NodeIdentity
}

func (o *opClient) ID() string   { return o.node.Id }
func (o *opClient) Host() string { return o.node.Host }

func (o *opClient) target() (*opNode, string) {
	i := o.g.opIndex(o.node.Id)
	if i < 0 {
		return nil, "?" + o.node.Id
	}
	return o.g.ops[i], o.g.ops[i].label
}

// HandleEventBatch delivers the events one by one like the repo's RPC handler
// does; every event is its own gate call.
func (o *opClient) HandleEventBatch(ctx context.Context, batch []*workerpb.Event) error {
	n, label := o.target()
	if n == nil {
		return fmt.Errorf("cluster: unknown operator %s", o.node.Id)
	}
	for _, ev := range batch {
		c := &Call{Point: POpEvent, From: o.from, To: label, Msg: ev}
		switch t := ev.Event.(type) {
		case *workerpb.Event_KeyedEvent:
			c.Kind = KEvent
			if rec, err := DecodeRecord(t.KeyedEvent.Value); err == nil {
				c.Rec = &rec
			}
		case *workerpb.Event_CheckpointBarrier:
			c.Kind = KBarrier
			c.Ckpt = t.CheckpointBarrier.CheckpointId
		case *workerpb.Event_Watermark:
			c.Kind = KWatermark
		case *workerpb.Event_SourceComplete:
			c.Kind = KComplete
		}
		asm := o.g.assemblyNo()
		do := func() error {
			// a call of an EARLIER assembly (survivors restart) whose caller has given up meanwhile - the runner's
			// deployment was cancelled or its process is gone - is a request the client has reset: it is not handled
			if o.g.assemblyNo() != asm && ctx.Err() != nil {
				return fmt.Errorf("cluster: late call of a cancelled caller: %w", ctx.Err())
			}
			return n.op.HandleEvent(ctx, o.senderID, ev)
		}
		if c.Kind == KWatermark {
			if o.g.isBooting() {
				continue
			}
			switch o.g.c.opt.Watermarks {
			case "drop":
				continue
			case "pass":
				if o.g.isRetired() || o.g.isDead(o.from) {
					return errZombie
				}
				if o.g.isDead(label) {
					return fmt.Errorf("cluster: %s is unavailable (killed)", label)
				}
				if err := o.g.protect(c, do); err != nil {
					return err
				}
				continue
			}
		}
		if err := o.g.call(c, do); err != nil {
			return err
		}
	}
	return nil
}

func (o *opClient) Deploy(ctx context.Context, req *workerpb.DeployOperatorRequest) error {
	n, label := o.target()
	if n == nil {
		return fmt.Errorf("cluster: unknown operator %s", o.node.Id)
	}
	o.g.mu.Lock()
	o.g.deploysSeen++
	o.g.mu.Unlock()
	var cks []OpCheckpoint
	for _, ck := range req.Checkpoints {
		cks = append(cks, opCheckpoint(ck))
	}
	return o.g.call(&Call{Point: POpDeploy, From: o.from, To: label, Msg: req}, func() error {
		err := n.op.HandleDeploy(ctx, req, n.sink)
		// the node's position changes when the deployment has taken effect, not when the call arrives: an event of the
		// previous assembly that the operator still finishes before HandleDeploy gets its lock belongs to the old position
		for i, id := range req.Operators {
			if id.Id == n.id {
				n.pos.Store(int32(i))
				n.of.Store(int32(len(req.Operators)))
			}
		}
		o.g.c.observe(Obs{Kind: "op.deployed", Gen: o.g.n, Node: label, OpCkpts: cks, Text: errText(err)})
		return err
	})
}

func opCheckpoint(ck *snapshotpb.OperatorCheckpoint) OpCheckpoint {
	oc := OpCheckpoint{Ckpt: ck.CheckpointId, Op: ck.OperatorId, URI: ck.DkvFileUri}
	if ck.KeyGroupRange != nil {
		oc.Start, oc.End = int(ck.KeyGroupRange.Start), int(ck.KeyGroupRange.End)
	}
	return oc
}

func (o *opClient) UpdateRetainedCheckpoints(ctx context.Context, ids []uint64) error {
	n, label := o.target()
	if n == nil {
		return fmt.Errorf("cluster: unknown operator %s", o.node.Id)
	}
	return o.g.call(&Call{Point: POpRetain, From: o.from, To: label, Ids: ids}, func() error {
		err := n.op.HandleRemoveCheckpoints(ctx, &workerpb.UpdateRetainedCheckpointsRequest{CheckpointIds: ids})
		o.g.c.observe(Obs{Kind: "op.retained", Gen: o.g.n, Node: label, Text: fmt.Sprint(ids)})
		o.g.mu.Lock()
		o.g.gotRetain++
		o.g.mu.Unlock()
		return err
	})
}

func (o *opClient) NeedsTable(ctx context.Context, fileURI string) (needs bool, err error) {
	n, label := o.target()
	if n == nil {
		return false, fmt.Errorf("cluster: unknown operator %s", o.node.Id)
	}
	err = o.g.call(&Call{Point: POpNeedsTable, From: o.from, To: label, Path: fileURI}, func() error {
		needs = n.op.HandleNeedsTable(fileURI)
		return nil
	})
	return needs, err
}

var _ proto.Operator = (*opClient)(nil)

// ---------------------------------------------------- proto.SourceRunner ----

// srClient is the proto.SourceRunner through which the job reaches a runner.
type srClient struct {
	g    *generation
	node *jobpb.NodeIdentity
}

func (s *srClient) ID() string   { return s.node.Id }
func (s *srClient) Host() string { return s.node.Host }

func (s *srClient) target() (*srNode, string) {
	i := s.g.srIndex(s.node.Id)
	if i >= len(s.g.srs) {
		return nil, "?" + s.node.Id
	}
	return s.g.srs[i], s.g.srs[i].label
}

func (s *srClient) Deploy(ctx context.Context, req *workerpb.DeploySourceRunnerRequest) error {
	n, label := s.target()
	if n == nil {
		return fmt.Errorf("cluster: unknown runner %s", s.node.Id)
	}
	return s.g.call(&Call{Point: PSrDeploy, From: "job", To: label, Msg: req}, func() error {
		return n.sr.HandleDeploy(ctx, req)
	})
}

func (s *srClient) AssignSplits(ctx context.Context, splits []*workerpb.SourceSplit) error {
	n, label := s.target()
	if n == nil {
		return fmt.Errorf("cluster: unknown runner %s", s.node.Id)
	}
	return s.g.call(&Call{Point: PSrAssign, From: "job", To: label}, func() error {
		return n.sr.HandleAssignSplits(splits)
	})
}

func (s *srClient) StartCheckpoint(ctx context.Context, id uint64) error {
	n, label := s.target()
	if n == nil {
		return fmt.Errorf("cluster: unknown runner %s", s.node.Id)
	}
	return s.g.call(&Call{Point: PSrStartCkpt, From: "job", To: label, Ckpt: id}, func() error {
		n.sr.HandleStartCheckpoint(ctx, id)
		return nil
	})
}

var _ proto.SourceRunner = (*srClient)(nil)

// ------------------------------------------------------------------ sink ----

type sink struct {
	g     *generation
	label string
}

func (s *sink) Write(b []byte) error {
	s.g.c.observe(Obs{Kind: "sink", Gen: s.g.n, Node: s.label, Text: string(b)})
	return nil
}

// ----------------------------------------------------------- job storage ----

// store is the job's locations.StorageLocation: a LocalDirectory whose writes
// and removals go through gate points.
type store struct {
	g      *generation
	dir    *locations.LocalDirectory
	mu     sync.Mutex
	loaded uint64
}

func newStore(g *generation, path string) *store {
	return &store{g: g, dir: locations.NewLocalDirectory(path)}
}

func (s *store) loadedID() uint64 {
	s.mu.Lock()
	defer s.mu.Unlock()
	return s.loaded
}

func (s *store) Write(path string, data io.Reader) (uri string, err error) {
	b, err := io.ReadAll(data)
	if err != nil {
		return "", err
	}
	c := &Call{Point: PStoreWrite, From: "job", To: "store", Path: path}
	var ck *snapshotpb.JobCheckpoint
	if strings.HasSuffix(path, ".snapshot") {
		ck = &snapshotpb.JobCheckpoint{}
		if e := gproto.Unmarshal(b, ck); e == nil {
			c.Ckpt = ck.Id
			c.Msg = ck
			c.Cursors = jobCheckpointCursors(ck)
		} else {
			ck = nil
		}
	}
	err = s.g.call(c, func() error {
		if !s.g.beginStoreOp() {
			return errRetired
		}
		defer s.g.storeWG.Done()
		var e error
		uri, e = s.dir.Write(path, bytes.NewReader(b))
		if e == nil && ck != nil {
			// the job sends retained=[id] to every operator after a write unless it is its first one or the
			// write is superseded (a newer checkpoint was written before it: overlapping publications)
			s.g.mu.Lock()
			s.g.pubs++
			if s.g.maxPub == 0 {
				s.g.maxPub = s.loadedID()
			}
			superseded := ck.Id < s.g.maxPub
			if !superseded {
				if s.g.maxPub != 0 {
					for _, n := range s.g.ops {
						if !s.g.dead[n.label] {
							s.g.expectRetain++
						}
					}
				}
				s.g.maxPub = ck.Id
			}
			s.g.mu.Unlock()
			o := Obs{Kind: "published", Gen: s.g.n, Ckpt: ck.Id, Cursors: c.Cursors, Text: uri}
			o.Superseded = superseded
			if len(ck.SourceCheckpoints) > 0 {
				_, o.Dups, _ = DecodeSplitStates(ck.SourceCheckpoints[0].SplitStates)
			}
			for _, oc := range ck.OperatorCheckpoints {
				o.OpCkpts = append(o.OpCkpts, opCheckpoint(oc))
			}
			s.g.c.observe(o)
		}
		return e
	})
	if err == nil && c.Drop {
		err = fmt.Errorf("cluster: write dropped")
	}
	return uri, err
}

func jobCheckpointCursors(ck *snapshotpb.JobCheckpoint) map[int]int {
	if len(ck.SourceCheckpoints) == 0 {
		return map[int]int{}
	}
	cur, _, err := DecodeSplitStates(ck.SourceCheckpoints[0].SplitStates)
	if err != nil {
		return map[int]int{}
	}
	return cur
}

func (s *store) Read(path string) ([]byte, error) {
	if strings.HasSuffix(path, "/checkpoints") && !s.g.isBooting() {
		// savepoint artifact creation reads every operator's DKV checkpoints document (gate point PStoreRead)
		var b []byte
		err := s.g.call(&Call{Point: PStoreRead, From: "job", To: "store", Path: path}, func() error {
			var e error
			b, e = s.dir.Read(path)
			return e
		})
		return b, err
	}
	b, err := s.dir.Read(path)
	if err == nil && strings.HasSuffix(path, ".snapshot") {
		ck := &snapshotpb.JobCheckpoint{}
		if gproto.Unmarshal(b, ck) == nil {
			s.mu.Lock()
			s.loaded = ck.Id
			s.mu.Unlock()
		}
	}
	return b, err
}

func (s *store) List() iter.Seq2[string, error] { return s.dir.List() }

func (s *store) URI(path string) (string, error) { return s.dir.URI(path) }

func (s *store) Copy(sourceURI string, destination string) error {
	return s.dir.Copy(sourceURI, destination)
}

func (s *store) Remove(paths ...string) error {
	return s.g.call(&Call{Point: PStoreRemove, From: "job", To: "store", Path: strings.Join(paths, ",")}, func() error {
		if !s.g.beginStoreOp() {
			return errRetired
		}
		defer s.g.storeWG.Done()
		return s.dir.Remove(paths...)
	})
}

var _ locations.StorageLocation = (*store)(nil)

// JobSnapshotFiles lists the job snapshot files currently in the job storage
// (robust against files disappearing during the walk, unlike LocalDirectory.List).
func (c *Cluster) JobSnapshotFiles() []string {
	var out []string
	filepath.WalkDir(filepath.Join(c.opt.Dir, "job"), func(p string, d fs.DirEntry, err error) error {
		if err == nil && !d.IsDir() && strings.HasSuffix(p, ".snapshot") {
			out = append(out, p)
		}
		return nil
	})
	return out
}
