package cluster

import (
	"encoding/binary"
	"fmt"
	"os"
	"path/filepath"
	"sort"
	"strconv"
	"strings"

	gproto "google.golang.org/protobuf/proto"
	"reduction.dev/reduction/dkv"
	"reduction.dev/reduction/dkv/recovery"
	"reduction.dev/reduction/dkv/storage"
	"reduction.dev/reduction/proto/snapshotpb"
)

// CheckpointState is the content of one published job checkpoint: the split
// cursors and the keyed state read back from every operator DKV checkpoint it
// names (by opening a read-only dkv.DB on the checkpoint handle).
type CheckpointState struct {
	Ckpt    uint64               `json:"ckpt"`
	Cursors map[int]int          `json:"cursors"`
	DupSplits []int              `json:"dupSplits,omitempty"` // splits that appear more than once in the split states
	Ops     []OpCheckpoint       `json:"ops"`
	Keys    map[string]*KeyState `json:"keys"`  // key -> state (merged over operators; see Where)
	Where   map[string][]int     `json:"where"` // key -> indices into Ops of the operator checkpoints holding entries of the key
}

// ReadJobCheckpointFile decodes a job snapshot file.
func ReadJobCheckpointFile(path string) (*snapshotpb.JobCheckpoint, error) {
	b, err := os.ReadFile(path)
	if err != nil {
		return nil, err
	}
	ck := &snapshotpb.JobCheckpoint{}
	if err := gproto.Unmarshal(b, ck); err != nil {
		return nil, err
	}
	return ck, nil
}

// ReadCheckpointState reads the keyed state of a job checkpoint back from the
// operators' DKV checkpoint files.
func (c *Cluster) ReadCheckpointState(ck *snapshotpb.JobCheckpoint) (*CheckpointState, error) {
	st := &CheckpointState{Ckpt: ck.Id, Keys: map[string]*KeyState{}, Where: map[string][]int{}}
	st.Cursors = jobCheckpointCursors(ck)
	if len(ck.SourceCheckpoints) > 0 {
		_, st.DupSplits, _ = DecodeSplitStates(ck.SourceCheckpoints[0].SplitStates)
	}
	for i, oc := range ck.OperatorCheckpoints {
		o := opCheckpoint(oc)
		st.Ops = append(st.Ops, o)
		keys, err := ReadOperatorCheckpoint(o, c.opt.KeyGroups)
		if err != nil {
			return nil, fmt.Errorf("operator checkpoint %s of job checkpoint %d: %w", o.Op, ck.Id, err)
		}
		for k, ks := range keys {
			st.Where[k] = append(st.Where[k], i)
			m := st.Keys[k]
			if m == nil {
				m = newKeyState()
				st.Keys[k] = m
			}
			for id, n := range ks.Cnt {
				m.Cnt[id] += n
			}
			for s, v := range ks.Last {
				if v > m.Last[s] {
					m.Last[s] = v
				}
			}
		}
	}
	return st, nil
}

// LatestPublished returns the newest job checkpoint file present in the job
// storage (highest id), or nil when there is none.
func (c *Cluster) LatestPublished() (*snapshotpb.JobCheckpoint, error) {
	var best *snapshotpb.JobCheckpoint
	for _, p := range c.JobSnapshotFiles() {
		ck, err := ReadJobCheckpointFile(p)
		if os.IsNotExist(err) {
			continue // removed meanwhile (obsolete snapshot)
		}
		if err != nil {
			return nil, err
		}
		if best == nil || ck.Id > best.Id {
			best = ck
		}
	}
	return best, nil
}

// ReadOperatorCheckpoint opens the DKV checkpoint named by oc (restoring
// exactly like an operator would: level list + WAL replay) and decodes every
// keyed-state entry written by the reference handler.
func ReadOperatorCheckpoint(oc OpCheckpoint, keyGroups int) (keys map[string]*KeyState, err error) {
	defer func() {
		if r := recover(); r != nil {
			err = fmt.Errorf("restoring DKV checkpoint %d at %s panicked: %v", oc.Ckpt, oc.URI, r)
		}
	}()
	scratch, err := os.MkdirTemp(filepath.Dir(filepath.Dir(oc.URI)), "readback-")
	if err != nil {
		return nil, err
	}
	defer os.RemoveAll(scratch)
	db := dkv.Open(dkv.DBOptions{FileSystem: storage.NewLocalFilesystem(scratch)},
		[]recovery.CheckpointHandle{{CheckpointID: oc.Ckpt, URI: oc.URI}})
	keys = map[string]*KeyState{}
	// an operator checkpoint IS its key-group range of the files it names: after a rescale the tables an
	// operator inherited still hold (stale) entries of key groups that now belong to its neighbours; a
	// restoring operator never sees them (DataOwnership), so the read-back does not either
	lo, hi := 0, keyGroups
	if oc.End > oc.Start {
		lo, hi = oc.Start, oc.End
	}
	for kg := lo; kg < hi; kg++ {
		prefix := []byte{0, 0, 0x00}
		binary.BigEndian.PutUint16(prefix, uint16(kg))
		var scanErr error
		for e := range db.ScanPrefix(prefix, &scanErr) {
			subject, ns, data, derr := decodeStateKey(e.Key())
			if derr != nil {
				return nil, derr
			}
			v, aerr := strconv.Atoi(string(e.Value()))
			if aerr != nil {
				return nil, fmt.Errorf("value %q of %s/%s/%s: %v", e.Value(), subject, ns, data, aerr)
			}
			ks := keys[subject]
			if ks == nil {
				ks = newKeyState()
				keys[subject] = ks
			}
			switch ns {
			case NsCnt:
				ks.Cnt[data] = v
			case NsLast:
				s, _ := strconv.Atoi(data)
				ks.Last[s] = v
			default:
				return nil, fmt.Errorf("unknown namespace %q", ns)
			}
		}
		if scanErr != nil {
			return nil, scanErr
		}
	}
	return keys, nil
}

// decodeStateKey undoes KeyedStateStore.encodeDBKey:
// <key-group:2><schema 0x00><len:4><subject><nslen:1><namespace><data>.
func decodeStateKey(k []byte) (subject, ns, data string, err error) {
	if len(k) < 8 || k[2] != 0x00 {
		return "", "", "", fmt.Errorf("not a keyed-state key: %x", k)
	}
	n := int(binary.BigEndian.Uint32(k[3:7]))
	p := 7
	if p+n+1 > len(k) {
		return "", "", "", fmt.Errorf("short keyed-state key: %x", k)
	}
	subject = string(k[p : p+n])
	p += n
	nl := int(k[p])
	p++
	if p+nl > len(k) {
		return "", "", "", fmt.Errorf("short keyed-state key: %x", k)
	}
	ns = string(k[p : p+nl])
	data = string(k[p+nl:])
	return subject, ns, data, nil
}

// Expected returns the state of the failure-free run over the whole input:
// every record applied exactly once, last[split] = idx of the key's last record of that split.
func Expected(splits [][]Record) map[string]*KeyState {
	out := map[string]*KeyState{}
	for _, sp := range splits {
		for _, r := range sp {
			ks := out[r.Key]
			if ks == nil {
				ks = newKeyState()
				out[r.Key] = ks
			}
			ks.Cnt[r.ID()] = 1
			if r.Idx > ks.Last[r.Split] {
				ks.Last[r.Split] = r.Idx
			}
		}
	}
	return out
}

// ExpectedAt returns the failure-free state after exactly the first
// cursors[s] records of every split s.
func ExpectedAt(splits [][]Record, cursors map[int]int) map[string]*KeyState {
	cut := make([][]Record, len(splits))
	for s, sp := range splits {
		n := cursors[s]
		if n > len(sp) {
			n = len(sp)
		}
		cut[s] = sp[:n]
	}
	return Expected(cut)
}

// PrevSameKey returns the idx of the last record before r in r's split with
// r's key (0 when there is none): the failure-free value of Given.SeenLast.
func PrevSameKey(splits [][]Record, r Record) int {
	prev := 0
	for _, x := range splits[r.Split] {
		if x.Idx >= r.Idx {
			break
		}
		if x.Key == r.Key {
			prev = x.Idx
		}
	}
	return prev
}

// DiffStates describes how got differs from want ("" when equal).
func DiffStates(want, got map[string]*KeyState) string {
	var diffs []string
	keys := map[string]bool{}
	for k := range want {
		keys[k] = true
	}
	for k := range got {
		keys[k] = true
	}
	var ks []string
	for k := range keys {
		ks = append(ks, k)
	}
	sort.Strings(ks)
	for _, k := range ks {
		w, g := want[k], got[k]
		if w == nil {
			w = newKeyState()
		}
		if g == nil {
			g = newKeyState()
		}
		ids := map[string]bool{}
		for id := range w.Cnt {
			ids[id] = true
		}
		for id := range g.Cnt {
			ids[id] = true
		}
		var idl []string
		for id := range ids {
			idl = append(idl, id)
		}
		sort.Strings(idl)
		for _, id := range idl {
			if w.Cnt[id] != g.Cnt[id] {
				diffs = append(diffs, fmt.Sprintf("cnt[%s][%s]=%d want %d", k, id, g.Cnt[id], w.Cnt[id]))
			}
		}
		for s := 0; s < 64; s++ {
			if w.Last[s] != g.Last[s] {
				diffs = append(diffs, fmt.Sprintf("last[%s][%d]=%d want %d", k, s, g.Last[s], w.Last[s]))
			}
		}
	}
	return strings.Join(diffs, "; ")
}

// OpIndexOfID extracts i from an operator id "g<gen>-op<i>".
func OpIndexOfID(id string) int {
	if p := strings.LastIndex(id, "-op"); p >= 0 {
		if i, err := strconv.Atoi(id[p+3:]); err == nil {
			return i
		}
	}
	return -1
}
