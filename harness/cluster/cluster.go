package cluster

import (
	"context"
	"fmt"
	"io"
	"log/slog"
	"os"
	"path/filepath"
	"strings"
	"sync"
	"sync/atomic"
	"time"

	"reduction.dev/reduction-protocol/jobconfigpb"
	"reduction.dev/reduction/batching"
	"reduction.dev/reduction/clocks"
	"reduction.dev/reduction/config"
	"reduction.dev/reduction/connectors"
	"reduction.dev/reduction/jobs"
	"reduction.dev/reduction/proto"
	"reduction.dev/reduction/proto/jobpb"
	"reduction.dev/reduction/workers/operator"
	"reduction.dev/reduction/workers/sourcerunner"
	"verif/harness/gate"
)

// Gate points. Every adapter call goes through exactly one of them; the ones
// listed in Options.Gates park the calling goroutine until the controller
// releases the *Call (gate.Arrival.Args[0]); the others only notify.
const (
	PJobRegisterOp = "job.registerOp" // operator -> job
	PJobRegisterSR = "job.registerSR" // runner -> job
	PJobDeregister = "job.deregister" // worker -> job
	PJobOpAck      = "job.opAck"      // operator -> job: OperatorCheckpointComplete
	PJobSrAck      = "job.srAck"      // runner -> job: SourceRunnerCheckpointComplete
	PJobSplitsDone = "job.splitsFinished"
	PSrDeploy      = "sr.deploy"    // job -> runner
	PSrAssign      = "sr.assign"    // job -> runner: AssignSplits
	PSrStartCkpt   = "sr.startCkpt" // job -> runner: StartCheckpoint
	POpDeploy      = "op.deploy"    // job -> operator
	POpEvent       = "op.event"     // runner -> operator: one event of a HandleEventBatch call
	POpRetain      = "op.retain"    // job -> operator: UpdateRetainedCheckpoints
	POpNeedsTable  = "op.needsTable"
	PStoreWrite    = "store.write"  // job -> job storage
	PStoreRemove   = "store.remove" // job -> job storage
	PStoreRead     = "store.read"   // job -> storage: Read of an operator's DKV checkpoints document while a savepoint artifact is built (never during Boot)
	PSrcRead       = "src.read"     // notification: a reader handed records to its runner
	PHandler       = "handler.process"
	POpTimer       = "op.timer" // notification: the operator's batching timer was armed
)

// Event kinds of a POpEvent call.
const (
	KEvent     = "event"
	KBarrier   = "barrier"
	KWatermark = "watermark"
	KComplete  = "complete"
)

// Call is one adapter call: an observation and, at gated points, a handle the
// controller uses to hold / reorder / fail / drop / duplicate the call.
type Call struct {
	Point  string
	Gen    int
	From   string // "job", "sr<i>", "op<i>"
	To     string // "job", "sr<i>", "op<i>", "store", "handler"
	Kind   string // POpEvent: KEvent | KBarrier | KWatermark | KComplete
	Ckpt   uint64
	Rec    *Record
	Recs   []Record
	Givens []Given
	Path   string
	Cursors map[int]int // PJobSrAck: split cursors carried by the ack; PStoreWrite: cursors of the job checkpoint
	Ids    []uint64
	Msg    any // the protobuf request where there is one

	// Verdict, set by the controller before Release (gated points only).
	Fail error // the adapter returns Fail instead of performing the call
	Drop bool  // the adapter returns nil without performing the call
	Dup  int   // the call is performed 1+Dup times

	Err     error // result, valid once Done is closed
	done    chan struct{}
	entered chan struct{}
}

// Entered is closed when a released call has passed the adapter's checks and is
// about to be performed on the real object (from then on a Kill of the
// destination no longer turns it into an "unavailable" error: it is inside).
func (c *Call) Entered() <-chan struct{} { return c.entered }

// Done is closed when the adapter has finished the call (performed or not).
func (c *Call) Done() <-chan struct{} { return c.done }

func (c *Call) String() string {
	s := fmt.Sprintf("%s[%s->%s", c.Point, c.From, c.To)
	if c.Kind != "" {
		s += " " + c.Kind
	}
	if c.Rec != nil {
		s += " " + c.Rec.ID()
	}
	if c.Ckpt != 0 {
		s += fmt.Sprintf(" ckpt=%d", c.Ckpt)
	}
	return s + "]"
}

// Obs is one entry of the cluster's observation log (Cluster.Log).
type Obs struct {
	Seq     int            `json:"seq"`
	Kind    string         `json:"kind"` // given | read | published | reader.checkpoint | reader.assigned | splitter.start | op.deployed | kill | boot | exit | panic | sink
	Gen     int            `json:"gen"`
	Node    string         `json:"node,omitempty"`
	Givens  []Given        `json:"givens,omitempty"`
	Recs    []Record       `json:"recs,omitempty"`
	Ckpt    uint64         `json:"ckpt,omitempty"`
	Cursors map[int]int    `json:"cursors,omitempty"`
	Dups    []int          `json:"dups,omitempty"`
	Nodes   []string       `json:"nodes,omitempty"`
	Text    string         `json:"text,omitempty"`
	OpCkpts []OpCheckpoint `json:"opCkpts,omitempty"`
	Superseded bool        `json:"superseded,omitempty"` // published: a newer checkpoint was written before this one (the job removes the file again)
}

// OpCheckpoint describes one operator checkpoint of a job checkpoint / deploy request.
type OpCheckpoint struct {
	Ckpt  uint64 `json:"ckpt"`
	Op    string `json:"op"` // label of the operator that took it ("g<gen>-op<i>")
	URI   string `json:"uri"`
	Start int    `json:"start"`
	End   int    `json:"end"`
}

// Options configures a Cluster.
type Options struct {
	Workers   int        // number of workers; a worker is one SourceRunner + one Operator
	KeyGroups int        // job key group count
	Splits    [][]Record // the source: Splits[s] are the records of split s
	Dir       string     // root directory (job snapshots in Dir/job, operator DKVs in Dir/work); default: a fresh temp dir
	Gates     []string   // points that park their caller (default none: free-running)
	OpBatch   int        // operator EventBatching.MaxSize (default 1: every event is processed at once)
	SrBatch   int        // runner EventBatching.MaxSize (default 1: every event is its own HandleEventBatch call)
	OpDelay   time.Duration // operator EventBatching.MaxDelay with a real timer; 0 = harness timer (Cluster.FireOpTimer)
	SrDelay   time.Duration // runner EventBatching.MaxDelay (real timer); 0 = none (requires SrBatch 1)
	AutoRead  bool       // readers hand out records by themselves (else only after PermitRead)
	ReadBatch int        // max records per ReadEvents in AutoRead mode (default 1)
	ReadDelay time.Duration // AutoRead mode: pause before every non-empty read (paces the source)
	Watermarks string    // "drop" (default: watermark events are not delivered to operators), "pass", "gate" (through POpEvent)
	FullGiven bool       // record the complete key state in every Given
	LogCalls  bool       // debugging: log every adapter call ("call" / "return" observations)
	Log       io.Writer  // slog output of the code under test (default: discarded)
	Timeout   time.Duration // boot / wait timeout (default 10s)
	SavepointURI string     // jobs.NewParams.SavepointURI of every generation booted by this cluster ("" = none)
	WorkerProcesses bool    // "op<i>" + "sr<i>" are one process (workers.Worker): when one half ends by itself the other is stopped
}

// Cluster is an in-process reduction cluster: see the package comment.
type Cluster struct {
	opt  Options
	mu   sync.Mutex
	log  []Obs
	gen  *generation
	gens int
	ownDir bool
	OnObs func(Obs) // optional: called (serialised) for every observation
}

// generation is one incarnation of the cluster: one Job + W workers.
type generation struct {
	c       *Cluster
	n       int
	sched   *gate.Sched
	mu      sync.Mutex
	dead    map[string]bool
	retired bool
	storeWG sync.WaitGroup // job-storage writes / removals in progress (retire waits for them: a restart never sees a half-written snapshot)
	pubs, expectRetain, gotRetain int // publications / retention calls expected and finished (see WaitRetention)
	maxPub  uint64 // highest checkpoint id written by (or loaded into) this generation's job
	gone     map[string]bool // nodes whose Start has returned (killed, stopped or died of an error)
	reasm    int             // survivors restarts so far
	stamp    int             // see assemblyNo
	replaced map[string]bool // killed nodes that have been replaced
	deploysSeen int          // Deploy calls the job has made (operators and runners)
	jobEpoch int // incarnation of the job inside this generation (survivors restart with a killed job: +1)
	deployFailed bool // an operator's HandleDeploy returned an error or panicked: the job will never reach "running"
	booting bool // until Boot returns: watermark events are not delivered (an operator still loading its DKV rejects them and the runner dies)
	job     *jobs.Job
	jobClock *Clock
	store   *store
	ops     []*opNode
	srs     []*srNode
	srByID  map[string]int
	opByID  map[string]int
	errChan chan error
}

type opNode struct {
	label string
	id    string
	pos   atomic.Int32 // position (0-based) among the operators of the newest deploy request, -1 before the first
	of    atomic.Int32 // number of operators in that request
	op    *operator.Operator
	clock *Clock
	timer *Timer
	h     *handler
	sink  *sink
	exit  chan error
}

type srNode struct {
	label  string
	id     string
	sr     *sourcerunner.SourceRunner
	clock  *Clock
	mu      sync.Mutex
	reader  *reader // the reader of the newest deployment (cur())
	deploys int
	exit   chan error
}

// cur returns the reader of the runner's newest deployment.
func (n *srNode) cur() *reader {
	n.mu.Lock()
	defer n.mu.Unlock()
	return n.reader
}

// readerForDeploy is the runner's SourceReaderFactory: the first deployment gets the reader created with the
// node, every later one (redeploy in place of a surviving runner) a fresh one; the old reader object keeps
// working for whoever still polls it, like a real connector's would.
func (n *srNode) readerForDeploy(g *generation) *reader {
	n.mu.Lock()
	defer n.mu.Unlock()
	n.deploys++
	if n.deploys > 1 {
		n.reader = newReader(g, n.label)
	}
	return n.reader
}

var setLogOnce sync.Once

// New creates a cluster (nothing runs until Boot).
func New(opt Options) (*Cluster, error) {
	if opt.Workers < 1 || opt.KeyGroups < opt.Workers || len(opt.Splits) == 0 {
		return nil, fmt.Errorf("cluster: need Workers >= 1, KeyGroups >= Workers and at least one split")
	}
	if opt.OpBatch == 0 {
		opt.OpBatch = 1
	}
	if opt.SrBatch == 0 {
		opt.SrBatch = 1
	}
	if opt.SrBatch > 1 && opt.SrDelay == 0 {
		return nil, fmt.Errorf("cluster: SrBatch > 1 needs SrDelay > 0")
	}
	if opt.ReadBatch == 0 {
		opt.ReadBatch = 1
	}
	if opt.Watermarks == "" {
		opt.Watermarks = "drop"
	}
	if opt.Timeout == 0 {
		opt.Timeout = 10 * time.Second
	}
	c := &Cluster{opt: opt}
	if opt.Dir == "" {
		base := ""
		if st, err := os.Stat("/dev/shm"); err == nil && st.IsDir() {
			base = "/dev/shm"
		}
		if b := os.Getenv("VERIF_SHM"); b != "" {
			base = b
		}
		d, err := os.MkdirTemp(base, "verif-cluster-")
		if err != nil {
			return nil, err
		}
		c.opt.Dir = d
		c.ownDir = true
	}
	// the repo logs through the process-global slog default
	setLogOnce.Do(func() {
		w := opt.Log
		if w == nil {
			w = io.Discard
		}
		slog.SetDefault(slog.New(slog.NewTextHandler(w, &slog.HandlerOptions{Level: slog.LevelInfo})))
	})
	return c, nil
}

// Dir returns the cluster's root directory.
func (c *Cluster) Dir() string { return c.opt.Dir }

// Options returns the effective options.
func (c *Cluster) Options() Options { return c.opt }

// Close retires the running generation and removes the directory if the cluster created it.
func (c *Cluster) Close() {
	c.mu.Lock()
	g := c.gen
	c.mu.Unlock()
	if g != nil {
		g.retire()
	}
	dkvDrain() // tuned memtables: flush / compaction tasks of halted operators still write into the directory
	if c.ownDir {
		os.RemoveAll(c.opt.Dir)
	}
}

func (c *Cluster) observe(o Obs) {
	c.mu.Lock()
	o.Seq = len(c.log) + 1
	c.log = append(c.log, o)
	f := c.OnObs
	if f != nil {
		f(o)
	}
	c.mu.Unlock()
}

// Log returns a copy of the observation log from index `from` on.
func (c *Cluster) Log(from int) []Obs {
	c.mu.Lock()
	defer c.mu.Unlock()
	if from > len(c.log) {
		from = len(c.log)
	}
	return append([]Obs(nil), c.log[from:]...)
}

// Givens returns every Given recorded from log index `from` on, in log order.
func (c *Cluster) Givens(from int) []Given {
	var out []Given
	for _, o := range c.Log(from) {
		if o.Kind == "given" {
			out = append(out, o.Givens...)
		}
	}
	return out
}

// Sched returns the scheduler of the running generation (nil before Boot).
func (c *Cluster) Sched() *gate.Sched {
	c.mu.Lock()
	defer c.mu.Unlock()
	if c.gen == nil {
		return nil
	}
	return c.gen.sched
}

// Gen returns the number of the running generation (1 after the first Boot).
func (c *Cluster) Gen() int {
	c.mu.Lock()
	defer c.mu.Unlock()
	if c.gen == nil {
		return 0
	}
	return c.gen.n
}

// ----------------------------------------------------------- generation ----

// beginStoreOp registers a storage operation of this generation's job unless the generation is retired.
func (g *generation) beginStoreOp() bool {
	g.mu.Lock()
	defer g.mu.Unlock()
	if g.retired {
		return false
	}
	g.storeWG.Add(1)
	return true
}

// theJob returns the generation's current jobs.Job (a survivors restart may replace a killed job).
func (g *generation) theJob() *jobs.Job {
	g.mu.Lock()
	defer g.mu.Unlock()
	return g.job
}

// assemblyNo is a stamp that changes when a survivors restart begins and again when it has finished: a call made
// before or during a restart carries another stamp than the assembly that runs afterwards.
func (g *generation) assemblyNo() int {
	g.mu.Lock()
	defer g.mu.Unlock()
	return g.stamp
}

func (g *generation) bumpStamp() {
	g.mu.Lock()
	g.stamp++
	g.mu.Unlock()
}

func (g *generation) epochOfJob() int {
	g.mu.Lock()
	defer g.mu.Unlock()
	return g.jobEpoch
}

func (g *generation) clockOfJob() *Clock {
	g.mu.Lock()
	defer g.mu.Unlock()
	return g.jobClock
}

func (g *generation) isDead(label string) bool {
	g.mu.Lock()
	defer g.mu.Unlock()
	return g.dead[label]
}

func (g *generation) isBooting() bool {
	g.mu.Lock()
	defer g.mu.Unlock()
	return g.booting
}

func (g *generation) isRetired() bool {
	g.mu.Lock()
	defer g.mu.Unlock()
	return g.retired
}

func (g *generation) srIndex(id string) int {
	g.mu.Lock()
	defer g.mu.Unlock()
	if i, ok := g.srByID[id]; ok {
		return i
	}
	return 1 << 30
}

func (g *generation) opIndex(id string) int {
	g.mu.Lock()
	defer g.mu.Unlock()
	if i, ok := g.opByID[id]; ok {
		return i
	}
	return -1
}

// label maps a node id (operator id, runner ksuid, "job") to its harness label.
func (g *generation) label(id string) string {
	if id == "job" {
		return "job"
	}
	g.mu.Lock()
	defer g.mu.Unlock()
	if i, ok := g.srByID[id]; ok {
		return fmt.Sprintf("sr%d", i)
	}
	if i, ok := g.opByID[id]; ok {
		return fmt.Sprintf("op%d", i)
	}
	return "?" + id
}

var (
	errZombie  = fmt.Errorf("cluster: caller is dead")
	errRetired = fmt.Errorf("cluster: generation retired")
)

// call runs one adapter call through its gate point. do performs the call on
// the real object.
func (g *generation) call(c *Call, do func() error) (err error) {
	c.Gen = g.n
	c.done = make(chan struct{})
	c.entered = make(chan struct{})
	epoch := g.epochOfJob()
	defer func() {
		c.Err = err
		close(c.done)
		if g.c.opt.LogCalls {
			g.c.observe(Obs{Kind: "return", Gen: g.n, Node: c.To, Text: c.String() + " err=" + errText(err)})
		}
	}()
	if g.c.opt.LogCalls {
		g.c.observe(Obs{Kind: "call", Gen: g.n, Node: c.To, Text: c.String()})
	}
	if g.isRetired() {
		return errRetired
	}
	if g.isDead(c.From) {
		return errZombie // a dead process sends nothing
	}
	g.sched.At(c.Point, c)
	if g.isRetired() {
		return errRetired
	}
	if c.Fail != nil {
		return c.Fail
	}
	if c.Drop {
		return nil
	}
	if g.isDead(c.To) {
		return fmt.Errorf("cluster: %s is unavailable (killed)", c.To)
	}
	if (c.To == "job" || c.From == "job") && g.epochOfJob() != epoch {
		// the call was addressed to (made by) the job process that has been replaced since
		return fmt.Errorf("cluster: the job this call belongs to is gone (killed)")
	}
	close(c.entered)
	for i := 0; i <= c.Dup; i++ {
		err = g.protect(c, do)
	}
	return err
}

// protect converts a panic of the code under test that unwinds through the
// adapter into an error + "panic" observation.
func (g *generation) protect(c *Call, do func() error) (err error) {
	defer func() {
		if r := recover(); r != nil {
			err = fmt.Errorf("panic in %s: %v", c, r)
			g.c.observe(Obs{Kind: "panic", Gen: g.n, Node: c.To, Text: fmt.Sprint(r)})
		}
		if err != nil && c.Point == POpDeploy {
			g.mu.Lock()
			g.deployFailed = true
			g.mu.Unlock()
		}
	}()
	return do()
}

func (g *generation) retire() {
	g.mu.Lock()
	if g.retired {
		g.mu.Unlock()
		return
	}
	g.retired = true
	g.mu.Unlock()
	// a snapshot write of this generation's job that is already in progress completes first:
	// locations.LocalDirectory.Write is not atomic (create + copy) and a new Job that lists the
	// directory meanwhile would load a truncated file (atomicity of publication is C13's subject)
	wgDone := make(chan struct{})
	go func() { g.storeWG.Wait(); close(wgDone) }()
	select {
	case <-wgDone:
	case <-time.After(2 * time.Second):
	}
	for _, n := range g.srs {
		n.sr.Halt()
	}
	for _, n := range g.ops {
		n.op.Halt()
	}
	g.sched.FreeRun()
}

// ErrBootTimeout is wrapped by Boot / Restart when the cluster did not come up in time (machinery, not a verdict).
var ErrBootTimeout = fmt.Errorf("cluster: boot timed out")

// Boot starts a generation: a new jobs.Job over the cluster's storage
// (restoring from the newest job snapshot present) and Workers fresh workers,
// and waits until the job is running: every runner has been assigned its
// splits and the checkpoint ticker is registered. It returns the id of the
// checkpoint the job restored from (0 = none).
func (c *Cluster) Boot() (restored uint64, err error) {
	c.mu.Lock()
	if c.gen != nil && !c.gen.isRetired() {
		c.mu.Unlock()
		return 0, fmt.Errorf("cluster: generation %d still running (use Restart)", c.gen.n)
	}
	c.gens++
	g := &generation{c: c, n: c.gens, sched: gate.New(c.opt.Gates...), dead: map[string]bool{}, booting: true,
		srByID: map[string]int{}, opByID: map[string]int{}, errChan: make(chan error, 16)}
	c.gen = g
	c.mu.Unlock()
	if len(c.opt.Gates) == 0 {
		g.sched.FreeRun()
	}

	if err := g.newJob(); err != nil {
		g.retire()
		return 0, err
	}
	restored = g.store.loadedID()
	c.observe(Obs{Kind: "boot", Gen: g.n, Ckpt: restored})

	for i := 0; i < c.opt.Workers; i++ {
		g.addOperator(fmt.Sprintf("g%02d-op%d", g.n, i))
	}
	for i := 0; i < c.opt.Workers; i++ {
		g.addRunner()
	}
	for _, n := range g.ops {
		g.startOperator(n)
	}
	for _, n := range g.srs {
		g.startRunner(n)
	}
	return restored, g.awaitRunning(g.srs, 0)
}

// newJob creates this generation's jobs.Job (and its storage adapter) over the cluster's job directory.
func (g *generation) newJob() error {
	c := g.c
	store := newStore(g, filepath.Join(c.opt.Dir, "job"))
	clock := NewClock()
	g.mu.Lock()
	g.store, g.jobClock = store, clock
	g.mu.Unlock()
	cfg := &config.Config{
		WorkerCount:            c.opt.Workers,
		KeyGroupCount:          c.opt.KeyGroups,
		WorkingStorageLocation: filepath.Join(c.opt.Dir, "work"),
		Sources:                []connectors.SourceConfig{&source{g: g}},
	}
	var job *jobs.Job
	if err := g.protect(&Call{Point: "jobs.New"}, func() error {
		var e error
		job, e = jobs.New(&jobs.NewParams{
			JobConfig: cfg,
			SavepointURI: c.opt.SavepointURI,
			Clock:     clock,
			Store:     store,
			ErrChan:   g.errChan,
			OperatorFactory: func(senderID string, node *jobpb.NodeIdentity) proto.Operator {
				return &opClient{g: g, from: g.label(senderID), senderID: senderID, node: node}
			},
			SourceRunnerFactory: func(node *jobpb.NodeIdentity) proto.SourceRunner {
				return &srClient{g: g, node: node}
			},
		})
		return e
	}); err != nil {
		return err
	}
	g.mu.Lock()
	g.job = job
	g.mu.Unlock()
	return nil
}

// addOperator creates (does not start) the next operator node: label "op<i>" with i its index in g.ops
// (its identity for the whole life of the cluster generation), repo-level id `id`.
func (g *generation) addOperator(id string) *opNode {
	c := g.c
	i := len(g.ops)
	on := &opNode{label: fmt.Sprintf("op%d", i), id: id, clock: NewClock(), exit: make(chan error, 1)}
	on.pos.Store(-1)
	on.h = &handler{g: g, label: on.label, node: on}
	on.sink = &sink{g: g, label: on.label}
	ob := batching.EventBatcherParams{MaxSize: c.opt.OpBatch}
	if c.opt.OpBatch > 1 {
		if c.opt.OpDelay > 0 {
			ob.MaxDelay = c.opt.OpDelay
		} else {
			on.timer = &Timer{g: g, label: on.label}
			ob.MaxDelay = time.Hour
			ob.Timer = on.timer
		}
	}
	on.op = operator.NewOperator(operator.NewOperatorParams{
		ID: on.id, Host: on.label, Job: &jobClient{g: g, from: on.label}, UserHandler: on.h, Clock: on.clock,
		EventBatching: ob,
		NeighborOperatorFactory: func(senderID string, node *jobpb.NodeIdentity) proto.Operator {
			return &opClient{g: g, from: g.label(senderID), senderID: senderID, node: node}
		},
	})
	g.mu.Lock()
	g.opByID[on.id] = i
	g.ops = append(g.ops, on)
	g.mu.Unlock()
	return on
}

// addRunner creates (does not start) the next source runner node, label "sr<i>". Every deployment of the
// runner gets a fresh reader (like connectors.SourceConfig.NewSourceReader); srNode.cur() is the newest.
func (g *generation) addRunner() *srNode {
	c := g.c
	i := len(g.srs)
	sn := &srNode{label: fmt.Sprintf("sr%d", i), clock: NewClock(), exit: make(chan error, 1)}
	sn.reader = newReader(g, sn.label)
	sb := batching.EventBatcherParams{MaxSize: c.opt.SrBatch, MaxDelay: c.opt.SrDelay}
	sn.sr = sourcerunner.New(sourcerunner.NewParams{
		Host: sn.label, UserHandler: &handler{g: g, label: sn.label}, Job: &jobClient{g: g, from: sn.label}, Clock: sn.clock,
		OperatorFactory: func(senderID string, node *jobpb.NodeIdentity) proto.Operator {
			return &opClient{g: g, from: g.label(senderID), senderID: senderID, node: node}
		},
		SourceReaderFactory: func(*jobconfigpb.Source) connectors.SourceReader { return sn.readerForDeploy(g) },
		EventBatching:       sb,
	})
	sn.id = sn.sr.ID
	g.mu.Lock()
	g.srByID[sn.id] = i
	g.srs = append(g.srs, sn)
	g.mu.Unlock()
	return sn
}

func (g *generation) startOperator(n *opNode) {
	go func() {
		err := n.op.Start(context.Background())
		g.c.observe(Obs{Kind: "exit", Gen: g.n, Node: n.label, Text: errText(err)})
		g.exited(n.label)
		n.exit <- err
	}()
}

func (g *generation) startRunner(n *srNode) {
	go func() {
		err := n.sr.Start(context.Background())
		g.c.observe(Obs{Kind: "exit", Gen: g.n, Node: n.label, Text: errText(err)})
		g.exited(n.label)
		n.exit <- err
	}()
}

// exited: node `label` ("op<i>" / "sr<i>") returned from Start. With Options.WorkerProcesses a worker is one
// process like workers.Worker (an errgroup over both halves): when one half ends by itself the other is
// stopped gracefully (it deregisters), and the worker counts as gone for the next survivors restart.
func (g *generation) exited(label string) {
	g.mu.Lock()
	if g.gone == nil {
		g.gone = map[string]bool{}
	}
	g.gone[label] = true
	couple := g.c.opt.WorkerProcesses && !g.retired && !g.dead[label]
	var op *opNode
	var sr *srNode
	if couple {
		var i int
		if _, err := fmt.Sscanf(label, "sr%d", &i); err == nil && i < len(g.ops) {
			op = g.ops[i]
		} else if _, err := fmt.Sscanf(label, "op%d", &i); err == nil && i < len(g.srs) {
			sr = g.srs[i]
		}
	}
	g.mu.Unlock()
	if op != nil {
		op.op.Stop()
	}
	if sr != nil {
		sr.sr.Stop()
	}
}

// awaitRunning waits until the job runs an assembly: the newest reader of every runner in `runners` has been
// assigned its splits and the checkpoint ticker has been registered more than `tickers` times.
func (g *generation) awaitRunning(runners []*srNode, tickers int) error {
	c := g.c
	deadline := time.Now().Add(c.opt.Timeout)
	for _, n := range runners {
		for waiting := true; waiting; {
			select {
			case <-n.cur().ready:
				waiting = false
			case <-time.After(2 * time.Millisecond):
				g.mu.Lock()
				failed := g.deployFailed
				g.mu.Unlock()
				if failed || time.Now().After(deadline) {
					// (a failed operator deploy: jobs.Job logs "failed to start job" and waits for ever)
					return fmt.Errorf("%w: generation %d waiting for split assignment of %s (log: %s)", ErrBootTimeout, g.n, n.label, c.tail(12))
				}
			}
		}
	}
	if !g.clockOfJob().WaitLabelCount("checkpointing", tickers+1, time.Until(deadline)) {
		return fmt.Errorf("%w: generation %d waiting for the checkpoint ticker", ErrBootTimeout, g.n)
	}
	g.mu.Lock()
	g.booting = false
	g.mu.Unlock()
	return nil
}

func errText(err error) string {
	if err == nil {
		return ""
	}
	return err.Error()
}

func (c *Cluster) tail(n int) string {
	l := c.Log(0)
	if len(l) > n {
		l = l[len(l)-n:]
	}
	var sb strings.Builder
	for _, o := range l {
		fmt.Fprintf(&sb, "{%s %s %s} ", o.Kind, o.Node, o.Text)
	}
	return sb.String()
}

// Kill abruptly stops nodes of the running generation: "job", "w<i>" (runner
// and operator of worker i), "sr<i>" or "op<i>". A killed node's goroutines
// are halted (SourceRunner.Halt / Operator.Halt: no deregistration) and
// isolated: calls it still makes are dropped, calls to it fail, storage writes
// of a killed job are not performed. Calls of the node that are parked at a
// gate at this moment are messages in flight: the controller decides whether
// to deliver (Release) or lose (Drop) them.
func (c *Cluster) Kill(nodes ...string) {
	g := c.cur()
	var labels []string
	for _, n := range nodes {
		if strings.HasPrefix(n, "w") {
			labels = append(labels, "sr"+n[1:], "op"+n[1:])
		} else {
			labels = append(labels, n)
		}
	}
	g.mu.Lock()
	for _, l := range labels {
		g.dead[l] = true
	}
	g.mu.Unlock()
	c.observe(Obs{Kind: "kill", Gen: g.n, Nodes: labels})
	for _, l := range labels {
		for _, n := range g.srs {
			if n.label == l {
				n.sr.Halt()
			}
		}
		for _, n := range g.ops {
			if n.label == l {
				n.op.Halt()
			}
		}
	}
}

// Restart retires whatever is left of the running generation (every parked
// call is released and fails) and boots a new one over the same storage.
func (c *Cluster) Restart() (restored uint64, err error) {
	g := c.cur()
	g.retire()
	return c.Boot()
}

func (c *Cluster) cur() *generation {
	c.mu.Lock()
	defer c.mu.Unlock()
	if c.gen == nil {
		panic("cluster: not booted")
	}
	return c.gen
}

// TickCheckpoint fires the job's checkpoint ticker (the job creates a
// checkpoint unless one is pending and sends StartCheckpoint to every runner).
// It returns when the job's tick function returns, i.e. after every
// StartCheckpoint call has returned; use `go` when PSrStartCkpt is gated.
func (c *Cluster) TickCheckpoint() { c.cur().clockOfJob().Tick("checkpointing") }

// TickCheckpointTimeout is TickCheckpoint on its own goroutine; it reports
// whether the tick function returned within d (a StartCheckpoint call to a
// runner whose event loop has died blocks for ever).
func (c *Cluster) TickCheckpointTimeout(d time.Duration) bool {
	done := make(chan struct{})
	go func() { c.TickCheckpoint(); close(done) }()
	select {
	case <-done:
		return true
	case <-time.After(d):
		return false
	}
}

// WaitRetention waits until every UpdateRetainedCheckpoints call that the
// job's publications so far entail has finished on the live operators (the
// job sends retained=[n] after writing checkpoint n when it had an older one).
// Start no new checkpoint before this returns true: RetainOnly drops every DKV
// checkpoint not named, including a newer one taken meanwhile (DESIGN 7 #28),
// which makes the next job checkpoint unrestorable.
func (c *Cluster) WaitRetention(d time.Duration) bool {
	g := c.cur()
	deadline := time.Now().Add(d)
	for {
		g.mu.Lock()
		ok := g.gotRetain >= g.expectRetain
		g.mu.Unlock()
		if ok {
			return true
		}
		if time.Now().After(deadline) {
			return false
		}
		time.Sleep(100 * time.Microsecond)
	}
}

// PermitRead lets runner `sr` ("sr<i>") read the next n records of `split` on
// one of its next ReadEvents calls (manual mode).
func (c *Cluster) PermitRead(sr string, split, n int) error {
	g := c.cur()
	for _, s := range g.srs {
		if s.label == sr {
			s.cur().permit(split, n)
			return nil
		}
	}
	return fmt.Errorf("no runner %s", sr)
}

// SetAutoRead switches every reader of the running generation between manual and automatic reading.
func (c *Cluster) SetAutoRead(on bool) {
	for _, s := range c.cur().srs {
		s.cur().setAuto(on)
	}
}

// ReaderCursors returns the live cursor of every split (records read so far) as
// known to the readers of the running generation.
func (c *Cluster) ReaderCursors() map[int]int {
	out := map[int]int{}
	_, srs := c.cur().live() // (after a survivors restart the generation also holds the runners that were replaced)
	for _, s := range srs {
		for k, v := range s.cur().cursors() {
			out[k] = v
		}
	}
	return out
}

// SplitOwner returns the runner label that reads split s in every generation.
func (c *Cluster) SplitOwner(s int) string { return fmt.Sprintf("sr%d", s%c.opt.Workers) }

// FireOpTimer fires the batching timer of operator `op` if it is armed
// (OpBatch > 1 with the harness timer) and reports whether it was.
func (c *Cluster) FireOpTimer(op string) bool {
	for _, n := range c.cur().ops {
		if n.label == op && n.timer != nil {
			return n.timer.Fire()
		}
	}
	return false
}

// OpTimerArmed reports whether the harness batching timer of `op` is armed.
func (c *Cluster) OpTimerArmed(op string) bool {
	for _, n := range c.cur().ops {
		if n.label == op && n.timer != nil {
			return n.timer.Armed()
		}
	}
	return false
}

// Errors drains the job's error channel.
func (c *Cluster) Errors() []error {
	g := c.cur()
	var out []error
	for {
		select {
		case e := <-g.errChan:
			out = append(out, e)
		default:
			return out
		}
	}
}

// Published returns the job checkpoints written to the job storage so far (all generations), in write order.
func (c *Cluster) Published() []Obs {
	var out []Obs
	for _, o := range c.Log(0) {
		if o.Kind == "published" {
			out = append(out, o)
		}
	}
	return out
}

// WaitObs waits until pred holds for some observation at index >= from and returns its index+1.
func (c *Cluster) WaitObs(from int, d time.Duration, pred func(Obs) bool) (next int, ok bool) {
	deadline := time.Now().Add(d)
	for {
		l := c.Log(from)
		for i, o := range l {
			if pred(o) {
				return from + i + 1, true
			}
		}
		if time.Now().After(deadline) {
			return from + len(l), false
		}
		time.Sleep(200 * time.Microsecond)
	}
}

// ------------------------------------------------------------------ clock ----

// Clock is a frozen clocks.Clock whose tickers fire only through Tick.
type Clock struct {
	*clocks.FrozenClock
	mu  sync.Mutex
	fns map[string]func(*clocks.EveryContext)
	cnt map[string]int // registrations per label
}

func NewClock() *Clock {
	return &Clock{FrozenClock: clocks.NewFrozenClock(), fns: map[string]func(*clocks.EveryContext){}, cnt: map[string]int{}}
}

func (c *Clock) Every(d time.Duration, fn func(*clocks.EveryContext), label string) *clocks.Ticker {
	c.mu.Lock()
	c.fns[label] = fn
	c.cnt[label]++
	c.mu.Unlock()
	return c.FrozenClock.Every(d, fn, label)
}

// Tick calls the function registered under label (no lock held) and reports whether there was one.
func (c *Clock) Tick(label string) bool {
	c.mu.Lock()
	fn := c.fns[label]
	c.mu.Unlock()
	if fn == nil {
		return false
	}
	fn(&clocks.EveryContext{})
	return true
}

// WaitLabel waits until a ticker has been registered under label.
func (c *Clock) WaitLabel(label string, d time.Duration) bool {
	deadline := time.Now().Add(d)
	for {
		c.mu.Lock()
		_, ok := c.fns[label]
		c.mu.Unlock()
		if ok {
			return true
		}
		if time.Now().After(deadline) {
			return false
		}
		time.Sleep(100 * time.Microsecond)
	}
}

// LabelCount returns how often a ticker has been registered under label.
func (c *Clock) LabelCount(label string) int {
	c.mu.Lock()
	defer c.mu.Unlock()
	return c.cnt[label]
}

// WaitLabelCount waits until a ticker has been registered under label at least n times.
func (c *Clock) WaitLabelCount(label string, n int, d time.Duration) bool {
	deadline := time.Now().Add(d)
	for c.LabelCount(label) < n {
		if time.Now().After(deadline) {
			return false
		}
		time.Sleep(100 * time.Microsecond)
	}
	return true
}

var _ clocks.Clock = (*Clock)(nil)

// Timer is a harness clocks.Timer (operator event batching): expiry is an explicit Fire.
type Timer struct {
	g     *generation
	label string
	mu    sync.Mutex
	do    func()
}

func (t *Timer) Set(_ time.Duration, do func()) {
	t.mu.Lock()
	t.do = do
	t.mu.Unlock()
	t.g.sched.At(POpTimer, &Call{Point: POpTimer, Gen: t.g.n, From: t.label, To: t.label})
}
func (t *Timer) Stop() { t.mu.Lock(); t.do = nil; t.mu.Unlock() }
func (t *Timer) Armed() bool {
	t.mu.Lock()
	defer t.mu.Unlock()
	return t.do != nil
}

// Fire runs the armed callback on a new goroutine (it blocks until the operator's event loop receives the token).
func (t *Timer) Fire() bool {
	t.mu.Lock()
	do := t.do
	t.do = nil
	t.mu.Unlock()
	if do == nil {
		return false
	}
	go do()
	return true
}

var _ clocks.Timer = (*Timer)(nil)
