package cluster

import (
	"context"
	"fmt"
	"sort"
	"strconv"

	"reduction.dev/reduction-protocol/handlerpb"
	"reduction.dev/reduction/proto"
)

// State namespaces written by the reference handler.
const (
	NsCnt  = "cnt"  // entry key = record id ("<split>:<idx>"), value = decimal count
	NsLast = "last" // entry key = decimal split, value = decimal idx of the last record applied
)

// KeyState is the reference handler's view of one key's state.
type KeyState struct {
	Cnt  map[string]int `json:"cnt"`  // record id -> times applied
	Last map[int]int    `json:"last"` // split -> idx of the last record of that split applied to this key
}

func newKeyState() *KeyState { return &KeyState{Cnt: map[string]int{}, Last: map[int]int{}} }

// Given is what the handler was handed for one event: the state of the
// event's key as the operator supplied it (plus the effect of earlier events
// of the same batch, which the handler applies itself like the SDKs do).
type Given struct {
	Op       string `json:"op"`
	Rec      Record `json:"rec"`
	SeenCnt  int    `json:"seenCnt"`  // cnt[rec] before applying it (failure-free value: 0)
	SeenLast int    `json:"seenLast"` // last[rec.Split] of rec.Key before applying it
	Batch    int    `json:"batch"`    // per-operator sequence number of the ProcessEventBatch call
	BatchLen int    `json:"batchLen"`
	Full     *KeyState `json:"full,omitempty"` // the complete state of the key as given (before this event)
	Pos      int       `json:"pos"`            // position (0-based) of the operator in the assembly it was last deployed in ...
	Of       int       `json:"of"`             // ... and the number of operators of that assembly: Pos's key-group range is the operator's
}

// handler is the reference proto.Handler of one node.
type handler struct {
	g     *generation
	label string
	node  *opNode // operators only: where the node's current position comes from
	nproc int
}

func decodeKeyState(ks *handlerpb.KeyState) (*KeyState, error) {
	st := newKeyState()
	for _, ns := range ks.StateEntryNamespaces {
		for _, e := range ns.Entries {
			v, err := strconv.Atoi(string(e.Value))
			if err != nil {
				return nil, fmt.Errorf("state value %q of %s/%s: %v", e.Value, ns.Namespace, e.Key, err)
			}
			switch ns.Namespace {
			case NsCnt:
				st.Cnt[string(e.Key)] = v
			case NsLast:
				s, err := strconv.Atoi(string(e.Key))
				if err != nil {
					return nil, err
				}
				st.Last[s] = v
			default:
				return nil, fmt.Errorf("unknown namespace %q", ns.Namespace)
			}
		}
	}
	return st, nil
}

func (st *KeyState) clone() *KeyState {
	c := newKeyState()
	for k, v := range st.Cnt {
		c.Cnt[k] = v
	}
	for k, v := range st.Last {
		c.Last[k] = v
	}
	return c
}

// ProcessEventBatch: for event e of key k: cnt[e] += 1 and last[split(e)] = idx(e),
// recording the state it was given for every event.
func (h *handler) ProcessEventBatch(ctx context.Context, req *handlerpb.ProcessEventBatchRequest) (*handlerpb.ProcessEventBatchResponse, error) {
	if h.g.isDead(h.label) || h.g.isRetired() {
		return nil, fmt.Errorf("cluster: handler of dead node %s", h.label)
	}
	h.nproc++
	local := map[string]*KeyState{}
	for _, ks := range req.KeyStates {
		st, err := decodeKeyState(ks)
		if err != nil {
			return nil, err
		}
		if _, dup := local[string(ks.Key)]; dup {
			return nil, fmt.Errorf("key %q given twice in one batch", ks.Key)
		}
		local[string(ks.Key)] = st
	}
	dirtyCnt := map[string]map[string]bool{}
	dirtyLast := map[string]map[int]bool{}
	var givens []Given
	for _, ev := range req.Events {
		ke := ev.GetKeyedEvent()
		if ke == nil {
			continue // timers are not used by the reference handler
		}
		rec, err := DecodeRecord(ke.Value)
		if err != nil {
			return nil, err
		}
		st := local[string(ke.Key)]
		if st == nil {
			return nil, fmt.Errorf("no KeyState supplied for key %q", ke.Key)
		}
		gv := Given{Op: h.label, Rec: rec, SeenCnt: st.Cnt[rec.ID()], SeenLast: st.Last[rec.Split], Batch: h.nproc, BatchLen: len(req.Events)}
		if h.node != nil {
			gv.Pos, gv.Of = int(h.node.pos.Load()), int(h.node.of.Load())
		}
		if h.g.c.opt.FullGiven {
			gv.Full = st.clone()
		}
		givens = append(givens, gv)
		st.Cnt[rec.ID()]++
		st.Last[rec.Split] = rec.Idx
		if dirtyCnt[rec.Key] == nil {
			dirtyCnt[rec.Key] = map[string]bool{}
			dirtyLast[rec.Key] = map[int]bool{}
		}
		dirtyCnt[rec.Key][rec.ID()] = true
		dirtyLast[rec.Key][rec.Split] = true
	}
	h.g.c.observe(Obs{Kind: "given", Gen: h.g.n, Node: h.label, Givens: givens})
	h.g.sched.At("handler.process", &Call{Point: "handler.process", Gen: h.g.n, From: h.label, To: "handler", Givens: givens})
	if h.g.isDead(h.label) || h.g.isRetired() {
		return nil, fmt.Errorf("cluster: handler of dead node %s", h.label)
	}
	resp := &handlerpb.ProcessEventBatchResponse{}
	keys := make([]string, 0, len(dirtyCnt))
	for k := range dirtyCnt {
		keys = append(keys, k)
	}
	sort.Strings(keys)
	for _, k := range keys {
		st := local[k]
		cnt := &handlerpb.StateMutationNamespace{Namespace: NsCnt}
		for id := range dirtyCnt[k] {
			cnt.Mutations = append(cnt.Mutations, put([]byte(id), st.Cnt[id]))
		}
		last := &handlerpb.StateMutationNamespace{Namespace: NsLast}
		for s := range dirtyLast[k] {
			last.Mutations = append(last.Mutations, put([]byte(strconv.Itoa(s)), st.Last[s]))
		}
		resp.KeyResults = append(resp.KeyResults, &handlerpb.KeyResult{
			Key: []byte(k), StateMutationNamespaces: []*handlerpb.StateMutationNamespace{cnt, last},
		})
	}
	return resp, nil
}

func put(key []byte, v int) *handlerpb.StateMutation {
	return &handlerpb.StateMutation{Mutation: &handlerpb.StateMutation_Put{Put: &handlerpb.PutMutation{Key: key, Value: []byte(strconv.Itoa(v))}}}
}

func (h *handler) KeyEventBatch(ctx context.Context, events [][]byte) ([][]*handlerpb.KeyedEvent, error) {
	return keyEvents(events)
}

var _ proto.Handler = (*handler)(nil)
