package cluster

import (
	"encoding/json"
	"fmt"
	"math"
	"os"
	"sync"
	"sync/atomic"
	"time"

	"reduction.dev/reduction/partitioning"
	"reduction.dev/reduction/util/verifhook"
)

// ------------------------------------------------------- rescale at recovery ----

// SetWorkers changes the worker count of the NEXT generation (Boot / Restart):
// the new Job is configured with WorkerCount n, n fresh runners and operators
// register, the key space is cut into n ranges and the harness splitter assigns
// split s to runner s mod n. The running generation is not affected.
func (c *Cluster) SetWorkers(n int) error {
	c.mu.Lock()
	defer c.mu.Unlock()
	if n < 1 || n > c.opt.KeyGroups {
		return fmt.Errorf("cluster: need 1 <= workers <= KeyGroups, got %d", n)
	}
	c.opt.Workers = n
	return nil
}

// GenWorkers returns the worker count of the running generation.
func (c *Cluster) GenWorkers() int { return len(c.cur().ops) }

// KeyInGroup returns the n-th (0-based) key of the form "k<i>" that the repo's
// key space places in key group g (0-based) of keyGroups. The operator owning it
// under any worker count follows from partitioning.KeySpace.
func KeyInGroup(keyGroups, g, n int) string {
	ks := partitioning.NewKeySpace(keyGroups, 1)
	for i := 0; ; i++ {
		k := fmt.Sprintf("k%d", i)
		if int(ks.KeyGroup([]byte(k))) == g {
			if n == 0 {
				return k
			}
			n--
		}
	}
}

// ------------------------------------------------- DKV under the operators ----

// DkvTune overrides dkv's hard-coded sizes (verif build tag, verifhook.Tune) for
// every dkv.DB opened from now on in this process: the operators' databases of
// the next generation and the read-back copies. Zero fields keep the default.
type DkvTune struct {
	MemTable      int64 // dkv.memTableSize: a memtable is sealed and flushed once it holds more bytes
	SmallestLevel int64 // dkv.smallestLevelSize: level i is merged into level i+1 once it holds more than i times this
	MaxSizeAmpPct int64 // dkv.maxSizeAmpPct: size amplification above which a compaction is a major one (-1: always, MaxInt64: never)
	// SwapDelay > 0: every flush / compaction task pauses for a pseudo-random time below this before it swaps its
	// result in (hooks dkv.flush.swap / dkv.compact.swap, outside db.mu): sealed memtables and flushes in flight stay
	// around while the operators go on (the tasks of all databases of the process run on two serial queues, so this
	// slows all of them)
	SwapDelay time.Duration
}

// DkvStats counts background work of every dkv.DB of this process.
type DkvStats struct {
	FlushStarted int64 `json:"flushStarted"` // flush tasks started (one per memtable rotation)
	Flushed      int64 `json:"flushed"`      // flush swaps: sealed memtables became L0 tables
	Compactions  int64 `json:"compactions"`  // compaction swaps (one per compaction step that changed the level list)
	CompactLoops int64 `json:"compactLoops"` // compaction loops finished (one per flush)
}

var dkvHook struct {
	once      sync.Once
	mu        sync.Mutex
	installed bool
	jitter    int64
	tune      DkvTune
	stats     DkvStats
}

// NeverMajor is the DkvTune.MaxSizeAmpPct value under which no compaction is a major one.
const NeverMajor = math.MaxInt64

// InstallDkvTune installs the process-wide verifhook handler (idempotent) and sets the tuning.
func InstallDkvTune(t DkvTune) {
	dkvHook.once.Do(func() {
		verifhook.Install(func(point string, args ...any) {
			switch point {
			case "dkv.flush.swap", "dkv.compact.swap":
				dkvHook.mu.Lock()
				d := dkvHook.tune.SwapDelay
				dkvHook.mu.Unlock()
				if d > 0 {
					n := uint64(atomic.AddInt64(&dkvHook.jitter, 1)) * 0x9E3779B97F4A7C15
					time.Sleep(time.Duration((n >> 33) % uint64(d)))
				}
			case "dkv.flush.start":
				atomic.AddInt64(&dkvHook.stats.FlushStarted, 1)
			case "dkv.flush.swapped":
				atomic.AddInt64(&dkvHook.stats.Flushed, 1)
			case "dkv.compact.swapped":
				atomic.AddInt64(&dkvHook.stats.Compactions, 1)
			case "dkv.compact.done":
				atomic.AddInt64(&dkvHook.stats.CompactLoops, 1)
			}
		}, func(name string, def int64) int64 {
			dkvHook.mu.Lock()
			t := dkvHook.tune
			dkvHook.mu.Unlock()
			switch name {
			case "dkv.memTableSize":
				if t.MemTable != 0 {
					return t.MemTable
				}
			case "dkv.smallestLevelSize":
				if t.SmallestLevel != 0 {
					return t.SmallestLevel
				}
			case "dkv.maxSizeAmpPct":
				if t.MaxSizeAmpPct != 0 {
					return t.MaxSizeAmpPct
				}
			}
			return def
		})
	})
	dkvHook.mu.Lock()
	dkvHook.tune = t
	dkvHook.installed = true
	dkvHook.mu.Unlock()
}

// DkvCounters returns the counters since process start.
func DkvCounters() DkvStats {
	return DkvStats{
		FlushStarted: atomic.LoadInt64(&dkvHook.stats.FlushStarted),
		Flushed:      atomic.LoadInt64(&dkvHook.stats.Flushed),
		Compactions:  atomic.LoadInt64(&dkvHook.stats.Compactions),
		CompactLoops: atomic.LoadInt64(&dkvHook.stats.CompactLoops),
	}
}

// DkvQuiet waits up to d until every flush task that started has finished its
// compaction loop (flushes and compactions of all databases of the process run
// on two process-wide queues) and reports whether that happened.
func DkvQuiet(d time.Duration) bool {
	deadline := time.Now().Add(d)
	for {
		s := DkvCounters()
		if s.CompactLoops >= s.FlushStarted {
			return true
		}
		if time.Now().After(deadline) {
			return false
		}
		time.Sleep(50 * time.Microsecond)
	}
}

// dkvDrain waits (when the tuning hook is installed) until the background work of every database of the
// process has been quiet for a moment: halted operators may still finish the event they were processing.
func dkvDrain() {
	dkvHook.mu.Lock()
	on := dkvHook.installed
	dkvHook.mu.Unlock()
	if !on {
		return
	}
	for i := 0; i < 3; i++ {
		DkvQuiet(5 * time.Second)
		before := DkvCounters().FlushStarted
		time.Sleep(2 * time.Millisecond)
		if DkvCounters().FlushStarted == before && DkvQuiet(0) {
			return
		}
	}
}

// CkptShape describes what one operator DKV checkpoint consists of.
type CkptShape struct {
	L0Tables   int   `json:"l0"`     // tables in level 0
	DeepTables int   `json:"deep"`   // tables below level 0 (output of compactions)
	WALs       int   `json:"wals"`   // WAL files to replay
	WALBytes   int64 `json:"walLen"` // their total size
}

// CheckpointShape reads the DKV checkpoints document named by oc (without opening a database).
func CheckpointShape(oc OpCheckpoint) (CkptShape, error) {
	var sh CkptShape
	b, err := os.ReadFile(oc.URI)
	if err != nil {
		return sh, err
	}
	var doc struct {
		Checkpoints []struct {
			ID   uint64 `json:"id"`
			WALs []struct {
				URI string `json:"uri"`
			} `json:"wals"`
			Levels [][]json.RawMessage `json:"levels"`
		} `json:"checkpoints"`
	}
	if err := json.Unmarshal(b, &doc); err != nil {
		return sh, err
	}
	for _, ck := range doc.Checkpoints {
		if ck.ID != oc.Ckpt {
			continue
		}
		for i, l := range ck.Levels {
			if i == 0 {
				sh.L0Tables += len(l)
			} else {
				sh.DeepTables += len(l)
			}
		}
		for _, w := range ck.WALs {
			sh.WALs++
			if st, err := os.Stat(w.URI); err == nil {
				sh.WALBytes += st.Size()
			}
		}
		return sh, nil
	}
	return sh, fmt.Errorf("checkpoint %d not in %s", oc.Ckpt, oc.URI)
}
