---------------------------- MODULE KeyedState ----------------------------
(* C03  Keyed state behaves as a per-key map the handler fully controls.

   Abstract state (what the handler believes in):
       m[k][n][e] \in 0..3     0 = absent, 1 = v1, 2 = v2, 3 = the EMPTY value
   Implementation-shaped state (workers/operator/keyed_state_store.go over a
   DKV database, seen abstractly as a map from composite byte keys to values;
   what DKV does underneath - memtable rotation, flush, compaction - is C07's
   and appears here only as `Bg` steps that change nothing):
       db[<composite key bytes>] \in 1..3
   The composite keys are built exactly as encodeDBKey / encodeSubjectKey /
   encodeTimerKey build them, from the byte strings of the concretisation
   table the replayer uses (constants KeyB, NsB, EkB, TimeB) and from the key
   group bytes computed by the repository's own partitioning package (KgB,
   produced by `keyedstate` in Mode "tables").  Timers share the database.

   One action per step of operator.processEventBatch:
       BatchStart(evs)            the batch's events (subject keys, repeats allowed)
       FetchBegin / FetchEnd      GetState once per DISTINCT key, before the handler
                                  (split at ScanPrefix's two captures so that
                                  background steps interleave inside a fetch)
       HandlerReturn              the handler answers; its mutations are revealed one
       Apply(k,n,e,v) / SetTimer  by one in the order the operator applies them
       BatchEnd
   plus PopTimer (a timer fires and is deleted from the database), Checkpoint /
   Restore (the newest checkpoint), Bg(lane).

   Properties
       EncodingOK        (static) composite keys are injective, per-key prefixes are
                         prefix-free, decode inverts encode, timer keys are outside
                         every per-key prefix, one namespace's entries are adjacent
       StoreEq           in every state, for every key, decoding the prefix scan of
                         db gives exactly the live cells of m[k], every namespace
                         once
       FetchEq           what a batch fetched for k is m[k] (the SAME m for every
                         event of the batch: mutations are applied after the handler)
       OnlyOwnMutations  what a fetch of k would return changes only by a mutation
                         the handler returned for k (or by Restore): nothing of
                         other keys / timers appears, nothing reappears

   LenPrefixed / NsLenPrefixed / SchemaSplit are TRUE for the code as it is; they
   are switched off only by the check's non-vacuity self-test (TLC must then
   find a counterexample to EncodingOK / StoreEq).                           *)
EXTENDS Integers, Sequences, FiniteSets, TLC, Json, SequencesExt

CONSTANTS
  NK, NN, NE, NT,     \* number of subject keys / namespaces / entry keys / timer times
  KeyB, NsB, EkB,     \* id -> byte string (tuple of 0..255)
  KgB,                \* key id -> its two key-group bytes
  TimeB,              \* time id -> the 8 bytes of the timer's timestamp
  MaxBatch,           \* events per batch
  MaxRet,             \* mutations per handler answer
  MaxMut,             \* mutations per history
  MaxTimers,          \* SetTimer calls per history
  MaxBg,              \* background steps per history
  MaxCkpt, MaxRestore,
  MaxLen,             \* history length bound (generation)
  Sim,                \* TRUE under -simulate: arguments are drawn with RandomElement
  LenPrefixed, NsLenPrefixed, SchemaSplit

Keys == 1..NK
NSs  == 1..NN
EKs  == 1..NE
Times == 1..NT
Cells == Keys \X NSs \X EKs

VARIABLES
  m, db,        \* abstract map / composite-key map
  timers,       \* pending timers: set of <<k, t>>
  phase,        \* "idle" | "fetch" | "handler" | "apply"
  bk,           \* keys of the current batch
  todo,         \* distinct keys still to fetch, in event order
  rd,           \* key whose fetch is in flight (0: none)
  rdv,          \* what the in-flight fetch captured
  got,          \* k -> what was fetched for k in this batch
  snap,         \* newest checkpoint: [on, m, db, timers]
  fv,           \* k -> Fetch(db, k): what GetState(k) would return now (a function of db,
                \* kept as a variable so that TLC evaluates the scans once per write)
  nret, nmut, ntim, nbg, nck, nre,
  hist

vars == <<m, db, fv, timers, phase, bk, todo, rd, rdv, got, snap, nret, nmut, ntim, nbg, nck, nre, hist>>
view == <<m, db, fv, timers, phase, bk, todo, rd, rdv, got, snap, nret, nmut, ntim, nbg, nck, nre>>

Pick(S) == IF Sim /\ S # {} THEN {RandomElement(S)} ELSE S

-----------------------------------------------------------------------------
\* byte strings

HasPfx(p, s) == Len(p) <= Len(s) /\ SubSeq(s, 1, Len(p)) = p
LexLess(a, b) ==        \* bytes.Compare(a, b) < 0
  LET n == IF Len(a) < Len(b) THEN Len(a) ELSE Len(b)
      d == {i \in 1..n : a[i] # b[i]}
  IN IF d = {} THEN Len(a) < Len(b)
     ELSE LET i == CHOOSE i \in d : \A j \in d : i <= j IN a[i] < b[i]
U32(n) == <<n \div 16777216, (n \div 65536) % 256, (n \div 256) % 256, n % 256>>
U32Val(s) == ((s[1] * 256 + s[2]) * 256 + s[3]) * 256 + s[4]

\* encodeSubjectKey: <key group (2)> <schema 0x00> <len(key) uint32> <key>
StatePrefix(k) == KgB[k] \o <<0>> \o (IF LenPrefixed THEN U32(Len(KeyB[k])) ELSE <<>>) \o KeyB[k]
\* encodeDBKey: ... <len(namespace) uint8> <namespace> <entry key>
Enc(k, n, e) == StatePrefix(k) \o (IF NsLenPrefixed THEN <<Len(NsB[n]) % 256>> ELSE <<>>) \o NsB[n] \o EkB[e]
\* encodeTimerKey: <key group (2)> <schema 0x01> <timestamp (8)> <key>
TimerKey(k, t) == KgB[k] \o <<IF SchemaSplit THEN 1 ELSE 0>> \o TimeB[t] \o KeyB[k]

\* decodeKey as GetState uses it (the caller knows the subject key; the code
\* reads the key length from the composite key itself). ok = FALSE: the code
\* would panic on a short read.
Dec(x, k) ==
  LET hdr == IF LenPrefixed THEN 7 ELSE 3
      L   == IF LenPrefixed THEN (IF Len(x) >= 7 THEN U32Val(SubSeq(x, 4, 7)) ELSE 0) ELSE Len(KeyB[k])
      pos == hdr + L + 1                      \* position of the namespace length byte
      nl  == IF NsLenPrefixed THEN (IF Len(x) >= pos THEN x[pos] ELSE 0) ELSE 0
      st  == IF NsLenPrefixed THEN pos ELSE pos - 1
  IN IF Len(x) < hdr \/ (NsLenPrefixed /\ Len(x) < pos) \/ Len(x) < st + nl
     THEN [ok |-> FALSE, ns |-> <<>>, ek |-> <<>>]
     ELSE [ok |-> TRUE, ns |-> SubSeq(x, st + 1, st + nl), ek |-> SubSeq(x, st + nl + 1, Len(x))]

PutDb(d, x, v) == [y \in DOMAIN d \cup {x} |-> IF y = x THEN v ELSE d[y]]
DelDb(d, x) == [y \in DOMAIN d \ {x} |-> d[y]]

\* GetState(k): prefix scan in key order, decode, start a new group whenever the
\* namespace differs from the previous entry's
ScanKeys(d, k) == SetToSortSeq({x \in DOMAIN d : HasPfx(StatePrefix(k), x)}, LexLess)
Fetch(d, k) ==
  LET xs == ScanKeys(d, k)
      de == [i \in 1..Len(xs) |-> Dec(xs[i], k)]
      starts == {i \in 1..Len(xs) : i = 1 \/ de[i].ns # de[i - 1].ns}
  IN [ok   |-> \A i \in 1..Len(xs) : de[i].ok,
      n    |-> Len(xs),
      ents |-> {<<de[i].ns, de[i].ek, d[xs[i]]>> : i \in 1..Len(xs)},
      grouped |-> \A i, j \in starts : i # j => de[i].ns # de[j].ns]

\* what the property demands for k
Want(mm, k) == {<<NsB[n], EkB[e], mm[k][n][e]>> : <<n, e>> \in {c \in NSs \X EKs : mm[k][c[1]][c[2]] # 0}}
FetchIs(f, mm, k) == f.ok /\ f.grouped /\ f.ents = Want(mm, k) /\ f.n = Cardinality(Want(mm, k))

-----------------------------------------------------------------------------
\* static facts about the encoding under this concretisation

TableSane ==
  /\ \A i, j \in Keys : i # j => KeyB[i] # KeyB[j]
  /\ \A i, j \in NSs : i # j => NsB[i] # NsB[j]
  /\ \A i, j \in EKs : i # j => EkB[i] # EkB[j]
  /\ \A i \in NSs : Len(NsB[i]) < 256          \* the namespace length is one byte

EncodingOK ==
  /\ \A c, d \in Cells : c # d => Enc(c[1], c[2], c[3]) # Enc(d[1], d[2], d[3])
  /\ \A c \in Cells, k \in Keys : HasPfx(StatePrefix(k), Enc(c[1], c[2], c[3])) <=> (k = c[1])
  /\ \A c \in Cells : LET x == Dec(Enc(c[1], c[2], c[3]), c[1])
                      IN x.ok /\ x.ns = NsB[c[2]] /\ x.ek = EkB[c[3]]
  /\ \A k, k2 \in Keys, t \in Times : ~HasPfx(StatePrefix(k2), TimerKey(k, t))
  /\ \A c \in Cells, k \in Keys, t \in Times : Enc(c[1], c[2], c[3]) # TimerKey(k, t)
  \* one namespace's entries are adjacent in key order (GetState groups adjacent entries)
  /\ \A k \in Keys, n, n2 \in NSs, e, e2, e3 \in EKs :
        n # n2 => ~(LexLess(Enc(k, n, e), Enc(k, n2, e2)) /\ LexLess(Enc(k, n2, e2), Enc(k, n, e3)))

-----------------------------------------------------------------------------
NoDb == [x \in {} |-> 0]
NoGot == [k \in {} |-> 0]
NoFetch == [ok |-> TRUE, n |-> 0, ents |-> {}, grouped |-> TRUE]
M0 == [k \in Keys |-> [n \in NSs |-> [e \in EKs |-> 0]]]
NoSnap == [on |-> FALSE, id |-> 0, m |-> M0, db |-> NoDb, timers |-> {}]

Init ==
  /\ m = M0 /\ db = NoDb /\ timers = {} /\ fv = [k \in Keys |-> NoFetch]
  /\ phase = "idle" /\ bk = {} /\ todo = <<>> /\ rd = 0 /\ rdv = NoFetch /\ got = NoGot
  /\ snap = NoSnap
  /\ nret = 0 /\ nmut = 0 /\ ntim = 0 /\ nbg = 0 /\ nck = 0 /\ nre = 0 /\ hist = <<>>

Log(r) == hist' = Append(hist, r)

RECURSIVE Distinct(_)
Distinct(s) == IF s = <<>> THEN <<>>
               ELSE <<Head(s)>> \o Distinct(SelectSeq(Tail(s), LAMBDA x : x # Head(s)))
RangeOf(s) == {s[i] : i \in 1..Len(s)}

\* live cells of mm[k] as <<n, e, v>> triples (ids), for the replayer
WantIds(mm, k) == SetToSortSeq({<<c[1], c[2], mm[k][c[1]][c[2]]>> : c \in {c \in NSs \X EKs : mm[k][c[1]][c[2]] # 0}},
                               LAMBDA a, b : a[1] < b[1] \/ (a[1] = b[1] /\ a[2] < b[2]))
AllIds(mm) == [k \in Keys |-> WantIds(mm, k)]

BatchStart ==
  /\ phase = "idle"
  /\ \E l \in Pick(1..MaxBatch) : \E evs \in Pick([1..l -> Keys]) :
       /\ phase' = "fetch" /\ bk' = RangeOf(evs) /\ todo' = Distinct(evs) /\ got' = NoGot
       /\ Log([a |-> "BatchStart", evs |-> evs])
  /\ UNCHANGED <<m, db, fv, timers, rd, rdv, snap, nret, nmut, ntim, nbg, nck, nre>>

\* ScanPrefix captures the memtables here ...
FetchBegin ==
  /\ phase = "fetch" /\ rd = 0 /\ todo # <<>>
  /\ rd' = Head(todo) /\ rdv' = fv[Head(todo)]
  /\ Log([a |-> "FetchBegin", k |-> Head(todo)])
  /\ UNCHANGED <<m, db, fv, timers, phase, bk, todo, got, snap, nret, nmut, ntim, nbg, nck, nre>>

\* ... and the level list here; the single foreground goroutine writes nothing in
\* between, so the result is the one of the (unchanged) database
FetchEnd ==
  /\ phase = "fetch" /\ rd # 0
  /\ got' = [k \in DOMAIN got \cup {rd} |-> IF k = rd THEN rdv ELSE got[k]]
  /\ todo' = Tail(todo) /\ rd' = 0 /\ rdv' = NoFetch
  /\ phase' = IF Tail(todo) = <<>> THEN "handler" ELSE "fetch"
  /\ Log([a |-> "FetchEnd", k |-> rd, want |-> WantIds(m, rd), last |-> (Tail(todo) = <<>>)])
  /\ UNCHANGED <<m, db, fv, timers, bk, snap, nret, nmut, ntim, nbg, nck, nre>>

HandlerReturn ==
  /\ phase = "handler"
  /\ phase' = "apply" /\ nret' = 0 /\ got' = NoGot
  /\ Log([a |-> "HandlerReturn"])
  /\ UNCHANGED <<m, db, fv, timers, bk, todo, rd, rdv, snap, nmut, ntim, nbg, nck, nre>>

\* v = 0: delete; 1, 2: put v1 / v2; 3: put the EMPTY value
Apply ==
  /\ phase = "apply" /\ nret < MaxRet /\ nmut < MaxMut
  /\ \E k \in Pick(bk), n \in Pick(NSs), e \in Pick(EKs), v \in 0..3 :   \* (all four values: weight 4 under -simulate)
       /\ m' = [m EXCEPT ![k][n][e] = v]
       /\ db' = IF v = 0 THEN DelDb(db, Enc(k, n, e)) ELSE PutDb(db, Enc(k, n, e), v)
       /\ fv' = [x \in Keys |-> Fetch(db', x)]
       /\ Log([a |-> "Apply", k |-> k, n |-> n, e |-> e, v |-> v])
  /\ nret' = nret + 1 /\ nmut' = nmut + 1
  /\ UNCHANGED <<timers, phase, bk, todo, rd, rdv, got, snap, ntim, nbg, nck, nre>>

\* TimerStore.Put: db.Put(timer key, nil)
SetTimer ==
  /\ phase = "apply" /\ ntim < MaxTimers
  /\ \E k \in Pick(bk), t \in Pick(Times) :
       /\ timers' = timers \cup {<<k, t>>}
       /\ db' = PutDb(db, TimerKey(k, t), 3)
       /\ fv' = [x \in Keys |-> Fetch(db', x)]
       /\ Log([a |-> "SetTimer", k |-> k, t |-> t])
  /\ ntim' = ntim + 1
  /\ UNCHANGED <<m, phase, bk, todo, rd, rdv, got, snap, nret, nmut, nbg, nck, nre>>

BatchEnd ==
  /\ phase = "apply"
  /\ phase' = "idle" /\ bk' = {} /\ nret' = 0
  /\ Log([a |-> "BatchEnd"])
  /\ UNCHANGED <<m, db, fv, timers, todo, rd, rdv, got, snap, nmut, ntim, nbg, nck, nre>>

\* an earliest timer fires and is deleted (which one among equal times is C10's)
PopTimer ==
  /\ phase = "idle" /\ timers # {}
  /\ \E x \in Pick({y \in timers : \A z \in timers : ~LexLess(TimeB[z[2]], TimeB[y[2]])}) :
       /\ timers' = timers \ {x}
       /\ db' = DelDb(db, TimerKey(x[1], x[2]))
       /\ fv' = [y \in Keys |-> Fetch(db', y)]
       /\ Log([a |-> "PopTimer", k |-> x[1], t |-> x[2]])
  /\ UNCHANGED <<m, phase, bk, todo, rd, rdv, got, snap, nret, nmut, ntim, nbg, nck, nre>>

Checkpoint ==
  /\ phase = "idle" /\ nck < MaxCkpt
  /\ nck' = nck + 1
  /\ snap' = [on |-> TRUE, id |-> nck + 1, m |-> m, db |-> db, timers |-> timers]
  /\ Log([a |-> "Checkpoint", id |-> nck + 1])
  /\ UNCHANGED <<m, db, fv, timers, phase, bk, todo, rd, rdv, got, nret, nmut, ntim, nbg, nre>>

\* the process is abandoned and a new one opens the newest checkpoint
Restore ==
  /\ phase = "idle" /\ snap.on /\ nre < MaxRestore
  /\ nre' = nre + 1
  /\ m' = snap.m /\ db' = snap.db /\ timers' = snap.timers
  /\ fv' = [x \in Keys |-> Fetch(snap.db, x)]
  /\ Log([a |-> "Restore", id |-> snap.id, all |-> AllIds(snap.m)])
  /\ UNCHANGED <<phase, bk, todo, rd, rdv, got, snap, nret, nmut, ntim, nbg, nck>>

\* one step of DKV's background flush / compaction goroutine: invisible here
Bg ==
  /\ nbg < MaxBg /\ (Sim => nbg * 4 <= Len(hist))   \* (spread over the history when simulating)
  /\ nbg' = nbg + 1
  /\ \E lane \in Pick({"flush", "compact"}) : Log([a |-> "Bg", lane |-> lane])
  /\ UNCHANGED <<m, db, fv, timers, phase, bk, todo, rd, rdv, got, snap, nret, nmut, ntim, nck, nre>>

Step == BatchStart \/ FetchBegin \/ FetchEnd \/ HandlerReturn \/ Apply \/ SetTimer \/ BatchEnd
        \/ PopTimer \/ Checkpoint \/ Restore \/ Bg
Next == Len(hist) < MaxLen /\ Step
Spec == Init /\ [][Next]_vars

-----------------------------------------------------------------------------
\* properties

StoreEq == \A k \in Keys : FetchIs(fv[k], m, k)

\* m does not change between BatchStart and HandlerReturn, so every event of the
\* batch is handed the same state
FetchEq ==
  /\ phase \in {"fetch", "handler"} => \A k \in DOMAIN got : FetchIs(got[k], m, k)
  /\ rd # 0 => FetchIs(rdv, m, rd)
  /\ phase = "handler" => DOMAIN got = bk

TimersInvisible == \A x \in timers : TimerKey(x[1], x[2]) \in DOMAIN db

LastRec == hist'[Len(hist')]
OnlyOwnMutations ==
  [][\A k \in Keys :
       fv'[k] # fv[k] =>
         \/ (LastRec.a = "Apply" /\ LastRec.k = k)
         \/ LastRec.a = "Restore"]_vars

TypeOK ==
  /\ phase \in {"idle", "fetch", "handler", "apply"}
  /\ rd \in 0..NK /\ bk \subseteq Keys
  /\ (phase = "idle") => (bk = {} /\ todo = <<>> /\ rd = 0)

\* behaviour export (simulation: one behaviour per run; MaxLen bounds it; some
\* action is enabled in every phase, so a behaviour never ends earlier)
Dump == Len(hist) >= MaxLen => PrintT(<<"BEHAVIOUR", ToJson(hist)>>)
=============================================================================
