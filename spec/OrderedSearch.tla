---------------------------- MODULE OrderedSearch ----------------------------
(* util/sliceu: SearchUnique (the binary search LevelList.AllTablesForKey
   relies on), plus Without and Partition.

   Reference: a sorted duplicate-free slice xs and a target t;
   SearchUnique(xs, t) = (i, TRUE) with xs[i] = t if t occurs, (_, FALSE)
   otherwise (the index of a failed search is not part of the contract: the
   code returns 0 and every caller ignores it).

   The model enumerates EVERY sorted unique slice over the N values
   2, 4, .., 2N (all 2^N subsets, lengths 0..N) and, for each, every target
   1..2N+1: present, absent-between, before the first, after the last.  One
   behaviour = one slice, one step per target.

   BinSearch is the implementation-shaped transcription of the (repaired)
   half-open binary search; TLC checks that it agrees with the reference on
   every slice and target (invariant ImplOK).  Setting HighMinusOne = TRUE
   gives the loop as it was written before the repair (`high = i - 1` on a
   half-open interval): TLC then reports e.g. xs = <<2, 4>>, t = 2.          *)
EXTENDS OrderedRef, Json

CONSTANTS N,            \* slices over {2, 4, .., 2N}
          MaxYs,        \* Without/Partition: every sequence over 1..3 of length <= MaxYs
          HighMinusOne  \* FALSE: half-open search; TRUE: the defective variant (for the record)

VARIABLES xs, ys, step, hist
vars == <<xs, ys, step, hist>>

RECURSIVE SeqsUpTo(_)
SeqsUpTo(n) == IF n = 0 THEN {<<>>}
               ELSE LET P == SeqsUpTo(n - 1)
                    IN P \cup {Append(s, v) : s \in {p \in P : Len(p) = n - 1}, v \in 1..3}

Init == /\ step = 1 /\ hist = <<>>
        /\ \/ \E S \in SUBSET (1..N) : xs = SortedInts({2 * i : i \in S}) /\ ys = <<>>
           \/ xs = <<>> /\ ys \in (SeqsUpTo(MaxYs) \ {<<>>})

\* ---- reference
Found(s, t) == \E i \in DOMAIN s : s[i] = t
IndexOf(s, t) == (CHOOSE i \in DOMAIN s : s[i] = t) - 1          \* 0-based, s duplicate free

\* ---- implementation-shaped: for low < high { i = (low+high)/2 ... }
RECURSIVE BinSearch(_, _, _, _)
BinSearch(s, t, low, high) ==
  IF low >= high THEN [found |-> FALSE, idx |-> 0]
  ELSE LET i == (low + high) \div 2          \* 0-based index
           x == s[i + 1]
       IN IF x = t THEN [found |-> TRUE, idx |-> i]
          ELSE IF x < t THEN BinSearch(s, t, i + 1, high)
          ELSE BinSearch(s, t, low, IF HighMinusOne THEN i - 1 ELSE i)

SearchStep ==
  /\ ys = <<>> /\ step <= 2 * N + 1
  /\ LET t == step
         f == Found(xs, t)
     IN hist' = Append(hist, [a |-> "Search", xs |-> xs, t |-> t, found |-> f,
                              idx |-> IF f THEN IndexOf(xs, t) ELSE -1])
  /\ step' = step + 1 /\ UNCHANGED <<xs, ys>>

\* groups[g] = elements at positions g, g + n, g + 2n, ...
PartitionRef(s, n) == [g \in 1..n |-> LET idx == {i \in DOMAIN s : (i - 1) % n = g - 1}
                                      IN [j \in 1..Cardinality(idx) |-> s[g + (j - 1) * n]]]

SliceStep ==
  /\ ys # <<>> /\ step <= 7
  /\ IF step <= 4
     THEN hist' = Append(hist, [a |-> "Without", ys |-> ys, v |-> step, res |-> RemoveFirst(ys, step)])
     ELSE hist' = Append(hist, [a |-> "Partition", ys |-> ys, n |-> step - 4, res |-> PartitionRef(ys, step - 4)])
  /\ step' = step + 1 /\ UNCHANGED <<xs, ys>>

Done == IF ys = <<>> THEN step > 2 * N + 1 ELSE step > 7

Next == ~Done /\ (SearchStep \/ SliceStep)
Spec == Init /\ [][Next]_vars

-----------------------------------------------------------------------------
ImplOK == \A t \in 1..(2 * N + 1) :
            LET r == BinSearch(xs, t, 0, Len(xs))
            IN /\ r.found = Found(xs, t)
               /\ r.found => xs[r.idx + 1] = t

PartitionOK == \A n \in 1..3 : LET p == PartitionRef(ys, n)
                               IN SumSeq([g \in 1..n |-> Len(p[g])]) = Len(ys)

Dump == Done => PrintT(<<"BEHAVIOUR", ToJson(hist)>>)
=============================================================================
