\* liveness under weak fairness on the unconstrained small variant (MaxEv = fault budget)
SPECIFICATION LiveSpec
CONSTANTS
  W = 1
  N = 2
  MaxEv = 1
  MaxFlaky = 1
  Boot = 0
  MaxLen = 1000
  Focus = FALSE
  Faults = {"Kill", "Deregister"}
  Live = TRUE
  Dev_PendingNotCleared = FALSE
  Dev_OpKeepsCheckpoint = FALSE
  Dev_SplitterAppended = FALSE
PROPERTIES RunsAgain CheckpointsResume
CONSTRAINT LiveConstraint
CHECK_DEADLOCK FALSE
