------------------------- MODULE CompactionTrace -------------------------
(* Trace validation for C18: harness/cmd/compaction records, after every flush
   and every change-set swap executed on the real sst.LevelList, the REAL
   layout (LevelList.Document() + a scan of every table), one ndjson line per
   step; and, after every Compactor.Compact call, the layout readers still use
   while the change set is pending ("Build": same contents, same invariants).
   This module replays the lines: each recorded layout becomes the next
   value of Compaction's `lv`, `truth` follows the flushed entries, and TLC
   evaluates Compaction's own C18 predicates on every recorded state:

     INVARIANTS ReadsMatchTruth  LayoutValid  NewerAboveOlder
     a "Swap" line is explained only if VisibleMap(lv') = VisibleMap(lv)
     (CompactionPreservesContents) and every table could be read back.

   Nothing about the pick policy is demanded: any layout that satisfies the
   predicates is accepted.  Runs are separated by "Reset" lines.             *)
EXTENDS Compaction, TLCExt

TraceLog == ndJsonDeserialize("trace.ndjson")

VARIABLE l
tvars == <<vars, l>>

EmptyLayout == [lvl \in Levels |-> <<>>]

TraceInit ==
  /\ cfg = SettingTable[1] /\ lv = EmptyLayout /\ seq = 0 /\ nextId = 0 /\ minorLevel = 0
  /\ comp = NoComp /\ truth = NoTruth /\ nflush = 0 /\ ncompact = 0 /\ hist = <<>>
  /\ l = 1

Ev == TraceLog[l]
IsEvent(op) == l <= Len(TraceLog) /\ Ev.op = op /\ l' = l + 1

\* the recorded real layout in the model's vocabulary
EvLayout(ev) ==
  [lvl \in Levels |-> [i \in 1..Len(ev.lv[lvl + 1]) |->
      [id |-> ev.lv[lvl + 1][i].id,
       e |-> [j \in 1..Len(ev.lv[lvl + 1][i].e) |->
               [k |-> ev.lv[lvl + 1][i].e[j].k, s |-> ev.lv[lvl + 1][i].e[j].s, d |-> ev.lv[lvl + 1][i].e[j].d]]]]]

\* every table could be scanned and holds only keys somebody wrote
EvReadable(ev) ==
  /\ Len(ev.lv) = NLevels
  /\ \A lvl \in 1..NLevels : \A i \in 1..Len(ev.lv[lvl]) :
        /\ ~ev.lv[lvl][i].bad
        /\ \A j \in 1..Len(ev.lv[lvl][i].e) : ev.lv[lvl][i].e[j].k \in Keys

Frame == UNCHANGED <<cfg, seq, nextId, minorLevel, comp, ncompact, hist>>

TFlush ==
  /\ IsEvent("Flush") /\ EvReadable(Ev)
  /\ lv' = EvLayout(Ev)
  /\ truth' = [k \in Keys |->
        LET hits == {j \in 1..Len(Ev.ents) : Ev.ents[j].k = k}
        IN IF hits = {} THEN truth[k]
           ELSE LET j == CHOOSE j \in hits : TRUE IN [s |-> Ev.ents[j].s, d |-> Ev.ents[j].d]]
  /\ nflush' = nflush + 1
  /\ Frame

TSwap ==
  /\ IsEvent("Swap") /\ EvReadable(Ev)
  /\ lv' = EvLayout(Ev)
  /\ VisibleMap(lv') = VisibleMap(lv)
  /\ UNCHANGED <<truth, nflush>>
  /\ Frame

\* the level list readers use after Compactor.Compact has returned and before its change set is applied:
\* Compaction's CompactPick / CompactBuild leave lv unchanged.  The recorded layout must hold what the previous one
\* held (and satisfy the invariants); a rearrangement that keeps every read right is accepted.
TBuild ==
  /\ IsEvent("Build") /\ EvReadable(Ev)
  /\ lv' = EvLayout(Ev)
  /\ VisibleMap(lv') = VisibleMap(lv)
  /\ UNCHANGED <<truth, nflush>>
  /\ Frame

\* the list that the NEXT recorded swap replaced, projected again after that swap (dkv.DB's readers capture the current
\* list and read it outside the lock): it must still hold what it held - the current lv of this replay - and satisfy
\* the layout predicates.  The line precedes the swap's own line.
TOld ==
  /\ IsEvent("Old") /\ EvReadable(Ev)
  /\ LET L == EvLayout(Ev)
     IN /\ VisibleMap(L) = VisibleMap(lv)
        /\ LayoutValidOf(L) /\ NewerAboveOlderOf(L)
  /\ UNCHANGED <<lv, truth, nflush>>
  /\ Frame

TReset ==
  /\ IsEvent("Reset")
  /\ lv' = EmptyLayout /\ truth' = NoTruth /\ nflush' = 0
  /\ Frame

TraceNext == TFlush \/ TSwap \/ TBuild \/ TOld \/ TReset
TraceSpec == TraceInit /\ [][TraceNext]_tvars

TraceAccepted ==
  LET d == TLCGet("stats").diameter IN
  IF d - 1 = Len(TraceLog) THEN TRUE
  ELSE Print(<<"TRACE-REJECTED-AT", d, IF d <= Len(TraceLog) THEN ToJson(TraceLog[d]) ELSE "end">>, FALSE)
=============================================================================
