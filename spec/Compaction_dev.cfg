SPECIFICATION Spec
CONSTANTS NKeys = 3  NLevels = 3  Settings = {1}  SmallLen = 2  BigKey = 0  BigLen = 0
  MaxFlush = 3  MaxFlushKeys = 3  AllowTombs = FALSE  MaxCompact = 4  DropTombs = FALSE
  Dev_MajorPicksPastPartialLevel = TRUE  Dev_WriteRunEmptyTable = FALSE
  RandomFlush = FALSE  Record = FALSE  MaxLen = 1000
INVARIANTS ReadsMatchTruth TruthRetained LayoutValid NewerAboveOlder TypeOK
PROPERTIES CompactionPreservesContents OnlyFlushAndSwapChangeLayout
VIEW view
CHECK_DEADLOCK FALSE
