--------------------------- MODULE AlignTrace ---------------------------
(* Trace validation for C02: events recorded from free-running sender
   goroutines against a real operator (harness/cmd/align, Mode = "trace"):

     Start(sr,k,v,idx)  a sender starts HandleEvent for its next script item
     Park(sr,n) / Pass(sr)  hooks operator.align.park / operator.align.pass
     Call(items,w)      the reference handler received a batch
     Ack(n)             job.OperatorCheckpointComplete(n)
     Ret(sr)            HandleEvent returned
     Fire               the harness let the batch timer expire
     Cut(n,seen,fired,timers)  content of the reported checkpoint n, read back
                        from a fresh operator deployed from it
     Reset              next recorded run
   and, in runs of the fault arm (seeded faults bound to points of the run):
     Cancel(sr)         the request context of sender sr was cancelled
     Call(..., fail)    the handler returned an error for this request (made
                        to fail, or its context was done): nothing is applied
     AckFail(n)         job.OperatorCheckpointComplete(n) failed (its context
                        was done): checkpoint n is NOT reported
     Ret(sr, err)       a sender whose call returned an error stops
   After a failed handler call or a failed report the operator instance never
   reports a checkpoint again (`doomed`): what it applies afterwards is not
   judged, a checkpoint it reports nevertheless is (Ack/Cut).

   The events are explained at the level of what property C02 demands, using
   Align's ghost variables (sent, acks, seen, fired, cut) and Align's own
   definitions of the property (BarriersBefore, AllowWm, CutDemand, CutWm): internal
   decisions of the operator (when it parks, how it batches, when the
   time-out flushes) are followed, not prescribed, so only an observation the
   property forbids - or a malformed log - rejects a trace.                  *)
EXTENDS Align, TLCExt

TraceLog == ndJsonDeserialize("trace.ndjson")

VARIABLES l,       \* next line of the log
          earlyw,  \* ids of barriers that were open when the call of a watermark delivered after them returned
          excessw  \* ids of barriers that were open when the handler saw more than the minimum of the legitimate watermarks
tvars == <<vars, l, earlyw, excessw>>

Rng(t) == {t[i] : i \in 1..Len(t)}
Ids(t) == {[sr |-> u.sr, idx |-> u.idx] : u \in Rng(t)}

Fresh ==
  /\ slen = [s \in Senders |-> MaxScript]
  /\ sent = [s \in Senders |-> <<>>]
  /\ pc = [s \in Senders |-> "idle"] /\ waitfor = [s \in Senders |-> 0] /\ nskip = 0
  /\ ck = NoCk /\ nclosed = 0 /\ loop = 0 /\ lph = "run"
  /\ batch = <<>> /\ token = 0 /\ armed = None /\ inflight = {} /\ nfired = 0
  /\ wm = [s \in Senders |-> 0]
  /\ seen = {} /\ fired = {} /\ timers = {}
  /\ cut = [n \in {} |-> 0] /\ acks = <<>>
  /\ lastcalls = <<>> /\ hist = <<>>
  /\ cx = [s \in Senders |-> FALSE] /\ ncancel = 0 /\ failnext = FALSE /\ nhfail = 0
  /\ stopped = FALSE /\ doomed = FALSE /\ early = FALSE /\ fstart = 0

TraceInit == Fresh /\ l = 1 /\ earlyw = {} /\ excessw = {}

\* barriers some runner delivered whose checkpoint is not acknowledged
OpenIds == UNION {{sent[s][i].v : i \in {j \in 1..Len(sent[s]) : sent[s][j].k = "b"}} : s \in Senders} \ Rg(acks)
\* A watermark beyond the minimum of the legitimate ones is attributed to
\* alignment only together with the observation that the operator processed
\* (returned from) a watermark delivered after a barrier that was then open;
\* by itself it is C11's business (how upstream watermarks are combined).
WmOK(e, x) == e \cap x = {}

Ev == TraceLog[l]
IsEvent(e) == l <= Len(TraceLog) /\ Ev.op = e /\ l' = l + 1

Keep0 == UNCHANGED <<slen, waitfor, nskip, ck, nclosed, loop, lph, batch, token, armed, inflight, nfired, wm, timers, lastcalls, hist,
                     ncancel, failnext, nhfail, stopped, fstart, early>>
Keep == Keep0 /\ UNCHANGED <<cx, doomed>>

TStart ==
  /\ IsEvent("Start") /\ UNCHANGED <<earlyw, excessw>> /\ Ev.sr \in Senders
  /\ pc[Ev.sr] = "idle" /\ Ev.idx = Len(sent[Ev.sr]) + 1
  /\ [k |-> Ev.k, v |-> Ev.v] \in Items(Ev.sr)     \* barriers and watermarks in increasing order
  /\ sent' = [sent EXCEPT ![Ev.sr] = Append(@, [k |-> Ev.k, v |-> Ev.v])]
  /\ pc' = [pc EXCEPT ![Ev.sr] = "pass"]
  /\ Keep /\ UNCHANGED <<seen, fired, cut, acks>>

\* internal decisions: followed, not judged
THook ==
  /\ (IsEvent("Park") \/ IsEvent("Pass")) /\ Ev.sr \in Senders /\ pc[Ev.sr] = "pass"
  /\ Keep /\ UNCHANGED <<sent, pc, seen, fired, cut, acks, earlyw, excessw>>

TCancel ==
  /\ IsEvent("Cancel") /\ Ev.sr \in Senders
  /\ cx' = [cx EXCEPT ![Ev.sr] = TRUE]
  /\ Keep0 /\ UNCHANGED <<doomed, sent, pc, seen, fired, cut, acks, earlyw, excessw>>

\* the report of checkpoint n failed: nothing was reported
TAckFail ==
  /\ IsEvent("AckFail") /\ doomed' = TRUE
  /\ Keep0 /\ UNCHANGED <<cx, sent, pc, seen, fired, cut, acks, earlyw, excessw>>

TFire == IsEvent("Fire") /\ Keep /\ UNCHANGED <<sent, pc, seen, fired, cut, acks, earlyw, excessw>>

TRet ==
  /\ IsEvent("Ret") /\ Ev.sr \in Senders /\ pc[Ev.sr] = "pass"
  /\ earlyw' = IF Cur(Ev.sr).k = "w" /\ ~Ev.err /\ ~doomed
                THEN earlyw \cup (BarriersBefore(Ev.sr, Len(sent[Ev.sr])) \ Rg(acks)) ELSE earlyw
  /\ WmOK(earlyw', excessw) /\ UNCHANGED excessw
  /\ pc' = [pc EXCEPT ![Ev.sr] = IF Ev.err THEN "dead" ELSE "idle"]
  /\ Keep /\ UNCHANGED <<sent, seen, fired, cut, acks>>

\* C02, second half: what reaches the handler must not stem from an item
\* delivered after a barrier whose checkpoint is not complete.
TCall ==
  /\ IsEvent("Call") /\ ~Ev.fail
  /\ \A u \in Rng(Ev.items) :
        /\ u.sr \in Senders /\ u.idx \in 1..Len(sent[u.sr]) /\ sent[u.sr][u.idx].k = "e"
        /\ (u.t = "e" /\ ~doomed) => BarriersBefore(u.sr, u.idx) \subseteq Rg(acks)
  /\ excessw' = IF ~doomed /\ (Ev.w > AllowWm \/ \E u \in Rng(Ev.items) : u.t = "t" /\ u.T > AllowWm)
                 THEN excessw \cup OpenIds ELSE excessw
  /\ WmOK(earlyw, excessw') /\ UNCHANGED earlyw
  /\ seen' = seen \cup {[sr |-> u.sr, idx |-> u.idx] : u \in {x \in Rng(Ev.items) : x.t = "e"}}
  /\ fired' = fired \cup {[sr |-> u.sr, idx |-> u.idx, T |-> u.T] : u \in {x \in Rng(Ev.items) : x.t = "t"}}
  /\ Keep /\ UNCHANGED <<sent, pc, cut, acks>>

\* the handler returned an error: nothing of the request is applied
TCallFail ==
  /\ IsEvent("Call") /\ Ev.fail /\ doomed' = TRUE
  /\ \A u \in Rng(Ev.items) : u.sr \in Senders /\ u.idx \in 1..Len(sent[u.sr]) /\ sent[u.sr][u.idx].k = "e"
  /\ Keep0 /\ UNCHANGED <<cx, sent, pc, seen, fired, cut, acks, earlyw, excessw>>

\* a checkpoint is acknowledged only after every runner delivered its barrier
TAck ==
  /\ IsEvent("Ack") /\ Ev.n = Len(acks) + 1 /\ UNCHANGED <<earlyw, excessw>>
  /\ \A s \in Senders : BarrierPos(s, Ev.n) > 0
  /\ acks' = Append(acks, Ev.n)
  /\ Keep /\ UNCHANGED <<sent, pc, seen, fired, cut>>

\* C02, first half: the content of checkpoint n
TCut ==
  /\ IsEvent("Cut") /\ Ev.n \in Rng(acks) /\ Ev.n \notin DOMAIN cut /\ UNCHANGED <<earlyw, excessw>>
  /\ LET c == [seen |-> Ids(Ev.seen),
               fired |-> {[sr |-> u.sr, idx |-> u.idx, T |-> u.T] : u \in Rng(Ev.fired)},
               timers |-> {[sr |-> u.sr, idx |-> u.idx, T |-> u.T] : u \in Rng(Ev.timers)}]
     IN /\ cut' = [x \in DOMAIN cut \cup {Ev.n} |-> IF x = Ev.n THEN c ELSE cut[x]]
        /\ c.seen = CutDemand(Ev.n)
        /\ Ids(Ev.fired) \cup Ids(Ev.timers) \subseteq c.seen     \* (a lost timer is C10's business)
        /\ Ev.n \in earlyw => \A y \in c.fired : y.T <= CutWm(Ev.n)
  /\ Keep /\ UNCHANGED <<sent, pc, seen, fired, acks>>

TReset ==
  /\ IsEvent("Reset") /\ earlyw' = {} /\ excessw' = {}
  /\ sent' = [s \in Senders |-> <<>>] /\ pc' = [s \in Senders |-> "idle"]
  /\ seen' = {} /\ fired' = {} /\ cut' = [n \in {} |-> 0] /\ acks' = <<>>
  /\ cx' = [s \in Senders |-> FALSE] /\ doomed' = FALSE
  /\ Keep0

TraceNext == TStart \/ THook \/ TFire \/ TRet \/ TCall \/ TCallFail \/ TAck \/ TAckFail \/ TCancel \/ TCut \/ TReset
TraceSpec == TraceInit /\ [][TraceNext]_tvars

TraceAccepted ==
  LET d == TLCGet("stats").diameter IN
  IF d - 1 = Len(TraceLog) THEN TRUE
  ELSE Print(<<"TRACE-REJECTED-AT", d, IF d <= Len(TraceLog) THEN ToJson(TraceLog[d]) ELSE "end">>, FALSE)
=============================================================================
