------------------------- MODULE RecoveryTrace -------------------------
(* Trace validation for C01: free-running executions of the real cluster
   (harness/cmd/recovery, mode "trace": seeded read pacing, ack orders, kill
   sets and kill moments; batching and watermarks on) are recorded as

     Deliver(o, s, i, cnt, last)   the handler of operator o was handed record i of split s and
                                   GIVEN cnt[e] = cnt and last[key(e), s] = last for it
     Published(n, cur, cnt, last)  job checkpoint n was written: split cursors + the keyed state
                                   read back from the operators' DKV checkpoints
     Start(w) / Kill(nodes) / Restart(n, lost, w) / Final(...) / Reset (next run)

   and must be explained by the ABSTRACT exactly-once semantics, using
   Recovery's own state operators: st[o] is the state of the failure-free run
   over the records delivered so far; a Restart(n) resets it to the
   failure-free state at checkpoint n's cursors (CutSt) and the positions to
   those cursors.  A Deliver (while no node is dead) is accepted iff the operator is the key's owner,
   the record is the NEXT record of its split for that operator (no loss, no
   duplicate, no reordering) and the state the handler was given equals the
   abstract state (never a count already containing e, never a gap in last).
   Published / Final are accepted iff the snapshot is exactly the failure-free
   state at its own cursors (Final: all splits drained).

   Dev_AssignUnsorted = TRUE is the second validation pass (DESIGN 2.5): a
   Restart may report operators that were deployed without their checkpoint
   (lost); such operators are unconstrained from then on.                   *)
EXTENDS Recovery, TLCExt

TraceLog == ndJsonDeserialize("trace.ndjson")

VARIABLES l,      \* next line of the trace
          pos,    \* pos[s][o]: idx of the last record of split s delivered to operator o in this generation
          tpub    \* published checkpoints: set of [n, cur]
tvars == <<vars, l, pos, tpub>>

TraceInit == Init /\ nw = W /\ l = 1 /\ pos = [s \in Splits |-> [o \in Workers |-> 0]] /\ tpub = {}

Evt == TraceLog[l]
IsEvent(e) == l <= Len(TraceLog) /\ Evt.op = e /\ l' = l + 1
Frozen == UNCHANGED <<late, epoch, cursor, out, slot, inside, pend, bar, opack, startq, srack, ckptId, pending, pubs, completed, nck, nkills, hist>>

Min(S) == CHOOSE x \in S : \A y \in S : x <= y
NextFor(s, o, p) == LET c == {j \in (p + 1)..NRecs : OwnerAt[nw][KeyOf[s][j]] = o} IN IF c = {} THEN 0 ELSE Min(c)
Range(f) == {f[x] : x \in DOMAIN f}
Free(o) == Dev_AssignUnsorted /\ o \in lostOps      \* operator unconstrained after the known deviation hit it

TDeliver ==
  /\ IsEvent("Deliver")
  /\ LET e == <<Evt.s, Evt.i>> o == Evt.o IN
     /\ e \in Ev /\ o \in Live /\ o = Own(e)
     \* no loss / duplicate / reordering within (split, operator). After a Kill (until the Restart)
     \* the survivors' streams may have gaps: a failed call makes a runner drop the rest of that
     \* batch and die while batches it had already queued are still sent; that generation is doomed
     \* (no checkpoint of it can complete without the dead node), only duplicates are excluded.
     /\ IF dead = {} THEN Evt.i = NextFor(Evt.s, o, pos[Evt.s][o]) ELSE Evt.i > pos[Evt.s][o]
     /\ Free(o) \/ (Evt.cnt = st[o].cnt[e] /\ Evt.last = st[o].last[<<Key(e), Evt.s>>])
     /\ clean' = (clean /\ (Free(o) \/ CleanGiven([s |-> Evt.s, i |-> Evt.i, cnt |-> Evt.cnt, last |-> Evt.last])))
     /\ st' = [st EXCEPT ![o] = ApplyOne(@, e)]
     /\ pos' = [pos EXCEPT ![Evt.s][o] = Evt.i]
  /\ UNCHANGED <<nw, dead, lostOps, tpub>> /\ Frozen

\* the snapshot carried by a Published / Final event, as functions
CntOf(e) == LET m == {x \in Range(Evt.cnt) : x[1] = e[1] /\ x[2] = e[2]} IN IF m = {} THEN 0 ELSE (CHOOSE x \in m : TRUE)[3]
LastOf(k, s) == LET m == {x \in Range(Evt.last) : x[1] = k /\ x[2] = s} IN IF m = {} THEN 0 ELSE (CHOOSE x \in m : TRUE)[3]
SnapIsCut(cur) ==
  /\ Evt.dups = 0 /\ Evt.misplaced = 0
  /\ \A x \in Range(Evt.cnt) : <<x[1], x[2]>> \in Ev
  /\ \A e \in Ev : Free(Own(e)) \/ CntOf(e) = CutSt(Own(e), cur).cnt[e]
  /\ \A k \in Keys, s \in Splits : Free(OwnerAt[nw][k]) \/ LastOf(k, s) = CutSt(OwnerAt[nw][k], cur).last[<<k, s>>]

TPublished ==
  /\ IsEvent("Published")
  /\ Len(Evt.cur) = NSplits /\ \A s \in Splits : Evt.cur[s] \in 0..NRecs
  /\ SnapIsCut(Evt.cur)
  /\ tpub' = {p \in tpub : p.n # Evt.n} \cup {[n |-> Evt.n, cur |-> Evt.cur]}
  /\ UNCHANGED <<nw, dead, st, clean, lostOps, pos>> /\ Frozen

TFinal ==
  /\ IsEvent("Final")
  /\ Len(Evt.cur) = NSplits /\ \A s \in Splits : Evt.cur[s] = NRecs
  /\ SnapIsCut(Evt.cur)
  /\ UNCHANGED <<nw, dead, st, clean, lostOps, pos, tpub>> /\ Frozen

TKill ==
  /\ IsEvent("Kill")
  /\ dead' = {x \in 0..W : x \in dead \/ x \in Range(Evt.nodes)}
  /\ UNCHANGED <<nw, st, clean, lostOps, pos, tpub>> /\ Frozen

TRestart ==
  /\ IsEvent("Restart")
  /\ LET lost == Range(Evt.lost)
         cur  == IF Evt.n = 0 THEN [s \in Splits |-> 0] ELSE (CHOOSE p \in tpub : p.n = Evt.n).cur
         n    == IF "w" \in DOMAIN Evt THEN Evt.w ELSE nw   \* worker count of the new generation (rescale at recovery)
     IN /\ Evt.n = 0 \/ \E p \in tpub : p.n = Evt.n      \* restored from a checkpoint that was published
        /\ Dev_AssignUnsorted \/ lost = {}                \* every operator restored from its checkpoint
        /\ n \in Counts /\ nw' = n
        /\ st' = [o \in Workers |-> IF o \in lost THEN EmptySt ELSE CutStAt(n, o, cur)]
        /\ pos' = [s \in Splits |-> [o \in Workers |-> cur[s]]]
        /\ lostOps' = {o \in Workers : o \in lostOps \/ o \in lost}
  /\ dead' = {}
  /\ UNCHANGED <<clean, tpub>> /\ Frozen

\* the first generation of a run has Evt.w workers (only as the first event of a run: nothing delivered, published or killed yet)
TStart ==
  /\ IsEvent("Start")
  /\ Evt.w \in Counts /\ nw' = Evt.w
  /\ dead = {} /\ tpub = {} /\ \A s \in Splits, o \in Workers : pos[s][o] = 0
  /\ UNCHANGED <<dead, st, clean, lostOps, pos, tpub>> /\ Frozen

TReset ==
  /\ IsEvent("Reset")
  /\ nw' = W
  /\ dead' = {} /\ st' = [o \in Workers |-> EmptySt] /\ clean' = TRUE /\ lostOps' = {}
  /\ pos' = [s \in Splits |-> [o \in Workers |-> 0]] /\ tpub' = {}
  /\ Frozen

TraceNext == TDeliver \/ TPublished \/ TFinal \/ TKill \/ TRestart \/ TReset \/ TStart
TraceSpec == TraceInit /\ [][TraceNext]_tvars

TraceAccepted ==
  LET d == TLCGet("stats").diameter IN
  IF d - 1 = Len(TraceLog) THEN TRUE
  ELSE Print(<<"TRACE-REJECTED-AT", d, IF d <= Len(TraceLog) THEN ToJson(TraceLog[d]) ELSE "end">>, FALSE)
=============================================================================
