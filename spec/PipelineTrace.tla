-------------------------- MODULE PipelineTrace --------------------------
(* Trace validation for C04 / C16-cut: events recorded from free-running
   executions of a real SourceRunner (harness/cmd/pipeline, Mode = "trace":
   random batch sizes, real SystemTimer delays, random read / handler /
   operator latencies, ~1 ms watermark ticker, checkpoints at random moments)

     Read(sp, from, n)   the harness reader returned n records of split sp
     Ckpt(n, pos)        SourceRunnerCheckpointComplete(n) with split positions
     Batch(o, items)     operator o was handed a HandleEventBatch call
     EOI                 the reader reported end of input
     End(stuck, maxSize) the run is quiescent
     Reset               next recorded run

   are replayed on Pipeline's GHOST variables (cursor, order, cuts, stream)
   and judged by Pipeline's own statements of the property (OnceAtOwner,
   SplitKeyOrder, MarkersOK, MarkersOrdered as invariants; completeness as the
   guard of End).  How the runner batches, when its time-outs fire and where
   the uncontrolled watermark ticks fall is followed, not prescribed: only an
   observation the property forbids - or a malformed log - rejects a trace.  *)
EXTENDS Pipeline, TLCExt

TraceLog == ndJsonDeserialize("trace.ndjson")

VARIABLE l
tvars == <<vars, l>>

impl == <<ok, lvars, kvars, bvars, rvars, ovars, hist>>

TraceInit == Init /\ l = 1

Ev == TraceLog[l]
IsEvent(e) == l <= Len(TraceLog) /\ Ev.op = e /\ l' = l + 1

TRead ==
  /\ IsEvent("Read")
  /\ Ev.sp \in Splits /\ Ev.n >= 1
  /\ cursor[Ev.sp] = Ev.from /\ Ev.from + Ev.n <= NRec
  /\ cursor' = [cursor EXCEPT ![Ev.sp] = @ + Ev.n]
  /\ order' = order \o [i \in 1..Ev.n |-> Rec(Ev.sp, Ev.from + i)]
  /\ UNCHANGED <<cuts, stream, impl>>

TCkpt ==
  /\ IsEvent("Ckpt")
  /\ Len(Ev.pos) = NSplits
  /\ cuts' = Append(cuts, [n |-> Ev.n, pos |-> [s \in Splits |-> Ev.pos[s]], nread |-> Len(order)])
  /\ UNCHANGED <<cursor, order, stream, impl>>

TBatch ==
  /\ IsEvent("Batch")
  /\ Ev.o \in Ops /\ Len(Ev.items) >= 1
  /\ stream' = [stream EXCEPT ![Ev.o] = @ \o [i \in 1..Len(Ev.items) |-> [t |-> Ev.items[i].t, a |-> Ev.items[i].a, b |-> Ev.items[i].b]]]
  /\ UNCHANGED <<cursor, order, cuts, impl>>

TEoi == IsEvent("EOI") /\ UNCHANGED vars

\* quiescence: everything read was delivered, every reported checkpoint's
\* barrier reached every operator; without time-outs (stuck) the tail of an
\* operator's records may still wait in the batchers (< maxSize in the
\* key-by batcher and < maxSize in the operator's).
OrderOf(o) == SelectSeq(order, LAMBDA r : Owner(r) = o)
EndOK(stuck, ms) ==
  \A o \in Ops :
    LET mine == OrderOf(o)
        del  == SetOf(RecsOf(stream[o]))
        miss == {i \in DOMAIN mine : mine[i] \notin del}
    IN /\ \A i \in miss : \A j \in DOMAIN mine : j > i => j \in miss
       /\ IF stuck THEN Cardinality(miss) <= 2 * (ms - 1)
          ELSE /\ miss = {}
               /\ \A c \in SetOf(cuts) : Bar(c.n) \in SetOf(stream[o])

TEnd == IsEvent("End") /\ EndOK(Ev.stuck, Ev.maxSize) /\ UNCHANGED vars

TReset ==
  /\ IsEvent("Reset")
  /\ cursor' = [s \in Splits |-> 0] /\ order' = <<>> /\ cuts' = <<>>
  /\ stream' = [o \in Ops |-> <<>>]
  /\ UNCHANGED impl

TraceNext == TRead \/ TCkpt \/ TBatch \/ TEoi \/ TEnd \/ TReset
TraceSpec == TraceInit /\ [][TraceNext]_tvars

TraceAccepted ==
  LET d == TLCGet("stats").diameter IN
  IF d - 1 = Len(TraceLog) THEN TRUE
  ELSE Print(<<"TRACE-REJECTED-AT", d, IF d <= Len(TraceLog) THEN ToJson(TraceLog[d]) ELSE "end">>, FALSE)
=============================================================================
