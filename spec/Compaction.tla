---------------------------- MODULE Compaction ----------------------------
(* Implementation-shaped model of dkv/sst compaction (property C18).

   State: the level layout lv[l] \in Seq(Table), l = 0 .. NLevels-1, a table
   being [id, e]: the number of its file (TableWriter's counter) and the
   key-sorted sequence of its entries [k, s, d] (key, sequence number,
   tombstone flag; a put's value is identified by its sequence number, its
   length is VLen[k]).  Sizes are the exact on-disk sizes
   (entry = 4+|k|+8+1+(put ? 4+|v| : 0), footer = 4104+4+4*ceil(n/16)+12), so
   the pick policy of sst.Compactor can be transcribed literally.

   One action per step of the real code:
     FlushAdd      rotateMemtable's flush task: NewWithChangeSet(add L0 table)
                   on the *current* list (may happen while a compaction is
                   between its pick and its swap)
     CompactPick   Compactor.Compact: trigger test, SAR test, major pick loop /
                   minor L0->L1 / minor level-by-level with the minorLevel cursor
     CompactBuild  kv.MergeEntries (keep newest per key) + TableWriter.WriteRun
     CompactSwap   db.sstables = db.sstables.NewWithChangeSet(cs)

   Ghost: truth[k] = the last write of k ([s, d]; s = 0: never written).
   C18 = ReadsMatchTruth /\ LayoutValid /\ NewerAboveOlder on every state and
   CompactionPreservesContents on every compaction step.

   Dev_MajorPicksPastPartialLevel = TRUE is the code before the fix of DESIGN 7
   #10 (`fix: major compaction stops picking once the size amplification goal
   is met`): after `break` on a partly picked level the major pick loop still
   took the oldest table(s) of every newer level (Compaction_dev.cfg: TLC finds
   the violation; the replay reproduced it on the unrepaired code).
   Dev_WriteRunEmptyTable = TRUE models WriteRun emitting a trailing table
   without entries (DESIGN 7 #24, repaired by the C17 family); FALSE is the
   repaired behaviour: no table without entries, an empty run writes nothing.
   DropTombs = TRUE is the intended optimisation (tombstones dropped when
   merging into the base level); the code never drops them.                  *)
EXTENDS Integers, Sequences, FiniteSets, TLC, Json

CONSTANTS NKeys,        \* keys are 1..NKeys
          NLevels,      \* number of levels (>= 2); base level = NLevels-1
          Settings,     \* set of indices into SettingTable (compactor settings to explore)
          SmallLen, BigKey, BigLen,  \* value length: BigLen for key BigKey, else SmallLen
          MaxFlush,     \* bound on FlushAdd
          MaxFlushKeys, \* bound on the number of keys in one flushed table
          AllowTombs,   \* flushed tables may carry tombstones
          MaxCompact,   \* bound on Compact calls
          DropTombs,
          Dev_MajorPicksPastPartialLevel,
          Dev_WriteRunEmptyTable,
          RandomFlush,  \* simulation only: one random flush successor per state, so that flushes and
                        \* compaction steps are drawn with equal weight
          Record,       \* keep the history (behaviour generation); FALSE for plain model checking
          MaxLen        \* behaviour length bound (generation only)

Keys == 1..NKeys
KLen == 1
Inf == 1000000000      \* stands for math.MaxInt (SizeAmplificationMax)
VLen == [k \in Keys |-> IF k = BigKey THEN BigLen ELSE SmallLen]

\* compactor settings [L0RunNumCompactionTrigger, MaxSizeAmplificationPercent,
\* SmallestLevelSize, TargetTableSize]; with 1-byte keys and 2-byte values a
\* table is 4138..4204 bytes, FlushSize of an entry 18 (tombstone) or 20, so
\* tgt 40/45 gives 2- and 3-entry tables, sls 5000 lets one table stay in L1
\* and pushes two down, sap between 100 and 300 makes major compactions
\* stop inside a level.
SettingTable == <<
  [l0 |-> 1, sap |-> 120, sls |-> 5000,  tgt |-> 40],      \* 1
  [l0 |-> 1, sap |-> 250, sls |-> 5000,  tgt |-> 40],      \* 2
  [l0 |-> 2, sap |-> 50,  sls |-> 1,     tgt |-> 45],      \* 3
  [l0 |-> 2, sap |-> Inf, sls |-> 5000,  tgt |-> 40],      \* 4  minor only
  [l0 |-> 2, sap |-> 150, sls |-> 9000,  tgt |-> 100000],  \* 5  one table per level
  [l0 |-> 1, sap |-> 250, sls |-> 5000,  tgt |-> 20],      \* 6  entries >= target/2 (WriteRun edge, DESIGN 7 #24)
  [l0 |-> 3, sap |-> 200, sls |-> 1,     tgt |-> 40],      \* 7
  [l0 |-> 1, sap |-> 50,  sls |-> 13000, tgt |-> 60],      \* 8
  [l0 |-> 2, sap |-> 350, sls |-> 4150,  tgt |-> 40],      \* 9
  [l0 |-> 1, sap |-> 170, sls |-> 1,     tgt |-> 40] >>    \* 10
Base == NLevels - 1
Levels == 0..Base

VARIABLES cfg, lv, seq, nextId, minorLevel, comp, truth, nflush, ncompact, hist
vars == <<cfg, lv, seq, nextId, minorLevel, comp, truth, nflush, ncompact, hist>>
view == <<cfg, lv, seq, nextId, minorLevel, comp, truth, nflush, ncompact>>

-----------------------------------------------------------------------------
\* ---- pure operators on tables and layouts (also used by CompactionTrace)

RECURSIVE SumSeq(_)
SumSeq(s) == IF s = <<>> THEN 0 ELSE Head(s) + SumSeq(Tail(s))

EntSize(e) == 4 + KLen + 8 + 1 + (IF e.d THEN 0 ELSE 4 + VLen[e.k])
FlushSz(e) == 17 + KLen + (IF e.d THEN 0 ELSE VLen[e.k])
TableSize(t) == SumSeq([i \in 1..Len(t.e) |-> EntSize(t.e[i])]) + 4104 + 4 + 4 * ((Len(t.e) + 15) \div 16) + 12
LevelSize(L, l) == SumSeq([i \in 1..Len(L[l]) |-> TableSize(L[l][i])])

KeysOf(t) == {t.e[i].k : i \in 1..Len(t.e)}
EntryOf(t, k) == t.e[CHOOSE i \in 1..Len(t.e) : t.e[i].k = k]
Age(t) == IF t.e = <<>> THEN 0 ELSE t.e[1].s          \* Table.Age() = startSeqNum

Reverse(s) == [i \in 1..Len(s) |-> s[Len(s) + 1 - i]]
RECURSIVE Flat(_, _)
Flat(L, l) == IF l > Base THEN <<>> ELSE L[l] \o Flat(L, l + 1)
\* the order real reads use: L0 newest -> oldest, then L1 .. Lmax
SearchOrder(L) == Reverse(L[0]) \o Flat(L, 1)

None == [k |-> 0, s |-> 0, d |-> TRUE]
\* what a reader sees: sequence number of the visible put, 0 = not found
Visible(e) == IF e.d THEN 0 ELSE e.s

PointRead(L, k) ==
  LET so == SearchOrder(L)
      hits == {i \in 1..Len(so) : k \in KeysOf(so[i])}
  IN IF hits = {} THEN None ELSE EntryOf(so[CHOOSE i \in hits : \A j \in hits : i <= j], k)

AllTables(L) == L[0] \o Flat(L, 1)
AllEntries(L, k) == LET ts == AllTables(L) IN {EntryOf(ts[i], k) : i \in {i \in 1..Len(ts) : k \in KeysOf(ts[i])}}
\* a scan merges every table and keeps the highest sequence number per key
ScanRead(L, k) ==
  LET es == AllEntries(L, k)
  IN IF es = {} THEN None ELSE CHOOSE e \in es : \A f \in es : f.s <= e.s

SortedTable(t) == \A i \in 1..(Len(t.e) - 1) : t.e[i].k < t.e[i + 1].k
LayoutValidOf(L) ==
  /\ \A l \in Levels : \A i \in 1..Len(L[l]) : SortedTable(L[l][i])
  /\ \A l \in 1..Base : LET ne == SelectSeq(L[l], LAMBDA t : t.e # <<>>)
                         IN \A i \in 1..(Len(ne) - 1) : ne[i].e[Len(ne[i].e)].k < ne[i + 1].e[1].k
NewerAboveOlderOf(L) ==
  LET so == SearchOrder(L)
  IN \A k \in Keys : \A i, j \in 1..Len(so) :
        (i < j /\ k \in KeysOf(so[i]) /\ k \in KeysOf(so[j])) => EntryOf(so[i], k).s >= EntryOf(so[j], k).s
VisibleMap(L) == [k \in Keys |-> Visible(ScanRead(L, k))]

-----------------------------------------------------------------------------
\* ---- the policy of sst.Compactor

\* SAR.Percentage(): int(math.Round(eligible / base * 100))
Pct(elig, base) == IF elig = 0 THEN 0 ELSE IF base = 0 THEN Inf ELSE (200 * elig + base) \div (2 * base)
Eligible(L) == SumSeq([i \in 1..Base |-> LevelSize(L, i - 1)])

SortByAge(ts) == SortSeq(ts, LAMBDA a, b : Age(a) < Age(b))

\* inner loop of majorCompaction over one level: <<picked, eligible, broke>>
RECURSIVE PickIn(_, _, _, _)
PickIn(cands, elig, base, acc) ==
  IF cands = <<>> THEN <<acc, elig, FALSE>>
  ELSE LET c == Head(cands)
           e2 == elig - TableSize(c)
           a2 == Append(acc, c)
       IN IF Pct(e2, base) < cfg.sap THEN <<a2, e2, TRUE>> ELSE PickIn(Tail(cands), e2, base, a2)
\* outer loop: levels Base-1 down to 0 (oldest to newest)
RECURSIVE PickLevels(_, _, _, _, _)
PickLevels(L, l, elig, base, acc) ==
  IF l < 0 THEN acc
  ELSE LET r == PickIn(SortByAge(L[l]), elig, base, acc)
       IN IF r[3] /\ ~Dev_MajorPicksPastPartialLevel THEN r[1]
          ELSE PickLevels(L, l - 1, r[2], base, r[1])
MajorPick(L) == PickLevels(L, Base - 1, Eligible(L), LevelSize(L, Base), <<>>) \o L[Base]

\* minor level-by-level: first level from the cursor on whose size is over
\* SmallestLevelSize * level.Num; <<level or -1, cursor afterwards>>
RECURSIVE MinorScan(_, _)
MinorScan(L, c) ==
  IF c >= Base THEN <<-1, 0>>
  ELSE IF LevelSize(L, c) > cfg.sls * c THEN <<c, c + 1>> ELSE MinorScan(L, c + 1)

\* kv.MergeEntries: by key, keeping the entry with the highest sequence number
MergeTables(ts, dropTombs) ==
  LET ks == UNION {KeysOf(ts[i]) : i \in 1..Len(ts)}
      best(k) == LET es == {EntryOf(ts[i], k) : i \in {i \in 1..Len(ts) : k \in KeysOf(ts[i])}}
                 IN CHOOSE e \in es : \A f \in es : f.s <= e.s
      keep == {k \in ks : ~(dropTombs /\ best(k).d)}
  IN [i \in 1..Cardinality(keep) |->
        best(CHOOSE k \in keep : Cardinality({x \in keep : x < k}) = i - 1)]

\* TableWriter.WriteRun(entries, targetSize)
RECURSIVE WR(_, _, _, _, _)
WR(rest, buf, cut, acc, T) ==
  LET sz == SumSeq([i \in 1..Len(buf) |-> FlushSz(buf[i])])
      M == (3 * T) \div 2
      last == IF buf = <<>> /\ ~Dev_WriteRunEmptyTable /\ acc # <<>> THEN acc ELSE Append(acc, buf)
  IN IF cut = 0
     THEN IF sz < T
          THEN IF rest = <<>> THEN last ELSE WR(Tail(rest), Append(buf, Head(rest)), 0, acc, T)
          ELSE WR(rest, buf, Len(buf), acc, T)
     ELSE IF sz < M
          THEN IF rest = <<>> THEN last ELSE WR(Tail(rest), Append(buf, Head(rest)), cut, acc, T)
          ELSE WR(rest, SubSeq(buf, cut + 1, Len(buf)), 0, Append(acc, SubSeq(buf, 1, cut)), T)
WriteRun(es) == IF es = <<>> THEN (IF Dev_WriteRunEmptyTable THEN << <<>> >> ELSE <<>>) ELSE WR(es, <<>>, 0, <<>>, cfg.tgt)
\* ... each run written to the next file
Numbered(runs, first) == [i \in 1..Len(runs) |-> [id |-> first + i - 1, e |-> runs[i]]]

ToSet(s) == {s[i] : i \in 1..Len(s)}
\* LevelList.NewWithChangeSet: additions appended to their level, then removals
ApplyCS(L, target, outs, picked) ==
  [l \in Levels |-> SelectSeq(IF l = target THEN L[l] \o outs ELSE L[l], LAMBDA t : t.id \notin picked)]

-----------------------------------------------------------------------------
NoComp == [on |-> FALSE, built |-> FALSE, kind |-> "none", picked |-> <<>>, target |-> 0, outs |-> <<>>]
NoTruth == [k \in Keys |-> [s |-> 0, d |-> TRUE]]
AsTuple(L) == [i \in 1..NLevels |-> L[i - 1]]

Init ==
  /\ cfg \in {SettingTable[i] : i \in Settings}
  /\ lv = [l \in Levels |-> <<>>] /\ seq = 0 /\ nextId = 0 /\ minorLevel = 0 /\ comp = NoComp
  /\ truth = NoTruth /\ nflush = 0 /\ ncompact = 0
  /\ hist = IF Record THEN << [a |-> "Config", cfg |-> cfg, nlevels |-> NLevels, vlen |-> VLen] >> ELSE <<>>

Log(r) == hist' = IF Record THEN Append(hist, r) ELSE hist

\* a memtable holding keys K (D of them deleted) becomes the newest L0 table
FlushAdd(K, D) ==
  /\ nflush < MaxFlush
  /\ ~(comp.on /\ ~comp.built)   \* pick + build are one call (Compact); a flush lands before or after it
  /\ LET n == Cardinality(K)
         t == [id |-> nextId,
               e |-> [i \in 1..n |->
                 LET k == CHOOSE x \in K : Cardinality({y \in K : y < x}) = i - 1
                 IN [k |-> k, s |-> seq + i, d |-> k \in D]]]
     IN /\ lv' = [lv EXCEPT ![0] = Append(@, t)]
        /\ seq' = seq + n /\ nextId' = nextId + 1
        /\ truth' = [k \in Keys |-> IF k \in K THEN [s |-> EntryOf(t, k).s, d |-> k \in D] ELSE truth[k]]
        /\ nflush' = nflush + 1
        /\ Log([a |-> "FlushAdd", id |-> t.id, ents |-> t.e, lv |-> AsTuple(lv'), truth |-> truth'])
  /\ UNCHANGED <<cfg, minorLevel, comp, ncompact>>

\* Compact would return nil without touching anything
Quiet == minorLevel = 0 /\ Len(lv[0]) < cfg.l0

CompactPick ==
  /\ ~comp.on /\ ncompact < MaxCompact /\ ~Quiet
  /\ ncompact' = ncompact + 1
  /\ LET start(kind, picked, target, ml) ==
           /\ comp' = [on |-> TRUE, built |-> FALSE, kind |-> kind, picked |-> picked, target |-> target, outs |-> <<>>]
           /\ minorLevel' = ml
           /\ Log([a |-> "CompactPick", kind |-> kind, picked |-> [i \in 1..Len(picked) |-> picked[i].id],
                   target |-> target, lv |-> AsTuple(lv), truth |-> truth])
     IN IF Pct(Eligible(lv), LevelSize(lv, Base)) > cfg.sap
        THEN start("major", MajorPick(lv), Base, minorLevel)
        ELSE IF minorLevel = 0
        THEN start("minor", lv[0] \o lv[1], 1, 1)
        ELSE LET r == MinorScan(lv, minorLevel)
             IN IF r[1] < 0
                THEN /\ minorLevel' = 0 /\ comp' = comp
                     /\ Log([a |-> "CompactPick", kind |-> "none", picked |-> <<>>, target |-> 0, lv |-> AsTuple(lv), truth |-> truth])
                ELSE start("minor", lv[r[1]] \o lv[r[1] + 1], r[1] + 1, r[2])
  /\ UNCHANGED <<cfg, lv, seq, nextId, truth, nflush>>

CompactBuild ==
  /\ comp.on /\ ~comp.built
  /\ LET outs == Numbered(WriteRun(MergeTables(comp.picked, DropTombs /\ comp.target = Base)), nextId)
     IN /\ comp' = [comp EXCEPT !.built = TRUE, !.outs = outs]
        /\ nextId' = nextId + Len(outs)
        /\ Log([a |-> "CompactBuild", outs |-> outs, lv |-> AsTuple(lv), truth |-> truth])
  /\ UNCHANGED <<cfg, lv, seq, minorLevel, truth, nflush, ncompact>>

CompactSwap ==
  /\ comp.on /\ comp.built
  /\ lv' = ApplyCS(lv, comp.target, comp.outs, {comp.picked[i].id : i \in 1..Len(comp.picked)})
  /\ comp' = NoComp
  /\ Log([a |-> "CompactSwap", lv |-> AsTuple(lv'), truth |-> truth])
  /\ UNCHANGED <<cfg, seq, nextId, minorLevel, truth, nflush, ncompact>>

FlushKeySets == {K \in (SUBSET Keys) \ {{}} : Cardinality(K) <= MaxFlushKeys}

Done == nflush = MaxFlush /\ ~comp.on /\ (Quiet \/ ncompact = MaxCompact)

Next ==
  /\ Len(hist) < MaxLen /\ ~Done
  /\ \/ IF RandomFlush
        THEN LET K == RandomElement(FlushKeySets) IN FlushAdd(K, RandomElement(IF AllowTombs THEN SUBSET K ELSE {{}}))
        ELSE \E K \in FlushKeySets : \E D \in (IF AllowTombs THEN SUBSET K ELSE {{}}) : FlushAdd(K, D)
     \/ CompactPick \/ CompactBuild \/ CompactSwap

Spec == Init /\ [][Next]_vars

-----------------------------------------------------------------------------
\* ---- C18

ReadsMatchTruth ==
  \A k \in Keys : /\ Visible(PointRead(lv, k)) = Visible(truth[k])
                  /\ Visible(ScanRead(lv, k)) = Visible(truth[k])
\* stronger: nothing newer than the truth, and the truth itself is still there
\* unless it is a tombstone that may have been dropped
TruthRetained ==
  \A k \in Keys : LET e == ScanRead(lv, k)
                  IN e.s = truth[k].s \/ (e.s = 0 /\ truth[k].d)
LayoutValid == LayoutValidOf(lv)
NewerAboveOlder == NewerAboveOlderOf(lv)
CompactionPreservesContents ==
  [][(lv' # lv /\ nflush' = nflush) => VisibleMap(lv') = VisibleMap(lv)]_vars

\* the level list is a value: only a flush and a change-set swap replace it.  Picking and building leave it as it is
\* (readers keep using it), and a list that a swap replaced stays what it was for the readers that captured it.  The
\* code is held to both by the "Build" and "Old" lines of CompactionTrace.tla.
OnlyFlushAndSwapChangeLayout ==
  [][lv' # lv => (nflush' = nflush + 1 \/ (comp.on /\ comp.built /\ ~comp'.on))]_vars

TypeOK == /\ minorLevel \in 0..Base /\ seq \in Nat /\ comp.on \in BOOLEAN
          /\ \A l \in Levels : \A i \in 1..Len(lv[l]) : \A j \in 1..Len(lv[l][i].e) : lv[l][i].e[j].k \in Keys

\* reachability probes (negated as invariants while developing): a populated
\* middle level next to a populated base, and a multi-table level >= 1
MiddlePopulated == \E l \in 1..(Base - 1) : lv[l] # <<>> /\ lv[Base] # <<>>
MultiTable == \E l \in 1..Base : Len(lv[l]) >= 2
PartialMajor == comp.on /\ comp.kind = "major" /\ \E l \in 1..(Base - 1) :
                  \E t \in ToSet(lv[l]) : t \notin ToSet(comp.picked)
NoMiddlePopulated == ~MiddlePopulated
NoMultiTable == ~MultiTable
NoPartialMajor == ~PartialMajor

-----------------------------------------------------------------------------
Dump == (Done \/ Len(hist) >= MaxLen) => PrintT(<<"BEHAVIOUR", ToJson(hist)>>)
=============================================================================
