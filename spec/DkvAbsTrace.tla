---------------------------- MODULE DkvAbsTrace ----------------------------
(* Trace validation of API-level executions of the real dkv.DB (free-running
   background flush/compaction, random configurations) against DkvAbs.
   One ndjson line per API call with its result; runs separated by "Reset". *)
EXTENDS DkvAbs, Json, TLCExt

TraceLog == ndJsonDeserialize("trace.ndjson")
VARIABLE l
tvars == <<vars, l>>
TraceInit == Init /\ l = 1
Ev == TraceLog[l]
IsEvent(e) == l <= Len(TraceLog) /\ Ev.op = e /\ l' = l + 1

\* JSON objects keyed by "1", "2", .. -> function over key ids
AsMap(o) == [k \in {x \in Keys : ToString(x) \in DOMAIN o} |-> o[ToString(k)]]
SetOf(s) == {s[i] : i \in 1..Len(s)}

TPut == IsEvent("Put") /\ Put(Ev.k, Ev.v) /\ UNCHANGED nops
TDelete == IsEvent("Delete") /\ Delete(Ev.k) /\ UNCHANGED nops
TGet == IsEvent("Get") /\ Ev.res = GetResult(Ev.k) /\ UNCHANGED vars
TScan == IsEvent("Scan") /\ Ev.ok /\ AsMap(Ev.res) = ScanResult(SetOf(Ev.p)) /\ UNCHANGED vars
TCheckpoint == IsEvent("Checkpoint") /\ Checkpoint(Ev.id) /\ UNCHANGED nops
TRestore == IsEvent("Restore") /\ Ev.ok /\ AsMap(Ev.res) = [k \in {x \in Keys : snap[Ev.id][x] # Absent} |-> snap[Ev.id][k]] /\ UNCHANGED vars
TReopen == IsEvent("Reopen") /\ Reopen(Ev.id) /\ UNCHANGED nops
TReset == IsEvent("Reset") /\ m' = [k \in Keys |-> Absent] /\ snap' = [i \in {} |-> m] /\ nops' = 0

TraceNext == TPut \/ TDelete \/ TGet \/ TScan \/ TCheckpoint \/ TRestore \/ TReopen \/ TReset
TraceSpec == TraceInit /\ [][TraceNext]_tvars

TraceAccepted ==
  LET d == TLCGet("stats").diameter IN
  IF d - 1 = Len(TraceLog) THEN TRUE
  ELSE Print(<<"TRACE-REJECTED-AT", d, IF d <= Len(TraceLog) THEN ToJson(TraceLog[d]) ELSE "end">>, FALSE)
=============================================================================
