------------------------- MODULE BatcherTrace -------------------------
(* Trace validation: events recorded at the API of the real EventBatcher
   (one ndjson line per call, with its result) must be explained by Batcher's
   actions.  Several recorded runs are concatenated, separated by "Reset".   *)
EXTENDS Batcher, Json, TLCExt

TraceLog == ndJsonDeserialize("trace.ndjson")

VARIABLE l
tvars == <<vars, l>>

TraceInit == Init /\ l = 1

Ev == TraceLog[l]
IsEvent(e) == l <= Len(TraceLog) /\ Ev.op = e /\ l' = l + 1

TAdd == IsEvent("Add") /\ Add(Ev.item) /\ UNCHANGED nops
TIsFull == IsEvent("IsFull") /\ Ev.res = IsFullResult /\ UNCHANGED vars
TFlush == IsEvent("Flush") /\ Ev.res = FlushResult(Ev.tok) /\ Flush(Ev.tok) /\ UNCHANGED nops
\* An expiry may deliver the current batch's token (then the timer must have been
\* armed for it) or a stale one (C20 only demands that a stale token flushes nothing).
TFire == /\ IsEvent("Fire") /\ Ev.tok \in 0..token
         /\ Ev.tok = token => armed = token
         /\ armed' = IF Ev.tok = armed THEN None ELSE armed
         /\ UNCHANGED <<added, batch, token, handed, nops>>
TNoFire == IsEvent("NoFire") /\ armed = None /\ UNCHANGED vars
TReset == /\ IsEvent("Reset")
          /\ added' = <<>> /\ batch' = <<>> /\ token' = 0 /\ armed' = None /\ handed' = <<>> /\ nops' = 0

TraceNext == TAdd \/ TIsFull \/ TFlush \/ TFire \/ TNoFire \/ TReset
TraceSpec == TraceInit /\ [][TraceNext]_tvars

TraceAccepted ==
  LET d == TLCGet("stats").diameter IN
  IF d - 1 = Len(TraceLog) THEN TRUE
  ELSE Print(<<"TRACE-REJECTED-AT", d, IF d <= Len(TraceLog) THEN ToJson(TraceLog[d]) ELSE "end">>, FALSE)
=============================================================================
