------------------------- MODULE BatcherTrace -------------------------
(* Trace validation: events recorded at the API of the real EventBatcher
   (one ndjson line per call, with its result) must be explained by Batcher's
   actions.  Several recorded runs are concatenated, separated by "Reset".   *)
EXTENDS Batcher, Json, TLCExt

TraceLog == ndJsonDeserialize("trace.ndjson")

VARIABLE l
tvars == <<vars, l>>

TraceInit == Init /\ l = 1

Ev == TraceLog[l]
IsEvent(e) == l <= Len(TraceLog) /\ Ev.op = e /\ l' = l + 1

TAdd == IsEvent("Add") /\ Add(Ev.item) /\ UNCHANGED nops
TIsFull == IsEvent("IsFull") /\ Ev.res = IsFullResult /\ UNCHANGED vars
TFlush == IsEvent("Flush") /\ Ev.res = FlushResult(Ev.tok) /\ Flush(Ev.tok) /\ UNCHANGED nops
\* The timer goes off (the harness takes the callback the batcher set). If the
\* code did not stop the timer of a flushed batch this may be a stale timer:
\* C20 allows that (a stale token flushes nothing).
TExpire == /\ IsEvent("Expire")
           /\ inflight' = Append(inflight, lastSet) /\ armed' = None
           /\ UNCHANGED <<added, batch, token, lastSet, handed, nops>>
\* no callback is set: then no batch may be waiting for its time-out
TNoExpire == IsEvent("NoExpire") /\ armed = None /\ UNCHANGED vars
\* the dispatched callback runs (possibly much later) and must deliver the token
\* of the batch its timer was set for
TFire == /\ IsEvent("Fire") /\ inflight # <<>> /\ Ev.tok = Head(inflight)
         /\ inflight' = Tail(inflight)
         /\ UNCHANGED <<added, batch, token, armed, lastSet, handed, nops>>
TReset == /\ IsEvent("Reset")
          /\ added' = <<>> /\ batch' = <<>> /\ token' = 0 /\ armed' = None /\ lastSet' = None /\ inflight' = <<>> /\ handed' = <<>> /\ nops' = 0

TraceNext == TAdd \/ TIsFull \/ TFlush \/ TExpire \/ TNoExpire \/ TFire \/ TReset
TraceSpec == TraceInit /\ [][TraceNext]_tvars

TraceAccepted ==
  LET d == TLCGet("stats").diameter IN
  IF d - 1 = Len(TraceLog) THEN TRUE
  ELSE Print(<<"TRACE-REJECTED-AT", d, IF d <= Len(TraceLog) THEN ToJson(TraceLog[d]) ELSE "end">>, FALSE)
=============================================================================
