---------------------------- MODULE OrderedMap ----------------------------
(* util/ds.SortedMap[K cmp.Ordered, V]: a map iterated in key order (sorted
   lazily).  Reference: a function Keys -> values; Keys()/Values()/All() are
   its graph in ascending key order.

   After every step the graph (`content`, ascending) and the keys not held
   (`absent`) are logged; the replayer compares Size() and Get/Has of every
   key of the universe, and - only when TLC set `look` for the step, because
   the ordered views sort the key list lazily and thereby change the state a
   later Delete finds - Keys(), Values() and All() (also with an early break). *)
EXTENDS OrderedRef, Json

CONSTANTS KeyIdx, NV, MaxLen

VARIABLES m, hist
vars == <<m, hist>>
view == m

Keys == {U[i] : i \in KeyIdx}
Content(f) == LET ks == SortedKeys(DOMAIN f) IN [i \in DOMAIN ks |-> [k |-> ks[i], v |-> f[ks[i]]]]
Log(r, f) == hist' = Append(hist, r @@ [content |-> Content(f), absent |-> SortedKeys(Keys \ DOMAIN f)])

Init == m = [k \in {} |-> 0] /\ hist = <<>>

Set(k, v, look) == LET f == [x \in DOMAIN m \cup {k} |-> IF x = k THEN v ELSE m[x]]
                   IN m' = f /\ Log([a |-> "Set", k |-> k, v |-> v, new |-> k \notin DOMAIN m, look |-> look], f)

Delete(k, look) == LET f == [x \in DOMAIN m \ {k} |-> m[x]]
                   IN m' = f /\ Log([a |-> "Delete", k |-> k, removed |-> k \in DOMAIN m, look |-> look], f)

Next == /\ Len(hist) < MaxLen
        /\ \E k \in Keys, look \in BOOLEAN : Delete(k, look) \/ \E v \in 1..NV : Set(k, v, look)

Spec == Init /\ [][Next]_vars

ContentOK == LET c == Content(m)
             IN /\ Len(c) = Cardinality(DOMAIN m)
                /\ \A i \in 1..(Len(c) - 1) : LexLess(c[i].k, c[i + 1].k)
                /\ \A i \in DOMAIN c : m[c[i].k] = c[i].v

Dump == Len(hist) >= MaxLen => PrintT(<<"BEHAVIOUR", ToJson(hist)>>)
=============================================================================
